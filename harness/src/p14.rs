//! C14 — schema validation agrees with the specification.
//! Oracle: `Schema::parse_and_validate(src)` is Ok  iff  the independent validator (specschema.rs,
//! written from the October-2021 text) finds no violated rule, under apollo-compiler's documented
//! differences (`Params::apollo()`).  Correspondence streams `c14.*` tie the Lean models of the
//! algorithmic rules (input-object cycle search, transitive interfaces, root operations, directive
//! self-reference search) to the real code through public validation of generated schemas.
use crate::schemagen::*;
use crate::specschema::{self, Params, SpecSchema};
use crate::util::*;
use apollo_compiler::validation::Valid;
use apollo_compiler::{ast, Schema};

pub struct Verdict {
    pub spec: SpecSchema,
    pub apollo: Result<Valid<Schema>, Vec<String>>,
}

/// apollo's first diagnostic, mapped to this harness' rule names (used only to *name* a finding class)
fn classify_apollo(msgs: &[String]) -> String {
    const TABLE: &[(&str, &str)] = &[
        ("too deeply nested", "nesting-limit"),
        ("must not start with", "reserved-name"), ("reserved", "reserved-name"),
        ("is defined multiple times", "unique-names"), ("redefine", "unique-names"), ("duplicate", "unique-names"), ("more than once", "unique-names"),
        ("multiple", "unique-names"),
        ("must have a `query` root", "query-root-required"), ("root operation", "root-types"),
        ("recursive", "cycle"), ("cannot reference itself", "cycle"), ("references itself", "cycle"),
        ("transitive", "transitive-interfaces-declared"),
        ("does not satisfy interface", "impl"), ("interface field", "impl"), ("implement", "impl"), ("missing", "impl"),
        ("cannot find type", "undefined-type"), ("undefined", "undefined"), ("not defined", "undefined"), ("cannot find directive", "directive-known"),
        ("is not supported for", "directive-location"), ("not an output type", "field-type-output"), ("not an input type", "argument-type-input"),
        ("output type", "field-type-output"), ("input type", "argument-type-input"),
        ("must be an object", "object-kind"), ("union member", "union-member-object"),
        ("required argument", "directive-argument-required"), ("is required", "directive-argument-required"),
        ("expected value of type", "directive-argument-type"), ("cannot be coerced", "directive-argument-type"), ("int cannot represent", "directive-argument-type"),
        ("non-repeatable", "directive-unique"), ("can only be used once", "directive-unique"),
        ("extension", "extension"), ("extends", "extension"),
        ("must have at least one", "non-empty"), ("no fields", "non-empty"), ("empty", "non-empty"),
    ];
    let Some(m) = msgs.first() else { return "no-diagnostic".into() };
    let l = m.to_lowercase();
    for (pat, rule) in TABLE { if l.contains(pat) { return rule.to_string(); } }
    "other".into()
}

pub fn run_apollo(src: &str) -> Result<Result<Valid<Schema>, Vec<String>>, String> {
    catch(|| match Schema::parse_and_validate(src, "s.graphql") {
        Ok(s) => Ok(s),
        Err(e) => Err(e.errors.iter().map(|d| d.error.to_string()).collect()),
    })
}

/// Judge one schema text; returns None when the text is not syntactically a type-system document.
pub fn judge(ctx: &mut Ctx, src: &str, label: &str) -> Option<Verdict> {
    let Ok(doc) = ast::Document::parse(src, "s.graphql") else { ctx.stat("skipped_syntax_error"); if std::env::var("VH_DEBUG").is_ok() && label != "seed" { eprintln!("SYNTAX {label}\n{}\n", src); } return None };
    if doc.definitions.iter().any(|d| matches!(d, ast::Definition::OperationDefinition(_) | ast::Definition::FragmentDefinition(_))) {
        ctx.stat("skipped_executable_definition");
        return None;
    }
    let spec = specschema::validate(&doc, &Params::apollo());
    let apollo = match run_apollo(src) {
        Err(p) => { ctx.fail("schema-validation-panic", src, &p); return None; }
        Ok(r) => r,
    };
    ctx.stat("judged");
    ctx.stat(&format!("label:{label}"));
    let rules: Vec<String> = spec.violations.iter().cloned().collect();
    if rules.is_empty() { ctx.stat("spec_valid"); } else { ctx.stat("spec_invalid"); }
    for r in &rules { ctx.stat(&format!("violated:{r}")); }
    if rules.len() == 1 { ctx.stat(&format!("violated_alone:{}", rules[0])); ctx.nontrivial(&format!("{}|{}", rules[0], src)); }
    match (&apollo, rules.is_empty()) {
        (Ok(_), true) | (Err(_), false) => {}
        (Ok(_), false) => {
            ctx.fail(&format!("apollo-accepts:{}", rules.join("+")), src, &format!("parse_and_validate is Ok but the specification rejects the schema: violated {rules:?} (generator: {label})"));
        }
        (Err(msgs), true) => {
            ctx.fail(&format!("apollo-rejects:{}", classify_apollo(msgs)), src, &format!("the specification accepts the schema but parse_and_validate fails: {:?} (generator: {label})", msgs.iter().take(3).collect::<Vec<_>>()));
        }
    }
    Some(Verdict { spec, apollo })
}

/// type-system definitions of a repo test file, re-printed (executable definitions dropped)
fn seed_text(path: &std::path::Path) -> Option<String> {
    let s = std::fs::read_to_string(path).ok()?;
    if s.len() > 20_000 { return None; }
    let doc = match ast::Document::parse(s, "seed.graphql") { Ok(d) => d, Err(_) => return None };
    let mut out = String::new();
    let mut any = false;
    for d in &doc.definitions {
        if matches!(d, ast::Definition::OperationDefinition(_) | ast::Definition::FragmentDefinition(_)) { continue; }
        any = true;
        out.push_str(&d.to_string());
        out.push('\n');
    }
    if any { Some(out) } else { None }
}

const REGRESSION: &[&str] = &[
    "type Query { a: Int }",
    "type Q { a: Int }",
    "schema { query: Q } type Q { a: Int }",
    "schema { query: Q mutation: Q } type Q { a: Int }",
    "schema { query: I } interface I { a: Int }",
    "extend schema @d type Query { a: Int } directive @d on SCHEMA",
    "extend schema { query: Q } type Q { a: Int }",
    "type Query { a: Int } extend type Query { a: String }",
    "type Query { a: Int } input A { b: B! } input B { a: A! }",
    "type Query { a: Int } input A { b: [A!]! c: A }",
    "type Query { a: Int } input A { a: A! }",
    "type Query { f(arg: A): Int } input A { b: B! = { x: 1 } x: Int } input B { a: A! x: Int }",
    "type Query { f(arg: Self): Int } input Self { again: Self! = { n: 1 } n: Int }",
    "type Query { f(arg: A): Int } input A { b: B = { x: 1 } x: Int } input B { a: A! x: Int }",
    "type Query { f(arg: A): Int } input A { b: [B!]! = [] x: Int } input B { a: A! = { x: 2 } x: Int }",
    "type Query { a(x: Int = \"no\"): Int }",
    "type Query { a: Int } directive @d(a: Int @d) on ARGUMENT_DEFINITION",
    "type Query { a: Int } directive @d(a: E) on ENUM_VALUE enum E { V @d }",
    "type Query { a: Int } directive @skip(if: Boolean!) on FIELD",
    "type Query { a: Int } directive @skip(if: Boolean!) on FIELD directive @skip(if: Boolean!) on FIELD",
    "type Query { a: Int } scalar Int",
    "type Query { a: Int } type __Type { a: Int }",
    "type Query { a: Int } extend scalar Int @nope",
    "type Query { a: Int } extend scalar String @specifiedBy(url: \"u\")",
    "type Query { a: Int } extend scalar Int @specifiedBy(url: \"u\")",
    "interface A implements B { x: Int } interface B implements A { x: Int } type Query { a: Int }",
    "interface A { x: Int } interface B implements A { x: Int } type Query implements B { x: Int }",
    "interface A { x(a: Int): Int } type Query implements A { x(a: Int, b: Int!): Int }",
    "interface A { x: [A] } type Query implements A { x: [Query!]! }",
    "union U = Query | Query type Query { a: U }",
    "union U type Query { a: Int }",
    "enum E type Query { a: Int }",
    "type Query { __a: Int }",
    "type Query { a(__b: Int): Int }",
    "enum E { __V } type Query { a: E }",
    "extend interface Query { b: Int } type Query { a: Int }",
    "type Query { a: Int } extend interface Query { b: Int }",
    "extend type Nope { b: Int } type Query { a: Int }",
    "type Query { a: Int @deprecated(reason: 1) }",
    "type Query { a: Int @deprecated(reason: null) }",
    "directive @d(i: In) on OBJECT input In { a: Int! b: Int! = 1 } type Query @d(i: {a: 1, a: 2}) { a: Int }",
    "directive @d(i: In) on OBJECT input In { a: Int! b: Int! = 1 } type Query @d(i: {}) { a: Int }",
    "directive @d(i: [Int!]) on OBJECT type Query @d(i: [1, null]) { a: Int }",
    "directive @d(i: Float) on OBJECT type Query @d(i: 1) { a: Int }",
];

pub fn random_valid(ctx: &mut Ctx) -> Vec<GDef> {
    let mut g = Gen::new(&mut ctx.rng);
    g.valid()
}

pub fn run(ctx: &mut Ctx) {
    for s in REGRESSION { judge(ctx, s, "regression"); }
    streams(ctx);
    streams2(ctx);
    streams3(ctx);
    // repo test data as read-only seeds
    let repo = std::env::var("VERIF_REPO").unwrap_or_else(|_| "/repo".into());
    for dir in ["diagnostics", "ok"] {
        let Ok(rd) = std::fs::read_dir(format!("{repo}/crates/apollo-compiler/test_data/{dir}")) else { continue };
        let mut files: Vec<_> = rd.filter_map(|e| e.ok()).map(|e| e.path()).filter(|p| p.extension().is_some_and(|x| x == "graphql")).collect();
        files.sort();
        for f in files {
            if let Some(t) = seed_text(&f) { ctx.stat("repo_seed_files"); judge(ctx, &t, "seed"); }
        }
    }
    // generated: valid base, every mutation on it, and a few random double mutations
    let n = if ctx.thorough { 4000 } else { 260 };
    for round in 0..n {
        let base = random_valid(ctx);
        let text = print_doc(&base);
        if let Some(v) = judge(ctx, &text, "valid") {
            if !v.spec.violations.is_empty() { ctx.stat("generator_base_invalid"); if std::env::var("VH_DEBUG").is_ok() { eprintln!("BASE-INVALID {:?}\n{}\n", v.spec.violations, text); } }
        }
        for m in 0..N_MUTATIONS {
            // quick tier: a rotating third of the mutation operators per base schema
            if !ctx.thorough && (m + round) % 3 != 0 { continue; }
            let mut d = base.clone();
            let label = mutate(&mut d, &mut ctx.rng, m);
            if label == "noop" { ctx.stat("mutation_noop"); continue; }
            let t = print_doc(&d);
            judge(ctx, &t, label);
            if ctx.rng.chance(1, 6) {
                let m2 = ctx.rng.below(N_MUTATIONS);
                let l2 = mutate(&mut d, &mut ctx.rng, m2);
                if l2 != "noop" { let t = print_doc(&d); judge(ctx, &t, "double"); }
            }
        }
    }
}

// ---------------------------------------------------------------------------------------------
// correspondence streams

/// 0-based indices (line - 2) of the definitions that carry a diagnostic; Err on a diagnostic elsewhere
fn failing_lines(src: &str, n: usize) -> Result<Result<Vec<usize>, String>, String> {
    catch(|| match Schema::parse_and_validate(src, "s.graphql") {
        Ok(_) => Ok(vec![]),
        Err(e) => {
            let mut out = vec![];
            for d in e.errors.iter() {
                let Some(r) = d.line_column_range() else { return Err(format!("unexpected:no-location:{}", d.error)) };
                let l = r.start.line;
                if l < 2 || l >= n + 2 { return Err(format!("unexpected:line{l}:{}", d.error)); }
                out.push(l - 2);
            }
            Ok(out)
        }
    })
}

fn verdict_of(mut v: Vec<usize>) -> String {
    v.sort(); v.dedup();
    if v.is_empty() { "ok".into() } else { format!("err:{}", v.iter().map(|x| x.to_string()).collect::<Vec<_>>().join(",")) }
}

const LIMIT: usize = 32;

#[derive(Clone, Copy, Debug)]
enum IF { N(usize), Nl(usize), L(usize), Ll(usize), S }

/// `dflt[i][k]`: field k of node i also carries a default value (which must not matter)
fn input_case(ctx: &mut Ctx, g: &[Vec<IF>]) { let d: Vec<Vec<bool>> = g.iter().map(|fs| vec![false; fs.len()]).collect(); input_case_d(ctx, g, &d) }

fn input_case_d(ctx: &mut Ctx, g: &[Vec<IF>], dflt: &[Vec<bool>]) {
    let n = g.len();
    let tn = |j: usize| if j < n { format!("In{j}") } else { "En".to_string() };
    let mut text = String::from("type Query { a: Int }\n");
    let mut encs = vec![];
    for (i, fs) in g.iter().enumerate() {
        let mut parts = vec![];
        let mut e = vec![];
        for (k, f) in fs.iter().enumerate() {
            let (t, c) = match f { IF::N(j) => (format!("{}!", tn(*j)), format!("N{j}")), IF::Nl(j) => (tn(*j), format!("n{j}")), IF::L(j) => (format!("[{}!]!", tn(*j)), format!("L{j}")), IF::Ll(j) => (format!("[{}]", tn(*j)), format!("l{j}")), IF::S => ("Int!".to_string(), "S".to_string()) };
            let has_d = dflt[i][k];
            let lit = match f { IF::N(j) | IF::Nl(j) => if *j < n { if k % 2 == 0 { "{}" } else { "{pad: 1}" } } else { "V" }, IF::L(_) | IF::Ll(_) => "[]", IF::S => "1" };
            parts.push(if has_d { format!("f{k}: {t} = {lit}") } else { format!("f{k}: {t}") });
            e.push(if has_d { format!("{c}d") } else { c });
        }
        text.push_str(&format!("input In{i} {{ {} pad: Int }}\n", parts.join(" ")));
        encs.push(e.join(","));
    }
    text.push_str("enum En { V }\n");
    let out = match failing_lines(&text, n) {
        Err(p) => { ctx.fail("schema-validation-panic", &text, &p); "PANIC".to_string() }
        Ok(Err(u)) => u,
        Ok(Ok(v)) => verdict_of(v),
    };
    if out != "ok" { ctx.nontrivial(&format!("ic|{}", encs.join("|"))); }
    ctx.stat(if out == "ok" { "inputcycle_ok" } else { "inputcycle_err" });
    ctx.case("c14.inputcycle", &[format!("={LIMIT}"), enc(&encs.join("|"))], &out);
    judge(ctx, &text, "stream-inputcycle");
}

fn implements_case(ctx: &mut Ctx, types: &[(bool, Vec<usize>)]) {
    let n = types.len();
    let mut text = String::from("type Query { a: Int }\n");
    let mut encs = vec![];
    for (i, (is_if, imps)) in types.iter().enumerate() {
        let names: Vec<String> = imps.iter().map(|j| if *j < n { format!("T{j}") } else { format!("Undef{j}") }).collect();
        let imp = if names.is_empty() { String::new() } else { format!(" implements {}", names.join(" & ")) };
        text.push_str(&format!("{} T{i}{imp} {{ x: Int }}\n", if *is_if { "interface" } else { "type" }));
        encs.push(format!("{}:{}", if *is_if { "I" } else { "O" }, imps.iter().map(|x| x.to_string()).collect::<Vec<_>>().join(",")));
    }
    let out = match failing_lines(&text, n) {
        Err(p) => { ctx.fail("schema-validation-panic", &text, &p); "PANIC".to_string() }
        Ok(Err(u)) => u,
        Ok(Ok(v)) => { let mut c = vec![0usize; n]; for l in v { c[l] += 1; } c.iter().map(|x| x.to_string()).collect::<Vec<_>>().join(",") }
    };
    if out.chars().any(|c| c != '0' && c != ',') { ctx.nontrivial(&format!("im|{}", encs.join("|"))); }
    ctx.case("c14.implements", &[enc(&encs.join("|"))], &out);
    judge(ctx, &text, "stream-implements");
}

fn roots_case(ctx: &mut Ctx, slots: [Option<usize>; 3]) {
    // pool: 0,1 objects; 2 interface; 3 scalar; 4 undefined; 5 input object; 6 union; 7 enum
    const POOL: [&str; 8] = ["A", "B", "I", "S", "Undef", "In", "U", "E"];
    let mut text = String::from("type A { x: Int }\ntype B { x: Int }\ninterface I { x: Int }\nscalar S\ninput In { x: Int }\nunion U = A | B\nenum E { V }\n");
    let ops = ["query", "mutation", "subscription"];
    let parts: Vec<String> = slots.iter().enumerate().filter_map(|(i, s)| s.map(|j| format!("{}: {}", ops[i], POOL[j]))).collect();
    if !parts.is_empty() { text.push_str(&format!("schema {{ {} }}\n", parts.join(" "))); }
    let encs: Vec<String> = slots.iter().map(|s| match s { None => "=-".to_string(), Some(j) => format!("={}{j}", match j { 0 | 1 => 'o', 4 => 'u', _ => 'k' }) }).collect();
    let out = match run_apollo(&text) {
        Err(p) => { ctx.fail("schema-validation-panic", &text, &p); "PANIC".to_string() }
        Ok(Ok(_)) => "ok".to_string(),
        Ok(Err(m)) => format!("err:{}", m.len()),
    };
    if out != "ok" { ctx.nontrivial(&format!("ro|{}", encs.join("|"))); }
    ctx.case("c14.roots", &encs, &out);
    judge(ctx, &text, "stream-roots");
}

#[derive(Clone, Debug, Default)]
struct DA { dirs: Vec<usize>, ty: Option<usize> }
#[derive(Clone, Debug, Default)]
struct DT { kind: u8, dirs: Vec<usize>, values: Vec<Vec<usize>>, fields: Vec<DA> }

fn dir_case(ctx: &mut Ctx, dirs: &[Vec<DA>], types: &[DT]) {
    let nd = dirs.len();
    let app = |v: &[usize]| v.iter().map(|d| format!(" @d{d}")).collect::<String>();
    let nums = |v: &[usize]| v.iter().map(|x| x.to_string()).collect::<Vec<_>>().join(",");
    let arg = |k: usize, a: &DA| format!("a{k}: {}{}", a.ty.map(|t| format!("T{t}")).unwrap_or("Int".into()), app(&a.dirs));
    let enc_arg = |a: &DA| format!("{}:{}", nums(&a.dirs), a.ty.map(|t| t.to_string()).unwrap_or("-".into()));
    let mut text = String::from("type Query { a: Int }\n");
    let mut denc = vec![];
    for (i, args) in dirs.iter().enumerate() {
        let a = if args.is_empty() { String::new() } else { format!("({})", args.iter().enumerate().map(|(k, a)| arg(k, a)).collect::<Vec<_>>().join(", ")) };
        text.push_str(&format!("directive @d{i}{a} repeatable on ARGUMENT_DEFINITION | SCALAR | ENUM | ENUM_VALUE | INPUT_OBJECT | INPUT_FIELD_DEFINITION\n"));
        denc.push(args.iter().map(|a| enc_arg(a)).collect::<Vec<_>>().join(";"));
    }
    let mut tenc = vec![];
    for (k, t) in types.iter().enumerate() {
        match t.kind {
            0 => text.push_str(&format!("scalar T{k}{}\n", app(&t.dirs))),
            1 => text.push_str(&format!("enum T{k}{} {{ {} VZ }}\n", app(&t.dirs), t.values.iter().enumerate().map(|(j, v)| format!("V{j}{}", app(v))).collect::<Vec<_>>().join(" "))),
            _ => text.push_str(&format!("input T{k}{} {{ {} pad: Int }}\n", app(&t.dirs), t.fields.iter().enumerate().map(|(j, a)| arg(j, a)).collect::<Vec<_>>().join(" "))),
        }
        tenc.push(format!("{}/{}/{}/{}", ["s", "e", "i"][t.kind as usize], nums(&t.dirs),
            if t.kind == 1 { t.values.iter().map(|v| nums(v)).collect::<Vec<_>>().join(";") } else { String::new() },
            if t.kind == 2 { t.fields.iter().map(|a| enc_arg(a)).collect::<Vec<_>>().join(";") } else { String::new() }));
    }
    let out = match failing_lines(&text, nd) {
        Err(p) => { ctx.fail("schema-validation-panic", &text, &p); "PANIC".to_string() }
        Ok(Err(u)) => u,
        Ok(Ok(v)) => verdict_of(v),
    };
    if out != "ok" { ctx.nontrivial(&format!("dc|{}|{}", denc.join("|"), tenc.join("|"))); }
    ctx.stat(if out == "ok" { "dircycle_ok" } else { "dircycle_err" });
    ctx.case("c14.dircycle", &[format!("={LIMIT}"), enc(&denc.join("|")), enc(&tenc.join("|"))], &out);
    judge(ctx, &text, "stream-dircycle");
}

fn streams(ctx: &mut Ctx) {
    // ---- input-object cycle search
    // exhaustive: two nodes, up to two fields each
    let opts2: Vec<IF> = vec![IF::N(0), IF::N(1), IF::N(2), IF::Nl(0), IF::Nl(1), IF::L(0), IF::Ll(1), IF::S];
    let mut node_shapes: Vec<Vec<IF>> = vec![vec![]];
    for a in &opts2 { node_shapes.push(vec![*a]); }
    for a in &opts2 { for b in &opts2 { node_shapes.push(vec![*a, *b]); } }
    for a in &node_shapes { input_case(ctx, &[a.clone()]); }
    for a in &node_shapes { for b in &node_shapes { if ctx.thorough || a.len() + b.len() <= 3 { input_case(ctx, &[a.clone(), b.clone()]); } } }
    let opts3: Vec<Vec<IF>> = vec![vec![], vec![IF::N(0)], vec![IF::N(1)], vec![IF::N(2)], vec![IF::Nl(0)], vec![IF::L(1)], vec![IF::N(1), IF::N(2)], vec![IF::N(2), IF::N(0)]];
    for a in &opts3 { for b in &opts3 { for c in &opts3 { input_case(ctx, &[a.clone(), b.clone(), c.clone()]); } } }
    // deep chains around the recursion limit, open or closed in different places
    for k in [2usize, 31, 32, 33, 34, 40] {
        for close in 0..5 {
            let mut g: Vec<Vec<IF>> = (0..k).map(|i| if i + 1 < k { vec![IF::N(i + 1)] } else { vec![] }).collect();
            match close { 0 => {} 1 => g[k - 1].push(IF::N(0)), 2 => g[k - 1].push(IF::N(k / 2)), 3 => g[k - 1].push(IF::N(k - 1)), _ => { g[k - 1].push(IF::Nl(0)); g[0].insert(0, IF::N(k - 1)); } }
            input_case(ctx, &g);
            // the same chain with default values on some / all edges, the closing edge included
            for mode in 0..3 {
                let d: Vec<Vec<bool>> = g.iter().enumerate().map(|(i, fs)| fs.iter().map(|_| match mode { 0 => true, 1 => i + 1 == k, _ => ctx.rng.chance(1, 3) }).collect()).collect();
                input_case_d(ctx, &g, &d);
            }
        }
    }
    // small cycles with a default on every subset of their edges
    for (g, ne) in [(vec![vec![IF::N(0)]], 1usize), (vec![vec![IF::N(1)], vec![IF::N(0)]], 2), (vec![vec![IF::N(1)], vec![IF::N(2)], vec![IF::N(0)]], 3), (vec![vec![IF::N(1), IF::Nl(0)], vec![IF::L(0), IF::N(0)]], 4)] {
        for mask in 0..(1usize << ne) {
            let mut bit = 0;
            let d: Vec<Vec<bool>> = g.iter().map(|fs| fs.iter().map(|_| { let b = mask & (1 << bit) != 0; bit += 1; b }).collect()).collect();
            input_case_d(ctx, &g, &d);
        }
    }
    let n_rand = if ctx.thorough { 20_000 } else { 1_500 };
    for round in 0..n_rand {
        let n = 1 + ctx.rng.below(8);
        let g: Vec<Vec<IF>> = (0..n).map(|_| { let nf = ctx.rng.below(4); (0..nf).map(|_| { let j = ctx.rng.below(n + 1); match ctx.rng.below(8) { 0..=4 => IF::N(j), 5 => IF::Nl(j), 6 => IF::L(j), _ => IF::S } }).collect() }).collect();
        if round % 2 == 0 { input_case(ctx, &g); } else {
            let d: Vec<Vec<bool>> = g.iter().map(|fs| fs.iter().map(|_| ctx.rng.chance(1, 3)).collect()).collect();
            input_case_d(ctx, &g, &d);
        }
    }
    // ---- implements
    let subsets = |n: usize| -> Vec<Vec<usize>> { (0..(1usize << (n + 1))).map(|m| (0..=n).filter(|j| m & (1 << j) != 0).collect()).collect() };
    for n in 1..=2usize {
        let subs = subsets(n);
        let mut idx = vec![0usize; n];
        loop {
            for kinds in 0..(1usize << n) {
                let types: Vec<(bool, Vec<usize>)> = (0..n).map(|i| (kinds & (1 << i) != 0, subs[idx[i]].clone())).collect();
                implements_case(ctx, &types);
            }
            let mut p = 0;
            loop { if p == n { break; } idx[p] += 1; if idx[p] < subs.len() { break; } idx[p] = 0; p += 1; }
            if p == n { break; }
        }
    }
    let n_rand = if ctx.thorough { 20_000 } else { 1_500 };
    for _ in 0..n_rand {
        let n = 2 + ctx.rng.below(5);
        let types: Vec<(bool, Vec<usize>)> = (0..n).map(|_| {
            let is_if = ctx.rng.chance(3, 4);
            let mut imps = vec![];
            for j in 0..=n { if ctx.rng.chance(1, 3) { imps.push(j); } }
            if ctx.rng.chance(1, 2) { let k = imps.len(); for a in 0..k { let b = ctx.rng.below(k); imps.swap(a, b); } }
            (is_if, imps)
        }).collect();
        implements_case(ctx, &types);
    }
    // closed-by-construction implements lists (valid), then at most one declared interface dropped
    let n_rand = if ctx.thorough { 20_000 } else { 1_500 };
    for _ in 0..n_rand {
        let n = 3 + ctx.rng.below(4);
        let mut types: Vec<(bool, Vec<usize>)> = vec![];
        for i in 0..n {
            let mut imps: Vec<usize> = vec![];
            for j in 0..i {
                if types[j].0 && ctx.rng.chance(1, 2) {
                    for t in types[j].1.clone() { if !imps.contains(&t) { imps.push(t); } }
                    if !imps.contains(&j) { imps.push(j); }
                }
            }
            let k = imps.len();
            if ctx.rng.chance(1, 2) { for a in 0..k { let b = ctx.rng.below(k); imps.swap(a, b); } }
            types.push((i + 1 < n || ctx.rng.chance(1, 2), imps));
        }
        if ctx.rng.chance(2, 3) {
            let i = ctx.rng.below(n);
            if !types[i].1.is_empty() { let k = ctx.rng.below(types[i].1.len()); types[i].1.remove(k); }
        }
        implements_case(ctx, &types);
    }
    // ---- root operations: exhaustive
    for q in 0..9usize { for m in 0..9usize { for s in 0..9usize {
        let f = |x: usize| if x == 0 { None } else { Some(x - 1) };
        roots_case(ctx, [f(q), f(m), f(s)]);
    } } }
    // ---- directive self-reference search
    for d in REG_DIR_CASES() { dir_case(ctx, &d.0, &d.1); }
    for k in [31usize, 32, 33, 34] {
        for close in 0..3 {
            let mut dirs: Vec<Vec<DA>> = (0..k).map(|i| if i + 1 < k { vec![DA { dirs: vec![i + 1], ty: None }] } else { vec![] }).collect();
            match close { 0 => {} 1 => dirs[k - 1].push(DA { dirs: vec![0], ty: None }), _ => dirs[k - 1].push(DA { dirs: vec![k / 2], ty: None }) }
            dir_case(ctx, &dirs, &[]);
        }
    }
    let n_rand = if ctx.thorough { 20_000 } else { 1_500 };
    for _ in 0..n_rand {
        let nd = 1 + ctx.rng.below(5);
        let nt = ctx.rng.below(5);
        let some_dirs = |r: &mut Rng, p: u32| -> Vec<usize> { let mut v = vec![]; while r.chance(1, p) && v.len() < 2 { v.push(r.below(nd)); } v };
        let gen_arg = |r: &mut Rng| DA { dirs: some_dirs(r, 3), ty: if nt > 0 && r.chance(1, 2) { Some(r.below(nt)) } else { None } };
        let dirs: Vec<Vec<DA>> = (0..nd).map(|_| { let na = ctx.rng.below(3); (0..na).map(|_| gen_arg(&mut ctx.rng)).collect() }).collect();
        let types: Vec<DT> = (0..nt).map(|_| {
            let kind = ctx.rng.below(3) as u8;
            let mut t = DT { kind, dirs: some_dirs(&mut ctx.rng, 4), values: vec![], fields: vec![] };
            if kind == 1 { let nv = ctx.rng.below(3); t.values = (0..nv).map(|_| some_dirs(&mut ctx.rng, 3)).collect(); }
            if kind == 2 { let nf = ctx.rng.below(3); t.fields = (0..nf).map(|_| gen_arg(&mut ctx.rng)).collect(); }
            t
        }).collect();
        dir_case(ctx, &dirs, &types);
    }
}

// ---- implementation contract of one type against its interfaces, and kinds of referenced types

fn ty_enc(t: &T) -> String {
    match t {
        T::N(n) => format!("n{n};"),
        T::NN(inner) => match &**inner { T::N(n) => format!("N{n};"), T::L(x) => format!("L{}", ty_enc(x)), T::NN(x) => ty_enc(x) },
        T::L(x) => format!("l{}", ty_enc(x)),
    }
}

fn field_enc(f: &GField) -> String {
    let args: Vec<String> = f.args.iter().map(|a| format!("{}^{}^{}", a.name, a.ty.print(), if matches!(a.ty, T::NN(_)) && a.default.is_none() { "r" } else { "o" })).collect();
    format!("{}~{}~{}", f.name, ty_enc(&f.ty), args.join(","))
}

fn print_fields(fs: &[GField]) -> String {
    fs.iter().map(|f| {
        let a = if f.args.is_empty() { String::new() } else { format!("({})", f.args.iter().map(|a| format!("{}: {}{}", a.name, a.ty.print(), a.default.as_ref().map(|d| format!(" = {d}")).unwrap_or_default())).collect::<Vec<_>>().join(", ")) };
        format!("{}{}: {}", f.name, a, f.ty.print())
    }).collect::<Vec<_>>().join(" ")
}

/// diagnostics on line `line` (1-based); Err when a diagnostic sits elsewhere
fn count_on_lines(src: &str, lines: &[usize]) -> Result<Result<Vec<usize>, String>, String> {
    catch(|| match Schema::parse_and_validate(src, "s.graphql") {
        Ok(_) => Ok(vec![0; lines.len()]),
        Err(e) => {
            let mut c = vec![0; lines.len()];
            for d in e.errors.iter() {
                let Some(r) = d.line_column_range() else { return Err(format!("unexpected:no-location:{}", d.error)) };
                match lines.iter().position(|l| *l == r.start.line) { Some(i) => c[i] += 1, None => return Err(format!("unexpected:line{}:{}", r.start.line, d.error)) }
            }
            Ok(c)
        }
    })
}

fn implfields_case(ctx: &mut Ctx, ifaces: &[Vec<GField>], tfields: &[GField], t_is_interface: bool) {
    let mut text = String::from("type Query { a: Int }\ninterface Node { id: ID }\ntype A implements Node { id: ID x: Int }\ntype B { y: Int }\nunion U = A | B\n");
    let mut subs = vec!["Node>A".to_string(), "U>A".to_string(), "U>B".to_string()];
    for (i, fs) in ifaces.iter().enumerate() {
        text.push_str(&format!("interface I{i} {{ {} }}\n", print_fields(fs)));
        subs.push(format!("I{i}>T"));
    }
    let mut tf: Vec<GField> = tfields.to_vec();
    tf.push(GField { name: "zz".into(), args: vec![], ty: T::n("Int"), dirs: vec![] });
    let t_line = 6 + ifaces.len();
    let imp: Vec<String> = (0..ifaces.len()).map(|i| format!("I{i}")).collect();
    text.push_str(&format!("{} T implements {} {{ {} }}\n", if t_is_interface { "interface" } else { "type" }, imp.join(" & "), print_fields(&tf)));
    let out = match count_on_lines(&text, &[t_line]) {
        Err(p) => { ctx.fail("schema-validation-panic", &text, &p); "PANIC".to_string() }
        Ok(Err(u)) => u,
        Ok(Ok(c)) => c[0].to_string(),
    };
    let fe = |fs: &[GField]| fs.iter().map(field_enc).collect::<Vec<_>>().join("&");
    let ienc: Vec<String> = ifaces.iter().map(|fs| fe(fs)).collect();
    if out != "0" { ctx.nontrivial(&format!("if|{}|{}", fe(&tf), ienc.join("|"))); }
    ctx.stat(if out == "0" { "implfields_ok" } else { "implfields_err" });
    ctx.case("c14.implfields", &[enc(&subs.join(",")), enc(&fe(&tf)), enc(&ienc.join("|"))], &out);
    judge(ctx, &text, "stream-implfields");
}

fn kinds_case(ctx: &mut Ctx, x: &T, y: &T, y2: &T, z: &T, z2: &T, w: &str, w2: &str) {
    // `In!` inside `In` would add the (different) input-cycle diagnostic to that line
    let fix = |t: &T| if *t == T::n("In").nn() { T::n("In") } else { t.clone() };
    let (z, z2) = (&fix(z), &fix(z2));
    let text = format!("type Query {{ a: Int }}\nscalar S\ntype A {{ x: Int }}\ninterface I {{ x: Int }}\nunion U = A\nenum E {{ V }}\ninput N {{ x: Int }}\ntype T {{ f(a: {}): {} g: {} }}\ninput In {{ g: {} h: {} }}\nunion Un = {} | {}\n",
        x.print(), y.print(), y2.print(), z.print(), z2.print(), w, w2);
    let env = "Query:o,S:s,A:o,I:i,U:u,E:e,N:n,T:o,In:n,Un:u,Int:s,Float:s,String:s,Boolean:s,ID:s";
    let out = match count_on_lines(&text, &[8, 9, 10]) {
        Err(p) => { ctx.fail("schema-validation-panic", &text, &p); "PANIC".to_string() }
        Ok(Err(u)) => u,
        Ok(Ok(c)) => c.iter().map(|v| v.to_string()).collect::<Vec<_>>().join(","),
    };
    if out != "0,0,0" { ctx.nontrivial(&format!("ki|{text}")); }
    ctx.stat(if out == "0,0,0" { "kinds_ok" } else { "kinds_err" });
    ctx.case("c14.kinds", &[format!("={env}"), format!("={},{}", y.named(), y2.named()), format!("={}", x.named()), format!("={},{}", z.named(), z2.named()), format!("={w},{w2}")], &out);
    judge(ctx, &text, "stream-kinds");
}

fn wrap_all(n: &str) -> Vec<T> {
    vec![T::n(n), T::n(n).nn(), T::n(n).list(), T::n(n).list().nn(), T::n(n).nn().list(), T::n(n).nn().list().nn()]
}

fn streams2(ctx: &mut Ctx) {
    // every pair (interface field type, implementing field type) over 6 names x 6 wrapper shapes
    let names: &[&str] = if ctx.thorough { &["Int", "A", "B", "Node", "U", "T", "I0"] } else { &["Int", "A", "Node", "U", "T", "I0"] };
    let mut tys: Vec<T> = vec![];
    for n in names { tys.extend(wrap_all(n)); }
    if ctx.thorough { tys.push(T::n("A").list().list()); tys.push(T::n("Node").nn().list().nn().list()); }
    for a in &tys { for b in &tys {
        let f = |t: &T| GField { name: "f".into(), args: vec![], ty: t.clone(), dirs: vec![] };
        implfields_case(ctx, &[vec![f(a)]], &[f(b)], false);
    } }
    // arguments: every interface argument list over {a, b} against implementing variants
    let arg = |n: &str, t: T, d: Option<&str>| GIn { name: n.into(), ty: t, default: d.map(|s| s.to_string()), dirs: vec![] };
    let a_opts: Vec<Option<GIn>> = vec![None, Some(arg("a", T::n("Int"), None)), Some(arg("a", T::n("Int").nn(), None)), Some(arg("a", T::n("Int").list(), None)), Some(arg("a", T::n("String"), None)), Some(arg("a", T::n("Int"), Some("1")))];
    let b_opts: Vec<Option<GIn>> = vec![None, Some(arg("b", T::n("Int").nn().list(), None)), Some(arg("b", T::n("Int").list(), None))];
    let c_opts: Vec<Option<GIn>> = vec![None, Some(arg("c", T::n("Int"), None)), Some(arg("c", T::n("Int").nn(), None)), Some(arg("c", T::n("Int").nn(), Some("1"))), Some(arg("c", T::n("Int").nn().list().nn(), None))];
    for ia in &a_opts { for ib in &b_opts { for ta in &a_opts { for tb in &b_opts { for tc in &c_opts {
        let iargs: Vec<GIn> = [ia, ib].iter().filter_map(|x| (*x).clone()).collect();
        let mut targs: Vec<GIn> = [ta, tb, tc].iter().filter_map(|x| (*x).clone()).collect();
        if ctx.rng.chance(1, 2) { targs.reverse(); }
        let fi = GField { name: "f".into(), args: iargs, ty: T::n("Int"), dirs: vec![] };
        let ft = GField { name: "f".into(), args: targs, ty: T::n("Int"), dirs: vec![] };
        implfields_case(ctx, &[vec![fi]], &[ft], false);
    } } } } }
    // random: one or two interfaces, several fields, perturbed implementations (objects and interfaces)
    let n_rand = if ctx.thorough { 20_000 } else { 1_500 };
    for _ in 0..n_rand {
        let ni = 1 + ctx.rng.below(2);
        let fnames = ["f", "g", "h"];
        let mut ifaces: Vec<Vec<GField>> = vec![];
        let rand_ty = |r: &mut Rng, tys: &Vec<T>| tys[r.below(tys.len())].clone();
        let rand_args = |r: &mut Rng| -> Vec<GIn> { let mut v = vec![]; if r.chance(1, 3) { v.push(GIn { name: "a".into(), ty: if r.chance(1, 2) { T::n("Int") } else { T::n("Int").nn() }, default: None, dirs: vec![] }); } if r.chance(1, 4) { v.push(GIn { name: "b".into(), ty: T::n("String").list(), default: None, dirs: vec![] }); } v };
        for _ in 0..ni {
            let nf = 1 + ctx.rng.below(3);
            ifaces.push((0..nf).map(|k| GField { name: fnames[k].into(), args: rand_args(&mut ctx.rng), ty: rand_ty(&mut ctx.rng, &tys), dirs: vec![] }).collect());
        }
        let mut tf: Vec<GField> = vec![];
        for fs in &ifaces { for f in fs {
            if tf.iter().any(|g| g.name == f.name) { continue; }
            if ctx.rng.chance(1, 8) { continue; }
            let mut g = f.clone();
            match ctx.rng.below(8) {
                0 => g.ty = rand_ty(&mut ctx.rng, &tys),
                1 => g.ty = g.ty.clone().nn(),
                2 => { let n = match g.ty.named() { "Node" => "A", "U" => "B", "I0" => "T", x => x }.to_string(); g.ty.set_named(&n); }
                3 => { if !g.args.is_empty() { let k = ctx.rng.below(g.args.len()); g.args.remove(k); } }
                4 => g.args.push(GIn { name: "c".into(), ty: if ctx.rng.chance(1, 2) { T::n("Int").nn() } else { T::n("Int") }, default: if ctx.rng.chance(1, 3) { Some("2".into()) } else { None }, dirs: vec![] }),
                5 => { if let Some(a) = g.args.first_mut() { a.ty = if matches!(a.ty, T::NN(_)) { T::n("Int") } else { a.ty.clone().nn() }; } }
                _ => {}
            }
            tf.push(g);
        } }
        let as_iface = ctx.rng.chance(1, 4);
        implfields_case(ctx, &ifaces, &tf, as_iface);
    }
    // kinds of referenced types
    let pool = ["S", "A", "I", "U", "E", "N", "Undef", "Int", "Float", "T", "In", "Un"];
    for x in pool { for y in pool {
        let w2 = if y == "A" { "Query" } else { "A" };
        kinds_case(ctx, &T::n(x), &T::n(y), &T::n("Int"), &T::n(x), &T::n("Int"), y, w2);
    } }
    let n_rand = if ctx.thorough { 10_000 } else { 800 };
    for _ in 0..n_rand {
        let mut pick = |r: &mut Rng| { let n = *r.pick(&pool); let all = wrap_all(n); all[r.below(all.len())].clone() };
        let (x, y, y2, z, z2) = (pick(&mut ctx.rng), pick(&mut ctx.rng), pick(&mut ctx.rng), pick(&mut ctx.rng), pick(&mut ctx.rng));
        let w = *ctx.rng.pick(&pool); let mut w2 = *ctx.rng.pick(&pool);
        if w2 == w { w2 = if w == "A" { "Query" } else { "A" }; }
        kinds_case(ctx, &x, &y, &y2, &z, &z2, w, w2);
    }
}

// ---- directive applications at every type-system location

#[derive(Clone, Debug)]
struct DDef { repeatable: bool, locs: Vec<usize>, args: Vec<(usize, bool, bool)> } // (name, required, optional-by-default)
#[derive(Clone, Debug)]
struct DApp { name: usize, args: Vec<(usize, bool)> } // (name, is null)

const TS_LOC_NAMES: [&str; 11] = ["SCHEMA", "SCALAR", "OBJECT", "FIELD_DEFINITION", "ARGUMENT_DEFINITION", "INTERFACE", "UNION", "ENUM", "ENUM_VALUE", "INPUT_OBJECT", "INPUT_FIELD_DEFINITION"];
const EX_LOC_NAMES: [&str; 3] = ["FIELD", "QUERY", "FRAGMENT_SPREAD"];

fn dirapps_case(ctx: &mut Ctx, defs: &[DDef], loc: usize, apps: &[DApp]) {
    let mut text = String::from("type Query { a: Int }\n");
    let mut denc = vec![];
    for (i, d) in defs.iter().enumerate() {
        let args: Vec<String> = d.args.iter().map(|(n, req, dflt)| format!("a{n}: {}", if *req { "Int!" } else if *dflt { "Int! = 1" } else { "Int" })).collect();
        let locs: Vec<&str> = d.locs.iter().map(|l| if *l < 11 { TS_LOC_NAMES[*l] } else { EX_LOC_NAMES[(*l - 100) % 3] }).collect();
        text.push_str(&format!("directive @d{i}{}{} on {}\n", if args.is_empty() { String::new() } else { format!("({})", args.join(", ")) }, if d.repeatable { " repeatable" } else { "" }, locs.join(" | ")));
        denc.push(format!("{}:{}:{}", if d.repeatable { "r" } else { "n" }, d.locs.iter().map(|l| l.to_string()).collect::<Vec<_>>().join(","), d.args.iter().map(|(n, r, _)| format!("{n}.{}", if *r { "r" } else { "o" })).collect::<Vec<_>>().join(",")));
    }
    let app_text: String = apps.iter().map(|a| {
        let args: Vec<String> = a.args.iter().map(|(n, null)| format!("a{n}: {}", if *null { "null" } else { "1" })).collect();
        format!(" @d{}{}", a.name, if args.is_empty() { String::new() } else { format!("({})", args.join(", ")) })
    }).collect();
    let a = &app_text;
    text.push_str(&match loc {
        0 => format!("schema{a} {{ query: Query }}\n"),
        1 => format!("scalar S{a}\n"),
        2 => format!("type O{a} {{ x: Int }}\n"),
        3 => format!("type O {{ x: Int{a} }}\n"),
        4 => format!("type O {{ x(p: Int{a}): Int }}\n"),
        5 => format!("interface I{a} {{ x: Int }}\n"),
        6 => format!("union U{a} = Query\n"),
        7 => format!("enum E{a} {{ V }}\n"),
        8 => format!("enum E {{ V{a} }}\n"),
        9 => format!("input N{a} {{ x: Int }}\n"),
        _ => format!("input N {{ x: Int{a} }}\n"),
    });
    const KINDS: [&str; 6] = ["UniqueArgument", "UndefinedDirective", "UniqueDirective", "UnsupportedLocation", "UndefinedArgument", "RequiredArgument"];
    let out = match catch(|| match Schema::parse_and_validate(&text, "s.graphql") {
        Ok(_) => vec![],
        Err(e) => e.errors.iter().filter_map(|d| d.error.unstable_error_name()).filter(|n| KINDS.contains(n)).map(|n| n.to_string()).collect::<Vec<_>>(),
    }) {
        Err(p) => { ctx.fail("schema-validation-panic", &text, &p); "PANIC".to_string() }
        Ok(mut v) => { v.sort(); if v.is_empty() { "ok".to_string() } else { v.join(",") } }
    };
    let aenc: Vec<String> = apps.iter().map(|a| format!("{}:{}", a.name, a.args.iter().map(|(n, null)| format!("{n}.{}", if *null { "n" } else { "v" })).collect::<Vec<_>>().join(","))).collect();
    if out != "ok" { ctx.nontrivial(&format!("da|{}|{loc}|{}", denc.join("|"), aenc.join("|"))); }
    ctx.stat(if out == "ok" { "dirapps_ok" } else { "dirapps_err" });
    ctx.stat(&format!("dirapps_loc_{}", TS_LOC_NAMES[loc]));
    ctx.case("c14.dirapps", &[enc(&denc.join("|")), format!("={loc}"), enc(&aenc.join("|"))], &out);
    judge(ctx, &text, "stream-dirapps");
}

fn streams3(ctx: &mut Ctx) {
    // one definition @d0(a0: Int!, a1: Int), every location, allowed or not, repeatable or not, applied once or
    // twice, every small argument list over {a0, a0: null, a1, a1: null, a2 (undefined), a0 twice}
    let arg_lists: Vec<Vec<(usize, bool)>> = vec![vec![], vec![(0, false)], vec![(0, true)], vec![(1, false)], vec![(0, false), (1, true)], vec![(1, false), (0, false)],
        vec![(0, false), (2, false)], vec![(0, false), (0, false)], vec![(2, true)], vec![(0, false), (1, false), (1, false)]];
    for loc in 0..11usize {
        for allowed in [true, false] {
            for repeatable in [true, false] {
                let locs = if allowed { vec![loc, (loc + 3) % 11] } else { vec![(loc + 1) % 11, 100] };
                let def = DDef { repeatable, locs, args: vec![(0, true, false), (1, false, false)] };
                for (i, al) in arg_lists.iter().enumerate() {
                    dirapps_case(ctx, &[def.clone()], loc, &[DApp { name: 0, args: al.clone() }]);
                    if i < 4 || ctx.thorough {
                        dirapps_case(ctx, &[def.clone()], loc, &[DApp { name: 0, args: al.clone() }, DApp { name: 0, args: vec![(0, false)] }]);
                        dirapps_case(ctx, &[def.clone()], loc, &[DApp { name: 0, args: vec![(0, false)] }, DApp { name: 1, args: al.clone() }, DApp { name: 0, args: al.clone() }]);
                    }
                }
            }
        }
    }
    let n_rand = if ctx.thorough { 30_000 } else { 2_500 };
    for _ in 0..n_rand {
        let nd = 1 + ctx.rng.below(3);
        let loc = ctx.rng.below(11);
        let defs: Vec<DDef> = (0..nd).map(|_| {
            let mut locs: Vec<usize> = vec![];
            if ctx.rng.chance(3, 4) { locs.push(loc); }
            for _ in 0..ctx.rng.below(3) { let l = if ctx.rng.chance(1, 5) { 100 + ctx.rng.below(3) } else { ctx.rng.below(11) }; if !locs.contains(&l) { locs.push(l); } }
            if locs.is_empty() { locs.push((loc + 1 + ctx.rng.below(10)) % 11); }
            let na = ctx.rng.below(4);
            DDef { repeatable: ctx.rng.chance(1, 2), locs, args: (0..na).map(|k| (k, ctx.rng.chance(1, 2), ctx.rng.chance(1, 3))).collect() }
        }).collect();
        let napp = 1 + ctx.rng.below(3);
        let apps: Vec<DApp> = (0..napp).map(|_| {
            let name = if ctx.rng.chance(1, 8) { nd } else { ctx.rng.below(nd) };
            let mut args: Vec<(usize, bool)> = vec![];
            if name < nd {
                for (k, req, _) in &defs[name].args { if ctx.rng.chance(if *req { 5 } else { 3 }, 6) { args.push((*k, ctx.rng.chance(1, 6))); } }
            }
            if ctx.rng.chance(1, 8) { args.push((7, false)); }
            if ctx.rng.chance(1, 8) && !args.is_empty() { let d = args[ctx.rng.below(args.len())]; args.push(d); }
            if ctx.rng.chance(1, 4) { args.reverse(); }
            DApp { name, args }
        }).collect();
        dirapps_case(ctx, &defs, loc, &apps);
    }
}

#[allow(non_snake_case)]
fn REG_DIR_CASES() -> Vec<(Vec<Vec<DA>>, Vec<DT>)> {
    let a = |dirs: Vec<usize>, ty: Option<usize>| DA { dirs, ty };
    vec![
        (vec![vec![a(vec![0], None)]], vec![]),
        (vec![vec![a(vec![1], None)], vec![a(vec![0], None)]], vec![]),
        (vec![vec![a(vec![1], None)], vec![a(vec![1], None)]], vec![]),
        (vec![vec![a(vec![], Some(0))]], vec![DT { kind: 2, dirs: vec![], values: vec![], fields: vec![a(vec![0], None)] }]),
        (vec![vec![a(vec![], Some(0))]], vec![DT { kind: 2, dirs: vec![], values: vec![], fields: vec![a(vec![], Some(0)), a(vec![0], None)] }]),
        (vec![vec![a(vec![], Some(0))], vec![a(vec![], Some(0))]], vec![DT { kind: 2, dirs: vec![], values: vec![], fields: vec![a(vec![1], None), a(vec![0], None)] }]),
        (vec![vec![a(vec![], Some(0))]], vec![DT { kind: 1, dirs: vec![], values: vec![vec![], vec![0]], fields: vec![] }]),
        (vec![vec![a(vec![], Some(0))]], vec![DT { kind: 0, dirs: vec![0], values: vec![], fields: vec![] }]),
        (vec![vec![a(vec![], Some(0))], vec![]], vec![DT { kind: 2, dirs: vec![1], values: vec![], fields: vec![a(vec![], Some(1))] }, DT { kind: 1, dirs: vec![0], values: vec![], fields: vec![] }]),
    ]
}
