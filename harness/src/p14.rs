//! C14 — schema validation agrees with the specification.
//! Oracle: `Schema::parse_and_validate(src)` is Ok  iff  the independent validator (specschema.rs,
//! written from the October-2021 text) finds no violated rule, under apollo-compiler's documented
//! differences (`Params::apollo()`).  Correspondence streams `c14.*` tie the Lean models of the
//! algorithmic rules (input-object cycle search, transitive interfaces, root operations, directive
//! self-reference search) to the real code through public validation of generated schemas.
use crate::schemagen::*;
use crate::specschema::{self, Params, SpecSchema};
use crate::util::*;
use apollo_compiler::validation::Valid;
use apollo_compiler::{ast, Schema};

pub struct Verdict {
    pub spec: SpecSchema,
    pub apollo: Result<Valid<Schema>, Vec<String>>,
}

/// apollo's first diagnostic, mapped to this harness' rule names (used only to *name* a finding class)
fn classify_apollo(msgs: &[String]) -> String {
    const TABLE: &[(&str, &str)] = &[
        ("too deeply nested", "nesting-limit"),
        ("must not start with", "reserved-name"), ("reserved", "reserved-name"),
        ("is defined multiple times", "unique-names"), ("redefine", "unique-names"), ("duplicate", "unique-names"), ("more than once", "unique-names"),
        ("multiple", "unique-names"),
        ("must have a `query` root", "query-root-required"), ("root operation", "root-types"),
        ("recursive", "cycle"), ("cannot reference itself", "cycle"), ("references itself", "cycle"),
        ("transitive", "transitive-interfaces-declared"),
        ("does not satisfy interface", "impl"), ("interface field", "impl"), ("implement", "impl"), ("missing", "impl"),
        ("cannot find type", "undefined-type"), ("undefined", "undefined"), ("not defined", "undefined"), ("cannot find directive", "directive-known"),
        ("is not supported for", "directive-location"), ("not an output type", "field-type-output"), ("not an input type", "argument-type-input"),
        ("output type", "field-type-output"), ("input type", "argument-type-input"),
        ("must be an object", "object-kind"), ("union member", "union-member-object"),
        ("required argument", "directive-argument-required"), ("is required", "directive-argument-required"),
        ("expected value of type", "directive-argument-type"), ("cannot be coerced", "directive-argument-type"), ("int cannot represent", "directive-argument-type"),
        ("non-repeatable", "directive-unique"), ("can only be used once", "directive-unique"),
        ("extension", "extension"), ("extends", "extension"),
        ("must have at least one", "non-empty"), ("no fields", "non-empty"), ("empty", "non-empty"),
    ];
    let Some(m) = msgs.first() else { return "no-diagnostic".into() };
    let l = m.to_lowercase();
    for (pat, rule) in TABLE { if l.contains(pat) { return rule.to_string(); } }
    "other".into()
}

pub fn run_apollo(src: &str) -> Result<Result<Valid<Schema>, Vec<String>>, String> {
    catch(|| match Schema::parse_and_validate(src, "s.graphql") {
        Ok(s) => Ok(s),
        Err(e) => Err(e.errors.iter().map(|d| d.error.to_string()).collect()),
    })
}

/// Judge one schema text; returns None when the text is not syntactically a type-system document.
pub fn judge(ctx: &mut Ctx, src: &str, label: &str) -> Option<Verdict> {
    let Ok(doc) = ast::Document::parse(src, "s.graphql") else { ctx.stat("skipped_syntax_error"); if std::env::var("VH_DEBUG").is_ok() && label != "seed" { eprintln!("SYNTAX {label}\n{}\n", src); } return None };
    if doc.definitions.iter().any(|d| matches!(d, ast::Definition::OperationDefinition(_) | ast::Definition::FragmentDefinition(_))) {
        ctx.stat("skipped_executable_definition");
        return None;
    }
    let spec = specschema::validate(&doc, &Params::apollo());
    let apollo = match run_apollo(src) {
        Err(p) => { ctx.fail("schema-validation-panic", src, &p); return None; }
        Ok(r) => r,
    };
    ctx.stat("judged");
    ctx.stat(&format!("label:{label}"));
    let rules: Vec<String> = spec.violations.iter().cloned().collect();
    if rules.is_empty() { ctx.stat("spec_valid"); } else { ctx.stat("spec_invalid"); }
    for r in &rules { ctx.stat(&format!("violated:{r}")); }
    if rules.len() == 1 { ctx.stat(&format!("violated_alone:{}", rules[0])); ctx.nontrivial(&format!("{}|{}", rules[0], src)); }
    match (&apollo, rules.is_empty()) {
        (Ok(_), true) | (Err(_), false) => {}
        (Ok(_), false) => {
            ctx.fail(&format!("apollo-accepts:{}", rules.join("+")), src, &format!("parse_and_validate is Ok but the specification rejects the schema: violated {rules:?} (generator: {label})"));
        }
        (Err(msgs), true) => {
            ctx.fail(&format!("apollo-rejects:{}", classify_apollo(msgs)), src, &format!("the specification accepts the schema but parse_and_validate fails: {:?} (generator: {label})", msgs.iter().take(3).collect::<Vec<_>>()));
        }
    }
    Some(Verdict { spec, apollo })
}

/// type-system definitions of a repo test file, re-printed (executable definitions dropped)
fn seed_text(path: &std::path::Path) -> Option<String> {
    let s = std::fs::read_to_string(path).ok()?;
    if s.len() > 20_000 { return None; }
    let doc = match ast::Document::parse(s, "seed.graphql") { Ok(d) => d, Err(_) => return None };
    let mut out = String::new();
    let mut any = false;
    for d in &doc.definitions {
        if matches!(d, ast::Definition::OperationDefinition(_) | ast::Definition::FragmentDefinition(_)) { continue; }
        any = true;
        out.push_str(&d.to_string());
        out.push('\n');
    }
    if any { Some(out) } else { None }
}

const REGRESSION: &[&str] = &[
    "type Query { a: Int }",
    "type Q { a: Int }",
    "schema { query: Q } type Q { a: Int }",
    "schema { query: Q mutation: Q } type Q { a: Int }",
    "schema { query: I } interface I { a: Int }",
    "extend schema @d type Query { a: Int } directive @d on SCHEMA",
    "extend schema { query: Q } type Q { a: Int }",
    "type Query { a: Int } extend type Query { a: String }",
    "type Query { a: Int } input A { b: B! } input B { a: A! }",
    "type Query { a: Int } input A { b: [A!]! c: A }",
    "type Query { a: Int } input A { a: A! }",
    "type Query { f(arg: A): Int } input A { b: B! = { x: 1 } x: Int } input B { a: A! x: Int }",
    "type Query { f(arg: Self): Int } input Self { again: Self! = { n: 1 } n: Int }",
    "type Query { f(arg: A): Int } input A { b: B = { x: 1 } x: Int } input B { a: A! x: Int }",
    "type Query { f(arg: A): Int } input A { b: [B!]! = [] x: Int } input B { a: A! = { x: 2 } x: Int }",
    "type Query { a(x: Int = \"no\"): Int }",
    "type Query { a: Int } directive @d(a: Int @d) on ARGUMENT_DEFINITION",
    "type Query { a: Int } directive @d(a: E) on ENUM_VALUE enum E { V @d }",
    "type Query { a: Int } directive @skip(if: Boolean!) on FIELD",
    "type Query { a: Int } directive @skip(if: Boolean!) on FIELD directive @skip(if: Boolean!) on FIELD",
    "type Query { a: Int } scalar Int",
    "type Query { a: Int } type __Type { a: Int }",
    "type Query { a: Int } extend scalar Int @nope",
    "type Query { a: Int } extend scalar String @specifiedBy(url: \"u\")",
    "type Query { a: Int } extend scalar Int @specifiedBy(url: \"u\")",
    "interface A implements B { x: Int } interface B implements A { x: Int } type Query { a: Int }",
    "interface A { x: Int } interface B implements A { x: Int } type Query implements B { x: Int }",
    "interface A { x(a: Int): Int } type Query implements A { x(a: Int, b: Int!): Int }",
    "interface A { x: [A] } type Query implements A { x: [Query!]! }",
    "union U = Query | Query type Query { a: U }",
    "union U type Query { a: Int }",
    "enum E type Query { a: Int }",
    "type Query { __a: Int }",
    "type Query { a(__b: Int): Int }",
    "enum E { __V } type Query { a: E }",
    "extend interface Query { b: Int } type Query { a: Int }",
    "type Query { a: Int } extend interface Query { b: Int }",
    "extend type Nope { b: Int } type Query { a: Int }",
    "type Query { a: Int @deprecated(reason: 1) }",
    "type Query { a: Int @deprecated(reason: null) }",
    "directive @d(i: In) on OBJECT input In { a: Int! b: Int! = 1 } type Query @d(i: {a: 1, a: 2}) { a: Int }",
    "directive @d(i: In) on OBJECT input In { a: Int! b: Int! = 1 } type Query @d(i: {}) { a: Int }",
    "directive @d(i: [Int!]) on OBJECT type Query @d(i: [1, null]) { a: Int }",
    "directive @d(i: Float) on OBJECT type Query @d(i: 1) { a: Int }",
];

pub fn random_valid(ctx: &mut Ctx) -> Vec<GDef> {
    let mut g = Gen::new(&mut ctx.rng);
    g.valid()
}

pub fn run(ctx: &mut Ctx) {
    for s in REGRESSION { judge(ctx, s, "regression"); }
    streams(ctx);
    streams2(ctx);
    streams3(ctx);
    streams_build(ctx);
    streams_reserved(ctx);
    streams_values(ctx);
    // repo test data as read-only seeds
    let repo = std::env::var("VERIF_REPO").unwrap_or_else(|_| "/repo".into());
    for dir in ["diagnostics", "ok"] {
        let Ok(rd) = std::fs::read_dir(format!("{repo}/crates/apollo-compiler/test_data/{dir}")) else { continue };
        let mut files: Vec<_> = rd.filter_map(|e| e.ok()).map(|e| e.path()).filter(|p| p.extension().is_some_and(|x| x == "graphql")).collect();
        files.sort();
        for f in files {
            if let Some(t) = seed_text(&f) { ctx.stat("repo_seed_files"); judge(ctx, &t, "seed"); }
        }
    }
    // generated: valid base, every mutation on it, and a few random double mutations
    let n = if ctx.thorough { 4000 } else { 260 };
    for round in 0..n {
        let base = random_valid(ctx);
        let text = print_doc(&base);
        if let Some(v) = judge(ctx, &text, "valid") {
            if !v.spec.violations.is_empty() { ctx.stat("generator_base_invalid"); if std::env::var("VH_DEBUG").is_ok() { eprintln!("BASE-INVALID {:?}\n{}\n", v.spec.violations, text); } }
        }
        for m in 0..N_MUTATIONS {
            // quick tier: a rotating third of the mutation operators per base schema
            if !ctx.thorough && (m + round) % 3 != 0 { continue; }
            let mut d = base.clone();
            let label = mutate(&mut d, &mut ctx.rng, m);
            if label == "noop" { ctx.stat("mutation_noop"); continue; }
            let t = print_doc(&d);
            judge(ctx, &t, label);
            if ctx.rng.chance(1, 6) {
                let m2 = ctx.rng.below(N_MUTATIONS);
                let l2 = mutate(&mut d, &mut ctx.rng, m2);
                if l2 != "noop" { let t = print_doc(&d); judge(ctx, &t, "double"); }
            }
        }
    }
}

// ---------------------------------------------------------------------------------------------
// correspondence streams

/// 0-based indices (line - 2) of the definitions that carry a diagnostic; Err on a diagnostic elsewhere
fn failing_lines(src: &str, n: usize) -> Result<Result<Vec<usize>, String>, String> {
    catch(|| match Schema::parse_and_validate(src, "s.graphql") {
        Ok(_) => Ok(vec![]),
        Err(e) => {
            let mut out = vec![];
            for d in e.errors.iter() {
                let Some(r) = d.line_column_range() else { return Err(format!("unexpected:no-location:{}", d.error)) };
                let l = r.start.line;
                if l < 2 || l >= n + 2 { return Err(format!("unexpected:line{l}:{}", d.error)); }
                out.push(l - 2);
            }
            Ok(out)
        }
    })
}

fn verdict_of(mut v: Vec<usize>) -> String {
    v.sort(); v.dedup();
    if v.is_empty() { "ok".into() } else { format!("err:{}", v.iter().map(|x| x.to_string()).collect::<Vec<_>>().join(",")) }
}

const LIMIT: usize = 32;

#[derive(Clone, Copy, Debug)]
enum IF { N(usize), Nl(usize), L(usize), Ll(usize), S }

/// `dflt[i][k]`: field k of node i also carries a default value (which must not matter)
fn input_case(ctx: &mut Ctx, g: &[Vec<IF>]) { let d: Vec<Vec<bool>> = g.iter().map(|fs| vec![false; fs.len()]).collect(); input_case_d(ctx, g, &d) }

fn input_case_d(ctx: &mut Ctx, g: &[Vec<IF>], dflt: &[Vec<bool>]) { input_case_x(ctx, g, dflt, 0) }

/// `ext`: 0 = every field in the definition; 1 = the fields at odd positions arrive through `extend input` written
/// after all definitions; 2 = ALL graph fields arrive through extensions written BEFORE the definitions (the
/// definition keeps `pad`).  The merged field order differs from the written one only for ext = 1, which the
/// encoding follows (definition's fields first).
fn input_case_x(ctx: &mut Ctx, g: &[Vec<IF>], dflt: &[Vec<bool>], ext: usize) {
    let n = g.len();
    let tn = |j: usize| if j < n { format!("In{j}") } else { "En".to_string() };
    let mut text = String::from("type Query { a: Int }\n");
    let (mut head, mut tail) = (String::new(), String::new());
    let mut encs = vec![];
    for (i, fs) in g.iter().enumerate() {
        let mut parts = vec![];
        let mut e = vec![];
        for (k, f) in fs.iter().enumerate() {
            let (t, c) = match f { IF::N(j) => (format!("{}!", tn(*j)), format!("N{j}")), IF::Nl(j) => (tn(*j), format!("n{j}")), IF::L(j) => (format!("[{}!]!", tn(*j)), format!("L{j}")), IF::Ll(j) => (format!("[{}]", tn(*j)), format!("l{j}")), IF::S => ("Int!".to_string(), "S".to_string()) };
            let has_d = dflt[i][k];
            let lit = match f { IF::N(j) | IF::Nl(j) => if *j < n { if k % 2 == 0 { "{}" } else { "{pad: 1}" } } else { "V" }, IF::L(_) | IF::Ll(_) => "[]", IF::S => "1" };
            parts.push(if has_d { format!("f{k}: {t} = {lit}") } else { format!("f{k}: {t}") });
            e.push(if has_d { format!("{c}d") } else { c });
        }
        match ext {
            1 if parts.len() > 1 => {
                let pick = |v: &Vec<String>, odd: bool| v.iter().enumerate().filter(|(k, _)| (k % 2 == 1) == odd).map(|(_, x)| x.clone()).collect::<Vec<_>>();
                text.push_str(&format!("input In{i} {{ {} pad: Int }}\n", pick(&parts, false).join(" ")));
                tail.push_str(&format!("extend input In{i} {{ {} }}\n", pick(&parts, true).join(" ")));
                let mut m = pick(&e, false); m.extend(pick(&e, true)); e = m;
                ctx.stat("inputcycle_fields_by_extension");
            }
            2 if !parts.is_empty() => {
                text.push_str(&format!("input In{i} {{ pad: Int }}\n"));
                head.push_str(&format!("extend input In{i} {{ {} }}\n", parts.join(" ")));
                ctx.stat("inputcycle_fields_by_earlier_extension");
            }
            _ => text.push_str(&format!("input In{i} {{ {} pad: Int }}\n", parts.join(" "))),
        }
        encs.push(e.join(","));
    }
    text.push_str("enum En { V }\n");
    text.push_str(&tail);
    // extensions in front go on the FIRST line (the line numbers of the definitions are what `failing_lines` reads)
    if !head.is_empty() { text = format!("{} {}", head.replace('\n', " ").trim_end(), text); }
    let out = match failing_lines(&text, n) {
        Err(p) => { ctx.fail("schema-validation-panic", &text, &p); "PANIC".to_string() }
        Ok(Err(u)) => u,
        Ok(Ok(v)) => verdict_of(v),
    };
    if out != "ok" { ctx.nontrivial(&format!("ic|{}", encs.join("|"))); }
    ctx.stat(if out == "ok" { "inputcycle_ok" } else { "inputcycle_err" });
    ctx.case("c14.inputcycle", &[format!("={LIMIT}"), enc(&encs.join("|"))], &out);
    judge(ctx, &text, "stream-inputcycle");
}

fn implements_case(ctx: &mut Ctx, types: &[(bool, Vec<usize>)]) {
    let n = types.len();
    let mut text = String::from("type Query { a: Int }\n");
    let mut encs = vec![];
    for (i, (is_if, imps)) in types.iter().enumerate() {
        let names: Vec<String> = imps.iter().map(|j| if *j < n { format!("T{j}") } else { format!("Undef{j}") }).collect();
        let imp = if names.is_empty() { String::new() } else { format!(" implements {}", names.join(" & ")) };
        text.push_str(&format!("{} T{i}{imp} {{ x: Int }}\n", if *is_if { "interface" } else { "type" }));
        encs.push(format!("{}:{}", if *is_if { "I" } else { "O" }, imps.iter().map(|x| x.to_string()).collect::<Vec<_>>().join(",")));
    }
    let out = match failing_lines(&text, n) {
        Err(p) => { ctx.fail("schema-validation-panic", &text, &p); "PANIC".to_string() }
        Ok(Err(u)) => u,
        Ok(Ok(v)) => { let mut c = vec![0usize; n]; for l in v { c[l] += 1; } c.iter().map(|x| x.to_string()).collect::<Vec<_>>().join(",") }
    };
    if out.chars().any(|c| c != '0' && c != ',') { ctx.nontrivial(&format!("im|{}", encs.join("|"))); }
    ctx.case("c14.implements", &[enc(&encs.join("|"))], &out);
    judge(ctx, &text, "stream-implements");
}

fn roots_case(ctx: &mut Ctx, slots: [Option<usize>; 3]) {
    // pool: 0,1 objects; 2 interface; 3 scalar; 4 undefined; 5 input object; 6 union; 7 enum
    const POOL: [&str; 8] = ["A", "B", "I", "S", "Undef", "In", "U", "E"];
    let mut text = String::from("type A { x: Int }\ntype B { x: Int }\ninterface I { x: Int }\nscalar S\ninput In { x: Int }\nunion U = A | B\nenum E { V }\n");
    let ops = ["query", "mutation", "subscription"];
    let parts: Vec<String> = slots.iter().enumerate().filter_map(|(i, s)| s.map(|j| format!("{}: {}", ops[i], POOL[j]))).collect();
    if !parts.is_empty() { text.push_str(&format!("schema {{ {} }}\n", parts.join(" "))); }
    let encs: Vec<String> = slots.iter().map(|s| match s { None => "=-".to_string(), Some(j) => format!("={}{j}", match j { 0 | 1 => 'o', 4 => 'u', _ => 'k' }) }).collect();
    let out = match run_apollo(&text) {
        Err(p) => { ctx.fail("schema-validation-panic", &text, &p); "PANIC".to_string() }
        Ok(Ok(_)) => "ok".to_string(),
        Ok(Err(m)) => format!("err:{}", m.len()),
    };
    if out != "ok" { ctx.nontrivial(&format!("ro|{}", encs.join("|"))); }
    ctx.case("c14.roots", &encs, &out);
    judge(ctx, &text, "stream-roots");
}

#[derive(Clone, Debug, Default)]
struct DA { dirs: Vec<usize>, ty: Option<usize> }
#[derive(Clone, Debug, Default)]
struct DT { kind: u8, dirs: Vec<usize>, values: Vec<Vec<usize>>, fields: Vec<DA> }

fn dir_case(ctx: &mut Ctx, dirs: &[Vec<DA>], types: &[DT]) {
    let nd = dirs.len();
    let app = |v: &[usize]| v.iter().map(|d| format!(" @d{d}")).collect::<String>();
    let nums = |v: &[usize]| v.iter().map(|x| x.to_string()).collect::<Vec<_>>().join(",");
    let arg = |k: usize, a: &DA| format!("a{k}: {}{}", a.ty.map(|t| format!("T{t}")).unwrap_or("Int".into()), app(&a.dirs));
    let enc_arg = |a: &DA| format!("{}:{}", nums(&a.dirs), a.ty.map(|t| t.to_string()).unwrap_or("-".into()));
    let mut text = String::from("type Query { a: Int }\n");
    let mut denc = vec![];
    for (i, args) in dirs.iter().enumerate() {
        let a = if args.is_empty() { String::new() } else { format!("({})", args.iter().enumerate().map(|(k, a)| arg(k, a)).collect::<Vec<_>>().join(", ")) };
        text.push_str(&format!("directive @d{i}{a} repeatable on ARGUMENT_DEFINITION | SCALAR | ENUM | ENUM_VALUE | INPUT_OBJECT | INPUT_FIELD_DEFINITION\n"));
        denc.push(args.iter().map(|a| enc_arg(a)).collect::<Vec<_>>().join(";"));
    }
    let mut tenc = vec![];
    for (k, t) in types.iter().enumerate() {
        match t.kind {
            0 => text.push_str(&format!("scalar T{k}{}\n", app(&t.dirs))),
            1 => text.push_str(&format!("enum T{k}{} {{ {} VZ }}\n", app(&t.dirs), t.values.iter().enumerate().map(|(j, v)| format!("V{j}{}", app(v))).collect::<Vec<_>>().join(" "))),
            _ => text.push_str(&format!("input T{k}{} {{ {} pad: Int }}\n", app(&t.dirs), t.fields.iter().enumerate().map(|(j, a)| arg(j, a)).collect::<Vec<_>>().join(" "))),
        }
        tenc.push(format!("{}/{}/{}/{}", ["s", "e", "i"][t.kind as usize], nums(&t.dirs),
            if t.kind == 1 { t.values.iter().map(|v| nums(v)).collect::<Vec<_>>().join(";") } else { String::new() },
            if t.kind == 2 { t.fields.iter().map(|a| enc_arg(a)).collect::<Vec<_>>().join(";") } else { String::new() }));
    }
    let out = match failing_lines(&text, nd) {
        Err(p) => { ctx.fail("schema-validation-panic", &text, &p); "PANIC".to_string() }
        Ok(Err(u)) => u,
        Ok(Ok(v)) => verdict_of(v),
    };
    if out != "ok" { ctx.nontrivial(&format!("dc|{}|{}", denc.join("|"), tenc.join("|"))); }
    ctx.stat(if out == "ok" { "dircycle_ok" } else { "dircycle_err" });
    ctx.case("c14.dircycle", &[format!("={LIMIT}"), enc(&denc.join("|")), enc(&tenc.join("|"))], &out);
    judge(ctx, &text, "stream-dircycle");
}

fn streams(ctx: &mut Ctx) {
    // ---- input-object cycle search
    // exhaustive: two nodes, up to two fields each
    let opts2: Vec<IF> = vec![IF::N(0), IF::N(1), IF::N(2), IF::Nl(0), IF::Nl(1), IF::L(0), IF::Ll(1), IF::S];
    let mut node_shapes: Vec<Vec<IF>> = vec![vec![]];
    for a in &opts2 { node_shapes.push(vec![*a]); }
    for a in &opts2 { for b in &opts2 { node_shapes.push(vec![*a, *b]); } }
    for a in &node_shapes { input_case(ctx, &[a.clone()]); }
    for a in &node_shapes { for b in &node_shapes { if ctx.thorough || a.len() + b.len() <= 3 { input_case(ctx, &[a.clone(), b.clone()]); } } }
    let opts3: Vec<Vec<IF>> = vec![vec![], vec![IF::N(0)], vec![IF::N(1)], vec![IF::N(2)], vec![IF::Nl(0)], vec![IF::L(1)], vec![IF::N(1), IF::N(2)], vec![IF::N(2), IF::N(0)]];
    for a in &opts3 { for b in &opts3 { for c in &opts3 { input_case(ctx, &[a.clone(), b.clone(), c.clone()]); } } }
    // deep chains around the recursion limit, open or closed in different places
    for k in [2usize, 31, 32, 33, 34, 40] {
        for close in 0..5 {
            let mut g: Vec<Vec<IF>> = (0..k).map(|i| if i + 1 < k { vec![IF::N(i + 1)] } else { vec![] }).collect();
            match close { 0 => {} 1 => g[k - 1].push(IF::N(0)), 2 => g[k - 1].push(IF::N(k / 2)), 3 => g[k - 1].push(IF::N(k - 1)), _ => { g[k - 1].push(IF::Nl(0)); g[0].insert(0, IF::N(k - 1)); } }
            input_case(ctx, &g);
            // the same chain with default values on some / all edges, the closing edge included
            for mode in 0..3 {
                let d: Vec<Vec<bool>> = g.iter().enumerate().map(|(i, fs)| fs.iter().map(|_| match mode { 0 => true, 1 => i + 1 == k, _ => ctx.rng.chance(1, 3) }).collect()).collect();
                input_case_d(ctx, &g, &d);
            }
        }
    }
    // small cycles with a default on every subset of their edges
    for (g, ne) in [(vec![vec![IF::N(0)]], 1usize), (vec![vec![IF::N(1)], vec![IF::N(0)]], 2), (vec![vec![IF::N(1)], vec![IF::N(2)], vec![IF::N(0)]], 3), (vec![vec![IF::N(1), IF::Nl(0)], vec![IF::L(0), IF::N(0)]], 4)] {
        for mask in 0..(1usize << ne) {
            let mut bit = 0;
            let d: Vec<Vec<bool>> = g.iter().map(|fs| fs.iter().map(|_| { let b = mask & (1 << bit) != 0; bit += 1; b }).collect()).collect();
            input_case_d(ctx, &g, &d);
        }
    }
    let n_rand = if ctx.thorough { 20_000 } else { 1_500 };
    for round in 0..n_rand {
        let n = 1 + ctx.rng.below(8);
        let g: Vec<Vec<IF>> = (0..n).map(|_| { let nf = ctx.rng.below(4); (0..nf).map(|_| { let j = ctx.rng.below(n + 1); match ctx.rng.below(8) { 0..=4 => IF::N(j), 5 => IF::Nl(j), 6 => IF::L(j), _ => IF::S } }).collect() }).collect();
        if round % 2 == 0 { input_case(ctx, &g); } else {
            let d: Vec<Vec<bool>> = g.iter().map(|fs| fs.iter().map(|_| ctx.rng.chance(1, 3)).collect()).collect();
            let ext = if ctx.rng.chance(1, 2) { 1 + ctx.rng.below(2) } else { 0 };
            input_case_x(ctx, &g, &d, ext);
        }
    }
    // every two-node graph with up to 1 + 2 fields again with its fields supplied by extensions (after / before)
    for a in &node_shapes { for b in &node_shapes { if a.len() + b.len() <= 3 && a.len() + b.len() >= 1 {
        let gg = [a.clone(), b.clone()];
        let d: Vec<Vec<bool>> = gg.iter().map(|fs| vec![false; fs.len()]).collect();
        if a.len() == 2 || b.len() == 2 { input_case_x(ctx, &gg, &d, 1); }
        if ctx.thorough || a.len() + b.len() <= 2 { input_case_x(ctx, &gg, &d, 2); }
    } } }
    // ---- implements
    let subsets = |n: usize| -> Vec<Vec<usize>> { (0..(1usize << (n + 1))).map(|m| (0..=n).filter(|j| m & (1 << j) != 0).collect()).collect() };
    for n in 1..=2usize {
        let subs = subsets(n);
        let mut idx = vec![0usize; n];
        loop {
            for kinds in 0..(1usize << n) {
                let types: Vec<(bool, Vec<usize>)> = (0..n).map(|i| (kinds & (1 << i) != 0, subs[idx[i]].clone())).collect();
                implements_case(ctx, &types);
            }
            let mut p = 0;
            loop { if p == n { break; } idx[p] += 1; if idx[p] < subs.len() { break; } idx[p] = 0; p += 1; }
            if p == n { break; }
        }
    }
    let n_rand = if ctx.thorough { 20_000 } else { 1_500 };
    for _ in 0..n_rand {
        let n = 2 + ctx.rng.below(5);
        let types: Vec<(bool, Vec<usize>)> = (0..n).map(|_| {
            let is_if = ctx.rng.chance(3, 4);
            let mut imps = vec![];
            for j in 0..=n { if ctx.rng.chance(1, 3) { imps.push(j); } }
            if ctx.rng.chance(1, 2) { let k = imps.len(); for a in 0..k { let b = ctx.rng.below(k); imps.swap(a, b); } }
            (is_if, imps)
        }).collect();
        implements_case(ctx, &types);
    }
    // closed-by-construction implements lists (valid), then at most one declared interface dropped
    let n_rand = if ctx.thorough { 20_000 } else { 1_500 };
    for _ in 0..n_rand {
        let n = 3 + ctx.rng.below(4);
        let mut types: Vec<(bool, Vec<usize>)> = vec![];
        for i in 0..n {
            let mut imps: Vec<usize> = vec![];
            for j in 0..i {
                if types[j].0 && ctx.rng.chance(1, 2) {
                    for t in types[j].1.clone() { if !imps.contains(&t) { imps.push(t); } }
                    if !imps.contains(&j) { imps.push(j); }
                }
            }
            let k = imps.len();
            if ctx.rng.chance(1, 2) { for a in 0..k { let b = ctx.rng.below(k); imps.swap(a, b); } }
            types.push((i + 1 < n || ctx.rng.chance(1, 2), imps));
        }
        if ctx.rng.chance(2, 3) {
            let i = ctx.rng.below(n);
            if !types[i].1.is_empty() { let k = ctx.rng.below(types[i].1.len()); types[i].1.remove(k); }
        }
        implements_case(ctx, &types);
    }
    // ---- root operations: exhaustive
    for q in 0..9usize { for m in 0..9usize { for s in 0..9usize {
        let f = |x: usize| if x == 0 { None } else { Some(x - 1) };
        roots_case(ctx, [f(q), f(m), f(s)]);
    } } }
    // ---- directive self-reference search
    for d in REG_DIR_CASES() { dir_case(ctx, &d.0, &d.1); }
    for k in [31usize, 32, 33, 34] {
        for close in 0..3 {
            let mut dirs: Vec<Vec<DA>> = (0..k).map(|i| if i + 1 < k { vec![DA { dirs: vec![i + 1], ty: None }] } else { vec![] }).collect();
            match close { 0 => {} 1 => dirs[k - 1].push(DA { dirs: vec![0], ty: None }), _ => dirs[k - 1].push(DA { dirs: vec![k / 2], ty: None }) }
            dir_case(ctx, &dirs, &[]);
        }
    }
    let n_rand = if ctx.thorough { 20_000 } else { 1_500 };
    for _ in 0..n_rand {
        let nd = 1 + ctx.rng.below(5);
        let nt = ctx.rng.below(5);
        let some_dirs = |r: &mut Rng, p: u32| -> Vec<usize> { let mut v = vec![]; while r.chance(1, p) && v.len() < 2 { v.push(r.below(nd)); } v };
        let gen_arg = |r: &mut Rng| DA { dirs: some_dirs(r, 3), ty: if nt > 0 && r.chance(1, 2) { Some(r.below(nt)) } else { None } };
        let dirs: Vec<Vec<DA>> = (0..nd).map(|_| { let na = ctx.rng.below(3); (0..na).map(|_| gen_arg(&mut ctx.rng)).collect() }).collect();
        let types: Vec<DT> = (0..nt).map(|_| {
            let kind = ctx.rng.below(3) as u8;
            let mut t = DT { kind, dirs: some_dirs(&mut ctx.rng, 4), values: vec![], fields: vec![] };
            if kind == 1 { let nv = ctx.rng.below(3); t.values = (0..nv).map(|_| some_dirs(&mut ctx.rng, 3)).collect(); }
            if kind == 2 { let nf = ctx.rng.below(3); t.fields = (0..nf).map(|_| gen_arg(&mut ctx.rng)).collect(); }
            t
        }).collect();
        dir_case(ctx, &dirs, &types);
    }
}

// ---- implementation contract of one type against its interfaces, and kinds of referenced types

fn ty_enc(t: &T) -> String {
    match t {
        T::N(n) => format!("n{n};"),
        T::NN(inner) => match &**inner { T::N(n) => format!("N{n};"), T::L(x) => format!("L{}", ty_enc(x)), T::NN(x) => ty_enc(x) },
        T::L(x) => format!("l{}", ty_enc(x)),
    }
}

fn field_enc(f: &GField) -> String {
    let args: Vec<String> = f.args.iter().map(|a| format!("{}^{}^{}", a.name, a.ty.print(), if matches!(a.ty, T::NN(_)) && a.default.is_none() { "r" } else { "o" })).collect();
    format!("{}~{}~{}", f.name, ty_enc(&f.ty), args.join(","))
}

pub(crate) fn print_fields(fs: &[GField]) -> String {
    fs.iter().map(|f| {
        let a = if f.args.is_empty() { String::new() } else { format!("({})", f.args.iter().map(|a| format!("{}: {}{}", a.name, a.ty.print(), a.default.as_ref().map(|d| format!(" = {d}")).unwrap_or_default())).collect::<Vec<_>>().join(", ")) };
        format!("{}{}: {}", f.name, a, f.ty.print())
    }).collect::<Vec<_>>().join(" ")
}

/// diagnostics on line `line` (1-based); Err when a diagnostic sits elsewhere
fn count_on_lines(src: &str, lines: &[usize]) -> Result<Result<Vec<usize>, String>, String> {
    catch(|| match Schema::parse_and_validate(src, "s.graphql") {
        Ok(_) => Ok(vec![0; lines.len()]),
        Err(e) => {
            let mut c = vec![0; lines.len()];
            for d in e.errors.iter() {
                let Some(r) = d.line_column_range() else { return Err(format!("unexpected:no-location:{}", d.error)) };
                match lines.iter().position(|l| *l == r.start.line) { Some(i) => c[i] += 1, None => return Err(format!("unexpected:line{}:{}", r.start.line, d.error)) }
            }
            Ok(c)
        }
    })
}

fn implfields_case(ctx: &mut Ctx, ifaces: &[Vec<GField>], tfields: &[GField], t_is_interface: bool) { implfields_case_l(ctx, ifaces, tfields, t_is_interface, 0) }

/// `layout`: 0 = everything in the definition of `T`; 1 = `T`'s compared fields come from an extension of `T`;
/// 2 = the `implements` list comes from an extension of `T`; 3 = the interfaces' fields come from extensions of the
/// interfaces, written after `T`.  The model (and the specification) see the merged types only.
fn implfields_case_l(ctx: &mut Ctx, ifaces: &[Vec<GField>], tfields: &[GField], t_is_interface: bool, layout: usize) {
    let mut text = String::from("type Query { a: Int }\ninterface Node { id: ID }\ntype A implements Node { id: ID x: Int }\ntype B { y: Int }\nunion U = A | B\n");
    let mut subs = vec!["Node>A".to_string(), "U>A".to_string(), "U>B".to_string()];
    let mut tail = String::new();
    for (i, fs) in ifaces.iter().enumerate() {
        if layout == 3 && !fs.is_empty() {
            text.push_str(&format!("interface I{i} {{ {} }}\n", print_fields(&fs[..1])));
            // the first field stays in the definition (an interface needs one); the others arrive by extension
            if fs.len() > 1 { tail.push_str(&format!("extend interface I{i} {{ {} }}\n", print_fields(&fs[1..]))); }
        } else {
            text.push_str(&format!("interface I{i} {{ {} }}\n", print_fields(fs)));
        }
        subs.push(format!("I{i}>T"));
    }
    let mut tf: Vec<GField> = tfields.to_vec();
    tf.push(GField { name: "zz".into(), args: vec![], ty: T::n("Int"), dirs: vec![] });
    let t_line = 6 + ifaces.len();
    let imp: Vec<String> = (0..ifaces.len()).map(|i| format!("I{i}")).collect();
    let kw = if t_is_interface { "interface" } else { "type" };
    let mut lines = vec![t_line];
    match layout {
        1 if tf.len() > 1 => {
            let k = tf.len() - 1;
            text.push_str(&format!("{kw} T implements {} {{ {} }}\nextend {kw} T {{ {} }}\n", imp.join(" & "), print_fields(&tf[k..]), print_fields(&tf[..k])));
            lines.push(t_line + 1);
        }
        2 => {
            text.push_str(&format!("{kw} T {{ {} }}\nextend {kw} T implements {}\n", print_fields(&tf), imp.join(" & ")));
            lines.push(t_line + 1);
        }
        _ => text.push_str(&format!("{kw} T implements {} {{ {} }}\n", imp.join(" & "), print_fields(&tf))),
    }
    text.push_str(&tail);
    if layout > 0 { ctx.stat(&format!("implfields_layout:{layout}")); }
    if t_is_interface { ctx.stat("implfields_implementer_is_interface"); }
    let out = match count_on_lines(&text, &lines) {
        Err(p) => { ctx.fail("schema-validation-panic", &text, &p); "PANIC".to_string() }
        Ok(Err(u)) => u,
        Ok(Ok(c)) => c.iter().sum::<usize>().to_string(),
    };
    // layout 1 lists the fields as the merged type has them: definition first (zz), then the extension's
    if layout == 1 && tf.len() > 1 { let z = tf.pop().unwrap(); tf.insert(0, z); }
    let fe = |fs: &[GField]| fs.iter().map(field_enc).collect::<Vec<_>>().join("&");
    let ienc: Vec<String> = ifaces.iter().map(|fs| fe(fs)).collect();
    if out != "0" { ctx.nontrivial(&format!("if|{}|{}", fe(&tf), ienc.join("|"))); }
    ctx.stat(if out == "0" { "implfields_ok" } else { "implfields_err" });
    ctx.case("c14.implfields", &[enc(&subs.join(",")), enc(&fe(&tf)), enc(&ienc.join("|"))], &out);
    judge(ctx, &text, "stream-implfields");
}

fn kinds_case(ctx: &mut Ctx, x: &T, y: &T, y2: &T, z: &T, z2: &T, w: &str, w2: &str) {
    // `In!` inside `In` would add the (different) input-cycle diagnostic to that line
    let fix = |t: &T| if *t == T::n("In").nn() { T::n("In") } else { t.clone() };
    let (z, z2) = (&fix(z), &fix(z2));
    let text = format!("type Query {{ a: Int }}\nscalar S\ntype A {{ x: Int }}\ninterface I {{ x: Int }}\nunion U = A\nenum E {{ V }}\ninput N {{ x: Int }}\ntype T {{ f(a: {}): {} g: {} }}\ninput In {{ g: {} h: {} }}\nunion Un = {} | {}\n",
        x.print(), y.print(), y2.print(), z.print(), z2.print(), w, w2);
    let env = "Query:o,S:s,A:o,I:i,U:u,E:e,N:n,T:o,In:n,Un:u,Int:s,Float:s,String:s,Boolean:s,ID:s";
    let out = match count_on_lines(&text, &[8, 9, 10]) {
        Err(p) => { ctx.fail("schema-validation-panic", &text, &p); "PANIC".to_string() }
        Ok(Err(u)) => u,
        Ok(Ok(c)) => c.iter().map(|v| v.to_string()).collect::<Vec<_>>().join(","),
    };
    if out != "0,0,0" { ctx.nontrivial(&format!("ki|{text}")); }
    ctx.stat(if out == "0,0,0" { "kinds_ok" } else { "kinds_err" });
    ctx.case("c14.kinds", &[format!("={env}"), format!("={},{}", y.named(), y2.named()), format!("={}", x.named()), format!("={},{}", z.named(), z2.named()), format!("={w},{w2}")], &out);
    judge(ctx, &text, "stream-kinds");
}

pub(crate) fn wrap_all(n: &str) -> Vec<T> {
    vec![T::n(n), T::n(n).nn(), T::n(n).list(), T::n(n).list().nn(), T::n(n).nn().list(), T::n(n).nn().list().nn()]
}

fn streams2(ctx: &mut Ctx) {
    // every pair (interface field type, implementing field type) over 6 names x 6 wrapper shapes
    let names: &[&str] = if ctx.thorough { &["Int", "A", "B", "Node", "U", "T", "I0"] } else { &["Int", "A", "Node", "U", "T", "I0"] };
    let mut tys: Vec<T> = vec![];
    for n in names { tys.extend(wrap_all(n)); }
    if ctx.thorough { tys.push(T::n("A").list().list()); tys.push(T::n("Node").nn().list().nn().list()); }
    for a in &tys { for b in &tys {
        let f = |t: &T| GField { name: "f".into(), args: vec![], ty: t.clone(), dirs: vec![] };
        implfields_case(ctx, &[vec![f(a)]], &[f(b)], false);
    } }
    // the same pairs with an INTERFACE as the implementer (interface-implements-interface subtyping), over the
    // composite names, in rotating layouts (fields / implements list / interface fields supplied by extensions)
    let mut rot = 0usize;
    for a in &tys { for b in &tys {
        if !ctx.thorough && !(["A", "Node", "T", "I0"].contains(&a.named()) && ["A", "Node", "T", "I0"].contains(&b.named())) { continue; }
        let f = |t: &T| GField { name: "f".into(), args: vec![], ty: t.clone(), dirs: vec![] };
        let g = GField { name: "g".into(), args: vec![], ty: T::n("Int"), dirs: vec![] };
        rot += 1;
        implfields_case_l(ctx, &[vec![g.clone(), f(a)]], &[f(b), g.clone()], true, rot % 4);
    } }
    // arguments: every interface argument list over {a, b} against implementing variants
    let arg = |n: &str, t: T, d: Option<&str>| GIn { name: n.into(), ty: t, default: d.map(|s| s.to_string()), dirs: vec![] };
    let a_opts: Vec<Option<GIn>> = vec![None, Some(arg("a", T::n("Int"), None)), Some(arg("a", T::n("Int").nn(), None)), Some(arg("a", T::n("Int").list(), None)), Some(arg("a", T::n("String"), None)), Some(arg("a", T::n("Int"), Some("1")))];
    let b_opts: Vec<Option<GIn>> = vec![None, Some(arg("b", T::n("Int").nn().list(), None)), Some(arg("b", T::n("Int").list(), None))];
    let c_opts: Vec<Option<GIn>> = vec![None, Some(arg("c", T::n("Int"), None)), Some(arg("c", T::n("Int").nn(), None)), Some(arg("c", T::n("Int").nn(), Some("1"))), Some(arg("c", T::n("Int").nn().list().nn(), None))];
    for ia in &a_opts { for ib in &b_opts { for ta in &a_opts { for tb in &b_opts { for tc in &c_opts {
        let iargs: Vec<GIn> = [ia, ib].iter().filter_map(|x| (*x).clone()).collect();
        let mut targs: Vec<GIn> = [ta, tb, tc].iter().filter_map(|x| (*x).clone()).collect();
        if ctx.rng.chance(1, 2) { targs.reverse(); }
        let fi = GField { name: "f".into(), args: iargs, ty: T::n("Int"), dirs: vec![] };
        let ft = GField { name: "f".into(), args: targs, ty: T::n("Int"), dirs: vec![] };
        rot += 1;
        if rot % 3 == 0 { implfields_case_l(ctx, &[vec![fi.clone()]], &[ft.clone()], rot % 2 == 0, 1 + (rot / 3) % 2); }
        implfields_case(ctx, &[vec![fi]], &[ft], false);
    } } } } }
    // random: one or two interfaces, several fields, perturbed implementations (objects and interfaces)
    let n_rand = if ctx.thorough { 20_000 } else { 1_500 };
    for _ in 0..n_rand {
        let ni = 1 + ctx.rng.below(2);
        let fnames = ["f", "g", "h"];
        let mut ifaces: Vec<Vec<GField>> = vec![];
        let rand_ty = |r: &mut Rng, tys: &Vec<T>| tys[r.below(tys.len())].clone();
        let rand_args = |r: &mut Rng| -> Vec<GIn> { let mut v = vec![]; if r.chance(1, 3) { v.push(GIn { name: "a".into(), ty: if r.chance(1, 2) { T::n("Int") } else { T::n("Int").nn() }, default: None, dirs: vec![] }); } if r.chance(1, 4) { v.push(GIn { name: "b".into(), ty: T::n("String").list(), default: None, dirs: vec![] }); } v };
        for _ in 0..ni {
            let nf = 1 + ctx.rng.below(3);
            ifaces.push((0..nf).map(|k| GField { name: fnames[k].into(), args: rand_args(&mut ctx.rng), ty: rand_ty(&mut ctx.rng, &tys), dirs: vec![] }).collect());
        }
        let mut tf: Vec<GField> = vec![];
        for fs in &ifaces { for f in fs {
            if tf.iter().any(|g| g.name == f.name) { continue; }
            if ctx.rng.chance(1, 8) { continue; }
            let mut g = f.clone();
            match ctx.rng.below(8) {
                0 => g.ty = rand_ty(&mut ctx.rng, &tys),
                1 => g.ty = g.ty.clone().nn(),
                2 => { let n = match g.ty.named() { "Node" => "A", "U" => "B", "I0" => "T", x => x }.to_string(); g.ty.set_named(&n); }
                3 => { if !g.args.is_empty() { let k = ctx.rng.below(g.args.len()); g.args.remove(k); } }
                4 => g.args.push(GIn { name: "c".into(), ty: if ctx.rng.chance(1, 2) { T::n("Int").nn() } else { T::n("Int") }, default: if ctx.rng.chance(1, 3) { Some("2".into()) } else { None }, dirs: vec![] }),
                5 => { if let Some(a) = g.args.first_mut() { a.ty = if matches!(a.ty, T::NN(_)) { T::n("Int") } else { a.ty.clone().nn() }; } }
                _ => {}
            }
            tf.push(g);
        } }
        let as_iface = ctx.rng.chance(1, 4);
        let layout = if ctx.rng.chance(1, 2) { ctx.rng.below(4) } else { 0 };
        implfields_case_l(ctx, &ifaces, &tf, as_iface, layout);
    }
    // kinds of referenced types
    let pool = ["S", "A", "I", "U", "E", "N", "Undef", "Int", "Float", "T", "In", "Un"];
    for x in pool { for y in pool {
        let w2 = if y == "A" { "Query" } else { "A" };
        kinds_case(ctx, &T::n(x), &T::n(y), &T::n("Int"), &T::n(x), &T::n("Int"), y, w2);
    } }
    let n_rand = if ctx.thorough { 10_000 } else { 800 };
    for _ in 0..n_rand {
        let mut pick = |r: &mut Rng| { let n = *r.pick(&pool); let all = wrap_all(n); all[r.below(all.len())].clone() };
        let (x, y, y2, z, z2) = (pick(&mut ctx.rng), pick(&mut ctx.rng), pick(&mut ctx.rng), pick(&mut ctx.rng), pick(&mut ctx.rng));
        let w = *ctx.rng.pick(&pool); let mut w2 = *ctx.rng.pick(&pool);
        if w2 == w { w2 = if w == "A" { "Query" } else { "A" }; }
        kinds_case(ctx, &x, &y, &y2, &z, &z2, w, w2);
    }
}

// ---- directive applications at every type-system location

#[derive(Clone, Debug)]
struct DDef { repeatable: bool, locs: Vec<usize>, args: Vec<(usize, bool, bool)> } // (name, required, optional-by-default)
#[derive(Clone, Debug)]
struct DApp { name: usize, args: Vec<(usize, bool)> } // (name, is null)

const TS_LOC_NAMES: [&str; 11] = ["SCHEMA", "SCALAR", "OBJECT", "FIELD_DEFINITION", "ARGUMENT_DEFINITION", "INTERFACE", "UNION", "ENUM", "ENUM_VALUE", "INPUT_OBJECT", "INPUT_FIELD_DEFINITION"];
const EX_LOC_NAMES: [&str; 3] = ["FIELD", "QUERY", "FRAGMENT_SPREAD"];

/// number of textual layouts of the application site for a location (variant 0 = the plain definition)
const DIRAPPS_VARIANTS: [usize; 11] = [4, 4, 4, 4, 5, 4, 4, 3, 3, 3, 3];

/// The application site of `c14.dirapps` in one of several layouts that the model does not distinguish: the
/// applications sit on the definition, on an extension (after or before the definition), are split between the
/// definition and an extension (first application on the definition, the others on the extension), sit on a
/// member that an extension adds, on an interface instead of an object, on a later sibling, on the argument of a
/// directive definition, or on an extension of a built-in scalar.
fn dirapps_site(loc: usize, variant: usize, apps: &[String]) -> String {
    let a: String = apps.concat();
    let a1: String = apps.first().cloned().unwrap_or_default();
    let a2: String = apps.iter().skip(1).cloned().collect();
    // type-level sites: (keyword, name, body of the definition, what a bare definition needs instead of a body)
    let type_level = |kw: &str, name: &str, body: &str| -> String {
        match variant {
            0 => format!("{kw} {name}{a}{body}\n"),
            1 => if a.is_empty() { format!("{kw} {name}{body}\n") } else { format!("{kw} {name}{body}\nextend {kw} {name}{a}\n") },
            2 => if a2.is_empty() { format!("{kw} {name}{a1}{body}\n") } else { format!("{kw} {name}{a1}{body}\nextend {kw} {name}{a2}\n") },
            _ => if a.is_empty() { format!("{kw} {name}{body}\n") } else { format!("extend {kw} {name}{a}\n{kw} {name}{body}\n") },
        }
    };
    match loc {
        0 => match variant {
            0 => format!("schema{a} {{ query: Query }}\n"),
            1 => if a.is_empty() { "schema { query: Query }\n".to_string() } else { format!("schema {{ query: Query }}\nextend schema{a}\n") },
            2 => if a2.is_empty() { format!("schema{a1} {{ query: Query }}\n") } else { format!("schema{a1} {{ query: Query }}\nextend schema{a2}\n") },
            _ => if a.is_empty() { "schema { query: Query }\n".to_string() } else { format!("extend schema{a}\nschema {{ query: Query }}\n") },
        },
        1 => if variant == 3 { if a.is_empty() { "scalar S\n".to_string() } else { format!("extend scalar Int{a}\n") } } else { type_level("scalar", "S", "") },
        2 => type_level("type", "O", " { x: Int }"),
        3 => match variant {
            0 => format!("type O {{ x: Int{a} }}\n"),
            1 => format!("interface I {{ x: Int{a} }}\n"),
            2 => format!("type O {{ y: Int }}\nextend type O {{ x: Int{a} }}\n"),
            _ => format!("extend interface I {{ x: Int{a} }}\ninterface I {{ y: Int }}\n"),
        },
        4 => match variant {
            0 => format!("type O {{ x(p: Int{a}): Int }}\n"),
            1 => format!("interface I {{ x(p: Int{a}): Int }}\n"),
            2 => format!("directive @dd(o: Int, p: Int{a}) on QUERY\n"),
            3 => format!("type O {{ y: Int }}\nextend type O {{ x(p: Int{a}): Int }}\n"),
            _ => format!("type O {{ x(o: Int, p: Int{a}, q: Int): Int }}\n"),
        },
        5 => type_level("interface", "I", " { x: Int }"),
        6 => type_level("union", "U", " = Query"),
        7 => if variant >= 3 { format!("enum E{a} {{ V }}\n") } else { type_level("enum", "E", " { V }") },
        8 => match variant {
            0 => format!("enum E {{ V{a} }}\n"),
            1 => format!("enum E {{ V }}\nextend enum E {{ W{a} }}\n"),
            _ => format!("enum E {{ V W{a} X }}\n"),
        },
        9 => if variant >= 3 { format!("input N{a} {{ x: Int }}\n") } else { type_level("input", "N", " { x: Int }") },
        _ => match variant {
            0 => format!("input N {{ x: Int{a} }}\n"),
            1 => format!("input N {{ y: Int }}\nextend input N {{ x: Int{a} }}\n"),
            _ => format!("input N {{ y: Int x: Int{a} z: Int }}\n"),
        },
    }
}

fn dirapps_case(ctx: &mut Ctx, defs: &[DDef], loc: usize, apps: &[DApp]) { dirapps_case_v(ctx, defs, loc, apps, 0) }

fn dirapps_case_v(ctx: &mut Ctx, defs: &[DDef], loc: usize, apps: &[DApp], variant: usize) {
    let mut text = String::from("type Query { a: Int }\n");
    let mut denc = vec![];
    for (i, d) in defs.iter().enumerate() {
        let args: Vec<String> = d.args.iter().map(|(n, req, dflt)| format!("a{n}: {}", if *req { "Int!" } else if *dflt { "Int! = 1" } else { "Int" })).collect();
        let locs: Vec<&str> = d.locs.iter().map(|l| if *l < 11 { TS_LOC_NAMES[*l] } else { EX_LOC_NAMES[(*l - 100) % 3] }).collect();
        text.push_str(&format!("directive @d{i}{}{} on {}\n", if args.is_empty() { String::new() } else { format!("({})", args.join(", ")) }, if d.repeatable { " repeatable" } else { "" }, locs.join(" | ")));
        denc.push(format!("{}:{}:{}", if d.repeatable { "r" } else { "n" }, d.locs.iter().map(|l| l.to_string()).collect::<Vec<_>>().join(","), d.args.iter().map(|(n, r, _)| format!("{n}.{}", if *r { "r" } else { "o" })).collect::<Vec<_>>().join(",")));
    }
    let app_texts: Vec<String> = apps.iter().map(|a| {
        let args: Vec<String> = a.args.iter().map(|(n, null)| format!("a{n}: {}", if *null { "null" } else { "1" })).collect();
        format!(" @d{}{}", a.name, if args.is_empty() { String::new() } else { format!("({})", args.join(", ")) })
    }).collect();
    text.push_str(&dirapps_site(loc, variant, &app_texts));
    if variant > 0 { ctx.stat(&format!("dirapps_site_variant:{}:{variant}", TS_LOC_NAMES[loc])); }
    const KINDS: [&str; 6] = ["UniqueArgument", "UndefinedDirective", "UniqueDirective", "UnsupportedLocation", "UndefinedArgument", "RequiredArgument"];
    let out = match catch(|| match Schema::parse_and_validate(&text, "s.graphql") {
        Ok(_) => vec![],
        Err(e) => e.errors.iter().filter_map(|d| d.error.unstable_error_name()).filter(|n| KINDS.contains(n)).map(|n| n.to_string()).collect::<Vec<_>>(),
    }) {
        Err(p) => { ctx.fail("schema-validation-panic", &text, &p); "PANIC".to_string() }
        Ok(mut v) => { v.sort(); if v.is_empty() { "ok".to_string() } else { v.join(",") } }
    };
    let aenc: Vec<String> = apps.iter().map(|a| format!("{}:{}", a.name, a.args.iter().map(|(n, null)| format!("{n}.{}", if *null { "n" } else { "v" })).collect::<Vec<_>>().join(","))).collect();
    if out != "ok" { ctx.nontrivial(&format!("da|{}|{loc}|{}", denc.join("|"), aenc.join("|"))); }
    ctx.stat(if out == "ok" { "dirapps_ok" } else { "dirapps_err" });
    ctx.stat(&format!("dirapps_loc_{}", TS_LOC_NAMES[loc]));
    ctx.case("c14.dirapps", &[enc(&denc.join("|")), format!("={loc}"), enc(&aenc.join("|"))], &out);
    judge(ctx, &text, "stream-dirapps");
}

fn streams3(ctx: &mut Ctx) {
    // one definition @d0(a0: Int!, a1: Int), every location, allowed or not, repeatable or not, applied once or
    // twice, every small argument list over {a0, a0: null, a1, a1: null, a2 (undefined), a0 twice}
    let arg_lists: Vec<Vec<(usize, bool)>> = vec![vec![], vec![(0, false)], vec![(0, true)], vec![(1, false)], vec![(0, false), (1, true)], vec![(1, false), (0, false)],
        vec![(0, false), (2, false)], vec![(0, false), (0, false)], vec![(2, true)], vec![(0, false), (1, false), (1, false)]];
    for loc in 0..11usize {
        for allowed in [true, false] {
            for repeatable in [true, false] {
                let locs = if allowed { vec![loc, (loc + 3) % 11] } else { vec![(loc + 1) % 11, 100] };
                let def = DDef { repeatable, locs, args: vec![(0, true, false), (1, false, false)] };
                // the same site in every other layout (extension, split over definition + extension, member added by
                // an extension, interface instead of object, directive-definition argument, later sibling, built-in
                // scalar extension): quick = the four shortest argument lists, once / twice / mixed with an undefined one
                for variant in 1..DIRAPPS_VARIANTS[loc] {
                    for (i, al) in arg_lists.iter().enumerate() {
                        if i >= 4 && !ctx.thorough { continue; }
                        dirapps_case_v(ctx, &[def.clone()], loc, &[DApp { name: 0, args: al.clone() }], variant);
                        dirapps_case_v(ctx, &[def.clone()], loc, &[DApp { name: 0, args: vec![(0, false)] }, DApp { name: 0, args: al.clone() }], variant);
                        if i < 2 || ctx.thorough {
                            dirapps_case_v(ctx, &[def.clone()], loc, &[DApp { name: 0, args: vec![(0, false)] }, DApp { name: 1, args: al.clone() }], variant);
                            dirapps_case_v(ctx, &[def.clone()], loc, &[DApp { name: 1, args: vec![] }, DApp { name: 0, args: al.clone() }, DApp { name: 0, args: vec![(0, false)] }], variant);
                        }
                    }
                }
                for (i, al) in arg_lists.iter().enumerate() {
                    dirapps_case(ctx, &[def.clone()], loc, &[DApp { name: 0, args: al.clone() }]);
                    if i < 4 || ctx.thorough {
                        dirapps_case(ctx, &[def.clone()], loc, &[DApp { name: 0, args: al.clone() }, DApp { name: 0, args: vec![(0, false)] }]);
                        dirapps_case(ctx, &[def.clone()], loc, &[DApp { name: 0, args: vec![(0, false)] }, DApp { name: 1, args: al.clone() }, DApp { name: 0, args: al.clone() }]);
                    }
                }
            }
        }
    }
    let n_rand = if ctx.thorough { 30_000 } else { 2_500 };
    for _ in 0..n_rand {
        let nd = 1 + ctx.rng.below(3);
        let loc = ctx.rng.below(11);
        let defs: Vec<DDef> = (0..nd).map(|_| {
            let mut locs: Vec<usize> = vec![];
            if ctx.rng.chance(3, 4) { locs.push(loc); }
            for _ in 0..ctx.rng.below(3) { let l = if ctx.rng.chance(1, 5) { 100 + ctx.rng.below(3) } else { ctx.rng.below(11) }; if !locs.contains(&l) { locs.push(l); } }
            if locs.is_empty() { locs.push((loc + 1 + ctx.rng.below(10)) % 11); }
            let na = ctx.rng.below(4);
            DDef { repeatable: ctx.rng.chance(1, 2), locs, args: (0..na).map(|k| (k, ctx.rng.chance(1, 2), ctx.rng.chance(1, 3))).collect() }
        }).collect();
        let napp = 1 + ctx.rng.below(3);
        let apps: Vec<DApp> = (0..napp).map(|_| {
            let name = if ctx.rng.chance(1, 8) { nd } else { ctx.rng.below(nd) };
            let mut args: Vec<(usize, bool)> = vec![];
            if name < nd {
                for (k, req, _) in &defs[name].args { if ctx.rng.chance(if *req { 5 } else { 3 }, 6) { args.push((*k, ctx.rng.chance(1, 6))); } }
            }
            if ctx.rng.chance(1, 8) { args.push((7, false)); }
            if ctx.rng.chance(1, 8) && !args.is_empty() { let d = args[ctx.rng.below(args.len())]; args.push(d); }
            if ctx.rng.chance(1, 4) { args.reverse(); }
            DApp { name, args }
        }).collect();
        let variant = if ctx.rng.chance(1, 2) { ctx.rng.below(DIRAPPS_VARIANTS[loc]) } else { 0 };
        dirapps_case_v(ctx, &defs, loc, &apps, variant);
    }
}

#[allow(non_snake_case)]
fn REG_DIR_CASES() -> Vec<(Vec<Vec<DA>>, Vec<DT>)> {
    let a = |dirs: Vec<usize>, ty: Option<usize>| DA { dirs, ty };
    vec![
        (vec![vec![a(vec![0], None)]], vec![]),
        (vec![vec![a(vec![1], None)], vec![a(vec![0], None)]], vec![]),
        (vec![vec![a(vec![1], None)], vec![a(vec![1], None)]], vec![]),
        (vec![vec![a(vec![], Some(0))]], vec![DT { kind: 2, dirs: vec![], values: vec![], fields: vec![a(vec![0], None)] }]),
        (vec![vec![a(vec![], Some(0))]], vec![DT { kind: 2, dirs: vec![], values: vec![], fields: vec![a(vec![], Some(0)), a(vec![0], None)] }]),
        (vec![vec![a(vec![], Some(0))], vec![a(vec![], Some(0))]], vec![DT { kind: 2, dirs: vec![], values: vec![], fields: vec![a(vec![1], None), a(vec![0], None)] }]),
        (vec![vec![a(vec![], Some(0))]], vec![DT { kind: 1, dirs: vec![], values: vec![vec![], vec![0]], fields: vec![] }]),
        (vec![vec![a(vec![], Some(0))]], vec![DT { kind: 0, dirs: vec![0], values: vec![], fields: vec![] }]),
        (vec![vec![a(vec![], Some(0))], vec![]], vec![DT { kind: 2, dirs: vec![1], values: vec![], fields: vec![a(vec![], Some(1))] }, DT { kind: 1, dirs: vec![0], values: vec![], fields: vec![] }]),
    ]
}

// ---------------------------------------------------------------------------------------------
// growth 3: build-time rules, non-emptiness, reserved names, value coercion

/// one definition of a `c14.build` document: tag as in lean/Driver/D13.lean (S X D O F T<k> E<k>)
#[derive(Clone, Debug)]
struct BD { tag: char, kind: usize, name: String, ifaces: Vec<String>, members: Vec<String> }

const B_KIND_CH: [&str; 6] = ["s", "o", "i", "u", "e", "n"];
const B_KIND_KW: [&str; 6] = ["scalar", "type", "interface", "union", "enum", "input"];

fn bd_text(d: &BD) -> String {
    match d.tag {
        'S' | 'X' => {
            let ops: Vec<String> = d.members.iter().map(|op| format!("{op}: Query")).collect();
            let body = if ops.is_empty() { " @zz".to_string() } else { format!(" {{ {} }}", ops.join(" ")) };
            format!("{}schema{}", if d.tag == 'X' { "extend " } else { "" }, body)
        }
        'D' => format!("directive @{} on OBJECT", d.name),
        'O' => format!("query {} {{ a }}", d.name),
        'F' => format!("fragment {} on Query {{ a }}", d.name),
        _ => {
            let ext = d.tag == 'E';
            let mut t = format!("{}{} {}", if ext { "extend " } else { "" }, B_KIND_KW[d.kind], d.name);
            if !d.ifaces.is_empty() { t.push_str(&format!(" implements {}", d.ifaces.join(" & "))); }
            if d.members.is_empty() { if ext && d.ifaces.is_empty() { t.push_str(" @zz"); } }
            else {
                match d.kind {
                    3 => t.push_str(&format!(" = {}", d.members.join(" | "))),
                    4 => t.push_str(&format!(" {{ {} }}", d.members.join(" "))),
                    _ => t.push_str(&format!(" {{ {} }}", d.members.iter().map(|m| format!("{m}: Int")).collect::<Vec<_>>().join(" "))),
                }
            }
            t
        }
    }
}

fn backticked_parts(m: &str) -> Vec<String> { m.split('`').enumerate().filter(|(i, _)| i % 2 == 1).map(|(_, x)| x.trim_start_matches('@').to_string()).collect() }

/// the diagnostics of `SchemaBuilder::build`, in the vocabulary of `diagStr` (lean/Driver/D13.lean) without kinds
fn build_diag(m: &str) -> String {
    let b = backticked_parts(m);
    let g = |i: usize| b.get(i).cloned().unwrap_or_default();
    if m.starts_with("a schema document must not contain") { "exec".into() }
    else if m.starts_with("must not have multiple `schema`") { "schemacoll".into() }
    else if m.starts_with("the directive") { format!("dircoll({})", g(0)) }
    else if m.starts_with("the type") && m.contains("defined multiple times") { format!("typecoll({})", g(0)) }
    else if m.starts_with("built-in scalar definitions") { "builtinscalar".into() }
    else if m.starts_with("schema extension without") { "orphanschema".into() }
    else if m.starts_with("type extension for undefined type") { format!("orphantype({})", g(0)) }
    else if m.starts_with("adding ") { format!("mismatch({})", g(0)) }
    else if m.contains("root operation type") { format!("duproot({})", g(0)) }
    else if m.contains("more than once") { format!("dupiface({},{})", g(0), g(1)) }
    else if m.starts_with("duplicate definitions for the") { format!("dupmember({},{})", g(1), g(0)) }
    else { format!("other:{m}") }
}

fn build_case(ctx: &mut Ctx, ds: &[BD]) {
    let text: String = ds.iter().map(|d| bd_text(d) + "\n").collect();
    // the abstraction has no syntax: documents the parser rejects are not cases
    if ast::Document::parse(text.clone(), "s.graphql").is_err() { ctx.stat("build_skipped_syntax"); return; }
    let encd: Vec<String> = ds.iter().map(|d| {
        let tag = match d.tag { 'T' | 'E' => format!("{}{}", d.tag, B_KIND_CH[d.kind]), c => c.to_string() };
        format!("{tag},{},{},{}", d.name, d.ifaces.join("+"), d.members.join("+"))
    }).collect();
    let out = match catch(|| {
        let b = crate::p13::build_schema(&[text.clone()], false, false);
        let mut diags: Vec<String> = match &b.errors { Some(l) => l.iter().map(|d| build_diag(&d.error.to_string())).collect(), None => vec![] };
        diags.sort();
        // non-emptiness is a rule of validation; it is looked at only when the build reported nothing
        let mut empty: Vec<String> = vec![];
        if diags.is_empty() {
            if let Err(e) = Schema::parse_and_validate(text.clone(), "s.graphql") {
                for d in e.errors.iter() {
                    if matches!(d.error.unstable_error_name(), Some("EmptyFieldSet" | "EmptyValueSet" | "EmptyMemberSet" | "EmptyInputValueSet")) {
                        empty.push(backticked_parts(&d.error.to_string()).first().cloned().unwrap_or_default());
                    }
                }
            }
            empty.sort();
        }
        (diags, empty)
    }) {
        Err(p) => { ctx.fail("schema-validation-panic", &text, &p); "PANIC".to_string() }
        Ok((diags, empty)) => {
            for d in &diags { ctx.stat(&format!("build_diag:{}", d.split('(').next().unwrap_or("?"))); }
            if diags.is_empty() { ctx.stat("build_ok"); if !empty.is_empty() { ctx.stat("build_ok_with_empty_type"); } }
            if diags.len() == 1 { ctx.nontrivial(&format!("bd|{}", diags[0].split('(').next().unwrap_or("?"))); }
            if !empty.is_empty() { ctx.nontrivial(&format!("be|{}", empty.len())); }
            format!("E[{}]N[{}]", diags.join(" "), empty.join(" "))
        }
    };
    ctx.case("c14.build", &[enc(&encd.join(";"))], &out);
    judge(ctx, &text, "stream-build");
}

fn streams_build(ctx: &mut Ctx) {
    let t = |kind: usize, name: &str, ifaces: &[&str], members: &[&str]| BD { tag: 'T', kind, name: name.into(), ifaces: ifaces.iter().map(|s| s.to_string()).collect(), members: members.iter().map(|s| s.to_string()).collect() };
    let e = |kind: usize, name: &str, ifaces: &[&str], members: &[&str]| BD { tag: 'E', ..t(kind, name, ifaces, members) };
    let sch = |tag: char, ops: &[&str]| BD { tag, kind: 0, name: String::new(), ifaces: vec![], members: ops.iter().map(|s| s.to_string()).collect() };
    let other = |tag: char, name: &str| BD { tag, kind: 0, name: name.into(), ifaces: vec![], members: vec![] };
    let q = || t(1, "Query", &[], &["a"]);
    // directed cases: every rule alone, extension before / after its definition
    let fixed: Vec<Vec<BD>> = vec![
        vec![q()],
        vec![q(), t(1, "A", &[], &[])], vec![q(), t(1, "A", &[], &[]), e(1, "A", &[], &["x"])], vec![q(), e(1, "A", &[], &["x"]), t(1, "A", &[], &[])],
        vec![q(), t(2, "A", &[], &[])], vec![q(), t(3, "A", &[], &[])], vec![q(), t(3, "A", &[], &[]), e(3, "A", &[], &["Query"])],
        vec![q(), t(4, "A", &[], &[])], vec![q(), t(4, "A", &[], &[]), e(4, "A", &[], &["X"])], vec![q(), t(5, "A", &[], &[])], vec![q(), e(5, "A", &[], &["x"]), t(5, "A", &[], &[])],
        vec![q(), t(0, "A", &[], &[])],
        vec![q(), t(1, "A", &[], &["x"]), t(1, "A", &[], &["y"])], vec![q(), t(1, "A", &[], &["x"]), t(4, "A", &[], &["X"])],
        vec![q(), t(0, "Int", &[], &[])], vec![q(), t(1, "Int", &[], &["x"])], vec![q(), t(1, "__Type", &[], &["x"])], vec![q(), e(0, "Int", &[], &[])], vec![q(), e(1, "Int", &[], &["x"])],
        vec![q(), other('D', "d"), other('D', "d")], vec![q(), other('D', "skip")], vec![q(), other('D', "skip"), other('D', "skip")], vec![q(), other('D', "d"), other('D', "e")],
        vec![q(), sch('S', &["query"])], vec![q(), sch('S', &["query"]), sch('S', &["query"])], vec![q(), sch('S', &["query", "query"])], vec![q(), sch('S', &["query"]), sch('X', &["query"])],
        vec![q(), sch('X', &["mutation"])], vec![q(), sch('X', &["query"])], vec![t(1, "A", &[], &["x"]), sch('X', &["query"])], vec![t(1, "A", &[], &["x"]), sch('X', &[])],
        vec![q(), sch('X', &["mutation"]), sch('S', &["query", "mutation"])], vec![q(), sch('X', &["mutation"]), sch('S', &["query"]), sch('X', &["subscription"])],
        vec![q(), t(1, "Mutation", &[], &["x"]), sch('X', &["mutation"])],
        vec![q(), e(1, "A", &[], &["x"])], vec![q(), e(4, "A", &[], &["X"]), t(1, "A", &[], &["y"])], vec![q(), t(1, "A", &[], &["y"]), e(4, "A", &[], &["X"])],
        vec![q(), e(1, "A", &[], &["x"]), e(1, "A", &[], &["x"]), t(1, "A", &[], &["y"])], vec![q(), t(1, "A", &[], &["y"]), e(1, "A", &[], &["y"])],
        vec![q(), t(1, "A", &[], &["x", "x"])], vec![q(), t(4, "A", &[], &["X", "X"])], vec![q(), t(3, "A", &[], &["Query", "Query"])], vec![q(), t(5, "A", &[], &["x", "x"])],
        vec![q(), t(2, "I", &[], &["x"]), t(1, "A", &["I", "I"], &["x"])], vec![q(), t(2, "I", &[], &["x"]), t(1, "A", &["I"], &["x"]), e(1, "A", &["I"], &[])],
        vec![q(), t(2, "I", &[], &["x"]), t(2, "J", &["I", "I"], &["x"])],
        vec![q(), other('O', "Q")], vec![q(), other('F', "F")],
    ];
    for ds in &fixed { build_case(ctx, ds); }
    // a definition without members and an extension that adds none / adds one, in both orders, for every kind
    for k in 1..6usize {
        let m: &[&str] = match k { 3 => &["Query"], 4 => &["X"], _ => &["x"] };
        build_case(ctx, &[q(), t(k, "A", &[], &[]), e(k, "A", &[], &[])]);
        build_case(ctx, &[q(), e(k, "A", &[], &[]), t(k, "A", &[], &[])]);
        build_case(ctx, &[q(), t(k, "A", &[], &[]), e(k, "A", &[], &[]), e(k, "A", &[], m)]);
        build_case(ctx, &[q(), e(k, "A", &[], m), e(k, "A", &[], &[]), t(k, "A", &[], &[])]);
    }
    let names = ["A", "B", "Query", "Mutation", "Int", "__Type", "I"];
    let n = if ctx.thorough { 40_000 } else { 3_000 };
    for _ in 0..n {
        let len = 1 + ctx.rng.below(6);
        let mut ds: Vec<BD> = vec![];
        if ctx.rng.chance(3, 4) { ds.push(q()); }
        for _ in 0..len {
            let r = ctx.rng.below(20);
            let name = names[if ctx.rng.chance(2, 3) { ctx.rng.below(3) } else { ctx.rng.below(names.len()) }].to_string();
            let d = match r {
                0 => other('O', "Q"),
                1 => other('F', "F"),
                2 | 3 => other('D', *ctx.rng.pick(&["d", "e", "skip", "deprecated"])),
                4 | 5 => { let k = 1 + ctx.rng.below(3); let ops: Vec<&str> = (0..k).map(|_| *ctx.rng.pick(&["query", "mutation", "subscription", "query"])).collect(); sch('S', &ops[..if ctx.rng.chance(2, 3) { 1 } else { k }]) }
                6 | 7 => { let k = ctx.rng.below(3); let ops: Vec<&str> = (0..k).map(|_| *ctx.rng.pick(&["query", "mutation", "subscription"])).collect(); sch('X', &ops) }
                _ => {
                    let kind = if ctx.rng.chance(1, 2) { 1 } else { ctx.rng.below(6) };
                    let pool: &[&str] = match kind { 3 => &["Query", "A", "B"], 4 => &["X", "Y", "Z"], _ => &["x", "y", "z"] };
                    let nm = if kind == 0 { 0 } else { ctx.rng.below(3) };
                    let members: Vec<&str> = (0..nm).map(|_| *ctx.rng.pick(pool)).collect();
                    let ni = if kind == 1 || kind == 2 { if ctx.rng.chance(1, 3) { 1 + ctx.rng.below(2) } else { 0 } } else { 0 };
                    let ifs: Vec<&str> = (0..ni).map(|_| *ctx.rng.pick(&["I", "J"])).collect();
                    let mut d = t(kind, &name, &ifs, &members);
                    if ctx.rng.chance(2, 5) { d.tag = 'E'; }
                    d
                }
            };
            ds.push(d);
        }
        if ctx.rng.chance(1, 3) { let i = ctx.rng.below(ds.len()); let j = ctx.rng.below(ds.len()); ds.swap(i, j); }
        build_case(ctx, &ds);
    }
}

// ---- reserved names

#[derive(Clone, Debug)]
struct RField { name: String, args: Vec<String> }
#[derive(Clone, Debug)]
enum RMembers { None, Fields(Vec<RField>), Values(Vec<String>), Inputs(Vec<String>) }
#[derive(Clone, Debug)]
struct RType { kw: &'static str, name: String, extend_builtin: bool, members: RMembers }

fn reserved_case(ctx: &mut Ctx, dirs: &[(String, Vec<String>)], types: &[RType]) {
    let mut text = String::from("type Query { a: Int }\n");
    for (n, args) in dirs {
        let a = if args.is_empty() { String::new() } else { format!("({})", args.iter().map(|x| format!("{x}: Int")).collect::<Vec<_>>().join(", ")) };
        text.push_str(&format!("directive @{n}{a} on OBJECT\n"));
    }
    for t in types {
        let body = match &t.members {
            RMembers::None => if t.kw == "union" { " = Query".to_string() } else { String::new() },
            RMembers::Fields(fs) => format!(" {{ {} }}", fs.iter().map(|f| format!("{}{}: Int", f.name, if f.args.is_empty() { String::new() } else { format!("({})", f.args.iter().map(|x| format!("{x}: Int")).collect::<Vec<_>>().join(", ")) })).collect::<Vec<_>>().join(" ")),
            RMembers::Values(vs) => format!(" {{ {} }}", vs.join(" ")),
            RMembers::Inputs(fs) => format!(" {{ {} }}", fs.iter().map(|f| format!("{f}: Int")).collect::<Vec<_>>().join(" ")),
        };
        text.push_str(&format!("{}{} {}{}\n", if t.extend_builtin { "extend " } else { "" }, t.kw, t.name, body));
    }
    if ast::Document::parse(text.clone(), "s.graphql").is_err() { ctx.stat("reserved_skipped_syntax"); return; }
    let out = match catch(|| match Schema::parse_and_validate(text.clone(), "s.graphql") {
        Ok(_) => vec![],
        Err(e) => e.errors.iter().filter(|d| d.error.unstable_error_name() == Some("ReservedName")).map(|d| {
            let m = d.error.to_string();
            let site = if m.starts_with("a directive definition") { "directive" } else if m.starts_with("a field") { "field" } else if m.starts_with("an argument") { "argument" }
                else if m.starts_with("an enum value") { "enumValue" } else if m.starts_with("an input object field") { "inputField" } else if m.contains(" type cannot be named") { "type" } else { "?" };
            format!("{site}:{}", backticked_parts(&m).first().cloned().unwrap_or_default())
        }).collect::<Vec<_>>(),
    }) {
        Err(p) => { ctx.fail("schema-validation-panic", &text, &p); "PANIC".to_string() }
        Ok(mut v) => { v.sort(); for x in &v { ctx.stat(&format!("reserved_site:{}", x.split(':').next().unwrap_or("?"))); } if v.is_empty() { ctx.stat("reserved_none"); "ok".to_string() } else { ctx.nontrivial(&format!("rs|{}", v.join(","))); v.join(",") } }
    };
    // encoding: `<flag><name>` with flag 1 = the name is located in the built-in file
    let denc: Vec<String> = dirs.iter().map(|(n, a)| format!("0{n}/{}", a.iter().map(|x| format!("0{x}")).collect::<Vec<_>>().join("+"))).collect();
    let tenc: Vec<String> = types.iter().map(|t| {
        let flag = if t.extend_builtin { 1 } else { 0 };
        let m = match &t.members {
            RMembers::None => "n".to_string(),
            RMembers::Fields(fs) => format!("f{}", fs.iter().map(|f| format!("0{}~{}", f.name, f.args.iter().map(|x| format!("0{x}")).collect::<Vec<_>>().join("^"))).collect::<Vec<_>>().join("+")),
            RMembers::Values(vs) => format!("v{}", vs.iter().map(|x| format!("0{x}")).collect::<Vec<_>>().join("+")),
            RMembers::Inputs(fs) => format!("i{}", fs.iter().map(|x| format!("0{x}")).collect::<Vec<_>>().join("+")),
        };
        format!("{flag}{}/{m}", t.name)
    }).collect();
    // the built-in definitions are part of `schema.types` / `schema.directive_definitions` and are walked too
    let builtin_t = ["1__Schema/n", "1__Type/n", "1__TypeKind/n", "1__Field/n", "1__InputValue/n", "1__EnumValue/n", "1__Directive/n", "1__DirectiveLocation/n"];
    let mut all_t: Vec<String> = builtin_t.iter().map(|s| s.to_string()).collect();
    all_t.extend(tenc);
    ctx.case("c14.reserved", &[enc(&denc.join(";")), enc(&all_t.join(";"))], &out);
    judge(ctx, &text, "stream-reserved");
}

fn streams_reserved(ctx: &mut Ctx) {
    let pool = ["a", "b", "c", "d", "x", "y", "ab", "__a", "_a", "a__", "__", "___x", "_", "__typename", "__b", "a_b"];
    let n = if ctx.thorough { 12_000 } else { 1_200 };
    // directed: one reserved name at each site
    for site in 0..7 {
        let nm = |k: usize| if k == site { "__r".to_string() } else { format!("n{k}") };
        let dirs = vec![(nm(0), vec![nm(1)])];
        let types = vec![
            RType { kw: "type", name: nm(2), extend_builtin: false, members: RMembers::Fields(vec![RField { name: nm(3), args: vec![nm(4)] }]) },
            RType { kw: "enum", name: "E".into(), extend_builtin: false, members: RMembers::Values(vec![nm(5)]) },
            RType { kw: "input", name: "N".into(), extend_builtin: false, members: RMembers::Inputs(vec![nm(6)]) },
        ];
        reserved_case(ctx, &dirs, &types);
    }
    reserved_case(ctx, &[], &[RType { kw: "type", name: "__Type".into(), extend_builtin: true, members: RMembers::Fields(vec![RField { name: "__x".into(), args: vec!["__y".into()] }, RField { name: "ok".into(), args: vec![] }]) }]);
    reserved_case(ctx, &[], &[RType { kw: "enum", name: "__TypeKind".into(), extend_builtin: true, members: RMembers::Values(vec!["__V".into(), "W".into()]) }]);
    for _ in 0..n {
        let mut used: Vec<String> = vec!["Query".into()];
        let fresh = |ctx: &mut Ctx, used: &mut Vec<String>, cap: bool| -> Option<String> {
            for _ in 0..6 { let mut c = ctx.rng.pick(&pool).to_string(); if cap { c = c.replace('a', "T").replace('b', "U"); } if !used.contains(&c) { used.push(c.clone()); return Some(c); } }
            None
        };
        let mut dirs = vec![];
        let mut dnames: Vec<String> = vec![];
        for _ in 0..ctx.rng.below(3) {
            if let Some(n) = fresh(ctx, &mut dnames, false) {
                let mut an: Vec<String> = vec![];
                let args: Vec<String> = (0..ctx.rng.below(3)).filter_map(|_| fresh(ctx, &mut an, false)).collect();
                dirs.push((n, args));
            }
        }
        let mut types = vec![];
        for _ in 0..1 + ctx.rng.below(4) {
            let Some(name) = fresh(ctx, &mut used, true) else { continue };
            let k = ctx.rng.below(6);
            let mut local: Vec<String> = vec![];
            let t = match k {
                0 => RType { kw: "scalar", name, extend_builtin: false, members: RMembers::None },
                1 => RType { kw: "union", name, extend_builtin: false, members: RMembers::None },
                2 | 3 => {
                    let nf = 1 + ctx.rng.below(3);
                    let mut fs: Vec<RField> = vec![];
                    for _ in 0..nf {
                        let Some(n) = fresh(ctx, &mut local, false) else { continue };
                        let mut an: Vec<String> = vec![];
                        let na = ctx.rng.below(3);
                        let mut args = vec![];
                        for _ in 0..na { if let Some(a) = fresh(ctx, &mut an, false) { args.push(a); } }
                        fs.push(RField { name: n, args });
                    }
                    RType { kw: if k == 2 { "type" } else { "interface" }, name, extend_builtin: false, members: RMembers::Fields(fs) }
                }
                4 => { let vs: Vec<String> = (0..1 + ctx.rng.below(3)).filter_map(|_| fresh(ctx, &mut local, true)).collect(); RType { kw: "enum", name, extend_builtin: false, members: RMembers::Values(vs) } }
                _ => { let fs: Vec<String> = (0..1 + ctx.rng.below(3)).filter_map(|_| fresh(ctx, &mut local, false)).collect(); RType { kw: "input", name, extend_builtin: false, members: RMembers::Inputs(fs) } }
            };
            types.push(t);
        }
        reserved_case(ctx, &dirs, &types);
    }
}

// ---- value coercion (`value_of_correct_type` through directive arguments)

#[derive(Clone, Debug)]
enum VTy { Named(String), NonNullNamed(String), List(Box<VTy>), NonNullList(Box<VTy>) }
impl VTy {
    fn text(&self) -> String { match self { VTy::Named(n) => n.clone(), VTy::NonNullNamed(n) => format!("{n}!"), VTy::List(t) => format!("[{}]", t.text()), VTy::NonNullList(t) => format!("[{}]!", t.text()) } }
    fn toks(&self) -> String { match self { VTy::Named(n) => format!("N {n}"), VTy::NonNullNamed(n) => format!("M {n}"), VTy::List(t) => format!("L {}", t.toks()), VTy::NonNullList(t) => format!("K {}", t.toks()) } }
}
#[derive(Clone, Debug)]
enum VVal { Int(String), Float(String), Str, Bool, Null, Enum(String), Var(String), List(Vec<VVal>), Obj(Vec<(String, VVal)>) }
impl VVal {
    fn text(&self) -> String {
        match self {
            VVal::Int(s) | VVal::Float(s) => s.clone(), VVal::Str => "\"s\"".into(), VVal::Bool => "true".into(), VVal::Null => "null".into(),
            VVal::Enum(e) => e.clone(), VVal::Var(v) => format!("${v}"),
            VVal::List(xs) => format!("[{}]", xs.iter().map(|x| x.text()).collect::<Vec<_>>().join(", ")),
            VVal::Obj(fs) => format!("{{{}}}", fs.iter().map(|(n, x)| format!("{n}: {}", x.text())).collect::<Vec<_>>().join(", ")),
        }
    }
    fn toks(&self) -> String {
        match self {
            VVal::Int(s) => format!("i {s}"),
            VVal::Float(s) => format!("f {}", if s.parse::<f64>().is_ok_and(|f| f.is_finite()) { 1 } else { 0 }),
            VVal::Str => "s".into(), VVal::Bool => "b".into(), VVal::Null => "n".into(),
            VVal::Enum(e) => format!("e {e}"), VVal::Var(v) => format!("v {v}"),
            VVal::List(xs) => format!("l {}{}", xs.len(), xs.iter().map(|x| format!(" {}", x.toks())).collect::<String>()),
            VVal::Obj(fs) => format!("o {}{}", fs.len(), fs.iter().map(|(n, x)| format!(" {n} {}", x.toks())).collect::<String>()),
        }
    }
}

/// the fixed type environment of the stream: (name, definition text, encoding)
fn value_env() -> (String, String) {
    let text = "scalar S\nenum E { A B }\ninput I { a: Int! b: String = \"x\" c: [I!] d: S e: E f: Int! = 1 g: [Int] }\ninput J { i: I! s: [S!]! }\ninput R { r: R x: ID }\ntype O { x: Int }\n".to_string();
    let encd = "S=S0;E=E:A+B;I=I:a/M Int/0+b/N String/1+c/L M I/0+d/N S/0+e/N E/0+f/M Int/1+g/L N Int/0;J=I:i/M I/0+s/K M S/0;R=I:r/N R/0+x/N ID/0;O=O;Query=O".to_string();
    (text, encd)
}

const V_KINDS: [&str; 8] = ["UnsupportedValueType", "IntCoercionError", "FloatCoercionError", "UndefinedEnumValue", "UndefinedVariable", "UniqueInputValue", "UndefinedInputValue", "RequiredField"];

fn value_case(ctx: &mut Ctx, ty: &VTy, v: &VVal) {
    let (env, envenc) = value_env();
    let text = format!("{env}directive @d(arg: {}) on OBJECT\ntype Query @d(arg: {}) {{ a: Int }}\n", ty.text(), v.text());
    if ast::Document::parse(text.clone(), "s.graphql").is_err() { ctx.stat("values_skipped_syntax"); return; }
    let out = match catch(|| match Schema::parse_and_validate(text.clone(), "s.graphql") {
        Ok(_) => Ok(vec![]),
        Err(e) => {
            let mut v = vec![];
            for d in e.errors.iter() {
                match d.error.unstable_error_name() { Some(n) if V_KINDS.contains(&n) => v.push(n.to_string()), Some("InputType") | Some("RequiredArgument") => {} other => return Err(format!("unexpected diagnostic {other:?}: {}", d.error)) }
            }
            Ok(v)
        }
    }) {
        Err(p) => { ctx.fail("schema-validation-panic", &text, &p); "PANIC".to_string() }
        Ok(Err(m)) => { ctx.fail("harness-error:values-stream", &text, &m); "UNEXPECTED".to_string() }
        Ok(Ok(mut v)) => { v.sort(); for x in &v { ctx.stat(&format!("values_diag:{x}")); } if v.is_empty() { ctx.stat("values_ok"); "ok".to_string() } else { ctx.nontrivial(&format!("vd|{}|{}", ty.text(), v.join(","))); v.join(",") } }
    };
    ctx.case("c14.values", &[enc(&envenc), enc(&ty.toks()), enc(&v.toks())], &out);
    judge(ctx, &text, "stream-values");
}

fn gen_vty(ctx: &mut Ctx, depth: usize) -> VTy {
    let names = ["Int", "Float", "String", "Boolean", "ID", "S", "E", "I", "J", "R", "O"];
    if depth < 2 && ctx.rng.chance(1, 3) {
        let inner = Box::new(gen_vty(ctx, depth + 1));
        if ctx.rng.chance(1, 2) { VTy::List(inner) } else { VTy::NonNullList(inner) }
    } else {
        let n = if ctx.rng.chance(1, 12) { "O" } else { names[ctx.rng.below(names.len() - 1)] }.to_string();
        if ctx.rng.chance(1, 2) { VTy::Named(n) } else { VTy::NonNullNamed(n) }
    }
}

fn big_int(bits_minus: bool) -> String {
    // 2^1024 - 2^970 (the smallest integer that rounds to infinity) or one less, in decimal
    let mut digits: Vec<u32> = vec![1];
    let mul2 = |d: &mut Vec<u32>| { let mut c = 0; for x in d.iter_mut() { let v = *x * 2 + c; *x = v % 10; c = v / 10; } if c > 0 { d.push(c); } };
    let mut p970 = vec![];
    for i in 0..1024 { if i == 970 { p970 = digits.clone(); } mul2(&mut digits); }
    // digits = 2^1024 ; subtract p970
    let mut borrow = 0i64;
    for i in 0..digits.len() { let s = *p970.get(i).unwrap_or(&0) as i64 + borrow; let mut v = digits[i] as i64 - s; if v < 0 { v += 10; borrow = 1; } else { borrow = 0; } digits[i] = v as u32; }
    if bits_minus { let mut i = 0; loop { if digits[i] > 0 { digits[i] -= 1; break; } else { digits[i] = 9; i += 1; } } }
    while digits.last() == Some(&0) { digits.pop(); }
    digits.iter().rev().map(|d| char::from_digit(*d, 10).unwrap()).collect()
}

fn gen_vval(ctx: &mut Ctx, ty: Option<&VTy>, depth: usize) -> VVal {
    // half of the time a value shaped after the type, otherwise anything
    let shaped = ty.is_some() && ctx.rng.chance(3, 5);
    if shaped {
        let ty = ty.unwrap();
        match ty {
            VTy::List(t) | VTy::NonNullList(t) => {
                if ctx.rng.chance(1, 8) { return VVal::Null; }
                if ctx.rng.chance(1, 5) || depth > 3 { return gen_vval(ctx, Some(t), depth + 1); }
                let n = ctx.rng.below(3);
                return VVal::List((0..n).map(|_| gen_vval(ctx, Some(t), depth + 1)).collect());
            }
            VTy::Named(n) | VTy::NonNullNamed(n) => {
                if ctx.rng.chance(1, 10) { return VVal::Null; }
                return match n.as_str() {
                    "Int" => VVal::Int(ctx.rng.pick(&["0", "1", "-5", "2147483647", "2147483648", "-2147483648", "-2147483649"]).to_string()),
                    "Float" => if ctx.rng.chance(1, 2) { VVal::Float(ctx.rng.pick(&["1.5", "1e308", "1e309", "-1.7976931348623157e308", "1.7976931348623159e308", "0.0"]).to_string()) } else { VVal::Int(match ctx.rng.below(4) { 0 => big_int(true), 1 => big_int(false), 2 => "7".into(), _ => format!("-{}", big_int(false)) }) },
                    "String" => VVal::Str, "Boolean" => VVal::Bool, "ID" => if ctx.rng.chance(1, 2) { VVal::Str } else { VVal::Int("12".into()) },
                    "E" => VVal::Enum(ctx.rng.pick(&["A", "B", "C"]).to_string()),
                    "S" => gen_vval(ctx, None, depth + 1),
                    "I" | "J" | "R" if depth <= 3 => {
                        let fields: Vec<(&str, VTy)> = match n.as_str() {
                            "I" => vec![("a", VTy::NonNullNamed("Int".into())), ("b", VTy::Named("String".into())), ("c", VTy::List(Box::new(VTy::NonNullNamed("I".into())))), ("d", VTy::Named("S".into())), ("e", VTy::Named("E".into())), ("f", VTy::NonNullNamed("Int".into())), ("g", VTy::List(Box::new(VTy::Named("Int".into()))))],
                            "J" => vec![("i", VTy::NonNullNamed("I".into())), ("s", VTy::NonNullList(Box::new(VTy::NonNullNamed("S".into()))))],
                            _ => vec![("r", VTy::Named("R".into())), ("x", VTy::Named("ID".into()))],
                        };
                        let mut fs: Vec<(String, VVal)> = vec![];
                        for (fname, fty) in &fields {
                            let required = matches!(fty, VTy::NonNullNamed(_) | VTy::NonNullList(_)) && *fname != "f";
                            if ctx.rng.chance(if required { 7 } else { 2 }, 8) { let v = gen_vval(ctx, Some(fty), depth + 1); fs.push((fname.to_string(), v)); }
                        }
                        if ctx.rng.chance(1, 10) { fs.push(("zz".into(), VVal::Int("1".into()))); }
                        if ctx.rng.chance(1, 10) && !fs.is_empty() { let d = fs[ctx.rng.below(fs.len())].clone(); fs.push(d); }
                        if ctx.rng.chance(1, 4) { fs.reverse(); }
                        VVal::Obj(fs)
                    }
                    _ => VVal::Obj(vec![]),
                };
            }
        }
    }
    match ctx.rng.below(if depth > 3 { 7 } else { 10 }) {
        0 => VVal::Int(ctx.rng.pick(&["3", "2147483648", "-1"]).to_string()),
        1 => VVal::Float(ctx.rng.pick(&["2.5", "1e400"]).to_string()),
        2 => VVal::Str, 3 => VVal::Bool, 4 => VVal::Null,
        5 => VVal::Enum(ctx.rng.pick(&["A", "C"]).to_string()),
        6 => if ctx.rng.chance(1, 3) { VVal::Var("x".into()) } else { VVal::Str },
        7 | 8 => { let n = ctx.rng.below(3); VVal::List((0..n).map(|_| gen_vval(ctx, None, depth + 1)).collect()) }
        _ => { let n = ctx.rng.below(3); VVal::Obj((0..n).map(|_| (ctx.rng.pick(&["a", "b", "x"]).to_string(), gen_vval(ctx, None, depth + 1))).collect()) }
    }
}

fn streams_values(ctx: &mut Ctx) {
    let nn = |s: &str| VTy::NonNullNamed(s.into());
    let nm = |s: &str| VTy::Named(s.into());
    let int = |s: &str| VVal::Int(s.into());
    let obj = |fs: Vec<(&str, VVal)>| VVal::Obj(fs.into_iter().map(|(n, v)| (n.to_string(), v)).collect());
    let directed: Vec<(VTy, VVal)> = vec![
        (nm("Int"), int("2147483647")), (nm("Int"), int("2147483648")), (nm("Int"), int("-2147483648")), (nm("Int"), int("-2147483649")), (nm("Int"), VVal::Float("1.0".into())), (nm("Int"), VVal::Str),
        (nm("Float"), VVal::Int(big_int(true))), (nm("Float"), VVal::Int(big_int(false))), (nm("Float"), VVal::Float("1e309".into())), (nm("Float"), VVal::Float("1e308".into())),
        (nm("ID"), int("1")), (nm("ID"), VVal::Str), (nm("ID"), VVal::Float("1.0".into())), (nm("String"), int("1")), (nm("Boolean"), VVal::Bool), (nm("Boolean"), VVal::Str),
        (nn("Int"), VVal::Null), (nm("Int"), VVal::Null), (VTy::List(Box::new(nn("Int"))), VVal::List(vec![int("1"), VVal::Null])), (VTy::List(Box::new(nn("Int"))), VVal::Null), (VTy::NonNullList(Box::new(nm("Int"))), VVal::Null),
        (VTy::List(Box::new(nm("Int"))), int("1")), (VTy::List(Box::new(VTy::List(Box::new(nm("Int"))))), int("1")), (VTy::List(Box::new(VTy::List(Box::new(nm("Int"))))), VVal::List(vec![int("1")])), (nm("Int"), VVal::List(vec![int("1")])),
        (nm("E"), VVal::Enum("A".into())), (nm("E"), VVal::Enum("C".into())), (nm("E"), VVal::Str), (nm("Int"), VVal::Enum("A".into())),
        (nm("S"), VVal::List(vec![int("1"), VVal::Null, obj(vec![("a", int("1")), ("a", int("2"))])])), (nm("S"), obj(vec![("a", obj(vec![("b", int("1")), ("b", int("1"))]))])), (nm("S"), obj(vec![("a", VVal::Var("x".into()))])), (nm("S"), VVal::Var("x".into())), (nm("S"), VVal::Enum("Z".into())),
        (VTy::List(Box::new(nm("S"))), obj(vec![("a", int("1")), ("a", int("1"))])),
        (nm("I"), obj(vec![("a", int("1"))])), (nm("I"), obj(vec![])), (nm("I"), obj(vec![("a", VVal::Null)])), (nm("I"), obj(vec![("a", int("1")), ("f", VVal::Null)])), (nm("I"), obj(vec![("a", int("1")), ("zz", int("1")), ("yy", int("1"))])),
        (nm("I"), obj(vec![("a", int("1")), ("a", VVal::Str)])), (nm("I"), obj(vec![("a", VVal::Str), ("a", int("1"))])), (nm("I"), obj(vec![("a", int("1")), ("c", obj(vec![("a", int("1"))]))])), (nm("I"), obj(vec![("a", int("1")), ("c", VVal::List(vec![obj(vec![]), VVal::Null]))])),
        (nm("I"), int("1")), (nm("I"), VVal::List(vec![])), (nm("J"), obj(vec![("i", obj(vec![("a", int("1"))])), ("s", VVal::List(vec![int("1"), VVal::Null]))])), (nm("R"), obj(vec![("r", obj(vec![("r", obj(vec![("x", VVal::Bool)]))]))])),
        (nm("O"), VVal::Null), (nm("O"), int("1")), (VTy::List(Box::new(nm("O"))), VVal::List(vec![])), (nm("O"), obj(vec![])), (nm("Int"), VVal::Var("x".into())),
    ];
    for (t, v) in &directed { value_case(ctx, t, v); }
    // list literals given to a custom scalar are opaque (every constant is a value of `S`, nulls included, object
    // literals with unique fields); at a list-typed position the items are typed
    let lits: Vec<VVal> = vec![
        VVal::List(vec![VVal::Null]), VVal::List(vec![int("1"), VVal::Null]), VVal::List(vec![VVal::List(vec![VVal::Null])]),
        VVal::List(vec![obj(vec![("a", int("1")), ("a", int("2"))])]), obj(vec![("a", VVal::List(vec![VVal::Null]))]),
        VVal::List(vec![]), VVal::List(vec![VVal::List(vec![]), VVal::Str]),
    ];
    for ty in [nm("S"), nn("S"), VTy::List(Box::new(nm("S"))), VTy::List(Box::new(nn("S"))), VTy::NonNullList(Box::new(nn("S")))] {
        for v in &lits { value_case(ctx, &ty, v); }
    }
    let n = if ctx.thorough { 40_000 } else { 3_500 };
    for _ in 0..n {
        let ty = gen_vty(ctx, 0);
        let v = gen_vval(ctx, Some(&ty), 0);
        value_case(ctx, &ty, &v);
    }
}
