//! C10 — names, numeric literals, type references.
use crate::util::*;
use apollo_compiler::ast::{FloatValue, IntValue, Type};
use apollo_compiler::Name;

fn spec_name(s: &str) -> bool {
    let b = s.as_bytes();
    !b.is_empty() && (b[0] == b'_' || b[0].is_ascii_alphabetic()) && b[1..].iter().all(|c| *c == b'_' || c.is_ascii_alphanumeric())
}
/// IntegerPart of the October 2021 grammar, as a hand-rolled scanner returning the rest
fn scan_int(s: &[u8]) -> Option<&[u8]> {
    let s = if s.first() == Some(&b'-') { &s[1..] } else { s };
    match s.first()? {
        b'0' => Some(&s[1..]),
        b'1'..=b'9' => { let mut i = 1; while i < s.len() && s[i].is_ascii_digit() { i += 1; } Some(&s[i..]) }
        _ => None,
    }
}
fn spec_int(s: &str) -> bool { scan_int(s.as_bytes()).is_some_and(|r| r.is_empty()) }
fn spec_float(s: &str) -> bool {
    let Some(mut r) = scan_int(s.as_bytes()) else { return false };
    let mut frac = false; let mut exp = false;
    if r.first() == Some(&b'.') {
        let mut i = 1; while i < r.len() && r[i].is_ascii_digit() { i += 1; }
        if i == 1 { return false; }
        frac = true; r = &r[i..];
    }
    if matches!(r.first(), Some(b'e') | Some(b'E')) {
        let mut i = 1;
        if matches!(r.get(i), Some(b'+') | Some(b'-')) { i += 1; }
        let st = i; while i < r.len() && r[i].is_ascii_digit() { i += 1; }
        if i == st { return false; }
        exp = true; r = &r[i..];
    }
    r.is_empty() && (frac || exp)
}

fn json_str(s: &str) -> String { serde_json::to_string(s).unwrap() }

fn text_case(ctx: &mut Ctx, s: &str) {
    let n1 = Name::new(s).is_ok();
    let n2 = serde_json::from_str::<Name>(&json_str(s)).is_ok();
    let n3 = Name::is_valid_syntax(s);
    let i = serde_json::from_str::<IntValue>(&json_str(s)).is_ok();
    let f = serde_json::from_str::<FloatValue>(&json_str(s)).is_ok();
    if n1 != spec_name(s) || n2 != n1 || n3 != n1 { ctx.fail("name-vs-grammar", s, &format!("Name::new={n1} serde={n2} is_valid_syntax={n3} grammar={}", spec_name(s))); }
    // audit G2: every other way to create a Name from a string, and the owned-string path of the deserializers
    {
        let owned = s.to_string();
        let ways: [(&str, bool); 6] = [
            ("TryFrom<&str>", Name::try_from(s).is_ok()),
            ("TryFrom<String>", Name::try_from(owned.clone()).is_ok()),
            ("TryFrom<&String>", Name::try_from(&owned).is_ok()),
            ("TryFrom<Arc<str>>", Name::try_from(std::sync::Arc::<str>::from(s)).is_ok()),
            ("new_static", Name::new_static(Box::leak(owned.clone().into_boxed_str())).is_ok()),
            ("serde from_value", serde_json::from_value::<Name>(serde_json::Value::String(owned.clone())).is_ok()),
        ];
        for (way, ok) in ways { if ok != spec_name(s) { ctx.fail("name-vs-grammar", s, &format!("{way} ok={ok}, grammar={}", spec_name(s))); } }
        let iv = serde_json::from_value::<IntValue>(serde_json::Value::String(owned.clone())).is_ok();
        let fv = serde_json::from_value::<FloatValue>(serde_json::Value::String(owned)).is_ok();
        if iv != spec_int(s) { ctx.fail("int-literal-vs-grammar", s, &format!("IntValue deserialize (owned string) ok={iv}, grammar={}", spec_int(s))); }
        if fv != spec_float(s) { ctx.fail("float-literal-vs-grammar", s, &format!("FloatValue deserialize (owned string) ok={fv}, grammar={}", spec_float(s))); }
        // a created name is the string
        if let Ok(nm) = Name::new(s) { if nm.as_str() != s { ctx.fail("name-vs-grammar", s, &format!("Name::new gives {:?}", nm.as_str())); } }
    }
    if i != spec_int(s) { ctx.fail("int-literal-vs-grammar", s, &format!("IntValue deserialize ok={i}, grammar={}", spec_int(s))); }
    if f != spec_float(s) {
        let key = if s.ends_with(['e', 'E', '+', '-']) { "float-literal-empty-exponent" } else { "float-literal-vs-grammar" };
        ctx.fail(key, s, &format!("FloatValue deserialize ok={f}, grammar={}", spec_float(s)));
    }
    if n1 || i || f { ctx.nontrivial(s); }
    ctx.case("lit", &[enc(s)], &format!("{n1} {i} {f}"));
}

fn i32_case(ctx: &mut Ctx, v: i32) {
    let iv = IntValue::from(v);
    let text = iv.as_str().to_string();
    if !spec_int(&text) { ctx.fail("i32-invalid-literal", &v.to_string(), &text); }
    if iv.try_to_i32().ok() != Some(v) { ctx.fail("i32-roundtrip", &v.to_string(), &text); }
    // audit G2: an IntValue is also accepted where a Float is expected: the same number (every i32 is exact in f64)
    if iv.try_to_f64().ok().map(f64::to_bits) != Some((v as f64).to_bits()) { ctx.fail("i32-roundtrip", &v.to_string(), &format!("try_to_f64 of {text} = {:?}", iv.try_to_f64().ok())); }
    match apollo_compiler::ast::Value::from(v) {
        apollo_compiler::ast::Value::Int(i2) if i2.as_str() == text => {}
        other => ctx.fail("i32-roundtrip", &v.to_string(), &format!("Value::from(i32) = {other:?}")),
    }
    if text != v.to_string() || iv.to_string() != text { ctx.fail("i32-invalid-literal", &v.to_string(), &format!("as_str {text:?}, Display {:?}", iv.to_string())); }
    if serde_json::from_str::<IntValue>(&json_str(&text)).is_err() { ctx.fail("i32-invalid-literal", &v.to_string(), "not deserializable"); }
    ctx.nontrivial(&text);
    ctx.case("i32", &[v.to_string()], &text);
}

fn rust_f64_display_shape(t: &str) -> bool {
    // optional '-', integer part without superfluous zeros, optional '.' digits+
    let Some(r) = scan_int(t.as_bytes()) else { return false };
    if r.is_empty() { return true; }
    r[0] == b'.' && r.len() > 1 && r[1..].iter().all(|c| c.is_ascii_digit())
}

fn f64_case(ctx: &mut Ctx, v: f64) {
    if !v.is_finite() { return; }
    let shown = v.to_string();
    if !rust_f64_display_shape(&shown) { ctx.fail("f64-display-shape-hypothesis", &format!("{:#x}", v.to_bits()), &shown); }
    let fv = match catch(|| FloatValue::from(v)) { Ok(f) => f, Err(p) => { ctx.fail("f64-panic", &shown, &p); return; } };
    let text = fv.as_str().to_string();
    if !spec_float(&text) { ctx.fail("f64-invalid-literal", &shown, &text); }
    // audit G2: the value constructors built on it, and the text the document printer writes for the value
    match catch(|| apollo_compiler::ast::Value::from(v)) {
        Ok(apollo_compiler::ast::Value::Float(f2)) if f2.as_str() == text => {}
        Ok(other) => ctx.fail("f64-roundtrip", &shown, &format!("Value::from(f64) = {other:?}, FloatValue::from(f64) = {text}")),
        Err(p) => ctx.fail("f64-panic", &shown, &p),
    }
    if fv.to_string() != text || apollo_compiler::ast::Value::Float(fv.clone()).serialize().no_indent().to_string() != text { ctx.fail("f64-invalid-literal", &shown, &format!("Display {:?} / serialized value differ from as_str {text:?}", fv.to_string())); }
    match fv.try_to_f64() {
        Ok(back) if back.to_bits() == v.to_bits() || (back == v && v == 0.0 && back.is_sign_negative() == v.is_sign_negative()) => {}
        other => ctx.fail("f64-roundtrip", &shown, &format!("{other:?}")),
    }
    if serde_json::from_str::<FloatValue>(&json_str(&text)).is_err() { ctx.fail("f64-invalid-literal", &shown, "not deserializable"); }
    // positional printing of huge/tiny values gives very long cases; the model only needs the text
    if shown.len() <= 40 {
        ctx.nontrivial(&text);
        ctx.case("f64fix", &[enc(&shown)], &text);
    } else { ctx.stat("f64_long_texts_oracle_only"); }
}

fn nesting(t: &Type) -> usize { match t { Type::Named(_) | Type::NonNullNamed(_) => 0, Type::List(i) | Type::NonNullList(i) => 1 + nesting(i) } }

/// Display → Type::parse, compared with the model pipeline (tyText → lexer → parse_type → reference parser)
fn type_case(ctx: &mut Ctx, t: &Type) {
    let printed = t.to_string();
    let depth = nesting(t);
    let res = catch(|| Type::parse(&printed, "t.graphql"));
    let out = match &res {
        Err(p) => { ctx.fail("type-parse-panic", &printed, p); format!("{printed} PANIC -") }
        Ok(Ok(back)) => format!("{printed} ok {}", crate::p29::enc_ty(back)),
        Ok(Err(_)) => format!("{printed} err -"),
    };
    // the property itself, up to a bounded nesting depth (the recursion limit of the parser is 500)
    if depth <= 400 {
        match &res {
            Ok(Ok(back)) if back == t => {}
            Ok(Ok(back)) => ctx.fail("type-roundtrip", &printed, &format!("parsed back as {back}")),
            Ok(Err(e)) => ctx.fail("type-roundtrip", &printed, &format!("does not parse: {}", e.to_string().lines().next().unwrap_or(""))),
            Err(_) => {}
        }
    } else { ctx.stat("types_beyond_oracle_depth"); }
    ctx.stat(&format!("type_depth_{}", match depth { 0 => "0", 1..=7 => "1-7", 8..=99 => "8-99", 100..=400 => "100-400", _ => "over400" }));
    ctx.nontrivial(&printed);
    ctx.case("typert", &[crate::p29::enc_ty(t)], &out);
}

fn type_cases(ctx: &mut Ctx) {
    let depth = if ctx.thorough { 7 } else { 6 };
    let types = crate::p29::all_types(depth, &["A", "b_1"]);
    ctx.stat_n("types_enumerated", types.len() as u64);
    for t in &types {
        let printed = t.to_string();
        ctx.case("typrint", &[crate::p29::enc_ty(t)], &printed);
        type_case(ctx, t);
    }
    // random deep types over several names, and nesting around the parser's recursion limit
    let names = ["A", "b_1", "_", "Query", "x9", "__typename", "on", "null", "Z_"];
    let wrap = |r: &mut Rng, d: usize| -> Type {
        let n = Name::new(*r.pick(&names)).unwrap();
        let mut t = if r.chance(1, 2) { Type::Named(n) } else { Type::NonNullNamed(n) };
        for _ in 0..d { t = if r.chance(1, 2) { Type::List(Box::new(t)) } else { Type::NonNullList(Box::new(t)) }; }
        t
    };
    let n = if ctx.thorough { 20_000 } else { 2_000 };
    for _ in 0..n { let d = match ctx.rng.below(10) { 0..=5 => ctx.rng.below(12), 6..=8 => 8 + ctx.rng.below(60), _ => 60 + ctx.rng.below(200) }; let t = wrap(&mut ctx.rng, d); type_case(ctx, &t); }
    for d in [398usize, 400, 498, 499, 500, 501, 502, 520] { let t = wrap(&mut ctx.rng, d); type_case(ctx, &t); }
    // audit G2: every keyword-like name under every wrapper shape; and every enumerated type at the places of a document
    // that hold a type reference (printed by the document serializer, read back by the document parser)
    let keywords = ["query", "mutation", "subscription", "fragment", "on", "true", "false", "null", "schema", "extend", "scalar", "type", "interface", "implements", "union", "enum", "input", "directive", "repeatable",
        "Int", "String", "__Type", "_", "a", "Z9_", "x".repeat(300).as_str()].map(|s| s.to_string());
    let mut n = 0u64;
    for k in &keywords {
        for t in crate::p29::all_types(2, &[k.as_str()]) { type_case(ctx, &t); type_doc_case(ctx, &t); n += 1; }
    }
    ctx.stat_n("types_keyword_names", n);
    for t in &types { if nesting(t) <= 4 { type_doc_case(ctx, t); } }
    for d in [5usize, 17, 60] { let t = wrap(&mut ctx.rng, d); type_doc_case(ctx, &t); }
}

/// a type reference at every place of a document that holds one: Display of the whole document, parsed back
fn type_doc_case(ctx: &mut Ctx, t: &Type) {
    use apollo_compiler::ast;
    let p = t.to_string();
    let src = format!("type T {{ f(a: {p}): {p} }} interface J {{ h: {p} }} input I {{ g: {p} }} directive @d(x: {p}) on FIELD extend type T {{ e(b: {p} = null): {p} }} query($v: {p}, $w: {p} = null @d) {{ f }}");
    fn collect(doc: &ast::Document) -> Vec<Type> {
        let mut out = vec![];
        let fds = |fs: &Vec<apollo_compiler::Node<ast::FieldDefinition>>, out: &mut Vec<Type>| for f in fs { for a in &f.arguments { out.push((*a.ty).clone()); } out.push(f.ty.clone()); };
        for def in &doc.definitions {
            match def {
                ast::Definition::ObjectTypeDefinition(x) => fds(&x.fields, &mut out),
                ast::Definition::ObjectTypeExtension(x) => fds(&x.fields, &mut out),
                ast::Definition::InterfaceTypeDefinition(x) => fds(&x.fields, &mut out),
                ast::Definition::InputObjectTypeDefinition(x) => for f in &x.fields { out.push((*f.ty).clone()); },
                ast::Definition::DirectiveDefinition(x) => for a in &x.arguments { out.push((*a.ty).clone()); },
                ast::Definition::OperationDefinition(x) => for v in &x.variables { out.push((*v.ty).clone()); },
                _ => {}
            }
        }
        out
    }
    let first = match catch(|| ast::Document::parse(src.clone(), "t.graphql")) { Ok(Ok(d)) => d, Ok(Err(e)) => { ctx.fail("type-roundtrip", &p, &format!("in a document: does not parse: {}", e.errors.to_string().lines().next().unwrap_or(""))); return } Err(m) => { ctx.fail("type-parse-panic", &p, &m); return } };
    let a = collect(&first);
    if a.len() != 9 || a.iter().any(|x| x != t) { ctx.fail("type-roundtrip", &p, &format!("in a document: 9 type references written, read {:?}", a.iter().map(|x| x.to_string()).collect::<Vec<_>>())); }
    // now through the serializer (Display for Type inside the document printer), both layouts
    for text in [first.to_string(), first.serialize().no_indent().to_string()] {
        match catch(|| ast::Document::parse(text.clone(), "t2.graphql")) {
            Ok(Ok(d)) => { let b = collect(&d); if b.len() != 9 || b.iter().any(|x| x != t) { ctx.fail("type-roundtrip", &p, &format!("printed in a document as {text:?}, read back {:?}", b.iter().map(|x| x.to_string()).collect::<Vec<_>>())); } }
            Ok(Err(_)) => ctx.fail("type-roundtrip", &p, &format!("printed document does not parse: {text:?}")),
            Err(m) => ctx.fail("type-parse-panic", &text, &m),
        }
    }
    ctx.stat("types_in_document_positions");
}

/// `try_to_i32` on texts with IntValue syntax, against an independent wide-integer evaluation
fn i32parse_case(ctx: &mut Ctx, text: &str) {
    if !spec_int(text) { return; }
    let Ok(iv) = serde_json::from_str::<IntValue>(&json_str(text)) else { ctx.fail("int-literal-vs-grammar", text, "valid IntValue text not deserializable"); return };
    let got = iv.try_to_i32().ok();
    // independent: sign and digits by hand, in i128 with saturation
    let (neg, digits) = match text.strip_prefix('-') { Some(d) => (true, d), None => (false, text) };
    let mut v: i128 = 0;
    for b in digits.bytes() { v = (v * 10 + (b - b'0') as i128).min(1 << 100); }
    if neg { v = -v; }
    let want = if v >= i32::MIN as i128 && v <= i32::MAX as i128 { Some(v as i32) } else { None };
    if got != want { ctx.fail("int-try-to-i32", text, &format!("try_to_i32 = {got:?}, value fits i32: {want:?}")); }
    ctx.stat(if got.is_some() { "i32parse_ok" } else { "i32parse_overflow" });
    ctx.nontrivial(text);
    ctx.case("i32parse", &[enc(text)], &match got { Some(v) => format!("ok:{v}"), None => "err".to_string() });
}

fn i32parse_cases(ctx: &mut Ctx) {
    for t in ["0", "-0", "1", "-1", "9", "10", "2147483647", "2147483648", "-2147483648", "-2147483649", "2147483646", "-2147483647",
        "4294967296", "-4294967296", "9223372036854775807", "9223372036854775808", "99999999999999999999999999999999", "-99999999999999999999999999999999", "1000000000", "999999999", "-1000000000"] { i32parse_case(ctx, t); }
    let mut p: i64 = 1;
    for _ in 0..12 { for d in [-1i64, 0, 1] { i32parse_case(ctx, &(p + d).to_string()); i32parse_case(ctx, &(-(p + d)).to_string()); } p *= 10; }
    let n = if ctx.thorough { 300_000 } else { 30_000 };
    for _ in 0..n {
        let len = 1 + ctx.rng.below(13);
        let mut s = String::new();
        if ctx.rng.chance(1, 2) { s.push('-'); }
        for i in 0..len { let d = if i == 0 && len > 1 { 1 + ctx.rng.below(9) } else { ctx.rng.below(10) }; s.push((b'0' + d as u8) as char); }
        i32parse_case(ctx, &s);
        // around the i32 boundaries
        let v = (ctx.rng.next() as i32) as i64 + [0i64, i32::MAX as i64, -(i32::MAX as i64)][ctx.rng.below(3)];
        i32parse_case(ctx, &v.to_string());
    }
}

/// the classes of finite f64 the stream is meant to cover (counted in the evidence)
fn f64_classes(ctx: &mut Ctx) {
    // signed zeros, extremes
    for v in [0.0f64, -0.0, f64::MAX, f64::MIN, f64::MIN_POSITIVE, -f64::MIN_POSITIVE, 5e-324, -5e-324, f64::EPSILON, 1.0 + f64::EPSILON] { ctx.stat("f64_class:special"); f64_case(ctx, v); }
    // every power of two, normal and subnormal, and its neighbours
    for e in -1074..=1023i32 {
        let v = 2f64.powi(e);
        ctx.stat(if e < -1022 { "f64_class:subnormal_power_of_two" } else { "f64_class:power_of_two" });
        f64_case(ctx, v); f64_case(ctx, -v);
        f64_case(ctx, f64::from_bits(v.to_bits() + 1)); f64_case(ctx, f64::from_bits(v.to_bits().saturating_sub(1)));
    }
    // every power of ten that is finite
    for e in -323..=308i32 { ctx.stat("f64_class:power_of_ten"); let v: f64 = format!("1e{e}").parse().unwrap(); f64_case(ctx, v); f64_case(ctx, -v); f64_case(ctx, v * 3.0); }
    // random subnormals
    let n = if ctx.thorough { 100_000 } else { 10_000 };
    for _ in 0..n { ctx.stat("f64_class:random_subnormal"); let bits = ctx.rng.next() & ((1u64 << 52) - 1); let neg = ctx.rng.chance(1, 2); f64_case(ctx, f64::from_bits(bits | if neg { 1 << 63 } else { 0 })); }
    // what the constructor does with non-finite input: not part of the property (finite f64 only); recorded
    for v in [f64::NAN, f64::INFINITY, f64::NEG_INFINITY] {
        match catch(|| FloatValue::from(v)) {
            Err(_) => ctx.stat("f64_nonfinite:constructor_panics_debug_assert"),
            Ok(fv) => { ctx.stat("f64_nonfinite:constructed"); if fv.try_to_f64().is_ok() { ctx.stat("f64_nonfinite:converts_back"); } }
        }
    }
}

pub fn run(ctx: &mut Ctx) {
    let alphabet = ["_", "a", "Z", "0", "9", "-", "+", ".", "e", "E", "é"];
    let k = if ctx.thorough { 6 } else { 5 };
    let mut all = vec![];
    for_all_strings(&alphabet, k, |s| all.push(s.to_string()));
    for s in &all { text_case(ctx, s); }
    // audit G2: every character on its own, first, last, in the middle, after a sign / point / exponent mark
    let mut n = 0u64;
    for c in crate::p03::sweep_chars() {
        for s in [format!("{c}"), format!("{c}a"), format!("a{c}"), format!("a{c}a"), format!("_{c}"), format!("{c}1"), format!("{c}_"), format!("{c}{c}"),
            format!("-{c}"), format!("1{c}"), format!("{c}0"), format!("1{c}5"), format!("1.{c}"), format!("1.5{c}"), format!("1.{c}5"), format!("1e{c}"), format!("1e+{c}"), format!("1e5{c}"), format!("1e{c}5"), format!("1.5e-{c}"), format!("{c}.5"), format!("{c}e5")] {
            text_case(ctx, &s); n += 1;
        }
    }
    ctx.stat_n("sweep_char_texts", n);
    // every ASCII pair as a two-character text
    for a in 0u8..128 { for b in 0u8..128 { text_case(ctx, &format!("{}{}", a as char, b as char)); } }
    ctx.stat_n("ascii_pair_texts", 128 * 128);
    let nums = crate::p03::number_family(&["", " ", "a", "e", ".", "0", "-", "+", "é", "\n"]);
    ctx.stat_n("number_family_texts", nums.len() as u64);
    for s in &nums { text_case(ctx, s); }
    // longer near-valid numeric literals
    let n = if ctx.thorough { 300_000 } else { 30_000 };
    let pieces = ["-", "0", "1", "9", "12", ".", ".5", "e", "E", "+", "-", "e10", "E-3", "e+", "007", "a", "_", "é", " "];
    for _ in 0..n {
        let len = 1 + ctx.rng.below(6);
        let s: String = (0..len).map(|_| *ctx.rng.pick(&pieces)).collect();
        text_case(ctx, &s);
    }
    for v in [0, 1, -1, 9, 10, -10, 99, 100, i32::MAX, i32::MIN, i32::MAX - 1, i32::MIN + 1, 1_000_000_000, -1_000_000_000] { i32_case(ctx, v); }
    let n = if ctx.thorough { 1_000_000 } else { 100_000 };
    for _ in 0..n { let v = ctx.rng.next() as i32; let sh = ctx.rng.below(32) as u32; i32_case(ctx, v >> sh); }
    for v in [0.0, -0.0, 1.0, -1.0, 0.1, 0.5, 1e15, 1e16, 1e17, 1e21, 1e22, 1e300, f64::MAX, f64::MIN, f64::MIN_POSITIVE, 5e-324, 1e-7, 123456.789, 2f64.powi(53), 2f64.powi(53) + 2.0, 0.30000000000000004] { f64_case(ctx, v); }
    for _ in 0..n {
        let bits = ctx.rng.next();
        ctx.stat("f64_class:random_bits");
        f64_case(ctx, f64::from_bits(bits));
        // moderate magnitudes: short decimal texts
        let m = (ctx.rng.next() % 2_000_000) as f64 / [1.0, 10.0, 100.0, 1000.0, 8.0, 3.0][ctx.rng.below(6)];
        let neg = ctx.rng.chance(1, 2);
        f64_case(ctx, if neg { -m } else { m });
    }
    f64_classes(ctx);
    i32parse_cases(ctx);
    type_cases(ctx);
}
