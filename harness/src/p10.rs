//! C10 — names, numeric literals, type references.
use crate::util::*;
use apollo_compiler::ast::{FloatValue, IntValue, Type};
use apollo_compiler::Name;

fn spec_name(s: &str) -> bool {
    let b = s.as_bytes();
    !b.is_empty() && (b[0] == b'_' || b[0].is_ascii_alphabetic()) && b[1..].iter().all(|c| *c == b'_' || c.is_ascii_alphanumeric())
}
/// IntegerPart of the October 2021 grammar, as a hand-rolled scanner returning the rest
fn scan_int(s: &[u8]) -> Option<&[u8]> {
    let s = if s.first() == Some(&b'-') { &s[1..] } else { s };
    match s.first()? {
        b'0' => Some(&s[1..]),
        b'1'..=b'9' => { let mut i = 1; while i < s.len() && s[i].is_ascii_digit() { i += 1; } Some(&s[i..]) }
        _ => None,
    }
}
fn spec_int(s: &str) -> bool { scan_int(s.as_bytes()).is_some_and(|r| r.is_empty()) }
fn spec_float(s: &str) -> bool {
    let Some(mut r) = scan_int(s.as_bytes()) else { return false };
    let mut frac = false; let mut exp = false;
    if r.first() == Some(&b'.') {
        let mut i = 1; while i < r.len() && r[i].is_ascii_digit() { i += 1; }
        if i == 1 { return false; }
        frac = true; r = &r[i..];
    }
    if matches!(r.first(), Some(b'e') | Some(b'E')) {
        let mut i = 1;
        if matches!(r.get(i), Some(b'+') | Some(b'-')) { i += 1; }
        let st = i; while i < r.len() && r[i].is_ascii_digit() { i += 1; }
        if i == st { return false; }
        exp = true; r = &r[i..];
    }
    r.is_empty() && (frac || exp)
}

fn json_str(s: &str) -> String { serde_json::to_string(s).unwrap() }

fn text_case(ctx: &mut Ctx, s: &str) {
    let n1 = Name::new(s).is_ok();
    let n2 = serde_json::from_str::<Name>(&json_str(s)).is_ok();
    let n3 = Name::is_valid_syntax(s);
    let i = serde_json::from_str::<IntValue>(&json_str(s)).is_ok();
    let f = serde_json::from_str::<FloatValue>(&json_str(s)).is_ok();
    if n1 != spec_name(s) || n2 != n1 || n3 != n1 { ctx.fail("name-vs-grammar", s, &format!("Name::new={n1} serde={n2} is_valid_syntax={n3} grammar={}", spec_name(s))); }
    if i != spec_int(s) { ctx.fail("int-literal-vs-grammar", s, &format!("IntValue deserialize ok={i}, grammar={}", spec_int(s))); }
    if f != spec_float(s) {
        let key = if s.ends_with(['e', 'E', '+', '-']) { "float-literal-empty-exponent" } else { "float-literal-vs-grammar" };
        ctx.fail(key, s, &format!("FloatValue deserialize ok={f}, grammar={}", spec_float(s)));
    }
    if n1 || i || f { ctx.nontrivial(s); }
    ctx.case("lit", &[enc(s)], &format!("{n1} {i} {f}"));
}

fn i32_case(ctx: &mut Ctx, v: i32) {
    let iv = IntValue::from(v);
    let text = iv.as_str().to_string();
    if !spec_int(&text) { ctx.fail("i32-invalid-literal", &v.to_string(), &text); }
    if iv.try_to_i32().ok() != Some(v) { ctx.fail("i32-roundtrip", &v.to_string(), &text); }
    if serde_json::from_str::<IntValue>(&json_str(&text)).is_err() { ctx.fail("i32-invalid-literal", &v.to_string(), "not deserializable"); }
    ctx.nontrivial(&text);
    ctx.case("i32", &[v.to_string()], &text);
}

fn rust_f64_display_shape(t: &str) -> bool {
    // optional '-', integer part without superfluous zeros, optional '.' digits+
    let Some(r) = scan_int(t.as_bytes()) else { return false };
    if r.is_empty() { return true; }
    r[0] == b'.' && r.len() > 1 && r[1..].iter().all(|c| c.is_ascii_digit())
}

fn f64_case(ctx: &mut Ctx, v: f64) {
    if !v.is_finite() { return; }
    let shown = v.to_string();
    if !rust_f64_display_shape(&shown) { ctx.fail("f64-display-shape-hypothesis", &format!("{:#x}", v.to_bits()), &shown); }
    let fv = match catch(|| FloatValue::from(v)) { Ok(f) => f, Err(p) => { ctx.fail("f64-panic", &shown, &p); return; } };
    let text = fv.as_str().to_string();
    if !spec_float(&text) { ctx.fail("f64-invalid-literal", &shown, &text); }
    match fv.try_to_f64() {
        Ok(back) if back.to_bits() == v.to_bits() || (back == v && v == 0.0 && back.is_sign_negative() == v.is_sign_negative()) => {}
        other => ctx.fail("f64-roundtrip", &shown, &format!("{other:?}")),
    }
    if serde_json::from_str::<FloatValue>(&json_str(&text)).is_err() { ctx.fail("f64-invalid-literal", &shown, "not deserializable"); }
    // positional printing of huge/tiny values gives very long cases; the model only needs the text
    if shown.len() <= 40 {
        ctx.nontrivial(&text);
        ctx.case("f64fix", &[enc(&shown)], &text);
    } else { ctx.stat("f64_long_texts_oracle_only"); }
}

fn type_cases(ctx: &mut Ctx) {
    let depth = if ctx.thorough { 7 } else { 6 };
    let types = crate::p29::all_types(depth, &["A", "b_1"]);
    ctx.stat_n("types_enumerated", types.len() as u64);
    for t in &types {
        let printed = t.to_string();
        match Type::parse(&printed, "t.graphql") {
            Ok(back) if &back == t => {}
            Ok(back) => ctx.fail("type-roundtrip", &printed, &format!("parsed back as {back}")),
            Err(e) => ctx.fail("type-roundtrip", &printed, &format!("does not parse: {}", e.to_string().lines().next().unwrap_or(""))),
        }
        ctx.case("typrint", &[crate::p29::enc_ty(t)], &printed);
    }
}

pub fn run(ctx: &mut Ctx) {
    let alphabet = ["_", "a", "Z", "0", "9", "-", "+", ".", "e", "E", "é"];
    let k = if ctx.thorough { 6 } else { 5 };
    let mut all = vec![];
    for_all_strings(&alphabet, k, |s| all.push(s.to_string()));
    for s in &all { text_case(ctx, s); }
    // longer near-valid numeric literals
    let n = if ctx.thorough { 300_000 } else { 30_000 };
    let pieces = ["-", "0", "1", "9", "12", ".", ".5", "e", "E", "+", "-", "e10", "E-3", "e+", "007", "a", "_", "é", " "];
    for _ in 0..n {
        let len = 1 + ctx.rng.below(6);
        let s: String = (0..len).map(|_| *ctx.rng.pick(&pieces)).collect();
        text_case(ctx, &s);
    }
    for v in [0, 1, -1, 9, 10, -10, 99, 100, i32::MAX, i32::MIN, i32::MAX - 1, i32::MIN + 1, 1_000_000_000, -1_000_000_000] { i32_case(ctx, v); }
    let n = if ctx.thorough { 1_000_000 } else { 100_000 };
    for _ in 0..n { let v = ctx.rng.next() as i32; let sh = ctx.rng.below(32) as u32; i32_case(ctx, v >> sh); }
    for v in [0.0, -0.0, 1.0, -1.0, 0.1, 0.5, 1e15, 1e16, 1e17, 1e21, 1e22, 1e300, f64::MAX, f64::MIN, f64::MIN_POSITIVE, 5e-324, 1e-7, 123456.789, 2f64.powi(53), 2f64.powi(53) + 2.0, 0.30000000000000004] { f64_case(ctx, v); }
    for _ in 0..n {
        let bits = ctx.rng.next();
        f64_case(ctx, f64::from_bits(bits));
        // moderate magnitudes: short decimal texts
        let m = (ctx.rng.next() % 2_000_000) as f64 / [1.0, 10.0, 100.0, 1000.0, 8.0, 3.0][ctx.rng.below(6)];
        let neg = ctx.rng.chance(1, 2);
        f64_case(ctx, if neg { -m } else { m });
    }
    type_cases(ctx);
}
