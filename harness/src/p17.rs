//! C17 — executable validation agrees with the specification.
//! Oracle: `ExecutableDocument::parse_and_validate` is Ok iff the independent validator
//! (`specexec.rs`, written from the October-2021 spec text) finds no violated rule; apollo-compiler's
//! deliberate differences are the `Apollo…` rules of that validator.  Every disagreement gets a
//! stable key (`apollo-accepts:<rule>` / `apollo-rejects:<apollo error name>`; a disagreement that
//! disappears under exactly one known-defect emulation gets that defect's key).
//! Correspondence streams: c17.samevalue, c17.shape, c17.subscription, c17.merge, c17.mergecached, c17.mergespec,
//! c17.unusedfrag.
use crate::specexec::{self as spec, Kind, Quirks};
use crate::util::*;
use apollo_compiler::ast::{self, Type};
use apollo_compiler::validation::Valid;
use apollo_compiler::{ExecutableDocument, Schema};
use std::collections::{BTreeMap, BTreeSet, HashMap, HashSet};

const SCHEMA_MAIN: &str = r#"
schema { query: Query mutation: Mutation subscription: Subscription }
directive @tag(name: String!) repeatable on FIELD | FRAGMENT_SPREAD | INLINE_FRAGMENT | QUERY | FRAGMENT_DEFINITION
directive @once(n: Int = 1, req: Boolean) on FIELD | QUERY | MUTATION | SUBSCRIPTION | FRAGMENT_DEFINITION | FRAGMENT_SPREAD | INLINE_FRAGMENT | VARIABLE_DEFINITION
directive @onField(flag: Boolean!) on FIELD
directive @onQuery on QUERY
directive @defer(label: String, if: Boolean! = true) on FRAGMENT_SPREAD | INLINE_FRAGMENT
scalar Any
enum Color { RED GREEN BLUE }
enum Size { S M L }
input Point { x: Int! y: Int! z: Int = 0 tags: [String!] }
input Filter { color: Color sizes: [Size!] at: Point near: [Point!] any: Any and: Filter id: ID! = "0" strict: [Int!]! = [] }
interface Node { id: ID! }
interface Named implements Node { id: ID! name: String nick(style: Int): String }
interface Lonely { id: ID }
type Dog implements Named & Node { id: ID! name: String barks: Boolean color: Color friend: Pet owner: Human nick(style: Int): String val: Int }
type Cat implements Named & Node { id: ID! name: String meows: Boolean color: Color friend: Pet val: String nick(style: Int): String }
type Human implements Node { id: ID! name: String! pets(first: Int = 10, filter: Filter): [Pet!] val: [Int] }
union Pet = Dog | Cat
type Query {
  node(id: ID!): Node named: Named pet: Pet
  pets(filter: Filter, colors: [Color!], limit: Int! = 5): [Pet]
  human(id: ID!, at: Point): Human
  search(any: Any, ids: [ID!]!, matrix: [[Int]]): [Node!]!
  val: Float color(c: Color!): Color lonely: Lonely
  echo(s: String, b: Boolean, f: Float, i: Int, l: [Int], n: [Int!]): String
}
type Mutation { rename(id: ID!, name: String!): Named del(id: ID!): Boolean }
type Subscription { tick: Int petAdded(filter: Filter): Pet humanChanged: Human }
"#;

/// no mutation / subscription root; small types for the merging families
const SCHEMA_SMALL: &str = r#"
type Query { a: Int b: String o: O l: [O!]! u: U i: I f(a: Any, l: [Int], ll: [[Int!]], o: In, e: E = X, r: Int): Int g(a: Any): Int }
interface I { a: Int g(n: Int): Int }
type O implements I { a: Int b: String x: Int o: O g(n: Int): Int }
type P implements I { a: Int b: Int x: Int! p: P g(n: Int): Int }
union U = O | P
scalar Any
enum E { X Y }
input In { x: Int y: [In!] r: Int! d: Int! = 1 }
"#;

const SCHEMA_SUB: &str = "type Query { q: Int } type Subscription { a: Int b: Int c: Int }";

fn load(s: &str) -> Valid<Schema> { Schema::parse_and_validate(s, "schema.graphql").expect("fixed schema is valid") }

// ------------------------------------------------------------------------------------------------
// the differential oracle
// ------------------------------------------------------------------------------------------------

/// (ok, error names) of the real implementation
fn apollo(schema: &Valid<Schema>, text: &str) -> Result<(bool, Vec<String>), String> {
    catch(|| match ExecutableDocument::parse_and_validate(schema, text, "doc.graphql") {
        Ok(_) => (true, vec![]),
        Err(e) => {
            let mut names: Vec<String> = e.errors.iter().map(|d| d.error.unstable_error_name().unwrap_or("Other").to_string()).collect();
            names.sort();
            names.dedup();
            (false, names)
        }
    })
}

const QUIRK_KEYS: [(&str, fn(&mut Quirks)); 1] = [
    ("apollo-accepts:AllVariableUsagesAllowed/nested-position", |q| q.nested_var_named_only = true),
];

/// returns Some(spec verdict) when the document was syntactically valid
fn check_doc(ctx: &mut Ctx, schema: &Valid<Schema>, text: &str, family: &str) -> Option<bool> {
    let doc = match catch(|| ast::Document::parse(text, "doc.graphql")) {
        Ok(Ok(d)) => d,
        Ok(Err(_)) => { ctx.stat("syntax-invalid"); return None; }
        Err(p) => { ctx.fail("panic", text, &p); return None; }
    };
    let (got_ok, names) = match apollo(schema, text) {
        Ok(x) => x,
        Err(p) => { ctx.fail("panic", text, &p); return None; }
    };
    let out = spec::validate(schema, &doc, Quirks::default());
    if out.exhausted { ctx.stat("spec-budget-exhausted"); return None; }
    let want_ok = out.violations.is_empty();
    ctx.stat(if want_ok { "spec-valid" } else { "spec-invalid" });
    ctx.stat(&format!("family:{family}"));
    for r in &out.violations { ctx.stat(&format!("rule:{r}")); }
    family_streams(ctx, schema, &doc, text, &out.violations);
    if !ctx.thorough || FAMILY_COUNTER.load(std::sync::atomic::Ordering::Relaxed) % 4 == 0 { expand_case(ctx, schema, &doc); }
    if want_ok || out.violations.len() == 1 { ctx.nontrivial(text); }
    if got_ok == want_ok { return Some(want_ok); }
    // classify: which single known-defect emulation (or pair) explains it?
    let mut key: Option<Vec<&str>> = None;
    'search: for size in 1..=2 {
        for i in 0..QUIRK_KEYS.len() {
            for j in i..QUIRK_KEYS.len() {
                if (size == 1) != (i == j) { continue; }
                let mut q = Quirks::default();
                (QUIRK_KEYS[i].1)(&mut q);
                (QUIRK_KEYS[j].1)(&mut q);
                if spec::validate(schema, &doc, q).violations.is_empty() == got_ok {
                    key = Some(if i == j { vec![QUIRK_KEYS[i].0] } else { vec![QUIRK_KEYS[i].0, QUIRK_KEYS[j].0] });
                    break 'search;
                }
            }
        }
    }
    let fallback = if got_ok { format!("apollo-accepts:{}", out.violations.iter().next().unwrap()) } else { format!("apollo-rejects:{}", names.first().map(String::as_str).unwrap_or("none")) };
    let keys: Vec<&str> = key.unwrap_or_else(|| vec![fallback.as_str()]);
    let what = if got_ok {
        format!("apollo-compiler validates the document; the specification rejects it: {:?}", out.violations)
    } else {
        format!("apollo-compiler rejects the document ({names:?}); the specification accepts it")
    };
    for k in keys { ctx.fail(k, text.trim(), &what); }
    Some(want_ok)
}




// ------------------------------------------------------------------------------------------------
// c17.values: one argument of a field in an operation with variables — `validate_variable_usage`, then
// `value_of_correct_type` with the operation's variable definitions (Model/ExecValues.lean on Model/ValueCheck.lean)
// ------------------------------------------------------------------------------------------------
#[derive(Clone, Debug)]
enum XTy { Named(String), NonNullNamed(String), List(Box<XTy>), NonNullList(Box<XTy>) }
impl XTy {
    fn text(&self) -> String { match self { XTy::Named(n) => n.clone(), XTy::NonNullNamed(n) => format!("{n}!"), XTy::List(t) => format!("[{}]", t.text()), XTy::NonNullList(t) => format!("[{}]!", t.text()) } }
    fn toks(&self) -> String { match self { XTy::Named(n) => format!("N {n}"), XTy::NonNullNamed(n) => format!("M {n}"), XTy::List(t) => format!("L {}", t.toks()), XTy::NonNullList(t) => format!("K {}", t.toks()) } }
    fn nullable(&self) -> bool { matches!(self, XTy::Named(_) | XTy::List(_)) }
}
#[derive(Clone, Debug)]
enum XVal { Int(String), Float(String), Str, Bool, Null, Enum(String), Var(String), List(Vec<XVal>), Obj(Vec<(String, XVal)>) }
impl XVal {
    fn text(&self) -> String {
        match self {
            XVal::Int(s) | XVal::Float(s) => s.clone(), XVal::Str => "\"s\"".into(), XVal::Bool => "true".into(), XVal::Null => "null".into(),
            XVal::Enum(e) => e.clone(), XVal::Var(v) => format!("${v}"),
            XVal::List(xs) => format!("[{}]", xs.iter().map(|x| x.text()).collect::<Vec<_>>().join(", ")),
            XVal::Obj(fs) => format!("{{{}}}", fs.iter().map(|(n, x)| format!("{n}: {}", x.text())).collect::<Vec<_>>().join(", ")),
        }
    }
    fn toks(&self) -> String {
        match self {
            XVal::Int(s) => format!("i {s}"),
            XVal::Float(s) => format!("f {}", if s.parse::<f64>().is_ok_and(|f| f.is_finite()) { 1 } else { 0 }),
            XVal::Str => "s".into(), XVal::Bool => "b".into(), XVal::Null => "n".into(),
            XVal::Enum(e) => format!("e {e}"), XVal::Var(v) => format!("v {v}"),
            XVal::List(xs) => format!("l {}{}", xs.len(), xs.iter().map(|x| format!(" {}", x.toks())).collect::<String>()),
            XVal::Obj(fs) => format!("o {}{}", fs.len(), fs.iter().map(|(n, x)| format!(" {n} {}", x.toks())).collect::<String>()),
        }
    }
}
const X_ENV: &str = "scalar S\nenum E { A B }\ninput I { a: Int! b: String = \"x\" c: [I!] d: S e: E f: Int! = 1 g: [Int] }\ninput R { r: R x: ID }\ntype O { x: Int }\n";
const X_ENV_ENC: &str = "S=S0;E=E:A+B;I=I:a/M Int/0+b/N String/1+c/L M I/0+d/N S/0+e/N E/0+f/M Int/1+g/L N Int/0;R=I:r/N R/0+x/N ID/0;O=O;Query=O";
/// (name, type text, type tokens, default text, default code)
const X_VARS: [(&str, &str, &str, &str, &str); 12] = [
    ("x", "Int", "N Int", "", "a"), ("xn", "Int!", "M Int", "", "a"), ("xd", "Int", "N Int", " = 1", "v"), ("xz", "Int", "N Int", " = null", "n"),
    ("l", "[Int]", "L N Int", "", "a"), ("ln", "[Int!]!", "K M Int", "", "a"), ("s", "S", "N S", "", "a"), ("e", "E", "N E", "", "a"),
    ("i", "I", "N I", "", "a"), ("str", "String", "N String", "", "a"), ("id", "ID!", "M ID", "", "a"), ("ld", "[I!]", "L M I", " = []", "v"),
];
const X_KINDS: [&str; 9] = ["UnsupportedValueType", "IntCoercionError", "FloatCoercionError", "UndefinedEnumValue", "UndefinedVariable", "UniqueInputValue", "UndefinedInputValue", "RequiredField", "DisallowedVariableUsage"];

fn xvalue_case(ctx: &mut Ctx, ty: &XTy, has_default: bool, v: &XVal) {
    // a location default that is a valid constant of the type (the schema must validate)
    let default = if has_default {
        match ty {
            XTy::Named(_) | XTy::List(_) => " = null",
            XTy::NonNullList(_) => " = []",
            XTy::NonNullNamed(n) => match n.as_str() {
                "Int" => " = 0", "Float" => " = 1.5", "String" => " = \"s\"", "Boolean" => " = true", "ID" => " = \"i\"",
                "E" => " = A", "S" => " = 1", "I" => " = { a: 1 }", "R" => " = {}", _ => return,
            },
        }
    } else { "" };
    let stext = format!("{X_ENV}type Query {{ f(a: {}{default}): Int }}\n", ty.text());
    let Ok(Ok(schema)) = catch(|| Schema::parse_and_validate(stext.clone(), "s.graphql")) else { ctx.stat("values:schema-invalid"); return };
    let vars: Vec<String> = X_VARS.iter().map(|(n, t, _, d, _)| format!("${n}: {t}{d}")).collect();
    let text = format!("query({}) {{ f(a: {}) }}", vars.join(", "), v.text());
    if ast::Document::parse(text.clone(), "d.graphql").is_err() { ctx.stat("values:syntax"); return; }
    let out = match catch(|| match ExecutableDocument::parse_and_validate(&schema, text.clone(), "d.graphql") {
        Ok(_) => vec![],
        Err(e) => e.errors.iter().filter_map(|d| d.error.unstable_error_name()).filter(|n| X_KINDS.contains(n)).map(|n| n.to_string()).collect::<Vec<_>>(),
    }) { Ok(mut k) => { k.sort(); if k.is_empty() { "ok".to_string() } else { k.join(",") } } Err(p) => { ctx.fail("panic", &text, &p); return } };
    for k in out.split(',') { ctx.stat(&format!("values:{k}")); }
    let venc: Vec<String> = X_VARS.iter().map(|(n, _, tt, _, dc)| format!("{n}/{tt}/{dc}")).collect();
    ctx.case("c17.values", &[enc(X_ENV_ENC), enc(&venc.join("+")), enc(&ty.toks()), if has_default { "=1".into() } else { "=0".into() }, enc(&v.toks())], &out);
    if out != "ok" { ctx.nontrivial(&format!("xv|{}|{}", ty.text(), out)); }
}

fn gen_xty(ctx: &mut Ctx, depth: usize) -> XTy {
    let names = ["Int", "Float", "String", "Boolean", "ID", "S", "E", "I", "R", "O"];
    if depth < 2 && ctx.rng.chance(1, 3) {
        let inner = Box::new(gen_xty(ctx, depth + 1));
        if ctx.rng.chance(1, 2) { XTy::List(inner) } else { XTy::NonNullList(inner) }
    } else {
        let n = if ctx.rng.chance(1, 14) { "O" } else { names[ctx.rng.below(names.len() - 1)] }.to_string();
        if ctx.rng.chance(1, 2) { XTy::Named(n) } else { XTy::NonNullNamed(n) }
    }
}
fn gen_xval(ctx: &mut Ctx, ty: Option<&XTy>, depth: usize) -> XVal {
    if ctx.rng.chance(1, 5) { return XVal::Var(if ctx.rng.chance(1, 8) { "nope".to_string() } else { X_VARS[ctx.rng.below(X_VARS.len())].0.to_string() }); }
    if let (Some(ty), true) = (ty, ctx.rng.chance(3, 4)) {
        match ty {
            XTy::List(t) | XTy::NonNullList(t) => {
                if ctx.rng.chance(1, 8) { return XVal::Null; }
                if ctx.rng.chance(1, 5) || depth > 3 { return gen_xval(ctx, Some(t), depth + 1); }
                let n = ctx.rng.below(3);
                return XVal::List((0..n).map(|_| gen_xval(ctx, Some(t), depth + 1)).collect());
            }
            XTy::Named(n) | XTy::NonNullNamed(n) => {
                if ctx.rng.chance(1, 10) { return XVal::Null; }
                return match n.as_str() {
                    "Int" => XVal::Int(ctx.rng.pick(&["0", "-5", "2147483647", "2147483648"]).to_string()),
                    "Float" => if ctx.rng.chance(1, 2) { XVal::Float(ctx.rng.pick(&["1.5", "1e309"]).to_string()) } else { XVal::Int("7".into()) },
                    "String" => XVal::Str, "Boolean" => XVal::Bool, "ID" => if ctx.rng.chance(1, 2) { XVal::Str } else { XVal::Int("12".into()) },
                    "E" => XVal::Enum(ctx.rng.pick(&["A", "B", "C"]).to_string()),
                    "S" => gen_xval(ctx, None, depth + 1),
                    "I" | "R" if depth <= 3 => {
                        let l = |t: XTy| XTy::List(Box::new(t));
                        let fields: Vec<(&str, XTy)> = if n == "I" {
                            vec![("a", XTy::NonNullNamed("Int".into())), ("b", XTy::Named("String".into())), ("c", l(XTy::NonNullNamed("I".into()))), ("d", XTy::Named("S".into())), ("e", XTy::Named("E".into())), ("f", XTy::NonNullNamed("Int".into())), ("g", l(XTy::Named("Int".into())))]
                        } else { vec![("r", XTy::Named("R".into())), ("x", XTy::Named("ID".into()))] };
                        let mut fs: Vec<(String, XVal)> = vec![];
                        for (fname, fty) in &fields {
                            let required = !fty.nullable() && *fname != "f";
                            if ctx.rng.chance(if required { 7 } else { 2 }, 8) { let v = gen_xval(ctx, Some(fty), depth + 1); fs.push((fname.to_string(), v)); }
                        }
                        if ctx.rng.chance(1, 10) { fs.push(("zz".into(), XVal::Int("1".into()))); }
                        if ctx.rng.chance(1, 10) && !fs.is_empty() { let d = fs[ctx.rng.below(fs.len())].clone(); fs.push(d); }
                        XVal::Obj(fs)
                    }
                    _ => XVal::Obj(vec![]),
                };
            }
        }
    }
    match ctx.rng.below(if depth > 3 { 6 } else { 9 }) {
        0 => XVal::Int(ctx.rng.pick(&["3", "2147483648"]).to_string()), 1 => XVal::Float("2.5".into()), 2 => XVal::Str, 3 => XVal::Bool, 4 => XVal::Null,
        5 => XVal::Enum(ctx.rng.pick(&["A", "C"]).to_string()),
        6 | 7 => { let n = ctx.rng.below(3); XVal::List((0..n).map(|_| gen_xval(ctx, None, depth + 1)).collect()) }
        _ => { let n = ctx.rng.below(3); XVal::Obj((0..n).map(|_| (ctx.rng.pick(&["a", "b", "x"]).to_string(), gen_xval(ctx, None, depth + 1))).collect()) }
    }
}
fn stream_values(ctx: &mut Ctx) {
    let nm = |s: &str| XTy::Named(s.into());
    let nn = |s: &str| XTy::NonNullNamed(s.into());
    let var = |s: &str| XVal::Var(s.into());
    let li = |t: XTy| XTy::List(Box::new(t));
    // every variable of the pool directly at every kind of position, with and without a location default
    for ty in [nm("Int"), nn("Int"), li(nm("Int")), li(nn("Int")), XTy::NonNullList(Box::new(nn("Int"))), nm("S"), nn("S"), nm("E"), nm("I"), nn("I"), li(nn("I")), nm("String"), nm("ID"), nn("ID"), nm("Float"), nm("O")] {
        for (n, ..) in X_VARS.iter() { for hd in [false, true] { xvalue_case(ctx, &ty, hd, &var(n)); } }
        xvalue_case(ctx, &ty, false, &var("nope"));
        // … and inside a list / an input object
        for (n, ..) in X_VARS.iter() { xvalue_case(ctx, &ty, false, &XVal::List(vec![var(n)])); xvalue_case(ctx, &ty, false, &XVal::Obj(vec![("a".into(), var(n)), ("c".into(), XVal::List(vec![XVal::Obj(vec![("a".into(), var(n))])]))])); }
    }
    // object literals: keys repeated / undefined / required ones missing or null — at input objects, at the custom
    // scalar (where only uniqueness holds, at every depth), inside lists, with variables among the values
    let int = |s: &str| XVal::Int(s.into());
    let ob = |fs: Vec<(&str, XVal)>| XVal::Obj(fs.into_iter().map(|(k, v)| (k.to_string(), v)).collect());
    let objs = vec![
        ob(vec![]), ob(vec![("a", int("1"))]), ob(vec![("a", int("1")), ("a", int("2"))]), ob(vec![("a", int("1")), ("zz", int("2"))]),
        ob(vec![("a", XVal::Null)]), ob(vec![("a", int("1")), ("f", XVal::Null)]), ob(vec![("b", XVal::Str)]),
        ob(vec![("a", int("1")), ("b", XVal::Str), ("b", XVal::Str)]), ob(vec![("a", var("x")), ("a", var("nope"))]),
        ob(vec![("a", int("1")), ("d", ob(vec![("k", int("1")), ("k", int("2"))]))]),
        ob(vec![("a", int("1")), ("d", XVal::List(vec![ob(vec![("k", var("nope")), ("k", int("2"))])]))]),
        ob(vec![("a", int("1")), ("c", XVal::List(vec![ob(vec![("a", int("1")), ("a", int("1"))]), ob(vec![("zz", int("1"))])]))]),
        ob(vec![("r", ob(vec![("r", ob(vec![("x", int("1")), ("x", int("2"))]))]))]), ob(vec![("r", ob(vec![("y", int("1"))]))]),
        XVal::List(vec![ob(vec![("k", int("1")), ("k", int("1"))])]), XVal::List(vec![XVal::List(vec![ob(vec![("k", var("x")), ("k", var("x"))])])]),
    ];
    for ty in [nm("I"), nn("I"), li(nn("I")), nm("R"), nm("S"), nn("S"), li(nm("S")), nm("Int"), nm("E"), nm("O")] {
        for v in &objs { for hd in [false, true] { xvalue_case(ctx, &ty, hd, v); } }
    }
    let n = if ctx.thorough { 30_000 } else { 3_000 };
    for _ in 0..n {
        let ty = gen_xty(ctx, 0);
        let v = gen_xval(ctx, Some(&ty), 0);
        let hd = ctx.rng.chance(1, 4);
        xvalue_case(ctx, &ty, hd, &v);
    }
}

// ------------------------------------------------------------------------------------------------
// c17.expand: the expansion of an operation's root selection set (inline fragments, spreads, each named
// fragment once) — depth-first here, breadth-first with `seen_fragments` in the model of expand_selections
// ------------------------------------------------------------------------------------------------
fn enc_esels(sels: &[ast::Selection], ty: &str, next_id: &mut usize, o: &mut Vec<String>) {
    for s in sels {
        match s {
            ast::Selection::Field(_) => { o.push(format!("F{}", *next_id)); *next_id += 1; }
            ast::Selection::InlineFragment(i) => {
                let t = i.type_condition.as_ref().map(|t| t.to_string()).unwrap_or(ty.to_string());
                o.push("I".into()); o.push(t.clone()); enc_esels(&i.selection_set, &t, next_id, o);
            }
            ast::Selection::FragmentSpread(sp) => o.push(format!("S{}", sp.fragment_name)),
        }
    }
    o.push(".".into());
}
/// depth-first reference: (type, field id) pairs
fn dfs_expand(frags: &[(String, String, Vec<String>)], ty: &str, toks: &[String], pos: &mut usize, visited: &mut Vec<String>, out: &mut Vec<String>) {
    while *pos < toks.len() {
        let t = toks[*pos].clone();
        *pos += 1;
        if t == "." { return; }
        if let Some(id) = t.strip_prefix('F') { out.push(format!("{ty}.{id}")); }
        else if t == "I" { let nt = toks[*pos].clone(); *pos += 1; dfs_expand(frags, &nt, toks, pos, visited, out); }
        else if let Some(n) = t.strip_prefix('S') {
            if !visited.contains(&n.to_string()) {
                visited.push(n.to_string());
                if let Some((_, tc, body)) = frags.iter().find(|f| f.0 == n) { let mut p2 = 0; dfs_expand(frags, tc, body, &mut p2, visited, out); }
            }
        }
    }
}
fn expand_case(ctx: &mut Ctx, schema: &Valid<Schema>, doc: &ast::Document) {
    let mut next_id = 0usize;
    let mut frags: Vec<(String, String, Vec<String>)> = vec![];
    for d in &doc.definitions {
        if let ast::Definition::FragmentDefinition(f) = d {
            if frags.iter().any(|x| x.0 == f.name.as_str()) { continue; }
            let mut o = vec![]; enc_esels(&f.selection_set, f.type_condition.as_str(), &mut next_id, &mut o);
            frags.push((f.name.to_string(), f.type_condition.to_string(), o));
        }
    }
    for d in &doc.definitions {
        let ast::Definition::OperationDefinition(op) = d else { continue };
        let root = schema.root_operation(op.operation_type).map(|n| n.to_string()).unwrap_or("?".into());
        let mut body = vec![]; enc_esels(&op.selection_set, &root, &mut next_id, &mut body);
        let mut enc: Vec<String> = vec![frags.len().to_string()];
        for (n, tc, b) in &frags { enc.push(n.clone()); enc.push(tc.clone()); enc.extend(b.iter().cloned()); }
        enc.push(root.clone()); enc.extend(body.iter().cloned());
        let (mut pos, mut visited, mut out) = (0usize, vec![], vec![]);
        dfs_expand(&frags, &root, &body, &mut pos, &mut visited, &mut out);
        out.sort();
        ctx.case("c17.expand", &[format!("={}", enc.join(" "))], &if out.is_empty() { "-".to_string() } else { out.join(" ") });
    }
}

// ------------------------------------------------------------------------------------------------
// family streams c17.ops / c17.frags / c17.fields / c17.args / c17.vars: the diagnostics of one rule
// family, real code vs the Lean models (Model/Standalone.lean on the erased document for the
// structural rules, Model/ExecRules.lean for the typed ones)
// ------------------------------------------------------------------------------------------------

const FAMILIES: [(&str, &[&str]); 5] = [
    ("ops", &["AmbiguousAnonymousOperation", "OperationNameCollision", "UndefinedRootOperation", "TypeSystemDefinition"]),
    ("frags", &["FragmentNameCollision", "UndefinedTypeInNamedFragmentTypeCondition", "UndefinedTypeInInlineFragmentTypeCondition", "InvalidFragmentTarget",
        "UndefinedFragment", "RecursiveFragmentDefinition", "UnusedFragment", "InvalidFragmentSpread"]),
    ("fields", &["UndefinedField", "SubselectionOnLeaf", "MissingSubselection"]),
    ("args", &["UniqueArgument", "UndefinedArgument", "RequiredArgument"]),
    ("vars", &["UniqueVariable", "VariableInputType", "UndefinedDefinition", "UnusedVariable", "UndefinedVariable", "DisallowedVariableUsage"]),
];

fn enc_aty(t: &Type, o: &mut Vec<String>) {
    match t {
        Type::Named(n) => o.push(format!("n{n}")),
        Type::NonNullNamed(n) => o.push(format!("N{n}")),
        Type::List(i) => { o.push("l".into()); enc_aty(i, o) }
        Type::NonNullList(i) => { o.push("L".into()); enc_aty(i, o) }
    }
}
fn enc_indefs(defs: &[apollo_compiler::Node<ast::InputValueDefinition>], o: &mut Vec<String>) {
    o.push(defs.len().to_string());
    for d in defs { o.push(d.name.to_string()); enc_aty(&d.ty, o); o.push(if d.default_value.is_some() { "1" } else { "0" }.into()); }
}
fn dir_loc_code(l: &ast::DirectiveLocation) -> String {
    use ast::DirectiveLocation::*;
    match l {
        Query => "q".into(), Mutation => "m".into(), Subscription => "s".into(), Field => "f".into(), FragmentDefinition => "g".into(),
        FragmentSpread => "p".into(), InlineFragment => "i".into(), VariableDefinition => "v".into(), other => format!("t{}", other.name().len()),
    }
}
/// what the rules read from the schema
pub(crate) fn enc_rschema(s: &Schema) -> String {
    use apollo_compiler::schema::ExtendedType as E;
    let mut o: Vec<String> = vec![];
    for t in [ast::OperationType::Query, ast::OperationType::Mutation, ast::OperationType::Subscription] {
        o.push(s.root_operation(t).map(|n| n.to_string()).unwrap_or("-".into()));
    }
    o.push(s.types.len().to_string());
    for (name, t) in &s.types {
        o.push(name.to_string());
        let fields = |fs: &apollo_compiler::collections::IndexMap<apollo_compiler::Name, apollo_compiler::schema::Component<ast::FieldDefinition>>, o: &mut Vec<String>| {
            o.push(fs.len().to_string());
            for (fname, f) in fs { o.push(fname.to_string()); enc_indefs(&f.arguments, o); enc_aty(&f.ty, o); }
        };
        match t {
            E::Scalar(sc) => o.push(if sc.is_built_in() { "s1" } else { "s0" }.into()),
            E::Enum(_) => o.push("e".into()),
            E::InputObject(io) => { o.push("i".into()); o.push(io.fields.len().to_string()); for (n, d) in &io.fields { o.push(n.to_string()); enc_aty(&d.ty, &mut o); o.push(if d.default_value.is_some() { "1" } else { "0" }.into()); } }
            E::Object(ob) => { o.push("o".into()); o.push(ob.implements_interfaces.len().to_string()); for i in &ob.implements_interfaces { o.push(i.to_string()); } fields(&ob.fields, &mut o); }
            E::Interface(ob) => { o.push("f".into()); o.push(ob.implements_interfaces.len().to_string()); for i in &ob.implements_interfaces { o.push(i.to_string()); } fields(&ob.fields, &mut o); }
            E::Union(u) => { o.push("u".into()); o.push(u.members.len().to_string()); for m in &u.members { o.push(m.to_string()); } }
        }
    }
    o.push(s.directive_definitions.len().to_string());
    for (n, d) in &s.directive_definitions {
        o.push(n.to_string()); o.push(if d.repeatable { "1" } else { "0" }.into());
        o.push(d.locations.len().to_string()); for l in &d.locations { o.push(dir_loc_code(l)); }
        enc_indefs(&d.arguments, &mut o);
    }
    format!("={}", o.join(" "))
}
fn enc_rval(v: &ast::Value, o: &mut Vec<String>) {
    match v {
        ast::Value::Variable(n) => o.push(format!("v{n}")),
        ast::Value::Null => o.push("z".into()),
        ast::Value::List(xs) => { o.push(format!("a{}", xs.len())); for x in xs { enc_rval(x, o) } }
        ast::Value::Object(kvs) => { o.push(format!("o{}", kvs.len())); for (k, x) in kvs { o.push(format!("k{k}")); enc_rval(x, o) } }
        _ => o.push("x".into()),
    }
}
fn enc_rargs(args: &[apollo_compiler::Node<ast::Argument>], o: &mut Vec<String>) {
    o.push(args.len().to_string());
    for a in args { o.push(a.name.to_string()); enc_rval(&a.value, o); }
}
fn enc_rdirs(ds: &ast::DirectiveList, o: &mut Vec<String>) {
    o.push(ds.len().to_string());
    for d in ds.iter() { o.push(d.name.to_string()); enc_rargs(&d.arguments, o); }
}
fn enc_rsels(sels: &[ast::Selection], o: &mut Vec<String>) {
    for s in sels {
        match s {
            ast::Selection::Field(f) => { o.push("F".into()); o.push(f.name.to_string()); enc_rdirs(&f.directives, o); enc_rargs(&f.arguments, o); enc_rsels(&f.selection_set, o); }
            ast::Selection::FragmentSpread(sp) => { o.push("P".into()); o.push(sp.fragment_name.to_string()); enc_rdirs(&sp.directives, o); }
            ast::Selection::InlineFragment(i) => { o.push("I".into()); o.push(i.type_condition.as_ref().map(|t| t.to_string()).unwrap_or("-".into())); enc_rdirs(&i.directives, o); enc_rsels(&i.selection_set, o); }
        }
    }
    o.push(".".into());
}
pub(crate) fn enc_rdoc(doc: &ast::Document) -> String {
    let mut o: Vec<String> = vec![];
    for d in &doc.definitions {
        match d {
            ast::Definition::OperationDefinition(op) => {
                o.push("O".into());
                o.push(match op.operation_type { ast::OperationType::Query => "q", ast::OperationType::Mutation => "m", ast::OperationType::Subscription => "s" }.into());
                o.push(op.name.as_ref().map(|n| n.to_string()).unwrap_or("-".into()));
                o.push(op.variables.len().to_string());
                for v in &op.variables {
                    o.push(v.name.to_string()); enc_aty(&v.ty, &mut o);
                    o.push(match v.default_value.as_deref() { None => "a", Some(ast::Value::Null) => "n", Some(_) => "v" }.into());
                    enc_rdirs(&v.directives, &mut o);
                }
                enc_rdirs(&op.directives, &mut o); enc_rsels(&op.selection_set, &mut o);
            }
            ast::Definition::FragmentDefinition(f) => { o.push("G".into()); o.push(f.name.to_string()); o.push(f.type_condition.to_string()); enc_rdirs(&f.directives, &mut o); enc_rsels(&f.selection_set, &mut o); }
            _ => o.push("X".into()),
        }
    }
    format!("={}", o.join(" "))
}

static FAMILY_COUNTER: std::sync::atomic::AtomicUsize = std::sync::atomic::AtomicUsize::new(0);

fn family_streams(ctx: &mut Ctx, schema: &Valid<Schema>, doc: &ast::Document, text: &str, violations: &BTreeSet<&'static str>) {
    // no variables inside default values / no `@defer` / no repeated input-object keys complications: the models cover them or ignore them
    let kinds: Vec<String> = match catch(|| match ExecutableDocument::parse_and_validate(schema, text, "doc.graphql") {
        Ok(_) => vec![],
        Err(e) => e.errors.iter().map(|d| d.error.unstable_error_name().unwrap_or("Other").to_string()).collect(),
    }) { Ok(k) => k, Err(_) => return };
    let kinds: Vec<String> = kinds.into_iter().map(|k| if k == "SubselectionOnScalarType" || k == "SubselectionOnEnumType" { "SubselectionOnLeaf".to_string() } else { k }).collect();
    let n = FAMILY_COUNTER.fetch_add(1, std::sync::atomic::Ordering::Relaxed);
    let rule_family = |r: &str| -> Option<&'static str> { Some(match r {
        "OperationNameUniqueness" | "LoneAnonymousOperation" | "ExecutableDefinitions" | "ApolloUndefinedRootOperationType" => "ops",
        "FragmentNameUniqueness" | "FragmentSpreadTypeExistence" | "FragmentsOnCompositeTypes" | "FragmentsMustBeUsed" | "FragmentSpreadTargetDefined" | "FragmentSpreadsMustNotFormCycles" | "FragmentSpreadIsPossible" => "frags",
        "FieldSelections" | "LeafFieldSelections" => "fields",
        "ArgumentNames" | "ArgumentUniqueness" | "RequiredArguments" => "args",
        "VariableUniqueness" | "VariablesAreInputTypes" | "AllVariableUsesDefined" | "AllVariablesUsed" | "AllVariableUsagesAllowed" => "vars",
        _ => return None }) };
    let mut enc: Option<(String, String)> = None;
    for (i, (fam, fam_kinds)) in FAMILIES.iter().enumerate() {
        let mine: Vec<String> = { let mut v: Vec<String> = kinds.iter().filter(|k| fam_kinds.contains(&k.as_str())).cloned().collect(); v.sort(); v };
        let period = if ctx.thorough { 20 } else { 5 };
        let wanted = n % period == i || !mine.is_empty() || violations.iter().any(|r| rule_family(r) == Some(*fam));
        if !wanted { continue; }
        let (es, ed) = enc.get_or_insert_with(|| (enc_rschema(schema), enc_rdoc(doc)));
        ctx.case(&format!("c17.{fam}"), &[es.clone(), ed.clone()], &if mine.is_empty() { "ok".to_string() } else { mine.join(",") });
        ctx.stat(&format!("family_stream:{fam}"));
    }
}

// ------------------------------------------------------------------------------------------------
// grammar-directed generator with single-fault injection
// ------------------------------------------------------------------------------------------------

#[derive(Clone, Copy, PartialEq, Eq, Debug)]
enum Fault {
    None, OpNameDup, AnonPlusNamed, SubTwoFields, SubSameFieldTwice, SubAliasSameKey, SubTypename, SubSkip, UnknownField,
    MergeArgConflict, MergeAliasConflict, MergeListLen, MergeSame, LeafWithSub, CompositeNoSub, UnknownArg, DupArg,
    DropRequiredArg, NullRequiredArg, FragDup, FragUnknownType, FragOnScalar, InlineOnScalar, InlineUnknownType, FragUnused,
    SpreadUndefined, FragCycle, SpreadImpossible, ValWrongKind, ValUnknownEnum, ValUnknownInputField, ValDupInputField,
    ValDropRequiredInputField, ValNullNonNull, ValListForNonList, ValIntRange, DirUnknown, DirWrongLocation,
    DirDupNonRepeatable, DirDupRepeatable, VarDup, VarOutputType, VarUndefined, VarUnused, VarNullableToNonNull,
    VarDefaultToNonNull, VarNullDefaultToNonNull, VarListMismatch, VarNestedNullable, TypeSystemDef, UndefinedRoot, DeferRoot, DeferLabelDup,
}
const FAULTS: [Fault; 52] = [
    Fault::OpNameDup, Fault::AnonPlusNamed, Fault::SubTwoFields, Fault::SubSameFieldTwice, Fault::SubAliasSameKey, Fault::SubTypename, Fault::SubSkip,
    Fault::UnknownField, Fault::MergeArgConflict, Fault::MergeAliasConflict, Fault::MergeListLen, Fault::MergeSame, Fault::LeafWithSub,
    Fault::CompositeNoSub, Fault::UnknownArg, Fault::DupArg, Fault::DropRequiredArg, Fault::NullRequiredArg, Fault::FragDup,
    Fault::FragUnknownType, Fault::FragOnScalar, Fault::InlineOnScalar, Fault::InlineUnknownType, Fault::FragUnused,
    Fault::SpreadUndefined, Fault::FragCycle, Fault::SpreadImpossible, Fault::ValWrongKind, Fault::ValUnknownEnum,
    Fault::ValUnknownInputField, Fault::ValDupInputField, Fault::ValDropRequiredInputField, Fault::ValNullNonNull,
    Fault::ValListForNonList, Fault::ValIntRange, Fault::DirUnknown, Fault::DirWrongLocation, Fault::DirDupNonRepeatable,
    Fault::DirDupRepeatable, Fault::VarDup, Fault::VarOutputType, Fault::VarUndefined, Fault::VarUnused, Fault::VarNullableToNonNull,
    Fault::VarDefaultToNonNull, Fault::VarNullDefaultToNonNull, Fault::VarListMismatch, Fault::VarNestedNullable, Fault::TypeSystemDef, Fault::UndefinedRoot,
    Fault::DeferRoot, Fault::DeferLabelDup,
];

struct FragRec { name: String, cond: String, text: String, vars: Vec<(String, String)>, spreads: Vec<String> }

struct Gen<'a> {
    r: &'a mut Rng,
    schema: &'a Schema,
    composites: Vec<String>,
    fault: Fault,
    target: u32,
    seen: u32,
    applied: bool,
    // current definition
    in_fragment: bool,
    op_vars: Vec<(String, String, Option<String>)>,
    cur_frag_vars: Vec<(String, String)>,
    cur_spreads: Vec<String>,
    frags: Vec<FragRec>,
    counter: usize,
    max_depth: usize,
    allow_vars: bool,
}

fn ty_text(t: &Type) -> String { t.to_string() }
fn mangle(t: &str) -> String { t.chars().map(|c| match c { '[' => 'L', ']' => 'l', '!' => 'N', c => c }).collect() }

impl<'a> Gen<'a> {
    fn new(r: &'a mut Rng, schema: &'a Schema, fault: Fault) -> Self {
        let composites = schema.types.iter().filter(|(n, _)| !n.starts_with("__") && spec::kind_of(schema, n).map_or(false, |k| k.composite())).map(|(n, _)| n.to_string()).collect();
        let target = 1 + r.below(3) as u32;
        Gen { r, schema, composites, fault, target, seen: 0, applied: false, in_fragment: false, op_vars: vec![], cur_frag_vars: vec![], cur_spreads: vec![], frags: vec![], counter: 0, max_depth: 3, allow_vars: true }
    }
    fn hit(&mut self, f: Fault) -> bool {
        if self.fault != f || self.applied { return false; }
        self.seen += 1;
        if self.seen >= self.target { self.applied = true; return true; }
        false
    }
    fn fresh(&mut self, p: &str) -> String { self.counter += 1; format!("{p}{}", self.counter) }

    fn overlapping(&mut self, parent: &str) -> Vec<String> {
        let pp = spec::possible_types(self.schema, parent);
        self.composites.iter().filter(|c| c.as_str() == parent || spec::possible_types(self.schema, c).intersection(&pp).next().is_some()).cloned().collect()
    }

    fn variable(&mut self, loc: &Type, has_default: bool, nested: bool) -> Option<String> {
        if !self.allow_vars { return None; }
        let lt = ty_text(loc);
        if self.in_fragment {
            let name = format!("g{}", mangle(&lt));
            if !self.cur_frag_vars.iter().any(|(n, _)| *n == name) { self.cur_frag_vars.push((name.clone(), lt)); }
            return Some(format!("${name}"));
        }
        let name = self.fresh("v");
        let non_null = spec::is_non_null(loc);
        let bare = lt.trim_end_matches('!').to_string();
        let mut decl_ty = lt.clone();
        let mut default: Option<String> = None;
        if nested && non_null && self.hit(Fault::VarNestedNullable) { decl_ty = bare.clone(); }
        else if !nested && non_null && !has_default && self.hit(Fault::VarNullableToNonNull) { decl_ty = bare.clone(); }
        else if !nested && non_null && !has_default && matches!(loc, Type::NonNullNamed(_)) && self.hit(Fault::VarDefaultToNonNull) {
            decl_ty = bare.clone();
            default = self.literal_default(loc);
            if default.is_none() { decl_ty = lt.clone(); }
        }
        else if !nested && non_null && !has_default && self.hit(Fault::VarNullDefaultToNonNull) { decl_ty = bare.clone(); default = Some("null".into()); }
        else if self.hit(Fault::VarListMismatch) { decl_ty = if bare.starts_with('[') { spec::named(loc).to_string() } else { format!("[{bare}]") }; }
        else if !non_null && self.r.chance(1, 3) { decl_ty = format!("{lt}!"); }
        else if non_null && has_default && self.r.chance(1, 2) { decl_ty = bare; }
        self.op_vars.push((name.clone(), decl_ty, default));
        Some(format!("${name}"))
    }

    fn literal_default(&mut self, t: &Type) -> Option<String> {
        match spec::kind_of(self.schema, spec::named(t))? {
            Kind::Scalar => Some(match spec::named(t) { "Int" => "3", "Float" => "1.5", "String" => "\"d\"", "Boolean" => "true", _ => "\"id\"" }.to_string()),
            Kind::Enum => if let Some(apollo_compiler::schema::ExtendedType::Enum(e)) = self.schema.types.get(spec::named(t)) { e.values.keys().next().map(|k| k.to_string()) } else { None },
            _ => None,
        }
    }

    fn value(&mut self, t: &Type, has_default: bool, depth: usize, nested: bool) -> String {
        if self.r.chance(1, 7) { if let Some(v) = self.variable(t, has_default, nested) { return v; } }
        let non_null = spec::is_non_null(t);
        if non_null && self.hit(Fault::ValNullNonNull) { return "null".into(); }
        if !non_null && self.r.chance(1, 12) { return "null".into(); }
        match t {
            Type::List(i) | Type::NonNullList(i) => {
                if self.r.chance(1, 5) { return self.value(i, false, depth, nested); }
                let n = self.r.below(3);
                let items: Vec<String> = (0..n).map(|_| self.value(i, false, depth + 1, true)).collect();
                format!("[{}]", items.join(", "))
            }
            Type::Named(n) | Type::NonNullNamed(n) => {
                let n = n.as_str();
                let kind = spec::kind_of(self.schema, n).unwrap_or(Kind::CustomScalar);
                if kind != Kind::CustomScalar && self.hit(Fault::ValListForNonList) { return "[1]".replace('1', &self.value(t, false, depth + 1, true)); }
                if kind != Kind::CustomScalar && self.hit(Fault::ValWrongKind) {
                    return match (kind, n) { (Kind::Scalar, "Int") => "\"1\"", (Kind::Scalar, "Float") => "\"1.5\"", (Kind::Scalar, "String") => "1", (Kind::Scalar, "Boolean") => "1", (Kind::Scalar, _) => "1.5", (Kind::Enum, _) => "\"RED\"", _ => "7" }.to_string();
                }
                match kind {
                    Kind::Scalar => match n {
                        "Int" => { if self.hit(Fault::ValIntRange) { return (*self.r.pick(&["2147483648", "-2147483649", "99999999999999999999"])).to_string(); } (*self.r.pick(&["0", "1", "-5", "2147483647", "-2147483648", "42"])).to_string() }
                        "Float" => (*self.r.pick(&["1.5", "2", "1e3", "-0.25", "0"])).to_string(),
                        "String" => (*self.r.pick(&["\"a\"", "\"\"", "\"b c\""])).to_string(),
                        "Boolean" => (*self.r.pick(&["true", "false"])).to_string(),
                        _ => (*self.r.pick(&["\"id1\"", "7", "\"\""])).to_string(),
                    },
                    Kind::Enum => {
                        if self.hit(Fault::ValUnknownEnum) { return "PURPLE".into(); }
                        let Some(apollo_compiler::schema::ExtendedType::Enum(e)) = self.schema.types.get(n) else { return "X".into() };
                        let vals: Vec<String> = e.values.keys().map(|k| k.to_string()).collect();
                        self.r.pick(&vals).clone()
                    }
                    Kind::InputObject => {
                        let Some(apollo_compiler::schema::ExtendedType::InputObject(def)) = self.schema.types.get(n) else { return "{}".into() };
                        let def = def.clone();
                        let mut parts: Vec<String> = vec![];
                        for (fname, fd) in &def.fields {
                            let required = spec::is_non_null(&fd.ty) && fd.default_value.is_none();
                            if required && self.hit(Fault::ValDropRequiredInputField) { continue; }
                            let include = required || (depth < 2 && self.r.chance(1, 3));
                            if !include { continue; }
                            let v = self.value(&fd.ty, fd.default_value.is_some(), depth + 1, true);
                            parts.push(format!("{fname}: {v}"));
                            if self.hit(Fault::ValDupInputField) { let v2 = self.value(&fd.ty, fd.default_value.is_some(), depth + 1, true); parts.push(format!("{fname}: {v2}")); }
                        }
                        if self.hit(Fault::ValUnknownInputField) { parts.push("nope: 1".into()); }
                        if self.r.chance(1, 2) { parts.reverse(); }
                        format!("{{{}}}", parts.join(", "))
                    }
                    _ => (*self.r.pick(&["1", "\"s\"", "{a: 1, b: [true, null]}", "[1, {b: 2.5}]", "SOME", "true", "[]", "{}"])).to_string(),
                }
            }
        }
    }

    fn args(&mut self, defs: &[spec::ArgSig]) -> String {
        let mut parts: Vec<String> = vec![];
        for d in defs {
            let required = spec::is_non_null(&d.ty) && !d.has_default;
            if required && self.hit(Fault::DropRequiredArg) { continue; }
            if required && self.hit(Fault::NullRequiredArg) { parts.push(format!("{}: null", d.name)); continue; }
            if !(required || self.r.chance(1, 2)) { continue; }
            let v = self.value(&d.ty, d.has_default, 0, false);
            parts.push(format!("{}: {v}", d.name));
            if self.hit(Fault::DupArg) { let v2 = self.value(&d.ty, d.has_default, 0, false); parts.push(format!("{}: {v2}", d.name)); }
        }
        if self.hit(Fault::UnknownArg) { parts.push("bogus: 1".into()); }
        if parts.is_empty() { String::new() } else { format!("({})", parts.join(", ")) }
    }

    fn directives(&mut self, loc: &str) -> String {
        let mut out = String::new();
        if self.hit(Fault::DirUnknown) { out.push_str(" @nope"); }
        if loc != "QUERY" && self.hit(Fault::DirWrongLocation) { out.push_str(" @onQuery"); }
        if self.hit(Fault::DirDupNonRepeatable) { out.push_str(" @once @once(n: 2)"); }
        if self.hit(Fault::DirDupRepeatable) { out.push_str(" @tag(name: \"a\") @tag(name: \"a\")"); }
        if !self.r.chance(1, 6) { return out; }
        let has = |n: &str| self.schema.directive_definitions.contains_key(n);
        match self.r.below(5) {
            0 if matches!(loc, "FIELD" | "FRAGMENT_SPREAD" | "INLINE_FRAGMENT") => {
                let cond = self.value(&Type::NonNullNamed(apollo_compiler::name!("Boolean")), false, 0, false);
                out.push_str(&format!(" @{}(if: {cond})", if self.r.chance(1, 2) { "skip" } else { "include" }));
            }
            1 if has("tag") && loc != "VARIABLE_DEFINITION" && loc != "MUTATION" && loc != "SUBSCRIPTION" => out.push_str(" @tag(name: \"t\")"),
            2 if has("once") => { let n = self.value(&Type::Named(apollo_compiler::name!("Int")), true, 0, false); out.push_str(&format!(" @once(n: {n})")); }
            3 if has("onField") && loc == "FIELD" => out.push_str(" @onField(flag: true)"),
            _ => {}
        }
        out
    }

    fn selection_set(&mut self, parent: &str, depth: usize) -> String {
        let n = 1 + self.r.below(3);
        let mut sels: Vec<String> = vec![];
        let mut keys: HashSet<String> = HashSet::new();
        for _ in 0..n {
            let k = self.r.below(20);
            if k < 14 || depth >= self.max_depth { self.field(parent, depth, &mut sels, &mut keys); }
            else if k < 17 { self.inline(parent, depth, &mut sels); }
            else { self.spread(parent, depth, &mut sels); }
        }
        format!("{{ {} }}", sels.join(" "))
    }

    fn field(&mut self, parent: &str, depth: usize, sels: &mut Vec<String>, keys: &mut HashSet<String>) {
        let mut names: Vec<String> = match self.schema.types.get(parent) {
            Some(apollo_compiler::schema::ExtendedType::Object(o)) => o.fields.keys().map(|k| k.to_string()).collect(),
            Some(apollo_compiler::schema::ExtendedType::Interface(o)) => o.fields.keys().map(|k| k.to_string()).collect(),
            _ => vec![],
        };
        if names.is_empty() || self.r.chance(1, 10) { names = vec!["__typename".into()]; }
        let mut name = self.r.pick(&names).clone();
        if self.hit(Fault::UnknownField) { name = "nosuch".into(); }
        let Some(sig) = spec::field_sig(self.schema, parent, &name) else { sels.push(name); return };
        let inner = spec::named(&sig.ty).to_string();
        let composite = spec::kind_of(self.schema, &inner).map_or(false, |k| k.composite());
        let args = self.args(&sig.args);
        let mut alias = String::new();
        let mut key = name.clone();
        if keys.contains(&key) || self.r.chance(1, 8) || (!args.is_empty() && self.r.chance(2, 3)) { key = self.fresh("k"); alias = format!("{key}: "); }
        keys.insert(key.clone());
        let dirs = self.directives("FIELD");
        let sub = if composite {
            if self.hit(Fault::CompositeNoSub) { String::new() }
            else if depth + 1 >= self.max_depth { " { __typename }".to_string() } else { format!(" {}", self.selection_set(&inner, depth + 1)) }
        } else if self.hit(Fault::LeafWithSub) { " { x }".to_string() } else { String::new() };
        sels.push(format!("{alias}{name}{args}{dirs}{sub}"));
        // merging faults: emit a second selection next to this one
        if !composite {
            if self.hit(Fault::MergeSame) { sels.push(format!("{alias}{name}{args}")); }
            if let Some(a) = sig.args.first() {
                if self.hit(Fault::MergeArgConflict) {
                    let was = self.allow_vars; self.allow_vars = false;
                    let v1 = self.value(&a.ty, a.has_default, 0, false);
                    self.allow_vars = was;
                    let other = if v1 == "null" { "1".to_string() } else { "null".to_string() };
                    sels.pop();
                    sels.push(format!("{alias}{name}({}: {v1})", a.name));
                    sels.push(format!("{alias}{name}({}: {other})", a.name));
                }
            }
            if let Some(a) = sig.args.iter().find(|a| matches!(&a.ty, Type::List(_)) && spec::named(&a.ty) == "Int") {
                if self.hit(Fault::MergeListLen) {
                    sels.pop();
                    sels.push(format!("{alias}{name}({}: [1])", a.name));
                    sels.push(format!("{alias}{name}({}: [1, 2])", a.name));
                }
            }
            if self.hit(Fault::MergeAliasConflict) {
                // a different leaf field of the same parent under the same response key
                if let Some(other) = names.iter().find(|o| **o != name && spec::field_sig(self.schema, parent, o).map_or(false, |s| s.args.iter().all(|a| !spec::is_non_null(&a.ty) || a.has_default) && spec::kind_of(self.schema, spec::named(&s.ty)).map_or(false, |k| k.leaf()))) {
                    sels.push(format!("{key}: {other}"));
                }
            }
        }
    }

    fn inline(&mut self, parent: &str, depth: usize, sels: &mut Vec<String>) {
        let over = self.overlapping(parent);
        let mut cond: Option<String> = if self.r.chance(1, 4) || over.is_empty() { None } else { Some(self.r.pick(&over).clone()) };
        if self.hit(Fault::InlineOnScalar) { cond = Some("Int".into()); }
        if self.hit(Fault::InlineUnknownType) { cond = Some("Nowhere".into()); }
        if self.hit(Fault::SpreadImpossible) {
            if let Some(c) = self.composites.clone().iter().find(|c| !over.contains(c)) { cond = Some(c.clone()); }
        }
        let dirs = self.directives("INLINE_FRAGMENT");
        let inner_parent = cond.clone().unwrap_or_else(|| parent.to_string());
        let body = if spec::kind_of(self.schema, &inner_parent).map_or(false, |k| k.composite()) { self.selection_set(&inner_parent, depth + 1) } else { "{ __typename }".to_string() };
        sels.push(format!("...{}{dirs} {body}", cond.map(|c| format!(" on {c}")).unwrap_or_default()));
    }

    fn spread(&mut self, parent: &str, depth: usize, sels: &mut Vec<String>) {
        if self.hit(Fault::SpreadUndefined) { sels.push("...Missing".into()); return; }
        let over = self.overlapping(parent);
        // reuse an existing compatible fragment sometimes
        let reuse: Vec<String> = self.frags.iter().filter(|f| over.contains(&f.cond)).map(|f| f.name.clone()).collect();
        let dirs = self.directives("FRAGMENT_SPREAD");
        if !reuse.is_empty() && self.r.chance(1, 2) {
            let n = self.r.pick(&reuse).clone();
            self.cur_spreads.push(n.clone());
            sels.push(format!("...{n}{dirs}"));
            return;
        }
        if over.is_empty() { return; }
        let mut cond = self.r.pick(&over).clone();
        let name = self.fresh("F");
        let mut body_parent = Some(cond.clone());
        if self.hit(Fault::FragUnknownType) { cond = "Nowhere".into(); body_parent = None; }
        if self.hit(Fault::FragOnScalar) { cond = "Color".into(); body_parent = None; }
        if self.hit(Fault::SpreadImpossible) {
            if let Some(c) = self.composites.clone().iter().find(|c| !over.contains(c)) { cond = c.clone(); body_parent = Some(c.clone()); }
        }
        // generate the fragment body in fragment mode
        let saved = (self.in_fragment, std::mem::take(&mut self.cur_frag_vars), std::mem::take(&mut self.cur_spreads));
        self.in_fragment = true;
        let fdirs = self.directives("FRAGMENT_DEFINITION");
        let mut body = match &body_parent { Some(p) => self.selection_set(p, depth + 1), None => "{ __typename }".to_string() };
        if self.hit(Fault::FragCycle) { body = format!("{{ __typename ...{name} }}"); self.cur_spreads.push(name.clone()); }
        let rec = FragRec { name: name.clone(), cond: cond.clone(), text: format!("fragment {name} on {cond}{fdirs} {body}"), vars: std::mem::take(&mut self.cur_frag_vars), spreads: std::mem::take(&mut self.cur_spreads) };
        self.in_fragment = saved.0; self.cur_frag_vars = saved.1; self.cur_spreads = saved.2;
        self.frags.push(rec);
        self.cur_spreads.push(name.clone());
        sels.push(format!("...{name}{dirs}"));
    }

    fn operation(&mut self, kind: &str, name: Option<&str>) -> String {
        self.op_vars.clear();
        self.cur_spreads.clear();
        let root = match kind { "query" => self.schema.schema_definition.query.as_ref(), "mutation" => self.schema.schema_definition.mutation.as_ref(), _ => self.schema.schema_definition.subscription.as_ref() }.map(|c| c.name.to_string());
        let loc = match kind { "query" => "QUERY", "mutation" => "MUTATION", _ => "SUBSCRIPTION" };
        let dirs = self.directives(loc);
        let body = match (&root, kind) {
            (None, _) => "{ anything }".to_string(),
            (Some(r), "subscription") => self.subscription_body(r),
            (Some(r), _) => {
                let mut b = self.selection_set(r, 0);
                if kind == "mutation" && self.hit(Fault::DeferRoot) { b = format!("{{ ... @defer {b} }}"); }
                b
            }
        };
        // variables used by reachable fragments
        let mut reach: Vec<String> = vec![];
        let mut stack = self.cur_spreads.clone();
        while let Some(n) = stack.pop() {
            if reach.contains(&n) { continue; }
            if let Some(f) = self.frags.iter().find(|f| f.name == n) { stack.extend(f.spreads.iter().cloned()); }
            reach.push(n);
        }
        let mut decls: Vec<String> = vec![];
        let mut declared: HashSet<String> = HashSet::new();
        for (n, t, d) in self.op_vars.clone() {
            let dv = d.map(|d| format!(" = {d}")).unwrap_or_default();
            decls.push(format!("${n}: {t}{dv}"));
            declared.insert(n);
        }
        for fname in &reach {
            let Some(f) = self.frags.iter().find(|f| f.name == *fname) else { continue };
            for (n, t) in f.vars.clone() { if declared.insert(n.clone()) { decls.push(format!("${n}: {t}")); } }
        }
        if self.hit(Fault::VarUnused) { decls.push("$unused: Int".into()); }
        if self.hit(Fault::VarOutputType) { decls.push("$out: Query".into()); }
        if !decls.is_empty() && self.hit(Fault::VarDup) { let d = decls[0].clone(); decls.push(d); }
        let mut body = body;
        if self.hit(Fault::VarUndefined) { body = format!("{{ ... {body} undef: __typename @skip(if: $nope) }}"); }
        if kind == "subscription" && body.contains("@skip(if: $nope)") { /* also a conditional root selection: still a single disagreement-free rejection */ }
        let vars = if decls.is_empty() { String::new() } else { format!("({})", decls.join(", ")) };
        match name { None if vars.is_empty() && dirs.is_empty() && kind == "query" => body, None => format!("{kind}{vars}{dirs} {body}"), Some(n) => format!("{kind} {n}{vars}{dirs} {body}") }
    }

    fn subscription_body(&mut self, root: &str) -> String {
        let fields: Vec<String> = match self.schema.types.get(root) { Some(apollo_compiler::schema::ExtendedType::Object(o)) => o.fields.keys().map(|k| k.to_string()).collect(), _ => vec![] };
        let pick = self.r.pick(&fields).clone();
        let one = |g: &mut Self, name: &str, alias: &str| -> String {
            let sig = spec::field_sig(g.schema, root, name).unwrap();
            let inner = spec::named(&sig.ty).to_string();
            let args = g.args(&sig.args);
            let sub = if spec::kind_of(g.schema, &inner).map_or(false, |k| k.composite()) { format!(" {}", g.selection_set(&inner, 1)) } else { String::new() };
            format!("{alias}{name}{args}{sub}")
        };
        let first = one(self, &pick, "");
        let mut sels = vec![first.clone()];
        if self.hit(Fault::SubTwoFields) { let other = fields.iter().find(|f| **f != pick).cloned().unwrap_or(pick.clone()); let s = one(self, &other, "second: "); sels.push(s); }
        if self.hit(Fault::SubSameFieldTwice) { sels.push(first.clone()); }
        if self.hit(Fault::SubAliasSameKey) { sels = vec![format!("x: {first}"), format!("... on {root} {{ x: {first} }}")]; }
        if self.hit(Fault::SubTypename) { if self.r.chance(1, 2) { sels = vec!["__typename".into()]; } else { sels.push("__typename".into()); } }
        if self.hit(Fault::SubSkip) { sels[0] = format!("{} @skip(if: false)", sels[0].split(' ').next().unwrap().trim_end_matches('{')); if spec::kind_of(self.schema, spec::named(&spec::field_sig(self.schema, root, &pick).unwrap().ty)).map_or(false, |k| k.composite()) { sels[0] = format!("... @include(if: true) {{ {first} }}"); } }
        match self.r.below(6) {
            0 => format!("{{ ... on {root} {{ {} }} }}", sels.join(" ")),
            1 => { let n = self.fresh("S"); let body = format!("{{ {} }}", sels.join(" ")); self.frags.push(FragRec { name: n.clone(), cond: root.to_string(), text: format!("fragment {n} on {root} {body}"), vars: vec![], spreads: vec![] }); self.cur_spreads.push(n.clone()); format!("{{ ...{n} }}") }
            _ => format!("{{ {} }}", sels.join(" ")),
        }
    }

    fn document(&mut self, has_mut: bool, has_sub: bool) -> String {
        let mut defs: Vec<String> = vec![];
        let kinds: Vec<&str> = { let mut k = vec!["query", "query", "query", "query"]; if has_mut { k.push("mutation"); } if has_sub { k.push("subscription"); k.push("subscription"); } k };
        let forced: Option<&str> = match self.fault {
            Fault::SubTwoFields | Fault::SubSameFieldTwice | Fault::SubAliasSameKey | Fault::SubTypename | Fault::SubSkip => Some("subscription"),
            Fault::DeferRoot => Some("mutation"),
            _ => None,
        };
        let n_ops = if self.r.chance(1, 4) { 2 } else { 1 };
        for i in 0..n_ops {
            let mut kind = forced.unwrap_or(*self.r.pick(&kinds));
            if self.hit(Fault::UndefinedRoot) { kind = if has_mut { "query" } else if self.r.chance(1, 2) { "mutation" } else { "subscription" }; }
            if (kind == "subscription" && !has_sub) || (kind == "mutation" && !has_mut) { if self.fault != Fault::UndefinedRoot { kind = "query"; } }
            let name = if n_ops == 1 && self.r.chance(1, 2) { None } else { Some(format!("Op{i}")) };
            let mut name = name;
            if i == 1 && self.hit(Fault::OpNameDup) { name = Some("Op0".into()); }
            if i == 1 && self.hit(Fault::AnonPlusNamed) { name = None; }
            let op = self.operation(kind, name.as_deref());
            defs.push(op);
        }
        if self.fault == Fault::OpNameDup && !self.applied { defs.push("query Op0 { __typename }".into()); if n_ops == 1 && !defs[0].contains("Op0") { defs.push("query Op0 { __typename }".into()); } self.applied = true; }
        if self.fault == Fault::AnonPlusNamed && !self.applied { defs.push("{ __typename }".into()); self.applied = true; }
        if self.hit(Fault::FragUnused) { defs.push(format!("fragment Unused on {} {{ __typename }}", self.composites[0])); }
        if self.hit(Fault::TypeSystemDef) { defs.push("type Extra { a: Int }".into()); }
        if self.hit(Fault::DeferLabelDup) { defs.push("query DL { ... @defer(label: \"x\") { __typename } ... @defer(label: \"x\") { a: __typename } }".into()); if n_ops == 1 && !defs[0].starts_with("query Op") && !defs[0].starts_with("mutation Op") && !defs[0].starts_with("subscription Op") { defs.remove(0); } }
        let frags: Vec<String> = self.frags.iter().map(|f| f.text.clone()).collect();
        if !frags.is_empty() && self.hit(Fault::FragDup) { defs.push(frags[0].clone()); }
        defs.extend(frags);
        defs.join("\n")
    }
}

// ------------------------------------------------------------------------------------------------
// value encoding shared with Driver/D17.lean
// ------------------------------------------------------------------------------------------------
#[derive(Clone, Debug, PartialEq)]
enum Val { Null, Enum(String), Var(String), Str(String), Float(String), Int(String), Bool(bool), List(Vec<Val>), Obj(Vec<(String, Val)>) }
fn val_text(v: &Val) -> String {
    match v {
        Val::Null => "null".into(), Val::Enum(e) => e.clone(), Val::Var(n) => format!("${n}"), Val::Str(s) => format!("\"{s}\""),
        Val::Float(f) => f.clone(), Val::Int(i) => i.clone(), Val::Bool(b) => b.to_string(),
        Val::List(l) => format!("[{}]", l.iter().map(val_text).collect::<Vec<_>>().join(", ")),
        Val::Obj(o) => format!("{{{}}}", o.iter().map(|(k, v)| format!("{k}: {}", val_text(v))).collect::<Vec<_>>().join(", ")),
    }
}
fn val_enc(v: &Val, out: &mut String) {
    match v {
        Val::Null => out.push('n'), Val::Enum(e) => { out.push('e'); out.push_str(e); out.push(';') }
        Val::Var(n) => { out.push('v'); out.push_str(n); out.push(';') }
        Val::Str(s) => { out.push('s'); out.push_str(s); out.push(';') }
        Val::Float(s) => { out.push('f'); out.push_str(s); out.push(';') }
        Val::Int(s) => { out.push('i'); out.push_str(s); out.push(';') }
        Val::Bool(b) => out.push(if *b { 't' } else { 'F' }),
        Val::List(l) => { out.push('l'); for x in l { val_enc(x, out); } out.push('.'); }
        Val::Obj(o) => { out.push('o'); for (k, x) in o { out.push('k'); out.push_str(k); out.push(';'); val_enc(x, out); } out.push('.'); }
    }
}
fn atoms() -> Vec<Val> {
    vec![Val::Null, Val::Int("1".into()), Val::Int("2".into()), Val::Float("1.0".into()), Val::Str("a".into()), Val::Str("1".into()), Val::Bool(true), Val::Bool(false), Val::Enum("A".into()), Val::Enum("a".into()), Val::Var("v".into()), Val::Var("w".into())]
}
fn rand_val(r: &mut Rng, depth: usize) -> Val {
    let k = r.below(if depth >= 3 { 6 } else { 10 });
    match k {
        0..=5 => r.pick(&atoms()).clone(),
        6 | 7 => { let n = r.below(4); Val::List((0..n).map(|_| rand_val(r, depth + 1)).collect()) }
        _ => { let n = r.below(4); Val::Obj((0..n).map(|_| ((*r.pick(&["x", "y", "z"])).to_string(), rand_val(r, depth + 1))).collect()) }
    }
}
/// a small perturbation, so that near-equal pairs are frequent
fn perturb(r: &mut Rng, v: &Val) -> Val {
    match v {
        Val::List(l) if !l.is_empty() => match r.below(5) {
            0 => { let mut l = l.clone(); l.pop(); Val::List(l) }
            1 => { let mut l = l.clone(); l.push(rand_val(r, 3)); Val::List(l) }
            2 => { let mut l = l.clone(); l.reverse(); Val::List(l) }
            _ => { let mut l = l.clone(); let i = r.below(l.len()); l[i] = perturb(r, &l[i]); Val::List(l) }
        },
        Val::Obj(o) if !o.is_empty() => match r.below(6) {
            0 => { let mut o = o.clone(); o.reverse(); Val::Obj(o) }
            1 => { let mut o = o.clone(); o.rotate_left(1); Val::Obj(o) }
            2 => { let mut o = o.clone(); let i = r.below(o.len()); let d = o[i].clone(); o.push(d); Val::Obj(o) }
            3 => { let mut o = o.clone(); let i = r.below(o.len()); o[i].0 = (*r.pick(&["x", "y", "z"])).to_string(); Val::Obj(o) }
            _ => { let mut o = o.clone(); let i = r.below(o.len()); o[i].1 = perturb(r, &o[i].1); Val::Obj(o) }
        },
        v => if r.chance(1, 2) { v.clone() } else { rand_val(r, 2) },
    }
}

fn samevalue_case(ctx: &mut Ctx, schema: &Valid<Schema>, a: &Val, b: &Val) {
    // field_a is the first selection, field_b the second: same_value(&other_arg.value, &arg.value) = same_value(b, a)
    let text = format!("query($v: Any, $w: Any) {{ f(a: {}) f(a: {}) used: g(a: [$v, $w]) }}", val_text(a), val_text(b));
    let out = match apollo(schema, &text) {
        Err(p) => { ctx.fail("panic", &text, &p); "panic".to_string() }
        Ok((true, _)) => "same".to_string(),
        // a repeated field name in an object literal is reported on its own (UniqueInputValue, fix 9a745ed)
        // and does not hide the comparison of the two argument values
        Ok((false, names)) => {
            let rest: Vec<&String> = names.iter().filter(|n| *n != "UniqueInputValue").collect();
            if rest.is_empty() { "same".to_string() }
            else if rest == vec!["ConflictingFieldArgument"] { "differ".to_string() }
            else { format!("other:{}", names.join(",")) }
        }
    };
    let (mut ea, mut eb) = (String::new(), String::new());
    val_enc(a, &mut ea); val_enc(b, &mut eb);
    if out == "same" && a != b { ctx.nontrivial(&text); }
    ctx.stat(&format!("samevalue:{}", if out.starts_with("other") { "other" } else { &out }));
    ctx.case("c17.samevalue", &[enc(&ea), enc(&eb)], &out);
    // duplicate keys in an object literal are outside the domain of argument comparison (rule 5.6.3 rejects them)
    fn dup(v: &Val) -> bool { match v { Val::List(l) => l.iter().any(dup), Val::Obj(o) => o.iter().enumerate().any(|(i, (k, x))| dup(x) || o[..i].iter().any(|(k2, _)| k2 == k)), _ => false } }
    if !dup(a) && !dup(b) { check_doc(ctx, schema, &text, "samevalue"); }
}

// ------------------------------------------------------------------------------------------------
// streams
// ------------------------------------------------------------------------------------------------
fn stream_samevalue(ctx: &mut Ctx, small: &Valid<Schema>) {
    let at = atoms();
    let mut small_vals: Vec<Val> = at.clone();
    let base: Vec<Val> = vec![Val::Int("1".into()), Val::Int("2".into()), Val::Null, Val::Var("v".into())];
    small_vals.push(Val::List(vec![]));
    small_vals.push(Val::Obj(vec![]));
    for x in &base { small_vals.push(Val::List(vec![x.clone()])); small_vals.push(Val::Obj(vec![("x".into(), x.clone())])); small_vals.push(Val::Obj(vec![("y".into(), x.clone())])); }
    for x in &base[..2] { for y in &base[..3] {
        small_vals.push(Val::List(vec![x.clone(), y.clone()]));
        small_vals.push(Val::Obj(vec![("x".into(), x.clone()), ("y".into(), y.clone())]));
        small_vals.push(Val::Obj(vec![("y".into(), y.clone()), ("x".into(), x.clone())]));
        small_vals.push(Val::Obj(vec![("x".into(), x.clone()), ("x".into(), y.clone())]));
    } }
    small_vals.push(Val::List(vec![Val::List(vec![Val::Int("1".into())]), Val::List(vec![])]));
    small_vals.push(Val::List(vec![Val::List(vec![Val::Int("1".into()), Val::Int("2".into())])]));
    small_vals.push(Val::List(vec![Val::List(vec![Val::Int("1".into())])]));
    for a in &small_vals { for b in &small_vals { samevalue_case(ctx, small, a, b); } }
    let n = if ctx.thorough { 20_000 } else { 1_500 };
    for _ in 0..n {
        let a = rand_val(&mut ctx.rng, 0);
        let b = if ctx.rng.chance(2, 3) { perturb(&mut ctx.rng, &a) } else { rand_val(&mut ctx.rng, 0) };
        samevalue_case(ctx, small, &a, &b);
    }
}

fn enc_ty(t: &Type) -> String {
    match t { Type::Named(n) => format!("n{n};"), Type::NonNullNamed(n) => format!("N{n};"), Type::List(i) => format!("l{}", enc_ty(i)), Type::NonNullList(i) => format!("L{}", enc_ty(i)) }
}

fn stream_shape(ctx: &mut Ctx) {
    // named types of every kind; the Lean driver knows this table
    let names = ["Int", "String", "E", "S", "O", "I", "U"];
    let mk = |n: &str| apollo_compiler::Name::new(n).unwrap();
    let mut level: Vec<Type> = names.iter().flat_map(|n| [Type::Named(mk(n)), Type::NonNullNamed(mk(n))]).collect();
    let mut all = level.clone();
    let depth = if ctx.thorough { 2 } else { 1 };
    for _ in 0..depth {
        let next: Vec<Type> = level.iter().flat_map(|t| [Type::List(Box::new(t.clone())), Type::NonNullList(Box::new(t.clone()))]).collect();
        all.extend(next.iter().cloned());
        level = next;
    }
    let mut pairs: Vec<(Type, Type)> = vec![];
    for a in &all { for b in &all { pairs.push((a.clone(), b.clone())); } }
    // deeper random pairs (mostly equal wrappers)
    let extra = if ctx.thorough { 3000 } else { 400 };
    for _ in 0..extra {
        let d = 2 + ctx.rng.below(4);
        let mut a = ctx.rng.pick(&all[..14]).clone();
        let mut b = if ctx.rng.chance(1, 2) { a.clone() } else { ctx.rng.pick(&all[..14]).clone() };
        for _ in 0..d {
            let nn = ctx.rng.chance(1, 2);
            a = if nn { Type::NonNullList(Box::new(a)) } else { Type::List(Box::new(a)) };
            let flip = ctx.rng.chance(1, 8);
            let drop = ctx.rng.chance(1, 16);
            if !drop { b = if nn != flip { Type::NonNullList(Box::new(b)) } else { Type::List(Box::new(b)) }; }
        }
        pairs.push((a, b));
    }
    for (a, b) in pairs {
        let schema_text = format!("type Query {{ n: AB }} union AB = A | B type A {{ f: {a} }} type B {{ f: {b} }} enum E {{ X }} scalar S type O {{ z: Int }} interface I {{ z: Int }} union U = O");
        let schema = match catch(|| Schema::parse_and_validate(&schema_text, "s.graphql")) { Ok(Ok(s)) => s, _ => { ctx.stat("shape:schema-invalid"); continue } };
        let sub = |t: &Type| if matches!(spec::named(t), "O" | "I" | "U") { " { __typename }" } else { "" };
        let text = format!("{{ n {{ ... on A {{ f{} }} ... on B {{ f{} }} }} }}", sub(&a), sub(&b));
        let out = match apollo(&schema, &text) {
            Err(p) => { ctx.fail("panic", &text, &p); "panic".to_string() }
            Ok((true, _)) => "ok".to_string(),
            Ok((false, names)) => if names == vec!["ConflictingFieldType".to_string()] { "conflict".to_string() } else { format!("other:{}", names.join(",")) },
        };
        ctx.stat(&format!("shape:{}", if out.starts_with("other") { "other" } else { &out }));
        if out == "ok" && a != b { ctx.nontrivial(&format!("{a}/{b}")); }
        ctx.case("c17.shape", &[enc(&enc_ty(&a)), enc(&enc_ty(&b))], &out);
        // oracle on the same case (the spec validator's SameResponseShape)
        if let Some(true) = check_doc(ctx, &schema, &text, "shape") { ctx.stat("shape:spec-ok"); }
    }
}

/// root selections of a subscription: fields (alias, name, @skip?), inline fragments, spreads
#[derive(Clone, Debug)]
enum RSel { Field(String, String, bool), Inline(bool, bool, Vec<RSel>), Spread(usize, bool) }
fn rsel_text(s: &[RSel], out: &mut String) {
    out.push_str("{ ");
    for x in s {
        match x {
            RSel::Field(a, n, c) => { if a != n { out.push_str(&format!("{a}: ")); } out.push_str(n); if *c { out.push_str(" @skip(if: false)"); } out.push(' '); }
            RSel::Inline(tc, c, sub) => { out.push_str("... "); if *tc { out.push_str("on Subscription "); } if *c { out.push_str("@include(if: true) "); } rsel_text(sub, out); }
            RSel::Spread(j, c) => { out.push_str(&format!("...F{j} ")); if *c { out.push_str("@skip(if: false) "); } }
        }
    }
    out.push_str("} ");
}
fn rsel_enc(s: &[RSel], out: &mut String) {
    for x in s {
        match x {
            RSel::Field(a, n, c) => { out.push(if *c { 'c' } else { 'f' }); out.push_str(a); out.push(','); out.push_str(n); out.push(';'); }
            RSel::Inline(_, c, sub) => { out.push(if *c { 'j' } else { 'i' }); rsel_enc(sub, out); }
            RSel::Spread(j, c) => { out.push(if *c { 't' } else { 's' }); out.push_str(&j.to_string()); out.push(';'); }
        }
    }
    out.push('.');
}
fn rsel_gen(r: &mut Rng, depth: usize, nfrag: usize, budget: &mut usize) -> Vec<RSel> {
    let n = if depth == 0 { 1 + r.below(3) } else { r.below(3) };
    let mut out = vec![];
    for _ in 0..n {
        if *budget == 0 { break; }
        *budget -= 1;
        let cond = r.chance(1, 12);
        match r.below(10) {
            0..=4 => { let name = (*r.pick(&["a", "a", "b", "c", "__typename"])).to_string(); let alias = if r.chance(1, 4) { (*r.pick(&["a", "b", "x"])).to_string() } else { name.clone() }; out.push(RSel::Field(alias, name, cond)); }
            5 | 6 if depth < 3 => out.push(RSel::Inline(r.chance(1, 2), cond, rsel_gen(r, depth + 1, nfrag, budget))),
            _ => if nfrag > 0 { out.push(RSel::Spread(r.below(nfrag), cond)) } else { out.push(RSel::Field("a".into(), "a".into(), cond)) },
        }
    }
    out
}
fn rsel_used(frags: &[Vec<RSel>], s: &[RSel], seen: &mut Vec<bool>) {
    for x in s { match x {
        RSel::Inline(_, _, sub) => rsel_used(frags, sub, seen),
        RSel::Spread(j, _) => if !seen[*j] { seen[*j] = true; rsel_used(frags, &frags[*j].clone(), seen); },
        _ => {}
    } }
}

fn subscription_case(ctx: &mut Ctx, schema: &Valid<Schema>, frags: &[Vec<RSel>], op: &[RSel]) {
    let mut text = String::from("subscription ");
    rsel_text(op, &mut text);
    let mut seen = vec![false; frags.len()];
    rsel_used(frags, op, &mut seen);
    for (j, f) in frags.iter().enumerate() { if seen[j] { text.push_str(&format!("fragment F{j} on Subscription ")); rsel_text(f, &mut text); } }
    if text.contains("{ }") { return; }
    let names = match apollo(schema, &text) { Err(p) => { ctx.fail("panic", &text, &p); return } Ok((_, n)) => n };
    if names.iter().any(|n| n == "RecursiveFragmentDefinition") { ctx.stat("subscription:cyclic-skipped"); return; }
    let has = |n: &str| names.iter().any(|x| x == n);
    let out = format!("multiple={} introspection={} conditional={}", has("SubscriptionUsesMultipleFields"), has("SubscriptionUsesIntrospection"), has("SubscriptionUsesConditionalSelection"));
    let mut e = String::new();
    for f in frags { rsel_enc(f, &mut e); e.push('|'); }
    let mut o = String::new();
    rsel_enc(op, &mut o);
    ctx.stat(&format!("subscription:{out}"));
    ctx.nontrivial(&text);
    ctx.case("c17.subscription", &[enc(&e), enc(&o)], &out);
    check_doc(ctx, schema, &text, "subscription");
}

fn stream_subscription(ctx: &mut Ctx, schema: &Valid<Schema>) {
    let f = |a: &str, n: &str| RSel::Field(a.into(), n.into(), false);
    // regression inputs first
    subscription_case(ctx, schema, &[], &[f("a", "a"), f("a", "a")]);
    subscription_case(ctx, schema, &[], &[f("a", "a")]);
    subscription_case(ctx, schema, &[], &[f("a", "a"), f("b", "b")]);
    subscription_case(ctx, schema, &[], &[f("x", "a"), RSel::Inline(true, false, vec![f("x", "a")])]);
    subscription_case(ctx, schema, &[vec![f("a", "a")]], &[RSel::Spread(0, false), RSel::Spread(0, false)]);
    subscription_case(ctx, schema, &[vec![f("a", "a")]], &[RSel::Spread(0, false), f("a", "a")]);
    subscription_case(ctx, schema, &[], &[f("__typename", "__typename")]);
    subscription_case(ctx, schema, &[], &[RSel::Field("a".into(), "a".into(), true)]);
    let n = if ctx.thorough { 40_000 } else { 3_000 };
    for _ in 0..n {
        let nf = ctx.rng.below(3);
        let mut frags = vec![];
        for j in 0..nf { let mut b = 4; let mut fr = rsel_gen(&mut ctx.rng, 1, j, &mut b); if fr.is_empty() { fr.push(f("a", "a")); } frags.push(fr); }
        let mut b = 6;
        let op = rsel_gen(&mut ctx.rng, 0, nf, &mut b);
        if op.is_empty() { continue; }
        subscription_case(ctx, schema, &frags, &op);
    }
}

// abstract field trees for the merging model -------------------------------------------------------
struct AField { key: String, parent: String, parent_is_object: bool, name_args: String, shape: String, subs: Vec<AField> }

fn canon_value(v: &ast::Value) -> String {
    match v {
        ast::Value::Object(o) => { let mut f: Vec<String> = o.iter().map(|(k, v)| format!("{k}:{}", canon_value(v))).collect(); f.sort(); format!("{{{}}}", f.join(",")) }
        ast::Value::List(l) => format!("[{}]", l.iter().map(|v| canon_value(v)).collect::<Vec<_>>().join(",")),
        v => v.to_string(),
    }
}
fn shape_of(schema: &Schema, t: &Type) -> String {
    match t {
        Type::List(i) => format!("[{}]", shape_of(schema, i)),
        Type::NonNullList(i) => format!("[{}]!", shape_of(schema, i)),
        Type::Named(n) => if spec::kind_of(schema, n).map_or(false, |k| k.composite()) { "composite".into() } else { n.to_string() },
        Type::NonNullNamed(n) => if spec::kind_of(schema, n).map_or(false, |k| k.composite()) { "composite!".into() } else { format!("{n}!") },
    }
}
fn flatten(schema: &Schema, frags: &HashMap<String, &ast::FragmentDefinition>, parent: &str, sels: &[ast::Selection], visited: &mut HashSet<String>, out: &mut Vec<AField>) -> Option<()> {
    for s in sels {
        match s {
            ast::Selection::Field(f) => {
                let sig = spec::field_sig(schema, parent, f.name.as_str())?;
                let mut args: Vec<String> = f.arguments.iter().map(|a| format!("{}={}", a.name, canon_value(&a.value))).collect();
                args.sort();
                let inner = spec::named(&sig.ty).to_string();
                let mut subs = vec![];
                flatten(schema, frags, &inner, &f.selection_set, &mut HashSet::new(), &mut subs)?;
                out.push(AField { key: spec::rkey(f).to_string(), parent: parent.to_string(), parent_is_object: spec::kind_of(schema, parent) == Some(Kind::Object), name_args: format!("{} {}", f.name, args.join(",")), shape: shape_of(schema, &sig.ty), subs });
            }
            ast::Selection::InlineFragment(i) => { let p = i.type_condition.as_ref().map(|t| t.as_str()).unwrap_or(parent); flatten(schema, frags, p, &i.selection_set, visited, out)?; }
            ast::Selection::FragmentSpread(sp) => if visited.insert(sp.fragment_name.to_string()) {
                let fd = frags.get(sp.fragment_name.as_str())?;
                flatten(schema, frags, fd.type_condition.as_str(), &fd.selection_set, visited, out)?;
            },
        }
    }
    Some(())
}
fn afield_enc(fs: &[AField], out: &mut String) {
    for f in fs {
        out.push('<');
        out.push_str(&format!("{}|{}|{}|{}|{}|", f.key, f.parent, if f.parent_is_object { 'O' } else { 'A' }, f.name_args, f.shape));
        afield_enc(&f.subs, out);
        out.push('>');
    }
}

fn merge_case(ctx: &mut Ctx, schema: &Valid<Schema>, text: &str) {
    let Ok(Ok(doc)) = catch(|| ast::Document::parse(text, "d.graphql")) else { ctx.stat("merge:syntax"); return };
    let names = match apollo(schema, text) { Err(p) => { ctx.fail("panic", text, &p); return } Ok((_, n)) => n };
    let conflict = names.iter().any(|n| n.starts_with("ConflictingField"));
    let mut frags: HashMap<String, &ast::FragmentDefinition> = HashMap::new();
    let mut root: Option<&ast::OperationDefinition> = None;
    for d in &doc.definitions { match d { ast::Definition::FragmentDefinition(f) => { frags.entry(f.name.to_string()).or_insert(f); } ast::Definition::OperationDefinition(o) => root = Some(o), _ => {} } }
    let Some(op) = root else { return };
    let mut fields = vec![];
    if flatten(schema, &frags, "Query", &op.selection_set, &mut HashSet::new(), &mut fields).is_none() { ctx.stat("merge:not-flattenable"); check_doc(ctx, schema, text, "merge"); return; }
    let mut e = String::new();
    afield_enc(&fields, &mut e);
    ctx.stat(if conflict { "merge:conflict" } else { "merge:ok" });
    if e.len() < 6000 {
        ctx.case("c17.merge", &[enc(&e)], if conflict { "conflict" } else { "ok" });
        ctx.case("c17.mergecached", &[enc(&e)], if conflict { "conflict" } else { "ok" });
        let spec_ok = spec::root_fields_can_merge(schema, &doc);
        ctx.case("c17.mergespec", &[enc(&e)], if spec_ok { "ok" } else { "conflict" });
    }
    ctx.nontrivial(text);
    check_doc(ctx, schema, text, "merge");
}

fn stream_merge(ctx: &mut Ctx, schema: &Valid<Schema>) {
    let frag_defs = "fragment FO on O { x: a o { x: b } } fragment FP on P { x: b o: p { x: a } } fragment FI on I { x: a g(n: 1) } fragment FG on I { g(n: 2) }";
    let pool: Vec<&str> = vec![
        "a", "x: a", "__typename", "x: __typename", "g(n: 1)", "g(n: 2)", "g",
        "... on O { a }", "... on O { x: a }", "... on O { x: b }", "... on O { x }", "... on O { b }", "... on O { a: b }", "... on O { g(n: 1) }", "... on O { g(n: 2) }",
        "... on O { o { x: a } }", "... on O { o { x: b } }", "... on O { o { o { x: a } } }", "... on O { o { o { x: b } } }", "... on O { o { g(n: 1) } }", "... on O { o { g(n: 2) } }",
        "... on P { a }", "... on P { x: a }", "... on P { x: b }", "... on P { x }", "... on P { b }", "... on P { g(n: 2) }", "... on P { x: g(n: 1) }",
        "... on P { o: p { x: a } }", "... on P { o: p { x: b } }", "... on P { o: p { x } }", "... on P { o: p { o: p { x: b } } }", "... on P { o: a }",
        "... on I { x: a }", "... on I { g(n: 2) }", "... on I { ... on O { x: b } }", "... on I { ... on P { x: b } }",
        "...FO", "...FP", "...FI", "...FG", "... { x: a }",
    ];
    let used_frags = |body: &str| -> String {
        let mut out = String::new();
        for part in frag_defs.split("fragment ").filter(|p| !p.is_empty()) { let name = part.split(' ').next().unwrap(); if body.contains(&format!("...{name}")) { out.push_str("fragment "); out.push_str(part); } }
        out
    };
    let run = |ctx: &mut Ctx, items: &[&str]| {
        let body = items.join(" ");
        let text = format!("{{ i {{ {body} }} }} {}", used_frags(&body));
        merge_case(ctx, schema, &text);
    };
    // regression inputs
    for t in ["{ f(l: [1]) f(l: [1, 2]) }", "{ f(l: [1, 2]) f(l: [1]) }", "{ f(l: [1]) f(l: [2]) }", "{ f(l: [1, 2]) f(l: [1, 2]) }", "{ f(o: {x: 1, r: 1}) f(o: {r: 1, x: 1}) }", "{ f(a: {x: 1, x: 2}) f(a: {x: 1, y: 2}) }", "{ o { a } o { b } }", "{ o { x: a } o { x: b } }", "{ l { x: a } l { x: b } }", "{ x: a x: b }", "{ u { ... on O { b } ... on P { b } } }", "{ u { ... on O { x } ... on P { x } } }", "{ u { ... on O { y: a } ... on P { y: b } } }"] { merge_case(ctx, schema, t); }
    for a in &pool { for b in &pool { run(ctx, &[a, b]); } }
    let n = if ctx.thorough { 25_000 } else { 2_500 };
    for _ in 0..n {
        let k = 3 + ctx.rng.below(2);
        let items: Vec<&str> = (0..k).map(|_| *ctx.rng.pick(&pool)).collect();
        run(ctx, &items);
    }
}

// unused fragments: spreads graph -> number of unused fragments
fn stream_unused(ctx: &mut Ctx, schema: &Valid<Schema>) {
    let n = if ctx.thorough { 20_000 } else { 2_000 };
    for it in 0..n {
        let nf = 1 + ctx.rng.below(5);
        // acyclic by construction: Fi only spreads Fj with j > i (cycles are another rule); the operation spreads any
        let mut edges: Vec<Vec<usize>> = vec![];
        for i in 0..nf { let mut e = vec![]; for j in i + 1..nf { if ctx.rng.chance(1, 3) { e.push(j); if ctx.rng.chance(1, 5) { e.push(j); } } } edges.push(e); }
        let mut op: Vec<usize> = vec![];
        for j in 0..nf { if ctx.rng.chance(1, 3) { op.push(j); } }
        if it % 7 == 0 { op.clear(); }
        let nest = |ctx: &mut Ctx, s: String| match ctx.rng.below(4) { 0 => format!("o {{ {s} }}"), 1 => format!("... on O {{ {s} }}"), 2 => format!("... {{ o {{ {s} }} }}"), _ => s };
        let mut text = String::from("{ o { a ");
        for j in &op { let s = nest(ctx, format!("...F{j}")); text.push_str(&s); text.push(' '); }
        text.push_str("} } ");
        for (i, e) in edges.iter().enumerate() {
            text.push_str(&format!("fragment F{i} on O {{ a "));
            for j in e { let s = nest(ctx, format!("...F{j}")); text.push_str(&s); text.push(' '); }
            text.push_str("} ");
        }
        let errs = match catch(|| ExecutableDocument::parse_and_validate(schema, &text, "d.graphql")) {
            Err(p) => { ctx.fail("panic", &text, &p); continue }
            Ok(Ok(_)) => 0,
            Ok(Err(e)) => e.errors.iter().filter(|d| d.error.unstable_error_name() == Some("UnusedFragment")).count(),
        };
        let enc_list = |v: &[usize]| v.iter().map(|j| j.to_string()).collect::<Vec<_>>().join(",");
        let g = edges.iter().map(|e| enc_list(e)).collect::<Vec<_>>().join("|");
        ctx.stat(&format!("unused:{}", errs.min(3)));
        ctx.case("c17.unusedfrag", &[format!("={}", enc_list(&op)), format!("={g}|")], &errs.to_string());
        check_doc(ctx, schema, &text, "unusedfrag");
    }
}


// ------------------------------------------------------------------------------------------------
// several operations sharing fragments that use variables (rules 5.8.3–5.8.5 are PER OPERATION)
// ------------------------------------------------------------------------------------------------
const SCHEMA_SHARED: &str = r#"
type Query {
  item(id: Int, name: String): Item
  flag(on: Boolean!): Boolean
  items(ids: [Int!], first: Int! = 1): [Item]
  me: Item
}
type Item { id: Int name: String sub(id: Int): Item }
"#;

/// (variable, selection text using it, compatible declarations, incompatible declarations)
struct VarUse { var: &'static str, on_query: &'static str, on_item: &'static str, good: &'static [&'static str], bad: &'static [&'static str] }
const VAR_USES: [VarUse; 6] = [
    VarUse { var: "id", on_query: "item(id: $id) { id }", on_item: "sub(id: $id) { id }", good: &["Int", "Int!", "Int = 3"], bad: &["String", "[Int]", "Boolean", "ID"] },
    VarUse { var: "name", on_query: "item(name: $name) { name }", on_item: "n: name @skip(if: false) @include(if: $inc2)", good: &["String", "String!"], bad: &["Int", "[String]"] },
    VarUse { var: "on", on_query: "flag(on: $on)", on_item: "id @skip(if: $on)", good: &["Boolean!", "Boolean = true", "Boolean! = false"], bad: &["Boolean", "Boolean = null", "Int!", "[Boolean!]!"] },
    VarUse { var: "inc", on_query: "me { ... @include(if: $inc) { name } }", on_item: "... @include(if: $inc) { name }", good: &["Boolean!", "Boolean = false"], bad: &["Boolean", "String!"] },
    VarUse { var: "ids", on_query: "items(ids: $ids) { id }", on_item: "i2: id @skip(if: $on)", good: &["[Int!]", "[Int!]!", "[Int!] = [1]"], bad: &["[Int]", "Int", "[Int]!", "[[Int!]]"] },
    VarUse { var: "first", on_query: "items(first: $first) { id }", on_item: "i3: id", good: &["Int", "Int!", "Int = 2"], bad: &["String", "[Int!]", "Float"] },
];
/// variables a piece of selection text mentions
fn vars_in(text: &str) -> Vec<&'static str> {
    let mut out = vec![];
    for name in ["id", "name", "on", "inc2", "inc", "ids", "first"] {
        let pat = format!("${name}");
        let mut i = 0;
        while let Some(p) = text[i..].find(&pat) {
            let end = i + p + pat.len();
            let next = text[end..].chars().next();
            if !next.map_or(false, |c| c.is_ascii_alphanumeric() || c == '_') { if !out.contains(&name) { out.push(name); } }
            i = end;
        }
    }
    out
}
fn decl_choices(var: &str) -> (&'static [&'static str], &'static [&'static str]) {
    match var {
        "inc2" => (&["Boolean!", "Boolean = true"], &["Boolean", "Int"]),
        v => { let u = VAR_USES.iter().find(|u| u.var == v).unwrap(); (u.good, u.bad) }
    }
}

fn stream_shared(ctx: &mut Ctx, schema: &Valid<Schema>) {
    // fixed documents (the shapes of the independently seeded change), both orders
    for t in [
        "query A($id: Int) { ...F } query B($id: Int) { ...F } fragment F on Query { item(id: $id) { id } }",
        "query A($id: Int) { ...F } query B { ...F } fragment F on Query { item(id: $id) { id } }",
        "query B { ...F } query A($id: Int) { ...F } fragment F on Query { item(id: $id) { id } }",
        "query A($id: Int) { ...F } query B($id: String) { ...F } fragment F on Query { item(id: $id) { id } }",
        "query B($id: String) { ...F } query A($id: Int) { ...F } fragment F on Query { item(id: $id) { id } }",
        "query A($on: Boolean!) { ...F } query B($on: Boolean) { ...F } fragment F on Query { flag(on: $on) }",
        "query A($on: Boolean!) { ...F } query B($on: Boolean = true) { ...F } fragment F on Query { flag(on: $on) }",
        "query A($id: Int) { ...G } query B { me { id } ...G } fragment G on Query { ... on Query { ...F } } fragment F on Query { item(id: $id) { id } }",
        "query A($id: Int) { ...F } query B($id: Int, $x: Int) { ...F } fragment F on Query { item(id: $id) { id } }",
        "query A($on: Boolean!) { me { ...I } } query B { me { ...I } } fragment I on Item { id @skip(if: $on) }",
        "query A($id: Int) { ...F } mutation M { ...F } fragment F on Query { item(id: $id) { id } }",
        "query A($id: Int) { ...F } query B($id: Int) { me { id } } fragment F on Query { item(id: $id) { id } }",
        "query A($id: Int) { ...F } query B($id: Int!) { ...F } query C($id: [Int]) { ...F } fragment F on Query { item(id: $id) { id } }",
    ] { check_doc(ctx, schema, t, "shared-regression"); }
    let n = if ctx.thorough { 40_000 } else { 4_000 };
    for it in 0..n {
        // fragments: F0..F{nf-1}; Fi may spread Fj (j > i); each on Query or Item
        let nf = 1 + ctx.rng.below(3);
        let mut on_item: Vec<bool> = (0..nf).map(|_| ctx.rng.chance(1, 3)).collect();
        let mut bodies: Vec<String> = vec![];
        let mut spreads: Vec<Vec<usize>> = vec![vec![]; nf];
        for i in 0..nf {
            let nuse = 1 + ctx.rng.below(2);
            let mut sels: Vec<String> = vec![];
            for _ in 0..nuse {
                let u = ctx.rng.pick(&VAR_USES);
                sels.push(if on_item[i] { u.on_item.to_string() } else { u.on_query.to_string() });
            }
            for j in i + 1..nf {
                if ctx.rng.chance(1, 3) {
                    spreads[i].push(j);
                    let sp = format!("...F{j}");
                    let wrapped = match (on_item[i], on_item[j]) {
                        (false, false) => if ctx.rng.chance(1, 2) { format!("... on Query {{ {sp} }}") } else { sp },
                        (false, true) => format!("me {{ {sp} }}"),
                        (true, true) => if ctx.rng.chance(1, 2) { format!("sub {{ {sp} }}") } else { format!("... {{ {sp} }}") },
                        (true, false) => { spreads[i].pop(); String::new() }
                    };
                    if !wrapped.is_empty() { sels.push(wrapped); }
                }
            }
            // de-duplicate response keys inside one fragment (keeps the document free of merge conflicts)
            sels.dedup();
            bodies.push(sels.join(" "));
        }
        if on_item.iter().all(|b| *b) && ctx.rng.chance(1, 2) { on_item[0] = false; bodies[0] = VAR_USES[0].on_query.to_string(); spreads[0].clear(); }
        let reach = |roots: &[usize]| -> Vec<usize> {
            let mut seen: Vec<usize> = vec![];
            let mut stack: Vec<usize> = roots.to_vec();
            while let Some(j) = stack.pop() { if !seen.contains(&j) { seen.push(j); stack.extend(spreads[j].iter().copied()); } }
            seen
        };
        let nops = 2 + ctx.rng.below(3);
        let fault_op = if it % 3 == 0 { usize::MAX } else { ctx.rng.below(nops) };
        let fault_kind = ctx.rng.below(4);
        let mut ops: Vec<String> = vec![];
        let mut used_any = vec![false; nf];
        for o in 0..nops {
            let mut roots: Vec<usize> = (0..nf).filter(|_| ctx.rng.chance(1, 2)).collect();
            if roots.is_empty() && ctx.rng.chance(3, 4) { roots.push(ctx.rng.below(nf)); }
            if o == nops - 1 { for j in 0..nf { if !used_any[j] && !reach(&roots).contains(&j) { roots.push(j); } } }
            for j in reach(&roots) { used_any[j] = true; }
            let mut body: Vec<String> = vec![];
            for (k, j) in roots.iter().enumerate() {
                let sp = format!("...F{j}");
                body.push(if on_item[*j] { format!("m{k}: me {{ {sp} }}") } else if ctx.rng.chance(1, 3) { format!("... on Query {{ {sp} }}") } else { sp });
            }
            if body.is_empty() { body.push("me { id }".into()); }
            let mut needed: Vec<&'static str> = vec![];
            for j in reach(&roots) { for v in vars_in(&bodies[j]) { if !needed.contains(&v) { needed.push(v); } } }
            let mut decls: Vec<String> = vec![];
            let mut faulted = false;
            for (vi, v) in needed.iter().enumerate() {
                let (good, bad) = decl_choices(v);
                if o == fault_op && !faulted && (vi + 1 == needed.len() || ctx.rng.chance(1, 2)) {
                    match fault_kind {
                        0 => { faulted = true; continue; }                                  // undefined in this operation
                        1 | 2 => { faulted = true; decls.push(format!("${v}: {}", ctx.rng.pick(bad))); continue; }
                        _ => {}
                    }
                }
                decls.push(format!("${v}: {}", ctx.rng.pick(good)));
            }
            if o == fault_op && fault_kind == 3 { decls.push("$extra: Int".into()); faulted = true; }
            if o == fault_op && faulted { ctx.stat(&format!("shared:fault-kind-{fault_kind}-op-{}", if o == 0 { "first" } else { "later" })); }
            let vars = if decls.is_empty() { String::new() } else { format!("({})", decls.join(", ")) };
            ops.push(format!("query Op{o}{vars} {{ {} }}", body.join(" ")));
        }
        let mut text = ops.join("\n");
        for i in 0..nf { text.push_str(&format!("\nfragment F{i} on {} {{ {} }}", if on_item[i] { "Item" } else { "Query" }, bodies[i])); }
        match check_doc(ctx, schema, &text, "shared") { Some(true) => ctx.stat("shared:valid"), Some(false) => ctx.stat("shared:invalid"), None => {} }
    }
}

/// per-operation validation of fragments: k operations without variable definitions, every fragment
/// uses the undefined `$x` once — one UndefinedVariable diagnostic per (operation, reachable fragment)
fn stream_perop(ctx: &mut Ctx, schema: &Valid<Schema>) {
    let n = if ctx.thorough { 15_000 } else { 1_500 };
    for _ in 0..n {
        let nf = 1 + ctx.rng.below(4);
        let mut edges: Vec<Vec<usize>> = vec![];
        for i in 0..nf { let mut e = vec![]; for j in i + 1..nf { if ctx.rng.chance(1, 3) { e.push(j); } } edges.push(e); }
        let nops = 1 + ctx.rng.below(3);
        let mut ops: Vec<Vec<usize>> = vec![];
        for _ in 0..nops { let mut o: Vec<usize> = (0..nf).filter(|_| ctx.rng.chance(1, 2)).collect(); if ctx.rng.chance(1, 4) { if let Some(&f) = o.first() { o.push(f); } } ops.push(o); }
        let mut text = String::new();
        for (k, o) in ops.iter().enumerate() {
            text.push_str(&format!("query Q{k} {{ me {{ id }} "));
            for j in o { text.push_str(&format!("...F{j} ")); }
            text.push_str("} ");
        }
        for (i, e) in edges.iter().enumerate() {
            text.push_str(&format!("fragment F{i} on Query {{ a{i}: item(id: $x) {{ id }} "));
            for j in e { text.push_str(&format!("... on Query {{ ...F{j} }} ")); }
            text.push_str("} ");
        }
        let count = match catch(|| ExecutableDocument::parse_and_validate(schema, &text, "d.graphql")) {
            Err(p) => { ctx.fail("panic", &text, &p); continue }
            Ok(Ok(_)) => 0,
            Ok(Err(e)) => e.errors.iter().filter(|d| d.error.unstable_error_name() == Some("UndefinedVariable")).count(),
        };
        let enc_list = |v: &[usize]| v.iter().map(|j| j.to_string()).collect::<Vec<_>>().join(",");
        let o_enc = ops.iter().map(|o| enc_list(o)).collect::<Vec<_>>().join("/");
        let g = edges.iter().map(|e| enc_list(e)).collect::<Vec<_>>().join("|");
        ctx.stat(&format!("perop:{}", count.min(6)));
        ctx.nontrivial(&text);
        ctx.case("c17.perop", &[format!("={o_enc}/"), format!("={g}|")], &count.to_string());
        check_doc(ctx, schema, &text, "perop");
    }
}

// ------------------------------------------------------------------------------------------------
// generator audit GB: systematic families for shapes the random generators (almost) never reach
// ------------------------------------------------------------------------------------------------
const SCHEMA_DIRS_EXTRA: &str = r#"
directive @dQ on QUERY
directive @dM on MUTATION
directive @dS on SUBSCRIPTION
directive @dF on FIELD
directive @dG on FRAGMENT_DEFINITION
directive @dP on FRAGMENT_SPREAD
directive @dI on INLINE_FRAGMENT
directive @dV on VARIABLE_DEFINITION
directive @dT on OBJECT | FIELD_DEFINITION | ARGUMENT_DEFINITION | SCHEMA | SCALAR | ENUM
directive @need(b: Boolean!, d: Boolean! = true, i: Int) repeatable on QUERY | MUTATION | SUBSCRIPTION | FIELD | FRAGMENT_DEFINITION | FRAGMENT_SPREAD | INLINE_FRAGMENT | VARIABLE_DEFINITION
extend type Query { need(b: Boolean!, d: Boolean! = true, i: Int): Int }
extend type Human { need(b: Boolean!, d: Boolean! = true, i: Int): Int }
"#;

/// every directive application shape (argument present / missing / null / wrong kind / unknown / repeated,
/// repeatable or not, defined or not, one directive per location) at every executable directive location
fn stream_directive_sites(ctx: &mut Ctx, schema: &Valid<Schema>) {
    // `#` is replaced by the directive application(s)
    let sites: [(&str, &str); 14] = [
        ("QUERY", "query Q# { val }"), ("MUTATION", "mutation M# { del(id: 1) }"), ("SUBSCRIPTION", "subscription S# { tick }"),
        ("FIELD", "{ val# }"), ("FIELD-nested", "{ human(id: 1) { name# } }"), ("FIELD-in-fragment", "{ ...F } fragment F on Query { val# }"),
        ("FIELD-subscription-root", "subscription { tick# }"),
        ("FRAGMENT_DEFINITION", "{ ...F } fragment F on Query# { val }"), ("FRAGMENT_SPREAD", "{ ...F# } fragment F on Query { val }"),
        ("INLINE_FRAGMENT", "{ ...# { val } }"), ("INLINE_FRAGMENT-on", "{ pet { ... on Dog# { id } } }"),
        ("VARIABLE_DEFINITION", "query($x: Int#) { echo(i: $x) }"), ("VARIABLE_DEFINITION-second", "query($y: Int, $x: Int = 1#) { echo(i: $x, l: [$y]) }"),
        ("FIELD-second-operation", "query A { val } query B { val# }"),
    ];
    let apps: [&str; 52] = [
        "@skip(if: true)", "@skip", "@skip(if: null)", "@skip(if: 1)", "@skip(if: true, if: false)", "@skip(iff: true)", "@skip(if: true, x: 1)", "@skip(if: [true])",
        "@include(if: false)", "@include", "@skip(if: true) @include(if: true)", "@skip(if: true) @skip(if: true)", "@deprecated", "@specifiedBy(url: \"x\")",
        "@tag(name: \"a\")", "@tag", "@tag(name: null)", "@tag(name: 1)", "@tag(name: \"a\") @tag(name: \"b\")", "@tag(name: \"a\") @tag",
        "@once", "@once(n: null)", "@once(n: \"s\")", "@once(req: true, n: 2)", "@once(n: 1, n: 1)", "@once(m: 1)", "@once @once", "@once @tag(name: \"a\") @once", "@once(n: 2147483648)",
        "@onField(flag: true)", "@onField", "@onField(flag: null)", "@onField(flag: true) @onField(flag: true)", "@onQuery", "@onQuery(x: 1)", "@onQuery @onQuery",
        "@defer", "@defer(if: null)", "@defer(label: \"a\")", "@defer(if: false, label: null)",
        "@nope", "@nope @nope", "@nope(x: 1, x: 2)",
        "@dQ", "@dM", "@dS", "@dF", "@dG", "@dP", "@dI", "@dV", "@dT",
    ];
    for (site, tpl) in sites.iter() {
        for app in apps.iter() {
            let text = tpl.replace('#', &format!(" {app}"));
            ctx.stat_n(&format!("gb:dir-site:{site}"), 1);
            match check_doc(ctx, schema, &text, "gb-directive-sites") { Some(true) => ctx.stat("gb:dir-site:valid"), Some(false) => ctx.stat("gb:dir-site:invalid"), None => ctx.stat("gb:dir-site:syntax") }
        }
    }
}

/// one variable, used at exactly one place, × every kind of place × every declaration (rules 5.8.3–5.8.5 walk
/// different parts of the document: operation directives, field arguments and directives, spreads, the
/// directives of the fragment DEFINITION, inline fragments, nested fragments, literals)
fn stream_var_sites(ctx: &mut Ctx, schema: &Valid<Schema>) {
    // `#D` = a directive application using the variable, `#A` = a field using it, `#V` = the variable definitions
    let sites: [&str; 19] = [
        "query Q#V#D { val }", "mutation M#V#D { del(id: 1) }", "subscription S#V#D { tick }",
        "query Q#V { #A }", "query Q#V { val#D }", "query Q#V { human(id: 1) { #A } }", "query Q#V { human(id: 1) { name#D } }",
        "query Q#V { ...#D { val } }", "query Q#V { ... on Query { #A } }",
        "query Q#V { ...F#D } fragment F on Query { val }", "query Q#V { ...F } fragment F on Query#D { val }",
        "query Q#V { ...F } fragment F on Query { #A }", "query Q#V { ...F } fragment F on Query { val#D }",
        "query Q#V { ...F } fragment F on Query { human(id: 1) { ...G } } fragment G on Human { #A }",
        "query Q#V { ...F } fragment F on Query { human(id: 1) { ...G } } fragment G on Human#D { id }",
        "query Q#V { ...F ...F#D } fragment F on Query { val }",
        "query Q#V { val } query R#V { #A }", "query Q#V { #A } query R#V { val }",
        "query Q#V { ...F } query R { val } fragment F on Query#D { val }",
    ];
    let kinds: [(&str, &str); 3] = [("int", "b: true, i: $v"), ("bool-required", "b: $v"), ("bool-defaulted", "b: true, d: $v")];
    let decls: [&str; 13] = ["", "Int", "Int!", "Int = 1", "Int = null", "String", "[Int]", "Boolean", "Boolean!", "Boolean = true", "Boolean = null", "Boolean! = false", "[Boolean!]!"];
    for tpl in sites.iter() {
        for (kind, args) in kinds.iter() {
            for decl in decls.iter() {
                for extra in [false, true] {
                    if extra && !matches!(*decl, "Int" | "Boolean!" | "") { continue; }
                    let mut vs: Vec<String> = vec![];
                    if !decl.is_empty() { vs.push(format!("$v: {decl}")); }
                    if extra { vs.push("$u: Int".into()); }
                    let v = if vs.is_empty() { String::new() } else { format!("({})", vs.join(", ")) };
                    let text = tpl.replace("#V", &v).replace("#D", &format!(" @need({args})")).replace("#A", &format!("need({args})"));
                    ctx.stat_n(&format!("gb:var-site:{kind}"), 1);
                    match check_doc(ctx, schema, &text, "gb-var-sites") { Some(true) => ctx.stat("gb:var-site:valid"), Some(false) => ctx.stat("gb:var-site:invalid"), None => ctx.stat("gb:var-site:syntax") }
                }
            }
        }
    }
    // inside literals (list item, input-object field with and without default, custom scalar) and in two places
    let lits: [&str; 8] = [
        "{ echo(l: [$v]) }", "{ echo(l: [1, $v]) }", "{ human(id: 1, at: {x: 1, y: 1, z: $v}) { id } }", "{ human(id: 1, at: {x: 1, y: 1, tags: [$v]}) { id } }",
        "{ search(ids: [], any: {k: [$v]}) { id } }", "{ search(ids: [], matrix: [[$v]]) { id } }", "{ echo(i: $v) x: echo(l: [$v]) }", "{ echo(i: $v) @skip(if: $v) }",
    ];
    for lit in lits.iter() { for decl in decls.iter() {
        let text = if decl.is_empty() { lit.to_string() } else { format!("query($v: {decl}) {lit}") };
        ctx.stat_n("gb:var-site:literal", 1);
        check_doc(ctx, schema, &text, "gb-var-sites");
    } }
}

/// default values of variable definitions: every declared type × every literal shape
fn stream_var_defaults(ctx: &mut Ctx, schema: &Valid<Schema>) {
    let types: [&str; 23] = ["Int", "Int!", "Float", "String", "Boolean", "ID", "Color", "Color!", "Any", "Point", "Point!", "[Int]", "[Int!]", "[Int!]!", "[[Int]]", "[Point!]", "Filter", "[Color]",
        "Query", "Dog", "Pet", "Nope", "[Dog]"];
    let defaults: [&str; 24] = ["null", "1", "1.5", "\"s\"", "true", "RED", "PURPLE", "[]", "[1]", "[null]", "[1, null]", "[[1]]", "{}", "{x: 1, y: 2}", "{x: 1}", "{x: 1, y: 2, y: 3}",
        "{x: 1, y: 2, q: 3}", "{x: null, y: 1}", "2147483648", "[{x: 1, y: 2}]", "{at: {x: 1}}", "{id: null}", "[RED, PURPLE]", "{color: RED, sizes: [S, XL]}"];
    for t in types.iter() { for d in defaults.iter() {
        // the variable is used where only "is defined" matters (inside a list literal given to a custom scalar)
        let text = format!("query($v: {t} = {d}) {{ search(ids: [], any: [$v]) {{ id }} }}");
        ctx.stat_n("gb:var-default", 1);
        match check_doc(ctx, schema, &text, "gb-var-defaults") { Some(true) => ctx.stat("gb:var-default:valid"), Some(false) => ctx.stat("gb:var-default:invalid"), None => {} }
    } }
}

/// fragment spread possible / type conditions: every parent type × every type name, inline and named
fn stream_spread_matrix(ctx: &mut Ctx, schema: &Valid<Schema>) {
    let parents: [(&str, &str); 10] = [("Query", "{ # }"), ("Node", "{ node(id: 1) { # } }"), ("Named", "{ named { # } }"), ("Pet", "{ pet { # } }"), ("Lonely", "{ lonely { # } }"),
        ("Human", "{ human(id: 1) { # } }"), ("Dog", "{ pet { ... on Dog { # } } }"), ("Cat", "{ named { ... on Cat { # } } }"), ("Mutation", "mutation { # }"), ("Subscription", "subscription { # }")];
    let conds: [&str; 19] = ["Query", "Mutation", "Subscription", "Node", "Named", "Lonely", "Dog", "Cat", "Human", "Pet", "Int", "ID", "Any", "Color", "Point", "Filter", "Nope", "__Type", "__TypeKind"];
    for (p, tpl) in parents.iter() { for c in conds.iter() {
        let sub = if *p == "Subscription" && *c == "Subscription" { "tick" } else { "__typename" };
        for form in 0..3 {
            if *p == "Subscription" && form != 0 && *c != "Subscription" { /* still run: introspection at the subscription root is an Apollo rule of the oracle */ }
            let text = match form {
                0 => tpl.replace('#', &format!("... on {c} {{ {sub} }}")),
                1 => format!("{} fragment F on {c} {{ {sub} }}", tpl.replace('#', "...F")),
                _ => format!("{} fragment F on {p} {{ ...G }} fragment G on {c} {{ {sub} }}", tpl.replace('#', "...F")),
            };
            ctx.stat_n(&format!("gb:spread-matrix:{}", ["inline", "named", "nested"][form]), 1);
            match check_doc(ctx, schema, &text, "gb-spread-matrix") { Some(true) => ctx.stat("gb:spread-matrix:valid"), Some(false) => ctx.stat("gb:spread-matrix:invalid"), None => {} }
        }
    } }
}

/// fragment cycles of length 1–3, the back edge and every other edge at each kind of position, entered
/// directly or through an acyclic prefix, with a second operation that does not reach the cycle
fn stream_cycles(ctx: &mut Ctx, schema: &Valid<Schema>) {
    let place = |k: usize, sp: &str| -> String { match k { 0 => sp.to_string(), 1 => format!("... on O {{ {sp} }}"), 2 => format!("o {{ {sp} }}"), _ => format!("... {{ o {{ a {sp} }} }}") } };
    for len in 1..=3usize {
        let combos = 4usize.pow(len as u32);
        for c in 0..combos {
            if len == 3 && !ctx.thorough && c % 3 != 0 { continue; }
            for entry in 0..3 {
                let mut text = match entry { 0 => "{ o { ...F0 } }".to_string(), 1 => "{ o { ...P } } fragment P on O { b ...F0 }".to_string(), _ => "query A { o { a } } query B { o { ...P } } fragment P on O { b o { ...F0 } }".to_string() };
                let mut cc = c;
                for i in 0..len {
                    let sp = format!("...F{}", (i + 1) % len);
                    text.push_str(&format!(" fragment F{i} on O {{ a {} }}", place(cc % 4, &sp)));
                    cc /= 4;
                }
                ctx.stat_n(&format!("gb:cycle:len{len}"), 1);
                check_doc(ctx, schema, &text, "gb-cycles");
                // the same shape without the back edge is valid
                if c % 4 == 0 {
                    let open = text.replace(&format!("...F{} }}", 0), "x }");
                    if open != text { ctx.stat_n("gb:cycle:opened", 1); check_doc(ctx, schema, &open, "gb-cycles"); }
                }
            }
        }
    }
}

/// fields with many arguments: identical sets in another order, one value changed, one argument missing
/// on either side — below and above the 20-argument threshold where `same_name_and_arguments` switches to a hash map
fn stream_wide_args(ctx: &mut Ctx) {
    let n_max = 26usize;
    let defs: Vec<String> = (0..n_max).map(|i| format!("a{i}: Int")).collect();
    let schema = load(&format!("type Query {{ w({}): Int v: Int }}", defs.join(", ")));
    let ns: &[usize] = if ctx.thorough { &[1, 2, 3, 5, 10, 19, 20, 21, 22, 25, 26] } else { &[1, 2, 3, 19, 20, 21, 22, 26] };
    for &n in ns {
        let base: Vec<(usize, String)> = (0..n).map(|i| (i, i.to_string())).collect();
        let mut variants: Vec<(&str, Vec<(usize, String)>)> = vec![("same", base.clone())];
        { let mut v = base.clone(); v.reverse(); variants.push(("reversed", v)); }
        { let mut v = base.clone(); v.rotate_left(n / 2); variants.push(("rotated", v)); }
        for (what, i) in [("first-value", 0), ("middle-value", n / 2), ("last-value", n - 1)] { let mut v = base.clone(); v[i].1 = "99".into(); variants.push((what, v)); }
        for (what, i) in [("drop-first", 0), ("drop-middle", n / 2), ("drop-last", n - 1)] { let mut v = base.clone(); v.remove(i); variants.push((what, v)); }
        if n < n_max { let mut v = base.clone(); v.push((n, "7".into())); variants.push(("extra-last", v)); let mut v = base.clone(); v.insert(0, (n, "7".into())); variants.push(("extra-first", v)); }
        if n < n_max { let mut v = base.clone(); v[n - 1].0 = n; variants.push(("renamed-last", v)); }
        { let mut v = base.clone(); v.reverse(); v[0].1 = "98".into(); variants.push(("reversed-one-value", v)); }
        let txt = |v: &[(usize, String)]| if v.is_empty() { "w".to_string() } else { format!("w({})", v.iter().map(|(i, x)| format!("a{i}: {x}")).collect::<Vec<_>>().join(", ")) };
        for (what, v) in &variants {
            for order in 0..2 {
                let (x, y) = if order == 0 { (txt(&base), txt(v)) } else { (txt(v), txt(&base)) };
                ctx.stat_n(&format!("gb:wide-args:{}", if n > 20 { "over-20" } else if n == 20 { "exactly-20" } else { "under-20" }), 1);
                ctx.stat(&format!("gb:wide-args:{what}"));
                merge_case(ctx, &schema, &format!("{{ {x} {y} }}"));
                // … and with the second one behind a fragment / an alias that avoids the comparison
                if order == 0 { merge_case(ctx, &schema, &format!("{{ {x} ...F }} fragment F on Query {{ {y} }}")); merge_case(ctx, &schema, &format!("{{ {x} k: {y} }}")); }
            }
        }
    }
}

/// field nesting around apollo-compiler's field-merging depth limit (FIELD_DEPTH_LIMIT = 128): documents
/// below the limit must get the specification's verdict; at and above it the verdict is recorded in the stats only
fn stream_depth(ctx: &mut Ctx, schema: &Valid<Schema>) {
    let depths: Vec<usize> = if ctx.thorough { (1..=140).collect() } else { vec![1, 2, 3, 8, 32, 64, 100, 120, 124, 125, 126, 127, 128, 129, 130, 140] };
    for d in depths {
        for (form, leaf_a, leaf_b) in [("plain", "a", ""), ("twin-ok", "x: a", "x: a"), ("twin-conflict", "x: a", "x: b")] {
            let chain = |leaf: &str| { let mut t = String::new(); for _ in 0..d { t.push_str("o { "); } t.push_str(leaf); for _ in 0..d { t.push_str(" }"); } t };
            let text = if leaf_b.is_empty() { format!("{{ {} }}", chain(leaf_a)) } else { format!("{{ {} {} }}", chain(leaf_a), chain(leaf_b)) };
            let got = apollo(schema, &text);
            let limit = matches!(&got, Ok((false, names)) if names.iter().any(|n| n == "RecursionLimitError" || n == "RecursionError" || n == "Other"));
            ctx.stat_n(&format!("gb:depth:{form}:{}", if limit { "limit-reported" } else { "no-limit" }), 1);
            if limit { ctx.stat(&format!("gb:depth:limit-reported-at:{d}")); continue; }
            check_doc(ctx, schema, &text, "gb-depth");
        }
    }
}

/// meta fields and argument shapes of one field (required / defaulted / nullable argument: present, missing,
/// null, repeated, unknown, wrong kind) at every kind of parent
fn stream_field_sites(ctx: &mut Ctx, schema: &Valid<Schema>) {
    let parents: [(&str, &str); 9] = [("query-root", "{ # }"), ("mutation-root", "mutation { # }"), ("subscription-root", "subscription { # }"), ("object", "{ human(id: 1) { # } }"),
        ("interface", "{ node(id: 1) { # } }"), ("union", "{ pet { # } }"), ("inline", "{ ... on Query { # } }"), ("fragment", "{ ...F } fragment F on Query { # }"), ("list-of-union", "{ pets { # } }")];
    let metas: [&str; 15] = ["__typename", "t: __typename", "__typename(x: 1)", "__typename { a }", "__typename @skip(if: true)", "__schema { types { name } }", "__schema", "__schema(x: 1) { types { name } }",
        "__type(name: \"Dog\") { name }", "__type { name }", "__type(name: null) { name }", "__type(name: 1) { name }", "__type(name: \"a\", x: 1) { name }", "__type(name: \"Dog\")", "__typenam"];
    for (p, tpl) in parents.iter() { for m in metas.iter() {
        ctx.stat_n(&format!("gb:meta-field:{p}"), 1);
        check_doc(ctx, schema, &tpl.replace('#', m), "gb-field-sites");
    } }
    let arg_sites: [&str; 5] = ["{ # }", "{ human(id: 1) { # } }", "{ ...F } fragment F on Query { # }", "{ human(id: 1) { ... on Human { # } } }", "query A { val } query B { # }"];
    let apps: [&str; 16] = ["need(b: true)", "need", "need(b: null)", "need(b: true, d: null)", "need(b: true, d: false)", "need(b: true, i: null)", "need(b: true, b: true)", "need(b: true, x: 1)",
        "need(b: 1)", "need(d: true)", "need(i: 1)", "need(b: [true])", "need(i: 1, d: false, b: false)", "need(b: true, i: 1, i: 1)", "need(b: true) { x }", "need(b: true, d: true, i: 2147483648)"];
    for tpl in arg_sites.iter() { for a in apps.iter() {
        ctx.stat_n("gb:field-args", 1);
        check_doc(ctx, schema, &tpl.replace('#', a), "gb-field-sites");
    } }
}

// the repository's own diagnostics/ok corpus, split into schema + executable parts ----------------
fn corpus(ctx: &mut Ctx) {
    let base = std::env::var("VERIF_REPO").unwrap_or_else(|_| "/repo".into());
    for dir in ["diagnostics", "ok"] {
        let d = format!("{base}/crates/apollo-compiler/test_data/{dir}");
        let Ok(rd) = std::fs::read_dir(&d) else { continue };
        let mut files: Vec<_> = rd.filter_map(|e| e.ok()).map(|e| e.path()).filter(|p| p.extension().map_or(false, |x| x == "graphql")).collect();
        files.sort();
        for p in files {
            let Ok(src) = std::fs::read_to_string(&p) else { continue };
            let Ok(Ok(doc)) = catch(|| ast::Document::parse(src.clone(), "c.graphql")) else { ctx.stat("corpus:syntax"); continue };
            let (mut sdoc, mut edoc) = (ast::Document::new(), ast::Document::new());
            for def in &doc.definitions {
                if matches!(def, ast::Definition::OperationDefinition(_) | ast::Definition::FragmentDefinition(_)) { edoc.definitions.push(def.clone()); } else { sdoc.definitions.push(def.clone()); }
            }
            if edoc.definitions.is_empty() || sdoc.definitions.is_empty() { ctx.stat("corpus:one-sided"); continue; }
            let Ok(Ok(schema)) = catch(|| Schema::parse_and_validate(sdoc.to_string(), "s.graphql")) else { ctx.stat("corpus:schema-invalid"); continue };
            ctx.stat("corpus:used");
            check_doc(ctx, &schema, &edoc.to_string(), "corpus");
        }
    }
}

const REGRESSION_MAIN: &[&str] = &[
    // the probes recorded in the property
    "{ echo(l: [1]) echo(l: [1, 2]) }",
    "subscription { tick tick }",
    "{ pets(filter: {color: RED, color: BLUE}) { __typename } }",
    "query($v: Int) { echo(n: [$v]) }",
    "query($v: Int) { human(id: 1, at: {x: $v, y: 1}) { id } }",
    "query($v: Int = 1) { echo(n: [$v]) }",
    // valid neighbours
    "{ echo(l: [1, 2]) echo(l: [1, 2]) }",
    "subscription { tick }",
    "query($v: Int!) { echo(n: [$v]) }",
    "query($v: Int = 1) { color(c: RED) echo(i: $v) }",
    "query($c: Color = RED) { color(c: $c) }",
    "query($c: Color = null) { color(c: $c) }",
    "{ lonely { ... on Lonely { id } } }",
    "{ pet { ... on Lonely { id } } }",
    "mutation { del(id: 1) }",
    "mutation { ... @defer { del(id: 1) } }",
    "subscription { humanChanged { ... @defer { id } } }",
    "subscription { humanChanged { ... @defer(if: false) { id } } }",
    "subscription($b: Boolean!) { humanChanged { ... @defer(if: $b) { id } } }",
    "{ pet { ... @defer(label: \"a\") { __typename } ... @defer(label: \"a\") { __typename } } }",
    "query($l: String) { pet { ... @defer(label: $l) { __typename } } }",
    "subscription { tick @skip(if: false) }",
    "subscription { ... on Subscription { tick } ...S } fragment S on Subscription { tick }",
    "subscription { __typename }",
    "{ search(ids: \"a\", matrix: 1) { id } }",
    "{ search(ids: [], matrix: [[1], null, [null]]) { id } }",
    "{ search(ids: [null]) { id } }",
    "{ echo(i: 2147483648) }",
    "{ echo(f: 1) }",
    "{ echo(f: 1e999) }",
    "{ node(id: 99999999999999999999) { id } }",
    "{ search(ids: [], any: {a: $nope}) { id } }",
    "query($v: Int) { search(ids: [], any: [$v]) { id } }",
    "{ __schema { types { name } } __type(name: \"Dog\") { name } }",
    "{ pet { __schema { types { name } } } }",
    "{ named { nick(style: 1) ... on Dog { nick(style: 2) } } }",
    "{ pet { ... on Dog { nick(style: 1) } ... on Cat { nick(style: 2) } } }",
    "{ pet { ... on Dog { val } ... on Cat { val } } }",
    "{ pet { ... on Dog { v: val } ... on Cat { v: meows } } }",
    "query A { val } query A { val }",
    "query A { val } { val }",
    "{ val } fragment F on Query { val }",
    "{ ...F } fragment F on Query { ...G } fragment G on Query { ...F }",
    "query($a: Int, $a: Int) { echo(i: $a) }",
    "query($a: Query) { val }",
    "query($a: Int) { val }",
    "{ echo(i: $a) }",
    "query @onField(flag: true) { val }",
    "{ val @once @once }",
    "{ val @tag(name: \"a\") @tag(name: \"b\") }",
    "{ val @nope }",
    "{ val { x } }",
    "{ pet }",
    "{ human(id: null) { id } }",
    "{ human { id } }",
    "{ human(id: 1, id: 2) { id } }",
    "{ human(id: 1, foo: 2) { id } }",
    "{ human(id: 1, at: {x: 1}) { id } }",
    "{ human(id: 1, at: {x: 1, y: null}) { id } }",
    "{ human(id: 1, at: {x: 1, y: 2, w: 3}) { id } }",
    "{ human(id: 1, at: [{x: 1, y: 2}]) { id } }",
    "{ pets(filter: {near: {x: 1, y: 2}}) { __typename } }",
    "{ pets(filter: {strict: null}) { __typename } }",
    "{ color(c: \"RED\") }",
    "{ color(c: PURPLE) }",
    "type T { a: Int } { val }",
];

pub fn run(ctx: &mut Ctx) {
    let main = load(SCHEMA_MAIN);
    let small = load(SCHEMA_SMALL);
    let sub = load(SCHEMA_SUB);
    for t in REGRESSION_MAIN { check_doc(ctx, &main, t, "regression"); }
    for t in ["{ f(a: {x: 1, x: 1}) }", "{ f(a: [{y: {x: 1, x: 2}}]) }", "{ f(a: {x: 1, y: 1}) }", "mutation { a }", "subscription { a }", "query { a } mutation M { a }", "{ f(l: [1]) f(l: [1, 2]) }", "{ f(o: {r: 1, r: 2}) }", "{ f(o: {r: 1, y: [{r: 1, r: 1}]}) }", "query($v: Int) { f(ll: [[$v]]) }", "query($v: Int) { f(o: {r: $v}) }", "query($v: Int) { f(o: {r: 1, d: $v}) }", "query($v: [Int]) { f(o: {r: 1, x: $v}) }"] {
        check_doc(ctx, &small, t, "regression");
    }
    // a list literal given to a (non-list) custom scalar is opaque (fix <COMMIT> of value_of_correct_type)
    let any = load("scalar Any type Query { f(a: Any!): Int g(a: Any): Int }");
    for t in ["{ f(a: [null]) }", "{ f(a: [1, null]) }", "{ f(a: [[null], {x: [null]}]) }", "query($v: Int) { f(a: [$v]) }", "query($v: [Int!]) { g(a: [$v]) }",
        "query($v: Int) { f(a: [{x: $v}, $v]) }", "{ f(a: {x: [null]}) }", "{ f(a: [{x: 1, x: 2}]) }", "{ f(a: [$u]) }", "query($v: Int) { f(a: [$v, $u]) }",
        "{ f(a: null) }", "query($v: Int) { f(a: $v) }", "query($v: Any) { f(a: $v) }", "query($v: Any!) { f(a: $v) }", "{ g(a: [null]) }"] {
        check_doc(ctx, &any, t, "regression-custom-scalar-list");
    }
    corpus(ctx);
    // generator audit GB
    let dirs = load(&format!("{SCHEMA_MAIN}{SCHEMA_DIRS_EXTRA}"));
    stream_directive_sites(ctx, &dirs);
    stream_var_sites(ctx, &dirs);
    stream_var_defaults(ctx, &main);
    stream_spread_matrix(ctx, &main);
    stream_cycles(ctx, &small);
    stream_wide_args(ctx);
    stream_depth(ctx, &small);
    stream_field_sites(ctx, &dirs);
    stream_values(ctx);
    stream_samevalue(ctx, &small);
    stream_shape(ctx);
    stream_subscription(ctx, &sub);
    stream_merge(ctx, &small);
    stream_unused(ctx, &small);
    let shared = load(SCHEMA_SHARED);
    stream_shared(ctx, &shared);
    stream_perop(ctx, &shared);
    // grammar-directed documents, unfaulted and with one rule-targeted fault
    let n = if ctx.thorough { 120_000 } else { 9_000 };
    let mut nfault = 0usize;
    for i in 0..n {
        let fault = if i % 3 == 0 { Fault::None } else { nfault += 1; FAULTS[nfault % FAULTS.len()] };
        let needs_main = matches!(fault, Fault::SubTwoFields | Fault::SubSameFieldTwice | Fault::SubAliasSameKey | Fault::SubTypename | Fault::SubSkip | Fault::DeferRoot | Fault::DeferLabelDup
            | Fault::DirUnknown | Fault::DirWrongLocation | Fault::DirDupNonRepeatable | Fault::DirDupRepeatable | Fault::ValUnknownEnum);
        let use_small = fault == Fault::UndefinedRoot || (!needs_main && i % 5 == 4);
        let schema = if use_small { &small } else { &main };
        let mut text: Option<String> = None;
        for _attempt in 0..6 {
            let mut g = Gen::new(&mut ctx.rng, schema, fault);
            if use_small { g.max_depth = 2; }
            let t = g.document(!use_small, !use_small);
            if fault == Fault::None || g.applied { text = Some(t); break; }
        }
        let Some(text) = text else { ctx.stat(&format!("fault-not-applied:{fault:?}")); continue };
        ctx.stat(&format!("fault:{fault:?}"));
        let verdict = check_doc(ctx, schema, &text, if fault == Fault::None { "generated" } else { "generated-fault" });
        if fault == Fault::None { match verdict { Some(true) => ctx.stat("unfaulted-valid"), Some(false) => ctx.stat("unfaulted-invalid"), None => {} } }
        else { match verdict { Some(true) => ctx.stat(&format!("faulted-valid:{fault:?}")), Some(false) => ctx.stat("faulted-invalid"), None => {} } }
    }
    let _ = (BTreeMap::<u8, u8>::new(), BTreeSet::<u8>::new());
}
