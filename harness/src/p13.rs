//! C13 — building from several sources is compositional; extensions before / after their definition.
//!
//! Streams: `c13.schema` (structured definitions with positions ↦ built schema dump + sorted diagnostics,
//! against the Lean model of SchemaBuilder) and `c13.exec` (ExecutableDocumentBuilder bookkeeping).
//! Oracle (implementation against itself, written from the property text): k sources vs their
//! concatenation; extensions moved behind / in front of their definition.
use crate::util::*;
use apollo_compiler::diagnostic::ToCliReport;
use apollo_compiler::parser::SourceSpan;
use apollo_compiler::schema::{ComponentOrigin, ExtendedType};
use apollo_compiler::validation::{DiagnosticList, Valid};
use apollo_compiler::{ExecutableDocument, Schema};
use std::collections::HashMap;

pub(crate) const KIND_CH: [&str; 6] = ["s", "o", "i", "u", "e", "n"];
pub(crate) const KIND_KW: [&str; 6] = ["scalar", "type", "interface", "union", "enum", "input"];
const BUILTIN_TYPES: [&str; 13] = ["__Schema", "__Type", "__TypeKind", "__Field", "__InputValue", "__EnumValue", "__Directive",
    "__DirectiveLocation", "Int", "Float", "String", "Boolean", "ID"];

#[derive(Clone, Copy, PartialEq, Eq, Debug)]
pub(crate) enum Tag { SchemaDef, SchemaExt, DirDef, TypeDef, TypeExt, Op, Frag }

/// one definition, structurally; `kind` indexes KIND_* for type definitions / extensions
#[derive(Clone, Debug)]
pub(crate) struct D {
    pub(crate) tag: Tag,
    pub(crate) kind: usize,
    pub(crate) name: String,
    pub(crate) dirs: Vec<String>,
    pub(crate) ifaces: Vec<String>,
    /// fields / values / members / input fields: (name, ""); root operations: (operation type, object type)
    pub(crate) members: Vec<(String, String)>,
}

/// rendered definition: text plus offsets relative to its start
struct R { text: String, name_pos: usize, dirs: Vec<usize>, ifaces: Vec<usize>, members: Vec<(usize, usize)> }

fn render(d: &D) -> R {
    let mut t = String::new();
    let mut r = R { text: String::new(), name_pos: 0, dirs: vec![], ifaces: vec![], members: vec![] };
    let push_dirs = |t: &mut String, r: &mut R| for x in &d.dirs { t.push(' '); r.dirs.push(t.len()); t.push('@'); t.push_str(x); };
    match d.tag {
        Tag::SchemaDef | Tag::SchemaExt => {
            if d.tag == Tag::SchemaExt { t.push_str("extend "); }
            t.push_str("schema");
            r.name_pos = 0;
            push_dirs(&mut t, &mut r);
            if !d.members.is_empty() {
                t.push_str(" {");
                for (op, target) in &d.members {
                    t.push(' ');
                    let e = t.len();
                    t.push_str(op); t.push_str(": ");
                    let p = t.len();
                    t.push_str(target);
                    r.members.push((p, e));
                }
                t.push_str(" }");
            }
        }
        Tag::DirDef => {
            t.push_str("directive @");
            r.name_pos = t.len();
            t.push_str(&d.name);
            t.push_str(" repeatable on SCHEMA | SCALAR | OBJECT | INTERFACE | UNION | ENUM | INPUT_OBJECT | FIELD");
        }
        Tag::Op => { t.push_str("query "); r.name_pos = t.len(); t.push_str(&d.name); t.push_str(" { a }"); }
        Tag::Frag => { t.push_str("fragment "); r.name_pos = t.len(); t.push_str(&d.name); t.push_str(" on Query { a }"); }
        Tag::TypeDef | Tag::TypeExt => {
            if d.tag == Tag::TypeExt { t.push_str("extend "); }
            t.push_str(KIND_KW[d.kind]); t.push(' ');
            r.name_pos = t.len();
            t.push_str(&d.name);
            if !d.ifaces.is_empty() {
                t.push_str(" implements");
                for (i, x) in d.ifaces.iter().enumerate() { t.push_str(if i == 0 { " " } else { " & " }); r.ifaces.push(t.len()); t.push_str(x); }
            }
            push_dirs(&mut t, &mut r);
            if !d.members.is_empty() {
                if d.kind == 3 {
                    t.push_str(" =");
                    for (i, (m, _)) in d.members.iter().enumerate() { t.push_str(if i == 0 { " " } else { " | " }); let p = t.len(); r.members.push((p, p)); t.push_str(m); }
                } else {
                    t.push_str(" {");
                    for (m, _) in &d.members {
                        t.push(' ');
                        let p = t.len(); r.members.push((p, p));
                        t.push_str(m);
                        if d.kind != 4 { t.push_str(": Int"); }
                    }
                    t.push_str(" }");
                }
            }
        }
    }
    r.text = t;
    r
}

/// sources as texts + the case-line encoding with global positions (offsets in the concatenation)
pub(crate) fn assemble(srcs: &[Vec<D>]) -> (Vec<String>, Vec<usize>, String) {
    let mut texts = vec![];
    let mut bases = vec![];
    let mut enc_srcs = vec![];
    let mut base = 0usize;
    for src in srcs {
        bases.push(base);
        let mut text = String::new();
        let mut enc_defs = vec![];
        for d in src {
            let r = render(d);
            let start = base + text.len();
            let tag = match d.tag {
                Tag::SchemaDef => "S".to_string(), Tag::SchemaExt => "X".to_string(), Tag::DirDef => "D".to_string(),
                Tag::Op => "O".to_string(), Tag::Frag => "F".to_string(),
                Tag::TypeDef => format!("T{}", KIND_CH[d.kind]), Tag::TypeExt => format!("E{}", KIND_CH[d.kind]),
            };
            let items = |names: Vec<(&String, &str)>, poss: Vec<(usize, usize)>| -> String {
                names.iter().zip(poss.iter()).map(|((n, t), (p, e))| format!("{n}:{}:{}:{t}", start + p, start + e)).collect::<Vec<_>>().join("+")
            };
            let dirs = items(d.dirs.iter().map(|n| (n, "")).collect(), r.dirs.iter().map(|p| (*p, *p)).collect());
            let ifs = items(d.ifaces.iter().map(|n| (n, "")).collect(), r.ifaces.iter().map(|p| (*p, *p)).collect());
            let ms = items(d.members.iter().map(|(n, t)| (n, t.as_str())).collect(), r.members.clone());
            let name = if d.name.is_empty() { "-" } else { &d.name };
            enc_defs.push(format!("{tag},{name},{start},{},{dirs},{ifs},{ms}", start + r.name_pos));
            text.push_str(&r.text);
            text.push('\n');
        }
        base += text.len();
        texts.push(text);
        enc_srcs.push(enc_defs.join(";"));
    }
    (texts, bases, enc_srcs.join("|"))
}

pub(crate) struct Built { pub(crate) schema: Schema, pub(crate) errors: Option<DiagnosticList> }

pub(crate) fn build_schema(texts: &[String], adopt: bool, ignore: bool) -> Built {
    let mut b = Schema::builder();
    if adopt { b = b.adopt_orphan_extensions(); }
    if ignore { b = b.ignore_builtin_redefinitions(); }
    for (i, t) in texts.iter().enumerate() { b = b.parse(t.clone(), format!("s{i}.graphql")); }
    match b.build() {
        Ok(s) => Built { schema: s, errors: None },
        Err(e) => Built { schema: e.partial, errors: Some(e.errors) },
    }
}

/// location ↦ offset in the concatenation of the sources
pub(crate) struct Locs { by_file: HashMap<apollo_compiler::parser::FileId, usize>, bases: Vec<usize> }
impl Locs {
    fn new(schema_sources: &apollo_compiler::parser::SourceMap, bases: &[usize]) -> Self {
        let mut by_file = HashMap::new();
        for (id, f) in schema_sources.iter() {
            let p = f.path().to_string_lossy().to_string();
            if let Some(n) = p.strip_prefix('s').and_then(|x| x.strip_suffix(".graphql")).and_then(|x| x.parse::<usize>().ok()) { by_file.insert(*id, n); }
        }
        Locs { by_file, bases: bases.to_vec() }
    }
    fn pos(&self, l: Option<SourceSpan>) -> Option<usize> {
        let l = l?;
        let i = *self.by_file.get(&l.file_id())?;
        Some(self.bases.get(i).copied().unwrap_or(0) + l.offset())
    }
}

/// how positions and extension identities are printed
pub(crate) enum Mode<'a> { Positions(&'a Locs), Ordinal(std::cell::RefCell<Vec<Option<SourceSpan>>>) }
impl Mode<'_> {
    fn p(&self, l: Option<SourceSpan>) -> String {
        match self { Mode::Positions(lo) => format!("@{}", lo.pos(l).map(|x| x.to_string()).unwrap_or("-".into())), Mode::Ordinal(_) => String::new() }
    }
    fn bare(&self, l: Option<SourceSpan>) -> String {
        match self { Mode::Positions(lo) => lo.pos(l).map(|x| x.to_string()).unwrap_or("-".into()), Mode::Ordinal(_) => "_".into() }
    }
    fn origin(&self, o: &ComponentOrigin) -> String {
        match o.extension_id() {
            None => "d".into(),
            Some(id) => match self {
                Mode::Positions(lo) => lo.pos(id.location()).map(|x| x.to_string()).unwrap_or("-".into()),
                Mode::Ordinal(seen) => {
                    // extension identity = its location (two extensions never share one); numbered by first appearance
                    let mut s = seen.borrow_mut();
                    let l = id.location();
                    let i = match s.iter().position(|x| *x == l) { Some(i) => i, None => { s.push(l); s.len() - 1 } };
                    format!("e{i}")
                }
            },
        }
    }
}

pub(crate) fn dump_schema(s: &Schema, m: &Mode) -> String {
    let mut types = vec![];
    for (name, ty) in &s.types {
        let bi = ty.is_built_in();
        let keep = |o: &ComponentOrigin| !bi || o.extension_id().is_some();
        let dirs: Vec<String> = ty.directives().iter().filter(|c| keep(&c.origin)).map(|c| format!("{}{}^{}", c.name, m.p(c.node.location()), m.origin(&c.origin))).collect();
        let cn = |c: &apollo_compiler::schema::ComponentName| format!("{}{}^{}", c.name, m.p(c.name.location()), m.origin(&c.origin));
        let (k, ifs, ms): (usize, Vec<String>, Vec<String>) = match ty {
            ExtendedType::Scalar(_) => (0, vec![], vec![]),
            ExtendedType::Object(o) => (1, o.implements_interfaces.iter().filter(|c| keep(&c.origin)).map(cn).collect(),
                o.fields.iter().filter(|(_, c)| keep(&c.origin)).map(|(n, c)| format!("{n}{}^{}", m.p(c.node.location()), m.origin(&c.origin))).collect()),
            ExtendedType::Interface(o) => (2, o.implements_interfaces.iter().filter(|c| keep(&c.origin)).map(cn).collect(),
                o.fields.iter().filter(|(_, c)| keep(&c.origin)).map(|(n, c)| format!("{n}{}^{}", m.p(c.node.location()), m.origin(&c.origin))).collect()),
            ExtendedType::Union(o) => (3, vec![], o.members.iter().filter(|c| keep(&c.origin)).map(cn).collect()),
            ExtendedType::Enum(o) => (4, vec![], o.values.iter().filter(|(_, c)| keep(&c.origin)).map(|(n, c)| format!("{n}{}^{}", m.p(c.node.location()), m.origin(&c.origin))).collect()),
            ExtendedType::InputObject(o) => (5, vec![], o.fields.iter().filter(|(_, c)| keep(&c.origin)).map(|(n, c)| format!("{n}{}^{}", m.p(c.node.location()), m.origin(&c.origin))).collect()),
        };
        if bi && dirs.is_empty() && ifs.is_empty() && ms.is_empty() { continue; }
        let pos = if bi { "-".to_string() } else { m.bare(ty.location()) };
        types.push(format!("{name}/{}/{pos}{{d:{}}}{{i:{}}}{{m:{}}}", KIND_CH[k], dirs.join(","), ifs.join(","), ms.join(",")));
    }
    let sd = &s.schema_definition;
    let root = |r: &Option<apollo_compiler::schema::ComponentName>| match r { Some(c) => format!("{}{}^{}", c.name, m.p(c.name.location()), m.origin(&c.origin)), None => "-".into() };
    let sdirs: Vec<String> = sd.directives.iter().map(|c| format!("{}{}^{}", c.name, m.p(c.node.location()), m.origin(&c.origin))).collect();
    let ddefs: Vec<String> = s.directive_definitions.iter().filter(|(_, d)| !d.is_built_in()).map(|(n, d)| format!("{n}{}", m.p(d.location()))).collect();
    format!("T[{}]S[{}{{d:{}}}{{q:{}}}{{m:{}}}{{s:{}}}]D[{}]", types.join(" "), m.bare(sd.location()), sdirs.join(","), root(&sd.query), root(&sd.mutation), root(&sd.subscription), ddefs.join(","))
}

/// message ↦ model code, learned by probing the implementation (independent of message wording)
struct Templates { map: HashMap<String, (String, Vec<char>)> }

fn backticked(msg: &str) -> (String, Vec<String>) {
    let mut norm = String::new();
    let mut segs = vec![];
    let mut cur: Option<String> = None;
    for c in msg.chars() {
        if c == '`' {
            match cur.take() { Some(s) => { segs.push(s); norm.push_str("`_`"); } None => cur = Some(String::new()) }
        } else if let Some(s) = cur.as_mut() { s.push(c) } else { norm.push(c) }
    }
    (norm, segs)
}

impl Templates {
    fn learn_msg(&mut self, msg: &str, code: &str) {
        let (norm, segs) = backticked(msg);
        let order = segs.iter().map(|s| match s.trim_start_matches('@') { "Zzt" => 'T', "zzm" | "Zzm" => 'M', "Zzi" => 'I', "zzd" => 'D', "Zzo" => 'O', "Zzf" => 'F', "query" => 'Q', _ => '?' }).collect();
        self.map.entry(norm).or_insert((code.to_string(), order));
    }
    fn learn_schema(&mut self, src: &str, code: &str) {
        let b = build_schema(&[src.to_string()], false, false);
        if let Some(e) = &b.errors { if let Some(d) = e.iter().next() { let m = d.error.to_string(); self.learn_msg(&m, code); } }
    }
    fn classify(&self, msg: &str) -> String {
        let (norm, segs) = backticked(msg);
        match self.map.get(&norm) {
            None => format!("other<{}>", msg.replace(['\t', '\n'], " ")),
            Some((code, order)) => {
                let mut out = code.clone();
                for (seg, o) in segs.iter().zip(order.iter()) {
                    let seg = seg.trim_start_matches('@');
                    out = out.replace(&format!("{{{o}}}"), seg);
                }
                out
            }
        }
    }
    fn new(xschema: &Valid<Schema>) -> Self {
        let mut t = Templates { map: HashMap::new() };
        t.learn_schema("query Zq { a }", "exec0");
        t.learn_schema("fragment Zf on T { a }", "exec1");
        t.learn_schema("schema { query: Q } schema { query: Q }", "schemacoll");
        t.learn_schema("directive @zzd on FIELD directive @zzd on FIELD", "dircoll({D})");
        t.learn_schema("type Zzt { a: Int } type Zzt { a: Int }", "typecoll({T})");
        t.learn_schema("scalar Int", "builtinscalar");
        t.learn_schema("extend schema @zzd", "orphanschema");
        t.learn_schema("extend type Zzt { a: Int }", "orphantype({T})");
        t.learn_schema("schema { query: Q query: Q }", "duproot({Q})");
        t.learn_schema("type Zzt implements Zzi & Zzi { a: Int }", "dupiface(o,{T},{I})");
        t.learn_schema("interface Zzt implements Zzi & Zzi { a: Int }", "dupiface(i,{T},{I})");
        t.learn_schema("type Zzt { zzm: Int zzm: Int }", "dupmember(o,{T},{M})");
        t.learn_schema("interface Zzt { zzm: Int zzm: Int }", "dupmember(i,{T},{M})");
        t.learn_schema("union Zzt = Zzm | Zzm", "dupmember(u,{T},{M})");
        t.learn_schema("enum Zzt { Zzm Zzm }", "dupmember(e,{T},{M})");
        t.learn_schema("input Zzt { zzm: Int zzm: Int }", "dupmember(n,{T},{M})");
        let body = |k: usize| match k { 0 => " @zzd", 3 => " = Zzm", 4 => " { Zzm }", _ => " { zzm: Int }" };
        for dk in 0..6 { for ek in 0..6 { if dk != ek {
            t.learn_schema(&format!("{} Zzt{}\nextend {} Zzt{}", KIND_KW[dk], body(dk), KIND_KW[ek], body(ek)), &format!("mismatch({{T}},{},{})", KIND_CH[ek], KIND_CH[dk]));
        } } }
        // executable builder
        let mut lx = |src: &str, code: &str| {
            let mut errors = DiagnosticList::new(Default::default());
            let _ = ExecutableDocument::builder(Some(xschema), &mut errors).parse(src, "p.graphql").build();
            let m: Option<String> = errors.iter().next().map(|d| d.error.to_string());
            if let Some(m) = m { t.learn_msg(&m, code); }
        };
        lx("{ a } { b }", "ambiguous");
        lx("mutation Zzo { a }", "undefroot");
        lx("query Zzo { a } query Zzo { a }", "opcoll({O})");
        lx("fragment Zzf on Query { a } fragment Zzf on Query { a }", "fragcoll({F})");
        lx("fragment Zzf on Nope { a }", "undefcond({F})");
        lx("scalar Zzt", "typesys");
        lx("query Zzo { zzm }", "undeffield");
        lx("{ zzm }", "undeffield");
        lx("fragment Zzf on Query { zzm }", "undeffield");
        t
    }
}

pub(crate) fn messages(e: &Option<DiagnosticList>) -> Vec<String> {
    match e { None => vec![], Some(l) => l.iter().map(|d| d.error.to_string()).collect() }
}

fn diag_line(e: &Option<DiagnosticList>, locs: &Locs, tpl: &Templates) -> String {
    match e {
        None => String::new(),
        Some(l) => l.iter().map(|d| format!("{}:{}", locs.pos(d.error.location()).map(|x| x.to_string()).unwrap_or("-".into()), tpl.classify(&d.error.to_string()))).collect::<Vec<_>>().join(","),
    }
}

fn sorted(mut v: Vec<String>) -> Vec<String> { v.sort(); v }

/// `b` = `a` plus exactly `extra` further messages (as multisets)?
fn multiset_plus(a: &[String], b: &[String], extra: usize) -> bool {
    if b.len() != a.len() + extra { return false; }
    let mut rest: Vec<&String> = b.iter().collect();
    for x in a { match rest.iter().position(|y| *y == x) { Some(i) => { rest.swap_remove(i); } None => return false } }
    true
}

fn is_builtin_name(n: &str) -> bool { BUILTIN_TYPES.contains(&n) }

/// number of type extensions that sit before the first definition of their (non built-in) type and have another kind
fn mismatched_orphans(ds: &[D]) -> usize {
    let mut n = 0;
    for (i, e) in ds.iter().enumerate() {
        if e.tag != Tag::TypeExt || is_builtin_name(&e.name) { continue; }
        if ds[..i].iter().any(|d| d.tag == Tag::TypeDef && d.name == e.name) { continue; }
        if let Some(d) = ds[i..].iter().find(|d| d.tag == Tag::TypeDef && d.name == e.name) { if d.kind != e.kind { n += 1; } }
    }
    n
}

/// every extension that precedes the first definition of its type (or `schema`) moved directly behind it,
/// keeping the relative order of the extensions of one type
fn normalize(ds: &[D]) -> Vec<D> {
    let mut out: Vec<D> = vec![];
    let mut held: Vec<D> = vec![];
    let mut schema_seen = false;
    let mut defined: Vec<String> = BUILTIN_TYPES.iter().map(|s| s.to_string()).collect();
    for (i, d) in ds.iter().enumerate() {
        match d.tag {
            Tag::TypeExt if !defined.contains(&d.name) && ds[i..].iter().any(|x| x.tag == Tag::TypeDef && x.name == d.name) => held.push(d.clone()),
            Tag::SchemaExt if !schema_seen && ds[i..].iter().any(|x| x.tag == Tag::SchemaDef) => held.push(d.clone()),
            Tag::TypeDef => {
                out.push(d.clone());
                if !defined.contains(&d.name) {
                    defined.push(d.name.clone());
                    let (mine, rest): (Vec<D>, Vec<D>) = held.drain(..).partition(|x| x.tag == Tag::TypeExt && x.name == d.name);
                    out.extend(mine); held = rest;
                }
            }
            Tag::SchemaDef => {
                out.push(d.clone());
                if !schema_seen {
                    schema_seen = true;
                    let (mine, rest): (Vec<D>, Vec<D>) = held.drain(..).partition(|x| x.tag == Tag::SchemaExt);
                    out.extend(mine); held = rest;
                }
            }
            _ => out.push(d.clone()),
        }
    }
    debug_assert!(held.is_empty());
    out
}

/// the first extension behind the first definition of some type (or of `schema`) moved directly in front of it
fn demote(ds: &[D], pick: usize) -> Option<Vec<D>> {
    let mut cands = vec![];
    for (i, d) in ds.iter().enumerate() {
        let first = match d.tag {
            Tag::TypeDef => !is_builtin_name(&d.name) && !ds[..i].iter().any(|x| x.tag == Tag::TypeDef && x.name == d.name),
            Tag::SchemaDef => !ds[..i].iter().any(|x| x.tag == Tag::SchemaDef),
            _ => false,
        };
        if !first { continue; }
        let j = ds[i + 1..].iter().position(|x| if d.tag == Tag::TypeDef { x.tag == Tag::TypeExt && x.name == d.name } else { x.tag == Tag::SchemaExt });
        if let Some(j) = j { cands.push((i, i + 1 + j)); }
    }
    if cands.is_empty() { return None; }
    let (i, j) = cands[pick % cands.len()];
    let mut v = ds.to_vec();
    let e = v.remove(j);
    v.insert(i, e);
    Some(v)
}

pub(crate) fn show(srcs: &[String]) -> String { srcs.iter().map(|s| s.replace('\n', " ")).collect::<Vec<_>>().join(" ||| ") }

struct Obs { dump: String, text: String, msgs: Vec<String> }

fn observe(texts: &[String], adopt: bool, ignore: bool) -> (Built, Obs) {
    let b = build_schema(texts, adopt, ignore);
    let o = Obs { dump: dump_schema(&b.schema, &Mode::Ordinal(Default::default())), text: b.schema.to_string(), msgs: messages(&b.errors) };
    (b, o)
}

fn correspond(ctx: &mut Ctx, tpl: &Templates, srcs: &[Vec<D>], adopt: bool, ignore: bool) -> Obs {
    let (texts, bases, enc_srcs) = assemble(srcs);
    let (b, o) = observe(&texts, adopt, ignore);
    let locs = Locs::new(&b.schema.sources, &bases);
    let line = format!("{}E[{}]", dump_schema(&b.schema, &Mode::Positions(&locs)), diag_line(&b.errors, &locs, tpl));
    if let Some(l) = &b.errors { for d in l.iter() { let c = tpl.classify(&d.error.to_string()); ctx.stat(&format!("schema_diag:{}", c.split('(').next().unwrap_or("?"))); } }
    else { ctx.stat("schema_builds_without_diagnostics"); }
    if adopt { ctx.stat("schema_builds_adopt_orphan_extensions"); }
    if ignore { ctx.stat("schema_builds_ignore_builtin_redefinitions"); }
    ctx.stat(&format!("schema_builds_from_{}_sources", srcs.len()));
    ctx.case("c13.schema", &[enc(&format!("{}{}", adopt as u8, ignore as u8)), enc(&enc_srcs)], &line);
    o
}

fn schema_case(ctx: &mut Ctx, tpl: &Templates, ds: &[D], cuts: &[usize], adopt: bool, ignore: bool, pick: usize) {
    // cut into sources
    let mut srcs: Vec<Vec<D>> = vec![];
    let mut prev = 0;
    for &c in cuts { srcs.push(ds[prev..c].to_vec()); prev = c; }
    srcs.push(ds[prev..].to_vec());
    let split = correspond(ctx, tpl, &srcs, adopt, ignore);
    let (texts, _, _) = assemble(&srcs);
    let concat = vec![texts.concat()];
    let inp = format!("adopt={adopt} ignore_builtin={ignore} sources: {}", show(&texts));
    // --- oracle 1: k sources vs their concatenation
    let whole = if srcs.len() > 1 { correspond(ctx, tpl, &[ds.to_vec()], adopt, ignore) } else { observe(&concat, adopt, ignore).1 };
    if srcs.len() > 1 {
        ctx.stat("split_vs_concat");
        if split.dump != whole.dump { ctx.fail("sources-vs-concat-definitions", &inp, &format!("built schema differs: split {} / concatenated {}", split.dump, whole.dump)); }
        else if split.text != whole.text { ctx.fail("sources-vs-concat-serialized", &inp, "serialized schema differs"); }
        if split.msgs != whole.msgs { ctx.fail("sources-vs-concat-diagnostics", &inp, &format!("diagnostics differ: split {:?} / concatenated {:?}", split.msgs, whole.msgs)); }
        if !whole.msgs.is_empty() { ctx.stat("split_vs_concat_with_diagnostics"); }
    }
    // --- oracle 2: extensions behind / in front of their definition
    let m0 = mismatched_orphans(ds);
    let mut variants: Vec<(&str, Vec<D>)> = vec![];
    let nz = normalize(ds);
    if nz.iter().map(|d| render(d).text).collect::<Vec<_>>() != ds.iter().map(|d| render(d).text).collect::<Vec<_>>() { variants.push(("extensions moved behind their definition", nz)); }
    if let Some(v) = demote(ds, pick) { variants.push(("extension moved in front of its definition", v)); }
    for (what, v) in variants {
        ctx.stat("moved_extension_variants");
        let m1 = mismatched_orphans(&v);
        let var = correspond(ctx, tpl, &[v.clone()], adopt, ignore);
        let (vt, _, _) = assemble(&[v.clone()]);
        let vinp = format!("adopt={adopt} ignore_builtin={ignore} original: {} / {what}: {}", show(&concat), show(&vt));
        ctx.nontrivial(&vinp);
        let same_schema = var.dump == whole.dump && var.text == whole.text;
        let same_diags = sorted(var.msgs.clone()) == sorted(whole.msgs.clone());
        if m0 > 0 || m1 > 0 { ctx.stat("moved_with_kind_mismatched_orphan"); }
        if same_schema && same_diags { continue; }
        // the recorded defect: a kind-mismatched extension queued before its definition is dropped silently,
        // so the ordering with more such extensions has exactly that many diagnostics fewer
        let (fewer, more, gap) = if m0 >= m1 { (&whole.msgs, &var.msgs, m0 - m1) } else { (&var.msgs, &whole.msgs, m1 - m0) };
        if same_schema && gap > 0 && multiset_plus(fewer, more, gap) {
            ctx.fail("kind-mismatched-orphan-extension-dropped", &vinp, &format!("{gap} diagnostic(s) missing when the extension comes first: {:?} vs {:?}", fewer, more));
        } else if !same_schema {
            ctx.fail("moved-extension-changes-schema", &vinp, &format!("original {} / moved {}", whole.dump, var.dump));
        } else {
            ctx.fail("moved-extension-changes-diagnostics", &vinp, &format!("original {:?} / moved {:?}", whole.msgs, var.msgs));
        }
    }
    if !whole.msgs.is_empty() { ctx.stat("cases_with_diagnostics"); }
    ctx.nontrivial(&inp);
}

// ---------------------------------------------------------------- generators

fn gen_def(ctx: &mut Ctx, names: &[&str]) -> D {
    let r = ctx.rng.below(100);
    let tag = if r < 34 { Tag::TypeDef } else if r < 70 { Tag::TypeExt } else if r < 77 { Tag::SchemaDef } else if r < 88 { Tag::SchemaExt } else if r < 95 { Tag::DirDef } else if r < 98 { Tag::Op } else { Tag::Frag };
    let dirs: Vec<String> = (0..ctx.rng.below(3)).map(|_| ctx.rng.pick(&["d0", "d1", "deprecated"]).to_string()).collect();
    match tag {
        Tag::SchemaDef | Tag::SchemaExt => {
            let n = if tag == Tag::SchemaDef { 1 + ctx.rng.below(3) } else if dirs.is_empty() { 1 + ctx.rng.below(2) } else { ctx.rng.below(3) };
            let members = (0..n).map(|_| (ctx.rng.pick(&["query", "query", "mutation", "subscription"]).to_string(), ctx.rng.pick(&["Query", "T0", "T1", "Mutation"]).to_string())).collect();
            D { tag, kind: 0, name: String::new(), dirs, ifaces: vec![], members }
        }
        Tag::DirDef => D { tag, kind: 0, name: ctx.rng.pick(&["d0", "d1", "skip", "deprecated"]).to_string(), dirs: vec![], ifaces: vec![], members: vec![] },
        Tag::Op | Tag::Frag => D { tag, kind: 0, name: ctx.rng.pick(&["Q0", "Q1"]).to_string(), dirs: vec![], ifaces: vec![], members: vec![] },
        Tag::TypeDef | Tag::TypeExt => {
            let name = ctx.rng.pick(names).to_string();
            // a name has a "home" kind so that matching extensions are common; sometimes another kind
            let home = match name.as_str() { "Int" | "ID" => 0, "__Type" => 1, "__TypeKind" => 4, "Query" | "Mutation" | "Subscription" => 1,
                n => (n.bytes().last().unwrap_or(b'0') as usize + 1) % 6 };
            let kind = if ctx.rng.chance(3, 4) { home } else { ctx.rng.below(6) };
            let mut dirs = dirs;
            let ifaces: Vec<String> = if kind == 1 || kind == 2 { (0..ctx.rng.below(3)).map(|_| ctx.rng.pick(&["I0", "I1", "T2"]).to_string()).collect() } else { vec![] };
            let nm = if kind == 0 { 0 } else { ctx.rng.below(4) };
            let pool: &[&str] = match kind { 3 => &["T0", "T1", "Query"], 4 => &["V0", "V1", "V2"], _ => &["f0", "f1", "f2"] };
            let members: Vec<(String, String)> = (0..nm).map(|_| (ctx.rng.pick(pool).to_string(), String::new())).collect();
            if tag == Tag::TypeExt && dirs.is_empty() && ifaces.is_empty() && members.is_empty() { dirs.push("d0".into()); }
            D { tag, kind, name, dirs, ifaces, members }
        }
    }
}

fn t(kind: usize, name: &str, members: &[&str]) -> D { D { tag: Tag::TypeDef, kind, name: name.into(), dirs: vec![], ifaces: vec![], members: members.iter().map(|m| (m.to_string(), String::new())).collect() } }
fn e(kind: usize, name: &str, members: &[&str]) -> D { D { tag: Tag::TypeExt, ..t(kind, name, members) } }
fn with_dirs(mut d: D, dirs: &[&str]) -> D { d.dirs = dirs.iter().map(|s| s.to_string()).collect(); d }
fn with_ifaces(mut d: D, i: &[&str]) -> D { d.ifaces = i.iter().map(|s| s.to_string()).collect(); d }
fn sch(tag: Tag, dirs: &[&str], roots: &[(&str, &str)]) -> D { D { tag, kind: 0, name: String::new(), dirs: dirs.iter().map(|s| s.to_string()).collect(), ifaces: vec![], members: roots.iter().map(|(a, b)| (a.to_string(), b.to_string())).collect() } }
fn dirdef(name: &str) -> D { D { tag: Tag::DirDef, kind: 0, name: name.into(), dirs: vec![], ifaces: vec![], members: vec![] } }

fn regressions() -> Vec<Vec<D>> {
    vec![
        // the recorded defect: kind-mismatched extension before / after the definition
        vec![e(3, "X", &["A"]), t(1, "X", &["f0"])],
        vec![t(1, "X", &["f0"]), e(3, "X", &["A"])],
        vec![e(4, "X", &["V0"]), e(1, "X", &["f1"]), t(0, "S", &[]), t(1, "X", &["f0", "f1"]), e(1, "X", &["f0"])],
        // duplicates inside and across definition and extensions
        vec![e(1, "T0", &["f0", "f0"]), t(1, "T0", &["f1", "f1", "f0"]), e(1, "T0", &["f1", "f2"])],
        vec![with_ifaces(e(1, "T0", &[]), &["I0", "I0"]), with_ifaces(t(1, "T0", &["f0"]), &["I0", "I1"]), with_ifaces(e(2, "T0", &[]), &["I1"])],
        vec![e(3, "U", &["A", "B", "A"]), t(3, "U", &["B", "C"]), e(3, "U", &["C", "D"])],
        vec![e(4, "E", &["V0"]), t(4, "E", &["V0", "V1", "V1"]), e(4, "E", &["V2", "V2"])],
        vec![e(5, "N", &["f0"]), t(5, "N", &["f0"]), t(5, "N", &["f1"]), e(5, "N", &["f1"])],
        // collisions: type, directive, built-ins
        vec![t(1, "T0", &["f0"]), t(3, "T0", &["A"]), e(3, "T0", &["B"]), e(1, "T0", &["f1"])],
        vec![t(0, "Int", &[]), t(1, "Int", &["f0"]), with_dirs(e(0, "Int", &[]), &["d0"]), e(1, "Int", &["f0"]), t(1, "__Type", &["f0"]), e(1, "__Type", &["f9"]), with_dirs(e(4, "__TypeKind", &["V9"]), &["d1"])],
        vec![dirdef("d0"), dirdef("skip"), dirdef("d0"), dirdef("skip"), dirdef("skip")],
        // schema definition and extensions in every order
        vec![sch(Tag::SchemaExt, &["d0"], &[("mutation", "T1")]), sch(Tag::SchemaExt, &[], &[("query", "T0")]), sch(Tag::SchemaDef, &["d1"], &[("query", "Query"), ("query", "T1")]), sch(Tag::SchemaExt, &[], &[("mutation", "T0"), ("subscription", "T0")]), sch(Tag::SchemaDef, &[], &[("query", "T0")])],
        vec![sch(Tag::SchemaExt, &["d0"], &[("query", "T0")]), t(1, "Query", &["f0"]), sch(Tag::SchemaExt, &[], &[("mutation", "Query")])],
        vec![sch(Tag::SchemaExt, &["d0"], &[]), t(1, "T0", &["f0"])],
        vec![sch(Tag::SchemaExt, &["d0"], &[]), t(3, "Query", &["T0"]), t(1, "Mutation", &["f0"]), t(1, "Subscription", &["f0"])],
        // orphans never defined (errors, or adopted)
        vec![e(1, "T0", &["f0"]), e(3, "T1", &["A"]), e(1, "T0", &["f0", "f1"]), e(4, "T1", &["V0"]), e(3, "T1", &["A", "B"]), e(1, "Query", &["f0"])],
        // executable definitions in a schema document
        vec![D { tag: Tag::Op, kind: 0, name: "Q0".into(), dirs: vec![], ifaces: vec![], members: vec![] }, t(1, "T0", &["f0"]), D { tag: Tag::Frag, kind: 0, name: "F0".into(), dirs: vec![], ifaces: vec![], members: vec![] }],
    ]
}

// ---------------------------------------------------------------- systematic placement families (generator audit G3)

/// all orderings of `items` that keep every listed pair (a before b) in that order
fn orderings(n: usize, before: &[(usize, usize)]) -> Vec<Vec<usize>> {
    fn go(n: usize, cur: &mut Vec<usize>, out: &mut Vec<Vec<usize>>) {
        if cur.len() == n { out.push(cur.clone()); return; }
        for i in 0..n { if !cur.contains(&i) { cur.push(i); go(n, cur, out); cur.pop(); } }
    }
    let mut all = vec![];
    go(n, &mut vec![], &mut all);
    all.into_iter().filter(|o| before.iter().all(|(a, b)| o.iter().position(|x| x == a) < o.iter().position(|x| x == b))).collect()
}

/// cut patterns of a sequence of `n` definitions: quick = one source / every definition its own source; thorough = all
fn cut_patterns(n: usize, thorough: bool) -> Vec<Vec<usize>> {
    if n < 2 { return vec![vec![]]; }
    if thorough { (0..1usize << (n - 1)).map(|m| (1..n).filter(|c| m & (1 << (c - 1)) != 0).collect()).collect() }
    else { vec![vec![], (1..n).collect()] }
}

/// One type `X` of every kind: its definition D, two extensions E1, E2 of the same kind (in that order), an
/// extension M of another kind, a second definition D2 — in EVERY order, with and without duplicate members.
fn type_placement_family(ctx: &mut Ctx, tpl: &Templates) {
    let pools: [[&str; 4]; 6] = [["", "", "", ""], ["f0", "f1", "f2", "f3"], ["f0", "f1", "f2", "f3"], ["A", "B", "C", "D"], ["V0", "V1", "V2", "V3"], ["f0", "f1", "f2", "f3"]];
    let mut n = 0usize;
    for kind in 0..6usize {
        let p = pools[kind];
        let ms = |xs: &[usize]| -> Vec<&str> { if kind == 0 { vec![] } else { xs.iter().map(|i| p[*i]).collect() } };
        let other = (kind + 1) % 6;
        for dups in [false, true] {
            let mut d = t(kind, "X", &ms(&[0]));
            let mut e1 = with_dirs(e(kind, "X", &ms(if dups { &[0, 1] } else { &[1] })), &["d0"]);
            let mut e2 = with_dirs(e(kind, "X", &ms(if dups { &[1, 2] } else { &[2] })), if kind == 0 { &["d1"] } else { &[] });
            if kind == 1 || kind == 2 { d = with_ifaces(d, &["I0"]); e1 = with_ifaces(e1, &["I1"]); e2 = with_ifaces(e2, if dups { &["I0", "I2"] } else { &["I2"] }); }
            let m = if other == 0 { with_dirs(e(0, "X", &[]), &["d1"]) } else { e(other, "X", &[pools[other][3]]) };
            let d2 = t(if dups { kind } else { other }, "X", &(if dups { ms(&[3]) } else if other == 0 { vec![] } else { vec![pools[other][3]] }));
            let sets: [(Vec<D>, Vec<(usize, usize)>); 3] = [
                (vec![d.clone(), e1.clone(), e2.clone()], vec![(1, 2)]),
                (vec![d.clone(), e1.clone(), e2.clone(), m.clone()], vec![(1, 2)]),
                (vec![d.clone(), e1.clone(), e2.clone(), m.clone(), d2.clone()], vec![(1, 2), (0, 4)]),
            ];
            for (items, constraints) in sets {
                // quick tier: the four-element set only with duplicates, the five-element set only cut into single definitions
                if !ctx.thorough && items.len() == 4 && !dups { continue; }
                for ord in orderings(items.len(), &constraints) {
                    let ds: Vec<D> = ord.iter().map(|i| items[*i].clone()).collect();
                    for cuts in cut_patterns(ds.len(), ctx.thorough) {
                        if !ctx.thorough && items.len() == 5 && cuts.is_empty() { continue; }
                        n += 1;
                        ctx.stat("family_type_placement");
                        schema_case(ctx, tpl, &ds, &cuts, false, false, n);
                        if ctx.thorough && n % 4 == 0 { schema_case(ctx, tpl, &ds, &cuts, true, n % 8 == 0, n); }
                    }
                }
            }
        }
    }
}

/// extension kind × definition kind (all 36 pairs), the extension before / after / on both sides of the definition;
/// and, with `adopt_orphan_extensions`, two orphan extensions of every pair of kinds (the first one decides the kind)
fn kind_matrix_family(ctx: &mut Ctx, tpl: &Templates) {
    let body = |k: usize, i: usize| -> Vec<&'static str> { match k { 0 => vec![], 3 => vec![["A", "B"][i]], 4 => vec![["V0", "V1"][i]], _ => vec![["f0", "f1"][i]] } };
    let mut n = 0usize;
    for dk in 0..6usize { for ek in 0..6usize {
        let d = t(dk, "X", &body(dk, 0));
        let mk_e = |i: usize| { let x = e(ek, "X", &body(ek, i)); if ek == 0 { with_dirs(x, &["d0"]) } else { x } };
        for place in 0..3 {
            let ds = match place { 0 => vec![mk_e(1), d.clone()], 1 => vec![d.clone(), mk_e(1)], _ => vec![mk_e(0), d.clone(), mk_e(1)] };
            for cuts in cut_patterns(ds.len(), ctx.thorough) {
                n += 1;
                ctx.stat("family_kind_matrix");
                schema_case(ctx, tpl, &ds, &cuts, false, false, n);
            }
        }
        // orphans only
        let mk = |k: usize, i: usize| { let x = e(k, "X", &body(k, i)); if k == 0 { with_dirs(x, &["d0"]) } else { x } };
        let ds = vec![mk(dk, 0), mk(ek, 1), mk(dk, 1)];
        for cuts in cut_patterns(ds.len(), ctx.thorough) {
            ctx.stat("family_kind_matrix_adopted");
            schema_case(ctx, tpl, &ds, &cuts, true, false, n);
            if ctx.thorough { schema_case(ctx, tpl, &ds, &cuts, false, false, n); }
        }
    } }
}

/// `schema` definition S, two schema extensions X1, X2 (in that order), a second definition S2, in every order;
/// without any definition (implicit roots when `type Query` exists, orphans otherwise); root operations that collide
fn schema_placement_family(ctx: &mut Ctx, tpl: &Templates) {
    let mut n = 0usize;
    for x1_collides in [false, true] { for has_query in [false, true] {
        let s = sch(Tag::SchemaDef, &["d1"], &[("query", "T0")]);
        let x1 = if x1_collides { sch(Tag::SchemaExt, &[], &[("query", "T1"), ("mutation", "T0")]) } else { sch(Tag::SchemaExt, &[], &[("mutation", "T0")]) };
        let x2 = sch(Tag::SchemaExt, &["d0"], if x1_collides { &[("mutation", "T1"), ("subscription", "T1")] } else { &[("subscription", "T1")] });
        let s2 = sch(Tag::SchemaDef, &[], &[("query", "T1")]);
        let mut types = vec![t(1, "T0", &["f0"]), t(1, "T1", &["f0"])];
        if has_query { types.push(t(1, "Query", &["f0"])); }
        let sets: [(Vec<D>, Vec<(usize, usize)>); 3] = [
            (vec![x1.clone(), x2.clone()], vec![(0, 1)]),
            (vec![x1.clone(), x2.clone(), s.clone()], vec![(0, 1)]),
            (vec![x1.clone(), x2.clone(), s.clone(), s2.clone()], vec![(0, 1), (2, 3)]),
        ];
        for (items, constraints) in sets {
            for ord in orderings(items.len(), &constraints) {
                let mut ds: Vec<D> = ord.iter().map(|i| items[*i].clone()).collect();
                // the types in the middle, so that extensions may sit on both sides of `type Query`
                let at = ds.len() / 2;
                for (k, ty) in types.iter().enumerate() { ds.insert(at + k, ty.clone()); }
                for cuts in cut_patterns(ds.len(), false).into_iter().chain(if ctx.thorough { vec![vec![1], vec![at], vec![at + types.len()]] } else { vec![vec![at]] }) {
                    for adopt in [false, true] {
                        n += 1;
                        ctx.stat("family_schema_placement");
                        schema_case(ctx, tpl, &ds, &cuts, adopt, false, n);
                    }
                }
            }
        }
    } }
}

// ---------------------------------------------------------------- executable documents

#[derive(Clone)]
struct X { kind: u8 /* 0 op, 1 fragment, 2 type system */, optype: &'static str, name: Option<String>, cond: &'static str, fields: Vec<&'static str> }

fn xrender(x: &X) -> (String, usize, usize, Vec<usize>) {
    let mut t = String::new();
    let (mut np, mut cp) = (0, 0);
    let mut inner = vec![];
    match x.kind {
        2 => { t.push_str("scalar "); np = t.len(); t.push_str(x.name.as_deref().unwrap_or("S")); }
        1 => { t.push_str("fragment "); np = t.len(); t.push_str(x.name.as_deref().unwrap_or("F")); t.push_str(" on "); cp = t.len(); t.push_str(x.cond); }
        _ => {
            if let Some(n) = &x.name { t.push_str(x.optype); t.push(' '); np = t.len(); t.push_str(n); } else if x.optype != "query" { t.push_str(x.optype); }
        }
    }
    if x.kind != 2 {
        t.push_str(if t.is_empty() { "{" } else { " {" });
        for f in &x.fields { t.push(' '); if *f == "zz" { inner.push(t.len()); } t.push_str(f); }
        t.push_str(" }");
    }
    (t, np, cp, inner)
}

const XSCHEMA: &str = "type Query { a: Int b: Int s: Int } type Subscription { s: Int a: Int b: Int }";

fn xbuild(schema: Option<&Valid<Schema>>, texts: &[String]) -> (ExecutableDocument, DiagnosticList) {
    let mut errors = DiagnosticList::new(Default::default());
    let mut b = ExecutableDocument::builder(schema, &mut errors);
    for (i, t) in texts.iter().enumerate() { b = b.parse(t.clone(), format!("s{i}.graphql")); }
    let doc = b.build();
    (doc, errors)
}

fn xcase(ctx: &mut Ctx, tpl: &Templates, schema: &Valid<Schema>, xs: &[X], cuts: &[usize]) {
    xcase_multi(ctx, tpl, Some(schema), xs, &[cuts.to_vec()]);
}

/// `schema` = None: the builder without a schema (every root operation and type condition is accepted, no field is
/// looked up); several cut patterns share one run of the concatenation
fn xcase_multi(ctx: &mut Ctx, tpl: &Templates, schema: Option<&Valid<Schema>>, xs: &[X], cut_sets: &[Vec<usize>]) {
    let run = |ctx: &mut Ctx, srcs: &[Vec<X>]| -> (String, Vec<String>, Vec<String>) {
        let (mut texts, mut bases, mut encs, mut base) = (vec![], vec![], vec![], 0usize);
        for src in srcs {
            bases.push(base);
            let mut text = String::new();
            let mut ed = vec![];
            for x in src {
                let (t, np, cp, inner) = xrender(x);
                let start = base + text.len();
                let root_ok = schema.is_none() || x.optype != "mutation";
                let cond_ok = schema.is_none() || x.cond != "Nope";
                let inner: Vec<usize> = if schema.is_none() || (x.kind == 1 && !cond_ok) { vec![] } else { inner };
                ed.push(format!("{},{},{start},{},{},{},{},{}", ["O", "F", "T"][x.kind as usize], x.name.as_deref().unwrap_or("-"), start + np, start + cp,
                    root_ok as u8, cond_ok as u8, inner.iter().map(|p| (start + p).to_string()).collect::<Vec<_>>().join("+")));
                text.push_str(&t); text.push('\n');
            }
            base += text.len();
            texts.push(text);
            encs.push(ed.join(";"));
        }
        let (doc, errors) = xbuild(schema, &texts);
        let locs = Locs::new(&doc.sources, &bases);
        let p = |l: Option<SourceSpan>| locs.pos(l).map(|x| x.to_string()).unwrap_or("-".into());
        let mut errors = Some(errors);
        // the builder leaves its diagnostics unsorted; `DiagnosticList::merge` is the public way to sort them
        if let Some(l) = errors.as_mut() { l.merge(DiagnosticList::new(Default::default())); }
        let line = format!("A[{}]N[{}]F[{}]E[{}]",
            doc.operations.anonymous.as_ref().map(|o| p(o.location())).unwrap_or("-".into()),
            doc.operations.named.iter().map(|(n, o)| format!("{n}@{}", p(o.location()))).collect::<Vec<_>>().join(","),
            doc.fragments.iter().map(|(n, f)| format!("{n}@{}", p(f.location()))).collect::<Vec<_>>().join(","),
            diag_line(&errors, &locs, tpl));
        if let Some(l) = &errors { if l.is_empty() { ctx.stat("exec_builds_without_diagnostics"); } for d in l.iter() { let c = tpl.classify(&d.error.to_string()); ctx.stat(&format!("exec_diag:{}", c.split('(').next().unwrap_or("?"))); } }
        ctx.case("c13.exec", &[enc(&encs.join("|"))], &line);
        let names = vec![format!("anon={}", doc.operations.anonymous.is_some()), doc.operations.named.keys().map(|k| k.to_string()).collect::<Vec<_>>().join(","), doc.fragments.keys().map(|k| k.to_string()).collect::<Vec<_>>().join(","), doc.to_string()];
        (texts.concat(), names, messages(&errors))
    };
    let mut whole: Option<(Vec<String>, Vec<String>)> = None;
    for cuts in cut_sets {
        let mut srcs: Vec<Vec<X>> = vec![];
        let mut prev = 0;
        for &c in cuts { srcs.push(xs[prev..c].to_vec()); prev = c; }
        srcs.push(xs[prev..].to_vec());
        let (text, names, msgs) = run(ctx, &srcs);
        if srcs.len() > 1 {
            if whole.is_none() { let (_, n1, m1) = run(ctx, &[xs.to_vec()]); whole = Some((n1, m1)); }
            let (names1, msgs1) = whole.clone().unwrap();
            ctx.stat("exec_split_vs_concat");
            if schema.is_none() { ctx.stat("exec_split_vs_concat_without_schema"); }
            let inp = format!("executable sources{} cut at {cuts:?}: {}", if schema.is_none() { " (builder without schema)" } else { "" }, text.replace('\n', " "));
            if names != names1 { ctx.fail("executable-sources-vs-concat-definitions", &inp, &format!("split {names:?} / concatenated {names1:?}")); }
            if msgs != msgs1 { ctx.fail("executable-sources-vs-concat-diagnostics", &inp, &format!("split {msgs:?} / concatenated {msgs1:?}")); }
            if !msgs1.is_empty() { ctx.stat("exec_with_diagnostics"); }
            ctx.nontrivial(&inp);
        }
    }
}

/// Every sequence of up to `max_len` definitions over a seven-letter alphabet (anonymous query, anonymous mutation whose
/// root type is undefined, named query, named mutation of the same name, fragment, fragment of the same name on an
/// undefined type, type-system definition), under every way of cutting it into sources.
fn exec_sequences(ctx: &mut Ctx, tpl: &Templates, schema: Option<&Valid<Schema>>, max_len: usize) {
    let alphabet: Vec<X> = vec![
        X { kind: 0, optype: "query", name: None, cond: "", fields: vec!["a"] },
        X { kind: 0, optype: "mutation", name: None, cond: "", fields: vec!["zz"] },
        X { kind: 0, optype: "query", name: Some("A".into()), cond: "", fields: vec!["zz", "b"] },
        X { kind: 0, optype: "mutation", name: Some("A".into()), cond: "", fields: vec!["a"] },
        X { kind: 1, optype: "", name: Some("F".into()), cond: "Query", fields: vec!["a", "zz"] },
        X { kind: 1, optype: "", name: Some("F".into()), cond: "Nope", fields: vec!["zz"] },
        X { kind: 2, optype: "", name: Some("S".into()), cond: "", fields: vec![] },
    ];
    for len in 2..=max_len {
        // quick tier: sequences of three definitions leave out the type-system definition
        let k = if len >= 3 && !ctx.thorough { alphabet.len() - 1 } else { alphabet.len() };
        for code in 0..k.pow(len as u32) {
            let xs: Vec<X> = (0..len).map(|i| alphabet[(code / k.pow(i as u32)) % k].clone()).collect();
            // all non-empty sets of cut points
            let cut_sets: Vec<Vec<usize>> = (1..1usize << (len - 1)).map(|m| (1..len).filter(|c| m & (1 << (c - 1)) != 0).collect()).collect();
            ctx.stat("family_exec_sequences");
            xcase_multi(ctx, tpl, schema, &xs, &cut_sets);
        }
    }
}

fn gen_x(ctx: &mut Ctx) -> X {
    let r = ctx.rng.below(100);
    let nf = 1 + ctx.rng.below(3);
    let fields: Vec<&'static str> = (0..nf).map(|_| *ctx.rng.pick(&["a", "b", "s", "a", "b", "s", "a", "zz"])).collect();
    if r < 55 {
        let optype = *ctx.rng.pick(&["query", "query", "query", "query", "subscription", "subscription", "mutation"]);
        let name = if ctx.rng.chance(1, 4) { None } else { Some(ctx.rng.pick(&["A", "B", "C", "D", "E"]).to_string()) };
        X { kind: 0, optype, name, cond: "", fields }
    } else if r < 92 {
        X { kind: 1, optype: "", name: Some(ctx.rng.pick(&["F", "G", "H", "A"]).to_string()), cond: *ctx.rng.pick(&["Query", "Query", "Query", "Subscription", "Subscription", "Nope"]), fields }
    } else {
        X { kind: 2, optype: "", name: Some(ctx.rng.pick(&["S", "T"]).to_string()), cond: "", fields: vec![] }
    }
}

// ---------------------------------------------------------------- free-text sources (oracle only)

const SNIPPETS: [&str; 22] = [
    "\"\"\"desc\"\"\" type Query { \"d\" a(x: Int = 1 @d0): Int @deprecated(reason: \"r\") b: [T0!]! }",
    "extend type Query @d0(x: 1) { c: T0 a: String }",
    "type T0 implements I0 & I0 { i: Int i: Float }",
    "extend type T0 implements I0 @d1 { j(a: [Int]): ID }",
    "interface I0 { i: Int }",
    "extend interface I0 @d0 { k: Int i: Int }",
    "\"u\" union U @d0 = Query | T0 | Query",
    "extend union U = T0 | T1",
    "extend union T0 = U",
    "enum E { A @deprecated B A }",
    "extend enum E @d0 { C B }",
    "input In { a: Int = 3 b: In a: String }",
    "extend input In { c: [E] = [A] b: Int }",
    "scalar Sc @specifiedBy(url: \"u\")",
    "extend scalar Sc @d0",
    "extend scalar Int @d1",
    "directive @d0(x: Int) repeatable on OBJECT | SCHEMA | UNION | ENUM | SCALAR | INTERFACE | ARGUMENT_DEFINITION",
    "directive @d0 on FIELD",
    "schema @d0 { query: Query mutation: T0 }",
    "extend schema @d0(x: 2) { subscription: T0 query: T0 }",
    "extend schema @d1",
    "query Named { a } fragment Fr on Query { a }",
];

fn free_text_case(ctx: &mut Ctx, picks: &[usize], cuts: &[usize], adopt: bool) {
    let mut texts = vec![];
    let mut prev = 0;
    let mk = |r: &[usize]| r.iter().map(|i| format!("{}\n", SNIPPETS[*i])).collect::<String>();
    for &c in cuts { texts.push(mk(&picks[prev..c])); prev = c; }
    texts.push(mk(&picks[prev..]));
    let (_, a) = observe(&texts, adopt, false);
    let (_, b) = observe(&[texts.concat()], adopt, false);
    ctx.stat("free_text_split_vs_concat");
    let inp = format!("adopt={adopt} sources: {}", show(&texts));
    if a.dump != b.dump { ctx.fail("sources-vs-concat-definitions", &inp, &format!("built schema differs: split {} / concatenated {}", a.dump, b.dump)); }
    else if a.text != b.text { ctx.fail("sources-vs-concat-serialized", &inp, "serialized schema differs"); }
    if a.msgs != b.msgs { ctx.fail("sources-vs-concat-diagnostics", &inp, &format!("diagnostics differ: split {:?} / concatenated {:?}", a.msgs, b.msgs)); }
}

fn random_cuts(ctx: &mut Ctx, n: usize) -> Vec<usize> {
    // every source keeps at least one definition (an empty document is a syntax error by itself)
    if n < 2 { return vec![]; }
    let k = ctx.rng.below(4);
    let mut cuts: Vec<usize> = (0..k).map(|_| 1 + ctx.rng.below(n - 1)).collect();
    cuts.sort();
    cuts.dedup();
    cuts
}

pub fn run(ctx: &mut Ctx) {
    let xschema = Schema::parse_and_validate(XSCHEMA, "xschema.graphql").expect("executable test schema");
    let tpl = Templates::new(&xschema);
    ctx.stat_n("message_templates_learned", tpl.map.len() as u64);

    // 1. regression inputs: every cut point, both configurations
    for ds in regressions() {
        for cut in 0..ds.len() {
            let cuts: Vec<usize> = if cut == 0 { vec![] } else { vec![cut] };
            for (adopt, ignore) in [(false, false), (true, false), (false, true)] {
                if cut > 1 && (adopt || ignore) { continue; }
                schema_case(ctx, &tpl, &ds, &cuts, adopt, ignore, cut);
            }
        }
    }
    let xregs: Vec<Vec<X>> = vec![
        vec![X { kind: 0, optype: "query", name: None, cond: "", fields: vec!["a"] }, X { kind: 0, optype: "query", name: Some("A".into()), cond: "", fields: vec!["a"] },
             X { kind: 0, optype: "query", name: Some("B".into()), cond: "", fields: vec!["zz"] }, X { kind: 0, optype: "query", name: None, cond: "", fields: vec!["b"] },
             X { kind: 0, optype: "query", name: None, cond: "", fields: vec!["b"] }],
        vec![X { kind: 0, optype: "query", name: Some("A".into()), cond: "", fields: vec!["a"] }, X { kind: 0, optype: "query", name: None, cond: "", fields: vec!["a"] },
             X { kind: 0, optype: "mutation", name: Some("A".into()), cond: "", fields: vec!["a"] }, X { kind: 0, optype: "query", name: Some("A".into()), cond: "", fields: vec!["zz"] }],
        vec![X { kind: 0, optype: "mutation", name: Some("A".into()), cond: "", fields: vec!["zz"] }, X { kind: 0, optype: "query", name: Some("A".into()), cond: "", fields: vec!["zz", "a"] },
             X { kind: 0, optype: "mutation", name: None, cond: "", fields: vec!["a"] }, X { kind: 0, optype: "subscription", name: None, cond: "", fields: vec!["s"] }],
        vec![X { kind: 1, optype: "", name: Some("F".into()), cond: "Nope", fields: vec!["zz"] }, X { kind: 1, optype: "", name: Some("F".into()), cond: "Query", fields: vec!["zz", "a"] },
             X { kind: 1, optype: "", name: Some("F".into()), cond: "Query", fields: vec!["zz"] }, X { kind: 2, optype: "", name: Some("S".into()), cond: "", fields: vec![] }],
    ];
    for xs in &xregs {
        for cut in 0..xs.len() { xcase(ctx, &tpl, &xschema, xs, &if cut == 0 { vec![] } else { vec![cut] }); }
        xcase(ctx, &tpl, &xschema, xs, &(1..xs.len()).collect::<Vec<_>>());
        xcase_multi(ctx, &tpl, None, xs, &[vec![1], (1..xs.len()).collect::<Vec<_>>()]);
    }

    // 1b. systematic families: every placement of extensions / second definitions, every kind pair, every cut
    type_placement_family(ctx, &tpl);
    kind_matrix_family(ctx, &tpl);
    schema_placement_family(ctx, &tpl);
    exec_sequences(ctx, &tpl, Some(&xschema), if ctx.thorough { 4 } else { 3 });
    exec_sequences(ctx, &tpl, None, if ctx.thorough { 3 } else { 2 });

    // 2. random definition sequences over few names (collisions, duplicates and mismatches are frequent)
    let n_cases = if ctx.thorough { 40_000 } else { 4_000 };
    let pools: [&[&str]; 4] = [&["T0", "T1"], &["T0", "T1", "T2", "Query"], &["T0", "Query", "Mutation", "Int", "__Type"], &["T3", "T4", "T5", "Subscription", "ID", "__TypeKind"]];
    for i in 0..n_cases {
        let names = pools[ctx.rng.below(pools.len())];
        let n = 1 + ctx.rng.below(if ctx.thorough { 12 } else { 8 });
        let ds: Vec<D> = (0..n).map(|_| gen_def(ctx, names)).collect();
        let cuts = random_cuts(ctx, n);
        let adopt = ctx.rng.chance(1, 4);
        let ignore = ctx.rng.chance(1, 6);
        // every tenth sequence: each definition is a source of its own
        let cuts = if i % 10 == 9 { ctx.stat("schema_every_definition_its_own_source"); (1..n).collect() } else { cuts };
        schema_case(ctx, &tpl, &ds, &cuts, adopt, ignore, i);
    }

    // 3. executable documents
    let n_x = if ctx.thorough { 30_000 } else { 3_000 };
    for _ in 0..n_x {
        let n = 1 + ctx.rng.below(7);
        let xs: Vec<X> = (0..n).map(|_| gen_x(ctx)).collect();
        let mut cuts = random_cuts(ctx, n);
        if cuts.is_empty() && n > 1 { cuts.push(1 + ctx.rng.below(n - 1)); }
        xcase(ctx, &tpl, &xschema, &xs, &cuts);
    }

    // 4. richer free-text definitions (descriptions, arguments, values): oracle only
    let n_f = if ctx.thorough { 20_000 } else { 2_000 };
    for _ in 0..n_f {
        let n = 2 + ctx.rng.below(7);
        let picks: Vec<usize> = (0..n).map(|_| ctx.rng.below(SNIPPETS.len())).collect();
        let mut cuts = random_cuts(ctx, n);
        if cuts.is_empty() { cuts.push(1 + ctx.rng.below(n - 1)); }
        let adopt = ctx.rng.chance(1, 4);
        free_text_case(ctx, &picks, &cuts, adopt);
    }
}
