//! C09 — string values and descriptions survive serialization.
use crate::util::*;
use apollo_compiler::ast;
use apollo_compiler::{name, Node};

fn printed_value(prefix: Option<&str>, level: usize, s: &str) -> String {
    let v = ast::Value::String(s.to_string());
    let ser = v.serialize().initial_indent_level(level);
    let out = match prefix { Some(p) => ser.indent_prefix(p).to_string(), None => ser.no_indent().to_string() };
    let lead = prefix.map(|p| p.repeat(level)).unwrap_or_default();
    out.strip_prefix(&lead).unwrap_or(&out).to_string()
}

fn printed_description(prefix: Option<&str>, level: usize, s: &str) -> String {
    let def = ast::ScalarTypeDefinition { description: Some(Node::new_str(s)), name: name!("S"), directives: Default::default() };
    let ser = def.serialize().initial_indent_level(level);
    let out = match prefix { Some(p) => ser.indent_prefix(p).to_string(), None => ser.no_indent().to_string() };
    let lead = prefix.map(|p| p.repeat(level)).unwrap_or_default();
    let out = out.strip_prefix(&lead).unwrap_or(&out).to_string();
    let tail = match prefix { Some(p) => format!("\n{}scalar S", p.repeat(level)), None => " scalar S".to_string() };
    out.strip_suffix(&tail).unwrap_or(&out).to_string()
}

fn reparse_value(lit: &str) -> Option<String> {
    let d = ast::Document::parse(format!("{{a(x: {lit})}}"), "d.graphql").ok()?;
    for def in &d.definitions { if let ast::Definition::OperationDefinition(op) = def { if let Some(ast::Selection::Field(f)) = op.selection_set.first() {
        return f.arguments.first().and_then(|a| a.value.as_str().map(|s| s.to_string())); } } }
    None
}
fn reparse_description(lit: &str) -> Option<String> {
    let d = ast::Document::parse(format!("{lit} scalar S"), "d.graphql").ok()?;
    for def in &d.definitions { if let ast::Definition::ScalarTypeDefinition(s) = def { return s.description.as_ref().map(|x| x.to_string()); } }
    None
}

/// A document with a string at EVERY place the grammar allows one (audit G2): the description of every kind of
/// definition (schema, directive, scalar, object, interface, union, enum, enum value, input object, field, argument,
/// input field — also inside extensions) and string values as directive arguments at every directive location, as
/// default values, as field arguments, nested in lists and input objects, at selection-set depths 1–3.
/// `{L}` marks the places (C06 substitutes a literal there; C09 parses it with `"x"` and rewrites the AST).
pub const STRING_SITES: &str = r#"{L} schema @d(a: {L}) { query: Q }
{L} directive @d({L} a: String = {L} @e(a: {L}), {L} b: In = {g: {L}}) repeatable on SCHEMA | OBJECT
{L} scalar S @d(a: {L})
{L} type Q implements I @d(a: [{L}, [{L}]]) {
  {L} f({L} x: String = {L} @d(a: {L}), {L} y: [String] = [{L}, {L}]): Int @d(a: {k: {L}, l: [{L}]})
  {L} i: Int
}
{L} interface I @d(a: {L}) { {L} i({L} z: In = {g: {L}, h: {g: {L}}}): Int }
{L} union U @d(a: {L}) = Q
{L} enum E @d(a: {L}) { {L} V @d(a: {L}) {L} W }
{L} input In @d(a: {L}) { {L} g: String = {L} @d(a: {L}) {L} h: In }
extend schema @d(a: {L})
extend scalar S @d(a: {L})
extend type Q @d(a: {L}) { {L} j: Int }
extend interface I @d(a: {L}) { {L} j: Int }
extend union U @d(a: {L}) = Q
extend enum E @d(a: {L}) { {L} X }
extend input In @d(a: {L}) { {L} k: String = {L} }
query N($v: String = {L} @d(a: {L}), $w: In = {g: {L}}) @d(a: {L}) { f(x: {L}, y: [{L}, [{L}]]) @d(a: {L}) a: i { b: i { c: f(x: {L}) } } ... @d(a: {L}) { f(x: {k: {l: {L}}}) } ... on Q { f(x: {L}) } ...F @d(a: {L}) }
fragment F on Q @d(a: {L}) { f(x: [{L}, {k: {L}}]) }
"#;

pub enum Slot<'a> { Desc(&'a mut Option<Node<str>>), Val(&'a mut Node<ast::Value>) }
type SlotFn<'f> = &'f mut dyn FnMut(Slot);

/// visit every description slot and every string value of a document (mutably)
pub fn walk_strings(doc: &mut ast::Document, f: SlotFn) {
    fn val(v: &mut Node<ast::Value>, f: SlotFn) {
        match v.as_ref() { ast::Value::String(_) => { f(Slot::Val(v)); return } ast::Value::List(_) | ast::Value::Object(_) => {} _ => return }
        match v.make_mut() {
            ast::Value::List(l) => for x in l.iter_mut() { val(x, f) },
            ast::Value::Object(o) => for (_, x) in o.iter_mut() { val(x, f) },
            _ => {}
        }
    }
    fn args(a: &mut Vec<Node<ast::Argument>>, f: SlotFn) { for x in a.iter_mut() { val(&mut x.make_mut().value, f) } }
    fn dirs(d: &mut ast::DirectiveList, f: SlotFn) { for x in d.0.iter_mut() { args(&mut x.make_mut().arguments, f) } }
    fn ivd(v: &mut Node<ast::InputValueDefinition>, f: SlotFn) { let v = v.make_mut(); f(Slot::Desc(&mut v.description)); if let Some(d) = &mut v.default_value { val(d, f) } dirs(&mut v.directives, f) }
    fn fds(fs: &mut Vec<Node<ast::FieldDefinition>>, f: SlotFn) { for x in fs.iter_mut() { let x = x.make_mut(); f(Slot::Desc(&mut x.description)); for a in x.arguments.iter_mut() { ivd(a, f) } dirs(&mut x.directives, f) } }
    fn evs(vs: &mut Vec<Node<ast::EnumValueDefinition>>, f: SlotFn) { for x in vs.iter_mut() { let x = x.make_mut(); f(Slot::Desc(&mut x.description)); dirs(&mut x.directives, f) } }
    fn sels(ss: &mut Vec<ast::Selection>, f: SlotFn) {
        for s in ss.iter_mut() {
            match s {
                ast::Selection::Field(x) => { let x = x.make_mut(); args(&mut x.arguments, f); dirs(&mut x.directives, f); sels(&mut x.selection_set, f) }
                ast::Selection::FragmentSpread(x) => dirs(&mut x.make_mut().directives, f),
                ast::Selection::InlineFragment(x) => { let x = x.make_mut(); dirs(&mut x.directives, f); sels(&mut x.selection_set, f) }
            }
        }
    }
    use ast::Definition as D;
    for def in doc.definitions.iter_mut() {
        match def {
            D::OperationDefinition(x) => { let x = x.make_mut(); for v in x.variables.iter_mut() { let v = v.make_mut(); if let Some(d) = &mut v.default_value { val(d, f) } dirs(&mut v.directives, f) } dirs(&mut x.directives, f); sels(&mut x.selection_set, f) }
            D::FragmentDefinition(x) => { let x = x.make_mut(); dirs(&mut x.directives, f); sels(&mut x.selection_set, f) }
            D::DirectiveDefinition(x) => { let x = x.make_mut(); f(Slot::Desc(&mut x.description)); for a in x.arguments.iter_mut() { ivd(a, f) } }
            D::SchemaDefinition(x) => { let x = x.make_mut(); f(Slot::Desc(&mut x.description)); dirs(&mut x.directives, f) }
            D::ScalarTypeDefinition(x) => { let x = x.make_mut(); f(Slot::Desc(&mut x.description)); dirs(&mut x.directives, f) }
            D::ObjectTypeDefinition(x) => { let x = x.make_mut(); f(Slot::Desc(&mut x.description)); dirs(&mut x.directives, f); fds(&mut x.fields, f) }
            D::InterfaceTypeDefinition(x) => { let x = x.make_mut(); f(Slot::Desc(&mut x.description)); dirs(&mut x.directives, f); fds(&mut x.fields, f) }
            D::UnionTypeDefinition(x) => { let x = x.make_mut(); f(Slot::Desc(&mut x.description)); dirs(&mut x.directives, f) }
            D::EnumTypeDefinition(x) => { let x = x.make_mut(); f(Slot::Desc(&mut x.description)); dirs(&mut x.directives, f); evs(&mut x.values, f) }
            D::InputObjectTypeDefinition(x) => { let x = x.make_mut(); f(Slot::Desc(&mut x.description)); dirs(&mut x.directives, f); for a in x.fields.iter_mut() { ivd(a, f) } }
            D::SchemaExtension(x) => dirs(&mut x.make_mut().directives, f),
            D::ScalarTypeExtension(x) => dirs(&mut x.make_mut().directives, f),
            D::ObjectTypeExtension(x) => { let x = x.make_mut(); dirs(&mut x.directives, f); fds(&mut x.fields, f) }
            D::InterfaceTypeExtension(x) => { let x = x.make_mut(); dirs(&mut x.directives, f); fds(&mut x.fields, f) }
            D::UnionTypeExtension(x) => dirs(&mut x.make_mut().directives, f),
            D::EnumTypeExtension(x) => { let x = x.make_mut(); dirs(&mut x.directives, f); evs(&mut x.values, f) }
            D::InputObjectTypeExtension(x) => { let x = x.make_mut(); dirs(&mut x.directives, f); for a in x.fields.iter_mut() { ivd(a, f) } }
        }
    }
}

/// the string at every site of `STRING_SITES`, serialized with `cfg`, reparsed, every site read back and compared
fn all_sites_roundtrip(ctx: &mut Ctx, prefix: Option<&str>, level: usize, s: &str) {
    let Ok(mut doc) = ast::Document::parse(STRING_SITES.replace("{L}", "\"x\""), "t.graphql") else { ctx.fail("string-sites-template", "", "template does not parse"); return };
    let mut sites = 0usize;
    walk_strings(&mut doc, &mut |slot| { sites += 1; match slot { Slot::Desc(d) => *d = Some(Node::new_str(s)), Slot::Val(v) => *v = Node::new(ast::Value::String(s.to_string())) } });
    let input = format!("prefix={prefix:?} level={level} s={s:?}");
    let text = match catch(|| { let ser = doc.serialize().initial_indent_level(level); match prefix { Some(p) => ser.indent_prefix(p).to_string(), None => ser.no_indent().to_string() } }) {
        Ok(t) => t, Err(m) => { ctx.fail("string-serialize-panic", &input, &m); return }
    };
    match ast::Document::parse(text.clone(), "r.graphql") {
        Ok(mut back) => {
            let mut got = vec![];
            walk_strings(&mut back, &mut |slot| match slot { Slot::Desc(d) => got.push(d.as_ref().map(|x| x.to_string())), Slot::Val(v) => got.push(v.as_str().map(|x| x.to_string())) });
            let wrong = got.iter().filter(|g| g.as_deref() != Some(s)).count();
            if got.len() != sites || wrong > 0 { ctx.fail("string-site-roundtrip", &input, &format!("{sites} sites written, {} read back, {wrong} of them differ; first: {:?}; text: {text:?}", got.len(), got.iter().find(|g| g.as_deref() != Some(s)))); }
            else if back != doc { ctx.fail("string-site-roundtrip", &input, &format!("reparsed document differs; text: {text:?}")); }
        }
        Err(e) => ctx.fail("string-site-roundtrip", &input, &format!("does not reparse: {} ; text {text:?}", e.errors.to_string().lines().next().unwrap_or(""))),
    }
    ctx.stat("all_sites_roundtrips");
    ctx.stat_n("string_sites_written", sites as u64);
}

/// the string at nested positions of a whole document: description of a type, of a field, of an
/// argument; default value; directive argument — serialized with `cfg`, reparsed, compared
fn nested_roundtrip(ctx: &mut Ctx, prefix: Option<&str>, level: usize, s: &str) {
    let tmpl = "\"x\" type T @d(a: \"x\") { \"x\" f(\"x\" a: String = \"x\"): Int }\nquery($v: String = \"x\") { f(a: \"x\") }";
    let Ok(mut doc) = ast::Document::parse(tmpl, "t.graphql") else { return };
    // substitute s everywhere by rebuilding through a parse of a quoted literal is circular; mutate the AST
    for def in doc.definitions.iter_mut() {
        match def {
            ast::Definition::ObjectTypeDefinition(t) => {
                let t = t.make_mut();
                t.description = Some(Node::new_str(s));
                for d in t.directives.iter_mut() { for a in d.make_mut().arguments.iter_mut() { a.make_mut().value = Node::new(ast::Value::String(s.to_string())); } }
                for f in t.fields.iter_mut() {
                    let f = f.make_mut();
                    f.description = Some(Node::new_str(s));
                    for a in f.arguments.iter_mut() { let a = a.make_mut(); a.description = Some(Node::new_str(s)); a.default_value = Some(Node::new(ast::Value::String(s.to_string()))); }
                }
            }
            ast::Definition::OperationDefinition(op) => {
                let op = op.make_mut();
                for v in op.variables.iter_mut() { v.make_mut().default_value = Some(Node::new(ast::Value::String(s.to_string()))); }
                for sel in op.selection_set.iter_mut() { if let ast::Selection::Field(f) = sel { for a in f.make_mut().arguments.iter_mut() { a.make_mut().value = Node::new(ast::Value::String(s.to_string())); } } }
            }
            _ => {}
        }
    }
    let ser = doc.serialize().initial_indent_level(level);
    let text = match prefix { Some(p) => ser.indent_prefix(p).to_string(), None => ser.no_indent().to_string() };
    match ast::Document::parse(text.clone(), "r.graphql") {
        Ok(back) => { if back != doc { ctx.fail("string-nested-roundtrip", &format!("prefix={prefix:?} level={level} s={s:?}"), &format!("reparsed document differs; text: {text:?}")); } }
        Err(e) => ctx.fail("string-nested-roundtrip", &format!("prefix={prefix:?} level={level} s={s:?}"), &format!("does not reparse: {} ; text {text:?}", e.errors.to_string().lines().next().unwrap_or(""))),
    }
    ctx.stat("nested_roundtrips");
    all_sites_roundtrip(ctx, prefix, level, s);
}

pub fn str_case(ctx: &mut Ctx, prefix: Option<&str>, level: usize, s: &str) {
    for is_desc in [false, true] {
        let lit = match catch(|| if is_desc { printed_description(prefix, level, s) } else { printed_value(prefix, level, s) }) {
            Ok(l) => l,
            Err(m) => { ctx.fail("string-serialize-panic", s, &m); continue }
        };
        let back = if is_desc { reparse_description(&lit) } else { reparse_value(&lit) };
        if back.as_deref() != Some(s) {
            ctx.fail(if is_desc { "description-roundtrip" } else { "string-value-roundtrip" }, &format!("prefix={prefix:?} level={level} s={s:?}"), &format!("printed {lit:?}, read back {back:?}"));
        }
        if lit.starts_with("\"\"\"") { ctx.stat("block_form"); ctx.nontrivial(&lit); } else { ctx.stat("quoted_form"); }
        ctx.case("strser", &[prefix.map(enc).unwrap_or_else(|| "-".into()), level.to_string(), is_desc.to_string(), enc(s)], &enc(&lit));
    }
}

/// audit G2: inputs the enumerations above never (or only by luck) produce
fn audit_families(ctx: &mut Ctx, cfgs: &[(Option<&'static str>, usize)]) {
    // 1. every character that could need its own escape or be taken for white space / a line terminator, in
    //    single-line and multi-line (block-string candidate) surroundings
    let chars = crate::p03::sweep_chars();
    let mut n = 0u64;
    for (i, &c) in chars.iter().enumerate() {
        let forms = [format!("{c}"), format!("a{c}"), format!("{c}a"), format!("a{c}a"), format!("{c}{c}"), format!("\n{c}"), format!("{c}\na"), format!("a\n{c}b"), format!(" {c}"),
            format!("{c}\n b"), format!("a\n{c}"), format!("a\n {c}\nb"), format!("a\n{c} b\n{c} c"), format!("{c}\""), format!("{c}\\")];
        for (j, s) in forms.iter().enumerate() {
            let (p, l) = cfgs[(i + j) % cfgs.len()];
            str_case(ctx, p, l, s); n += 1;
            if (c as u32) < 0x21 || (0x7F..0xA1).contains(&(c as u32)) || (c as u32) > 0x17F { if j < 2 || j == 7 { nested_roundtrip(ctx, p, l, s); } }
        }
    }
    ctx.stat_n("sweep_char_strings", n);
    // 2. the 70-byte threshold of the one-line block form, in bytes and in multi-byte text, with the endings that force the multi-line form
    let mut n = 0u64;
    for len in 66..=75usize { for unit in ["a", "é", "日", "😀"] { for tail in ["", "\"", "\\", " ", "\"\"\""] {
        let mut s = String::new();
        while s.len() + unit.len() + tail.len() <= len { s.push_str(unit); }
        s.push_str(tail);
        for &(p, l) in &[cfgs[0], cfgs[3], cfgs[5]] { str_case(ctx, p, l, &s); n += 1; }
        if tail.is_empty() || len == 70 || len == 71 { nested_roundtrip(ctx, Some("  "), 0, &s); }
    } } }
    ctx.stat_n("length_threshold_strings", n);
    // 3. a second line-structured family: tabs and mixed indentation, white-space look-alikes at line start, lines ending in
    //    a backslash or quotes, lines made of quotes
    let lines = ["", "\t", " \t", "a", "\ta", " \ta", "\t a", "a\\", "\\", "\"\"\"", "a\"", "\u{3000}a", "\u{b}a", "\u{a0}", "\\\"\"\"", "  a"];
    let mut ls = vec![];
    for_all_strings(&["0", "1", "2", "3", "4", "5", "6", "7", "8", "9", "a", "b", "c", "d", "e", "f"], if ctx.thorough { 4 } else { 3 }, |code| {
        if !code.is_empty() { ls.push(code.chars().map(|h| lines[h.to_digit(16).unwrap() as usize]).collect::<Vec<_>>().join("\n")); }
    });
    ctx.stat_n("line_structured_strings_2", ls.len() as u64);
    for (i, s) in ls.iter().enumerate() { let (p, l) = cfgs[(i / 5) % cfgs.len()]; str_case(ctx, p, l, s); if i % 61 == 0 { nested_roundtrip(ctx, p, l, s); } }
    // 4. configuration sweep on strings that take the block form or are close to it
    let tricky = ["a\nb", " a\n b", "a\n b", "a\n\n b", "a\n \nb", "a\n\t\nb", "a\"", "a\\", "\"\"\"", "a\n\"\"\"\n\\", "é\n 日", "a \nb ", "a\n  b\n c", "\ta\n\tb", "a\n\tb", "x", "a\r\nb", ""];
    let mut n = 0u64;
    for prefix in [None, Some(""), Some(" "), Some("  "), Some("\t"), Some(" \t"), Some("\t\t"), Some("        ")] { for level in 0..=4usize { for s in tricky {
        str_case(ctx, prefix, level, s); n += 1;
        if level % 2 == 0 { nested_roundtrip(ctx, prefix, level, s); }
    } } }
    ctx.stat_n("config_sweep_cases", n);
}

pub fn run(ctx: &mut Ctx) {
    let cfgs: [(Option<&str>, usize); 8] =[(Some("  "), 0), (None, 0), (Some(""), 2), (Some(" "), 1), (Some("\t"), 1), (Some("    "), 3), (Some("  "), 2), (Some("\t "), 1)];
    for s in ["", "a", "\"", "\\", "a\nb", "  a\n  b", "a\n\nb", "\"\"\"", "x\"\"\"\"", "a\\", "\n", " \n a", "a\rb", "é\n\t😀", "\u{1}\u{7f}\u{8}\u{c}", "trailing \n", "a\n ", "\\\"\"\""] {
        for (p, l) in cfgs { str_case(ctx, p, l, s); nested_roundtrip(ctx, p, l, s); }
    }
    let alpha = ["\"", "\\", "\n", "\r", " ", "\t", "a", "é", "\u{1}", "\u{7f}"];
    let mut v = vec![];
    for_all_strings(&alpha, if ctx.thorough { 6 } else { 5 }, |s| v.push(s.to_string()));
    for (i, s) in v.iter().enumerate() { let (p, l) = cfgs[i % cfgs.len()]; str_case(ctx, p, l, s); if i % 97 == 0 { nested_roundtrip(ctx, p, l, s); } }
    // line-structured strings: every combination of up to four lines drawn from lines with different indentation,
    // blank and whitespace-only lines — the block-string decision and the common-indentation rule work per line
    let lines = ["", " ", "  ", "a", " a", "  a", "\ta", "a ", " a ", "\"", " \"\"\"", "é"];
    let mut ls = vec![];
    for n in 1..=(if ctx.thorough { 5 } else { 4 }) {
        let mut idx = vec![0usize; n];
        loop {
            ls.push(idx.iter().map(|&i| lines[i]).collect::<Vec<_>>().join("\n"));
            let mut k = n;
            loop { if k == 0 { break; } k -= 1; if idx[k] + 1 < lines.len() { idx[k] += 1; for j in k + 1..n { idx[j] = 0; } break; } if k == 0 { idx.clear(); break; } }
            if idx.is_empty() { break; }
        }
    }
    ctx.stat_n("line_structured_strings", ls.len() as u64);
    for (i, s) in ls.iter().enumerate() { let (p, l) = cfgs[(i / 3) % cfgs.len()]; str_case(ctx, p, l, s); if i % 97 == 0 { nested_roundtrip(ctx, p, l, s); } }
    audit_families(ctx, &cfgs);
    let pieces = ["\"", "\"\"\"", "\\", "\n", "\r\n", "  ", "\t", "a", "word ", "é", "😀", "\u{0}", "\u{1f}", "\u{feff}", "\u{2028}", "long long long long long long long long long long long long long long text"];
    let n = if ctx.thorough { 200_000 } else { 20_000 };
    for i in 0..n {
        let len = ctx.rng.below(8);
        let s: String = (0..len).map(|_| *ctx.rng.pick(&pieces)).collect();
        let (p, l) = cfgs[i % cfgs.len()];
        str_case(ctx, p, l, &s);
        if i % 50 == 0 { nested_roundtrip(ctx, p, l, &s); }
    }
}
