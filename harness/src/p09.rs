//! C09 — string values and descriptions survive serialization.
use crate::util::*;
use apollo_compiler::ast;
use apollo_compiler::{name, Node};

fn printed_value(prefix: Option<&str>, level: usize, s: &str) -> String {
    let v = ast::Value::String(s.to_string());
    let ser = v.serialize().initial_indent_level(level);
    let out = match prefix { Some(p) => ser.indent_prefix(p).to_string(), None => ser.no_indent().to_string() };
    let lead = prefix.map(|p| p.repeat(level)).unwrap_or_default();
    out.strip_prefix(&lead).unwrap_or(&out).to_string()
}

fn printed_description(prefix: Option<&str>, level: usize, s: &str) -> String {
    let def = ast::ScalarTypeDefinition { description: Some(Node::new_str(s)), name: name!("S"), directives: Default::default() };
    let ser = def.serialize().initial_indent_level(level);
    let out = match prefix { Some(p) => ser.indent_prefix(p).to_string(), None => ser.no_indent().to_string() };
    let lead = prefix.map(|p| p.repeat(level)).unwrap_or_default();
    let out = out.strip_prefix(&lead).unwrap_or(&out).to_string();
    let tail = match prefix { Some(p) => format!("\n{}scalar S", p.repeat(level)), None => " scalar S".to_string() };
    out.strip_suffix(&tail).unwrap_or(&out).to_string()
}

fn reparse_value(lit: &str) -> Option<String> {
    let d = ast::Document::parse(format!("{{a(x: {lit})}}"), "d.graphql").ok()?;
    for def in &d.definitions { if let ast::Definition::OperationDefinition(op) = def { if let Some(ast::Selection::Field(f)) = op.selection_set.first() {
        return f.arguments.first().and_then(|a| a.value.as_str().map(|s| s.to_string())); } } }
    None
}
fn reparse_description(lit: &str) -> Option<String> {
    let d = ast::Document::parse(format!("{lit} scalar S"), "d.graphql").ok()?;
    for def in &d.definitions { if let ast::Definition::ScalarTypeDefinition(s) = def { return s.description.as_ref().map(|x| x.to_string()); } }
    None
}

/// the string at nested positions of a whole document: description of a type, of a field, of an
/// argument; default value; directive argument — serialized with `cfg`, reparsed, compared
fn nested_roundtrip(ctx: &mut Ctx, prefix: Option<&str>, level: usize, s: &str) {
    let tmpl = "\"x\" type T @d(a: \"x\") { \"x\" f(\"x\" a: String = \"x\"): Int }\nquery($v: String = \"x\") { f(a: \"x\") }";
    let Ok(mut doc) = ast::Document::parse(tmpl, "t.graphql") else { return };
    // substitute s everywhere by rebuilding through a parse of a quoted literal is circular; mutate the AST
    for def in doc.definitions.iter_mut() {
        match def {
            ast::Definition::ObjectTypeDefinition(t) => {
                let t = t.make_mut();
                t.description = Some(Node::new_str(s));
                for d in t.directives.iter_mut() { for a in d.make_mut().arguments.iter_mut() { a.make_mut().value = Node::new(ast::Value::String(s.to_string())); } }
                for f in t.fields.iter_mut() {
                    let f = f.make_mut();
                    f.description = Some(Node::new_str(s));
                    for a in f.arguments.iter_mut() { let a = a.make_mut(); a.description = Some(Node::new_str(s)); a.default_value = Some(Node::new(ast::Value::String(s.to_string()))); }
                }
            }
            ast::Definition::OperationDefinition(op) => {
                let op = op.make_mut();
                for v in op.variables.iter_mut() { v.make_mut().default_value = Some(Node::new(ast::Value::String(s.to_string()))); }
                for sel in op.selection_set.iter_mut() { if let ast::Selection::Field(f) = sel { for a in f.make_mut().arguments.iter_mut() { a.make_mut().value = Node::new(ast::Value::String(s.to_string())); } } }
            }
            _ => {}
        }
    }
    let ser = doc.serialize().initial_indent_level(level);
    let text = match prefix { Some(p) => ser.indent_prefix(p).to_string(), None => ser.no_indent().to_string() };
    match ast::Document::parse(text.clone(), "r.graphql") {
        Ok(back) => { if back != doc { ctx.fail("string-nested-roundtrip", &format!("prefix={prefix:?} level={level} s={s:?}"), &format!("reparsed document differs; text: {text:?}")); } }
        Err(e) => ctx.fail("string-nested-roundtrip", &format!("prefix={prefix:?} level={level} s={s:?}"), &format!("does not reparse: {} ; text {text:?}", e.errors.to_string().lines().next().unwrap_or(""))),
    }
    ctx.stat("nested_roundtrips");
}

pub fn str_case(ctx: &mut Ctx, prefix: Option<&str>, level: usize, s: &str) {
    for is_desc in [false, true] {
        let lit = match catch(|| if is_desc { printed_description(prefix, level, s) } else { printed_value(prefix, level, s) }) {
            Ok(l) => l,
            Err(m) => { ctx.fail("string-serialize-panic", s, &m); continue }
        };
        let back = if is_desc { reparse_description(&lit) } else { reparse_value(&lit) };
        if back.as_deref() != Some(s) {
            ctx.fail(if is_desc { "description-roundtrip" } else { "string-value-roundtrip" }, &format!("prefix={prefix:?} level={level} s={s:?}"), &format!("printed {lit:?}, read back {back:?}"));
        }
        if lit.starts_with("\"\"\"") { ctx.stat("block_form"); ctx.nontrivial(&lit); } else { ctx.stat("quoted_form"); }
        ctx.case("strser", &[prefix.map(enc).unwrap_or_else(|| "-".into()), level.to_string(), is_desc.to_string(), enc(s)], &enc(&lit));
    }
}

pub fn run(ctx: &mut Ctx) {
    let cfgs: [(Option<&str>, usize); 8] = [(Some("  "), 0), (None, 0), (Some(""), 2), (Some(" "), 1), (Some("\t"), 1), (Some("    "), 3), (Some("  "), 2), (Some("\t "), 1)];
    for s in ["", "a", "\"", "\\", "a\nb", "  a\n  b", "a\n\nb", "\"\"\"", "x\"\"\"\"", "a\\", "\n", " \n a", "a\rb", "é\n\t😀", "\u{1}\u{7f}\u{8}\u{c}", "trailing \n", "a\n ", "\\\"\"\""] {
        for (p, l) in cfgs { str_case(ctx, p, l, s); nested_roundtrip(ctx, p, l, s); }
    }
    let alpha = ["\"", "\\", "\n", "\r", " ", "\t", "a", "é", "\u{1}", "\u{7f}"];
    let mut v = vec![];
    for_all_strings(&alpha, if ctx.thorough { 6 } else { 5 }, |s| v.push(s.to_string()));
    for (i, s) in v.iter().enumerate() { let (p, l) = cfgs[i % cfgs.len()]; str_case(ctx, p, l, s); if i % 97 == 0 { nested_roundtrip(ctx, p, l, s); } }
    // line-structured strings: every combination of up to four lines drawn from lines with different indentation,
    // blank and whitespace-only lines — the block-string decision and the common-indentation rule work per line
    let lines = ["", " ", "  ", "a", " a", "  a", "\ta", "a ", " a ", "\"", " \"\"\"", "é"];
    let mut ls = vec![];
    for n in 1..=(if ctx.thorough { 5 } else { 4 }) {
        let mut idx = vec![0usize; n];
        loop {
            ls.push(idx.iter().map(|&i| lines[i]).collect::<Vec<_>>().join("\n"));
            let mut k = n;
            loop { if k == 0 { break; } k -= 1; if idx[k] + 1 < lines.len() { idx[k] += 1; for j in k + 1..n { idx[j] = 0; } break; } if k == 0 { idx.clear(); break; } }
            if idx.is_empty() { break; }
        }
    }
    ctx.stat_n("line_structured_strings", ls.len() as u64);
    for (i, s) in ls.iter().enumerate() { let (p, l) = cfgs[(i / 3) % cfgs.len()]; str_case(ctx, p, l, s); if i % 97 == 0 { nested_roundtrip(ctx, p, l, s); } }
    let pieces = ["\"", "\"\"\"", "\\", "\n", "\r\n", "  ", "\t", "a", "word ", "é", "😀", "\u{0}", "\u{1f}", "\u{feff}", "\u{2028}", "long long long long long long long long long long long long long long text"];
    let n = if ctx.thorough { 200_000 } else { 20_000 };
    for i in 0..n {
        let len = ctx.rng.below(8);
        let s: String = (0..len).map(|_| *ctx.rng.pick(&pieces)).collect();
        let (p, l) = cfgs[i % cfgs.len()];
        str_case(ctx, p, l, &s);
        if i % 50 == 0 { nested_roundtrip(ctx, p, l, &s); }
    }
}
