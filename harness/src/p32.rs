//! C32 — apollo-smith generates valid documents deterministically.
//!
//! Oracle on the implementation (the statement of the repository's `validate` fuzz target): for byte
//! strings of length 0–8 KiB, `DocumentBuilder::new(..).build()` returns an error or a document whose
//! text parses without syntax error and passes `to_mixed_validate`; the same bytes give the same text;
//! operations generated against a parsed schema (`with_document` + `operation_definition`) validate
//! against that schema.  Every failure is keyed by the class of the diagnostic (names, strings and
//! numbers removed), so distinct defects are distinct findings.
//!
//! Correspondence with the Lean model of the three anchored mechanisms:
//! * `c32.typename`  — the real `type_name()` (through `with_document`, which preloads the used set from
//!   a document) on chosen byte strings vs the model of `Unstructured` + `limited_string` + `type_name`;
//! * `c32.implements` — the real `implements_interfaces()` on interface graphs given as schema text
//!   (chains, diamonds, cycles, extensions) vs the model's union of closures;
//! * `c32.closure` / `c32.prune` — the implements lists and the fragment graph of documents produced by
//!   `build()`, read back from the generated text, vs the model's closure / reachability (after the
//!   backfill nothing may be missing; pruning is at its fixed point).
use crate::util::*;
use apollo_compiler::ast;
use apollo_compiler::{ExecutableDocument, Schema};
use apollo_smith::DocumentBuilder;
use arbitrary::Unstructured;
use std::collections::{BTreeMap, BTreeSet};

// ---------------------------------------------------------------- diagnostic classes

/// names, string contents and digits removed; what is left identifies the rule that fired
fn class_of(msg: &str) -> String {
    let mut out = String::new();
    let mut in_tick = false;
    let mut in_quote = false;
    for c in msg.chars() {
        if c == '`' { in_tick = !in_tick; if !in_tick { out.push('_'); } continue; }
        if in_tick { continue; }
        if c == '"' { in_quote = !in_quote; if !in_quote { out.push('_'); } continue; }
        if in_quote || c.is_ascii_digit() { continue; }
        out.push(if c.is_ascii_alphanumeric() || c == '_' { c.to_ascii_lowercase() } else { '-' });
    }
    let mut slug = String::new();
    for c in out.chars() {
        if c == '-' && slug.ends_with('-') { continue; }
        slug.push(c);
    }
    slug.trim_matches('-').chars().take(80).collect()
}

/// validator rule families: one finding per family of rules rather than per message variant
fn family(class: &str) -> String {
    if class.contains("recursion") { "depth-limit".into() }
    else if class.starts_with("interface-field-_-expects") || class.contains("has-extra-required-argument") { "interface-field-contract".into() }
    else if class.starts_with("the-required-field-_-is-not-provided") || class.starts_with("the-required-argument-_-is-not-provided") { "required-input-missing".into() }
    else { class.to_string() }
}

/// contents of the `…` spans of a diagnostic message
fn tick_names(msg: &str) -> Vec<String> {
    msg.split('`').skip(1).step_by(2).map(|s| s.to_string()).collect()
}

/// deepest nesting of `{`, `[`, `(` in a GraphQL text (string literals skipped)
fn nesting_depth(text: &str) -> usize {
    let b = text.as_bytes();
    let (mut i, mut d, mut max) = (0usize, 0usize, 0usize);
    while i < b.len() {
        match b[i] {
            b'"' => {
                if b[i..].starts_with(b"\"\"\"") {
                    i += 3;
                    while i < b.len() && !b[i..].starts_with(b"\"\"\"") { if b[i] == b'\\' { i += 1; } i += 1; }
                    i += 2;
                } else {
                    i += 1;
                    while i < b.len() && b[i] != b'"' { if b[i] == b'\\' { i += 1; } i += 1; }
                }
            }
            b'{' | b'[' | b'(' => { d += 1; max = max.max(d); }
            b'}' | b']' | b')' => { d = d.saturating_sub(1); }
            _ => {}
        }
        i += 1;
    }
    max
}

/// the nesting depth from which the recorded depth-limit defect is the explanation: the generated
/// documents that hit a recursion limit (parser: 500 steps, about three per selection level;
/// validator: 100 / 500) all nest at least this deep, valid ones stay far below
const DEPTH_EXPLAINED_FROM: usize = 90;

/// structural facts of the type-system part of a document that explain the recorded defects
#[derive(Default)]
pub struct DocFacts {
    /// object / interface types that have at least one extension
    extended_types: BTreeSet<String>,
    /// (input object, field) declared by an `extend input`
    extension_input_fields: BTreeSet<(String, String)>,
    /// some field or argument has a union or custom scalar type
    has_union_or_custom_scalar: bool,
}

pub fn doc_facts(doc: &ast::Document) -> DocFacts {
    let mut f = DocFacts::default();
    for def in &doc.definitions {
        match def {
            ast::Definition::ObjectTypeExtension(d) => { f.extended_types.insert(d.name.to_string()); }
            ast::Definition::InterfaceTypeExtension(d) => { f.extended_types.insert(d.name.to_string()); }
            ast::Definition::InputObjectTypeExtension(d) => for fld in &d.fields { f.extension_input_fields.insert((d.name.to_string(), fld.name.to_string())); },
            ast::Definition::UnionTypeDefinition(_) | ast::Definition::ScalarTypeDefinition(_) => f.has_union_or_custom_scalar = true,
            _ => {}
        }
    }
    f
}

/// the finding key of one diagnostic: the rule family when the document shows the structural cause of
/// the recorded defect of that family, `<family>/unexplained` when it does not (a different defect)
fn explain(msg: &str, facts: Option<&DocFacts>, depth: usize) -> String {
    let class = class_of(msg);
    let fam = family(&class);
    let ticks = tick_names(msg);
    let coord_types: Vec<String> = ticks.iter().filter_map(|t| t.split_once('.').map(|(a, _)| a.to_string())).collect();
    let ok = match fam.as_str() {
        "depth-limit" => depth >= DEPTH_EXPLAINED_FROM,
        "required-input-missing" => match facts {
            // `the required field `T.f` is not provided`: f was added to T by an extension
            Some(f) => ticks.iter().filter_map(|t| t.split_once('.')).any(|(t, fld)| f.extension_input_fields.contains(&(t.to_string(), fld.trim_end_matches(|c: char| !c.is_ascii_alphanumeric() && c != '_').to_string()))),
            None => false,
        },
        "interface-field-contract" => match facts {
            // one of the two types named by the diagnostic is extended
            Some(f) => coord_types.iter().any(|t| f.extended_types.contains(t)),
            None => false,
        },
        _ => return class,
    };
    if ok { fam } else { format!("{fam}/unexplained") }
}

fn explained_keys(msgs: Vec<String>, facts: Option<&DocFacts>, text: &str) -> Vec<String> {
    let depth = nesting_depth(text);
    let mut k: Vec<String> = msgs.iter().map(|m| explain(m, facts, depth)).collect();
    k.sort(); k.dedup();
    // secondary diagnostic that only accompanies other errors of a single generated operation
    if k.len() > 1 { k.retain(|c| !c.starts_with("anonymous-operation-cannot-be-selected")); }
    k
}

fn bytes_str(b: &[u8]) -> String {
    b.iter().map(|x| x.to_string()).collect::<Vec<_>>().join(",")
}

pub enum Outcome {
    GenErr(String),
    Panic(String),
    Syntax(String, Vec<String>),
    Invalid(String, Vec<String>),
    Valid(String, ast::Document),
}

/// the nine `max_*` settings of `DocumentBuilder` in the order of `build()`'s phases:
/// scalars, enums, interfaces, objects, unions, input objects, fragments, directives, operations
pub type Limits = [usize; 9];

pub fn generate(bytes: &[u8]) -> Result<Result<String, String>, String> { generate_l(None, bytes) }

/// `build()` under the configured maximums (None = the defaults, 50 of each kind). With the defaults a
/// byte string is mostly spent on the six type-system phases; low maximums let it reach the fragment and
/// operation phases, which is where spreads, pruning, several operations and argument reuse happen
pub fn generate_l(lim: Option<&Limits>, bytes: &[u8]) -> Result<Result<String, String>, String> {
    catch(|| {
        let mut u = Unstructured::new(bytes);
        let mut b = DocumentBuilder::new(&mut u);
        if let Some(l) = lim {
            b = b.max_scalar_types(l[0]).max_enum_types(l[1]).max_interface_types(l[2]).max_object_types(l[3])
                .max_union_types(l[4]).max_input_object_types(l[5]).max_fragment_definitions(l[6])
                .max_directive_definitions(l[7]).max_operation_definitions(l[8]);
        }
        b.build().map(String::from).map_err(|e| format!("{e:?}"))
    })
}

pub fn outcome(bytes: &[u8]) -> Outcome { outcome_l(None, bytes) }

pub fn outcome_l(lim: Option<&Limits>, bytes: &[u8]) -> Outcome {
    match generate_l(lim, bytes) {
        Err(m) => Outcome::Panic(m),
        Ok(Err(e)) => Outcome::GenErr(e),
        Ok(Ok(text)) => match ast::Document::parse(text.clone(), "smith.graphql") {
            Err(e) => {
                { let k = explained_keys(e.errors.iter().map(|d| d.error.to_string()).collect(), None, &text); Outcome::Syntax(text, k) }
            }
            Ok(doc) => match doc.to_mixed_validate() {
                Ok(_) => Outcome::Valid(text, doc),
                Err(errs) => {
                    { let facts = doc_facts(&doc); let k = explained_keys(errs.iter().map(|d| d.error.to_string()).collect(), Some(&facts), &text); Outcome::Invalid(text, k) }
                }
            },
        },
    }
}

/// the failure keys of one input (empty = the property holds on it)
fn keys_of(bytes: &[u8]) -> Vec<String> {
    match outcome(bytes) {
        Outcome::GenErr(_) | Outcome::Valid(..) => vec![],
        Outcome::Panic(m) => vec![format!("smith-panic:{}", class_of(&m))],
        Outcome::Syntax(_, k) => k.into_iter().map(|k| format!("smith-syntax:{k}")).collect(),
        Outcome::Invalid(_, k) => k.into_iter().map(|k| format!("smith-invalid:{k}")).collect(),
    }
}

/// delta debugging on the byte string: remove chunks, then lower bytes, while `key` still fails
fn shrink(bytes: &[u8], key: &str, budget: usize) -> Vec<u8> {
    let mut cur = bytes.to_vec();
    let mut tries = 0;
    let still = |b: &[u8], tries: &mut usize| { *tries += 1; keys_of(b).iter().any(|k| k == key) };
    let mut chunk = (cur.len() / 2).max(1);
    while chunk >= 1 && tries < budget {
        let mut i = 0;
        let mut progress = false;
        while i < cur.len() && tries < budget {
            let mut cand = cur.clone();
            let end = (i + chunk).min(cand.len());
            cand.drain(i..end);
            if still(&cand, &mut tries) { cur = cand; progress = true; } else { i += chunk; }
        }
        if !progress { if chunk == 1 { break; } chunk /= 2; }
    }
    for i in 0..cur.len() {
        if tries >= budget { break; }
        for v in [0u8, 1, 2] {
            if cur[i] > v {
                let mut cand = cur.clone();
                cand[i] = v;
                if still(&cand, &mut tries) { cur = cand; break; }
            }
        }
    }
    cur
}

// ---------------------------------------------------------------- byte strings

pub fn gen_bytes(rng: &mut Rng) -> Vec<u8> {
    let len = match rng.below(8) { 0 => rng.below(16), 1 => rng.below(256), 2 | 3 => rng.below(2048), _ => rng.below(8193) };
    let mode = rng.below(9);
    let pat: Vec<u8> = (0..1 + rng.below(6)).map(|_| rng.next() as u8).collect();
    let start = rng.next() as u8;
    let step = rng.next() as u8;
    let small = 2 + rng.below(6) as u64;
    (0..len).map(|i| match mode {
        0 => rng.next() as u8,
        1 => 0,
        2 => 0xFF,
        3 => start.wrapping_add((i as u8).wrapping_mul(step)),
        4 => pat[i % pat.len()],
        5 => (rng.next() % small) as u8,
        6 => if rng.chance(1, 4) { rng.next() as u8 } else { (rng.next() % 3) as u8 },
        7 => if rng.chance(1, 2) { 0xFF - (rng.next() % 4) as u8 } else { rng.next() as u8 },
        _ => if rng.chance(1, 16) { rng.next() as u8 } else { pat[i % pat.len()] },
    }).collect()
}

// ---------------------------------------------------------------- reading a generated document back

struct TypeDefInfo { name: String, extend: bool, interfaces: Vec<String> }

fn implements_defs(doc: &ast::Document) -> Vec<TypeDefInfo> {
    let mut out = vec![];
    let names = |v: &Vec<apollo_compiler::Name>| v.iter().map(|n| n.to_string()).collect::<Vec<_>>();
    // the builder records interfaces first, then objects; the closure does not depend on that order
    for pass in 0..2 {
        for def in &doc.definitions {
            match def {
                ast::Definition::InterfaceTypeDefinition(d) if pass == 0 => out.push(TypeDefInfo { name: d.name.to_string(), extend: false, interfaces: names(&d.implements_interfaces) }),
                ast::Definition::InterfaceTypeExtension(d) if pass == 0 => out.push(TypeDefInfo { name: d.name.to_string(), extend: true, interfaces: names(&d.implements_interfaces) }),
                ast::Definition::ObjectTypeDefinition(d) if pass == 1 => out.push(TypeDefInfo { name: d.name.to_string(), extend: false, interfaces: names(&d.implements_interfaces) }),
                ast::Definition::ObjectTypeExtension(d) if pass == 1 => out.push(TypeDefInfo { name: d.name.to_string(), extend: true, interfaces: names(&d.implements_interfaces) }),
                _ => {}
            }
        }
    }
    out
}

fn enc_defs(defs: &[TypeDefInfo]) -> String {
    defs.iter().map(|d| format!("{}{}:{}", if d.extend { "+" } else { "" }, d.name, d.interfaces.join(","))).collect::<Vec<_>>().join(";")
}

/// plain depth-first reachability (independent of the model and of petgraph)
fn reach_from(start: &str, edges: &BTreeMap<String, Vec<String>>) -> BTreeSet<String> {
    let mut seen = BTreeSet::new();
    let mut stack = vec![start.to_string()];
    while let Some(x) = stack.pop() {
        for y in edges.get(&x).into_iter().flatten() {
            if seen.insert(y.clone()) { stack.push(y.clone()); }
        }
    }
    seen
}

fn collect_spreads(sel: &[ast::Selection], out: &mut Vec<String>) {
    for s in sel {
        match s {
            ast::Selection::Field(f) => collect_spreads(&f.selection_set, out),
            ast::Selection::FragmentSpread(sp) => { let n = sp.fragment_name.to_string(); if !out.contains(&n) { out.push(n); } }
            ast::Selection::InlineFragment(i) => collect_spreads(&i.selection_set, out),
        }
    }
}

/// correspondence cases + structural oracle on one generated (valid or not) document
fn structure_checks(ctx: &mut Ctx, input: &str, doc: &ast::Document, tag: &str) {
    let input = input.to_string();
    // implements: after the backfill every type lists its whole closure
    let defs = implements_defs(doc);
    let mut edges: BTreeMap<String, Vec<String>> = BTreeMap::new();
    let mut declared: BTreeMap<String, BTreeSet<String>> = BTreeMap::new();
    let mut order: Vec<String> = vec![];
    for d in &defs {
        if !order.contains(&d.name) { order.push(d.name.clone()); }
        edges.entry(d.name.clone()).or_default().extend(d.interfaces.iter().cloned());
        declared.entry(d.name.clone()).or_default().extend(d.interfaces.iter().cloned());
    }
    let mut line = vec![];
    let mut deep = false;
    for n in &order {
        let mut cl = reach_from(n, &edges);
        if cl.contains(n) { ctx.fail("smith-implements-cycle", &input, &format!("type {n} transitively implements itself")); }
        cl.remove(n);
        let missing: Vec<String> = cl.iter().filter(|q| !declared[n].contains(*q)).cloned().collect();
        if !missing.is_empty() { ctx.fail("smith-implements-not-transitive", &input, &format!("type {n} does not list {} of its implements closure", missing.join(","))); }
        if cl.len() >= 2 { deep = true; }
        line.push(format!("{n}:{}:{}", cl.iter().cloned().collect::<Vec<_>>().join(","), missing.join(",")));
    }
    ctx.case("c32.closure", &[enc_defs(&defs)], &line.join(";"));
    if deep { ctx.nontrivial(&format!("closure{}", enc_defs(&defs))); ctx.stat(&format!("{tag}docs_with_transitive_implements")); }

    // fragments: pruning is at its fixed point, no spread dangles
    let mut ops: Vec<Vec<String>> = vec![];
    let mut frags: Vec<(String, Vec<String>)> = vec![];
    for def in &doc.definitions {
        match def {
            ast::Definition::OperationDefinition(o) => { let mut v = vec![]; collect_spreads(&o.selection_set, &mut v); ops.push(v); }
            ast::Definition::FragmentDefinition(f) => { let mut v = vec![]; collect_spreads(&f.selection_set, &mut v); frags.push((f.name.to_string(), v)); }
            _ => {}
        }
    }
    let mut fedges: BTreeMap<String, Vec<String>> = BTreeMap::new();
    for (n, v) in &frags { fedges.entry(n.clone()).or_insert_with(|| v.clone()); }
    fedges.insert("<ops>".into(), ops.iter().flatten().cloned().collect());
    let reachable = reach_from("<ops>", &fedges);
    for (n, v) in &frags {
        if !reachable.contains(n) { ctx.fail("smith-unused-fragment", &input, &format!("fragment {n} is not reachable from any operation")); }
        for s in v { if !frags.iter().any(|(m, _)| m == s) { ctx.fail("smith-dangling-spread", &input, &format!("fragment {n} spreads undefined {s}")); } }
    }
    for s in ops.iter().flatten() { if !frags.iter().any(|(m, _)| m == s) { ctx.fail("smith-dangling-spread", &input, &format!("an operation spreads undefined {s}")); } }
    let kept: Vec<String> = frags.iter().filter(|(n, _)| reachable.contains(n)).map(|(n, _)| n.clone()).collect();
    let out = format!("{}|{}", kept.join(","), reachable.iter().cloned().collect::<Vec<_>>().join(","));
    let ops_f = ops.iter().map(|v| v.join(",")).collect::<Vec<_>>().join(";");
    let frags_f = frags.iter().map(|(n, v)| format!("{n}:{}", v.join(","))).collect::<Vec<_>>().join(";");
    if !frags.is_empty() { ctx.stat(&format!("{tag}docs_with_fragments")); ctx.nontrivial(&format!("prune{frags_f}")); }
    if frags.iter().any(|(_, v)| !v.is_empty()) { ctx.stat(&format!("{tag}docs_with_nested_fragment_spreads")); }
    // shapes that distinguish reachability algorithms: a kept fragment that is only reachable through another
    // fragment, a spread to a fragment defined EARLIER than its spreader / LATER, several operations
    let direct: BTreeSet<&String> = ops.iter().flatten().collect();
    if frags.iter().any(|(n, _)| reachable.contains(n) && !direct.contains(n)) { ctx.stat(&format!("{tag}docs_with_fragment_reached_only_through_fragments")); }
    let pos = |n: &String| frags.iter().position(|(m, _)| m == n);
    if frags.iter().enumerate().any(|(i, (_, v))| v.iter().any(|s| pos(s).is_some_and(|j| j < i))) { ctx.stat(&format!("{tag}docs_with_spread_to_earlier_fragment")); }
    if frags.iter().enumerate().any(|(i, (_, v))| v.iter().any(|s| pos(s).is_some_and(|j| j > i))) { ctx.stat(&format!("{tag}docs_with_spread_to_later_fragment")); }
    if ops.len() >= 2 { ctx.stat(&format!("{tag}docs_with_several_operations")); }
    if ops.len() >= 2 && ops.iter().filter(|v| !v.is_empty()).count() >= 2 { ctx.stat(&format!("{tag}docs_with_several_operations_spreading")); }
    if defs.iter().any(|d| d.extend && !d.interfaces.is_empty()) { ctx.stat(&format!("{tag}docs_with_implements_in_extension")); }
    ctx.case("c32.prune", &[format!("{ops_f};"), frags_f], &out);

    // names: one namespace for types, one for fragments, one for operations, one for directives
    let mut types = BTreeSet::new();
    let mut fr = BTreeSet::new();
    let mut op = BTreeSet::new();
    for def in &doc.definitions {
        let dup = match def {
            ast::Definition::ScalarTypeDefinition(d) => !types.insert(d.name.to_string()),
            ast::Definition::ObjectTypeDefinition(d) => !types.insert(d.name.to_string()),
            ast::Definition::InterfaceTypeDefinition(d) => !types.insert(d.name.to_string()),
            ast::Definition::UnionTypeDefinition(d) => !types.insert(d.name.to_string()),
            ast::Definition::EnumTypeDefinition(d) => !types.insert(d.name.to_string()),
            ast::Definition::InputObjectTypeDefinition(d) => !types.insert(d.name.to_string()),
            ast::Definition::FragmentDefinition(d) => !fr.insert(d.name.to_string()),
            ast::Definition::OperationDefinition(d) => d.name.as_ref().is_some_and(|n| !op.insert(n.to_string())),
            _ => false,
        };
        if dup { ctx.fail("smith-duplicate-name", &input, "two definitions of one kind share a name"); }
    }
}

// ---------------------------------------------------------------- type_name through the public API

const HEAD: &[u8] = b"ABCDEFGHIJKLMNOPQRSTUVWXYZabcdefghijklmnopqrstuvwxyz";
const BODY: &[u8] = b"ABCDEFGHIJKLMNOPQRSTUVWXYZabcdefghijklmnopqrstuvwxyz_0123456789";

/// bytes that make `limited_string(30)` spell `s`
fn spell(s: &str) -> Vec<u8> {
    let mut v = vec![(s.len() - 1) as u8];
    for (i, c) in s.bytes().enumerate() {
        let set = if i == 0 { HEAD } else { BODY };
        v.push(set.iter().position(|x| *x == c).unwrap_or(0) as u8);
    }
    v
}

fn typename_case(ctx: &mut Ctx, used: &[String], bytes: &[u8], k: usize) { typename_case_k(ctx, used, bytes, k, None) }

/// the carrier type of the union / fragment / operation forms below; part of the used set when they are used
const CARRIER: &str = "Zq9";

/// `with_document` preloads the used set from NINE kinds of definitions (objects, interfaces, enums, directives,
/// unions, input objects, scalars, fragments, named operations). `rot = Some(r)`: used name i is declared as kind
/// (i + r) % 9; `None`: all scalars (the original form)
fn used_schema(used: &[String], rot: Option<usize>) -> String {
    let Some(r) = rot else { return used.iter().map(|n| format!("scalar {n}\n")).collect() };
    let mut s = format!("type {CARRIER} {{ a: Int }}\n");
    for (i, n) in used.iter().enumerate() {
        if n == CARRIER { continue; }
        s.push_str(&match (i + r) % 9 {
            0 => format!("scalar {n}\n"),
            1 => format!("type {n} {{ a: Int }}\n"),
            2 => format!("interface {n} {{ a: Int }}\n"),
            3 => format!("enum {n} {{ A }}\n"),
            4 => format!("union {n} = {CARRIER}\n"),
            5 => format!("input {n} {{ a: Int }}\n"),
            6 => format!("directive @{n} on FIELD\n"),
            7 => format!("fragment {n} on {CARRIER} {{ a }}\n"),
            _ => format!("query {n} {{ a }}\n"),
        });
    }
    s
}

fn typename_case_k(ctx: &mut Ctx, used_in: &[String], bytes: &[u8], k: usize, rot: Option<usize>) {
    let mut used_v: Vec<String> = used_in.to_vec();
    if rot.is_some() && !used_v.iter().any(|n| n == CARRIER) { used_v.push(CARRIER.to_string()); }
    let used: &[String] = &used_v;
    if rot.is_some() { ctx.stat("typename_cases_mixed_kinds"); }
    let schema: String = used_schema(used, rot);
    let r = catch(|| {
        let cst = apollo_parser::Parser::new(&schema).parse();
        let doc = apollo_smith::Document::try_from(cst.document()).map_err(|e| format!("{e:?}"))?;
        let mut u = Unstructured::new(bytes);
        let mut b = DocumentBuilder::with_document(&mut u, doc).map_err(|e| format!("{e:?}"))?;
        let mut out = vec![];
        for _ in 0..k { out.push(String::from(b.type_name().map_err(|e| format!("{e:?}"))?)); }
        Ok::<_, String>(out)
    });
    let input = match rot { None => format!("used [{}] bytes {} calls {k}", used.join(","), bytes_str(bytes)), Some(r) => format!("used [{}] declared as `{}` (rotation {r}) bytes {} calls {k}", used.join(","), schema.replace('\n', " "), bytes_str(bytes)) };
    let out = match r {
        Err(m) => { ctx.fail(&format!("smith-panic:{}", class_of(&m)), &input, "type_name panicked"); "PANIC".to_string() }
        Ok(Err(e)) => { ctx.fail("smith-typename-error", &input, &format!("type_name returned {e}")); "ERR".to_string() }
        Ok(Ok(names)) => {
            let mut seen: BTreeSet<&str> = used.iter().map(|s| s.as_str()).collect();
            for n in &names {
                if !seen.insert(n) { ctx.fail("smith-typename-not-fresh", &input, &format!("type_name returned {n}, which was already used")); }
                if !spec_name(n) { ctx.fail("smith-typename-not-a-name", &input, &format!("type_name returned {n:?}")); }
            }
            if names.iter().any(|n| n.ends_with(|c: char| c.is_ascii_digit())) { ctx.nontrivial(&input); }
            names.join(",")
        }
    };
    ctx.stat("typename_cases");
    ctx.case("c32.typename", &[enc(&used.join(",")), bytes_str(bytes), k.to_string()], &out);
}

fn spec_name(s: &str) -> bool {
    let mut it = s.chars();
    matches!(it.next(), Some(c) if c == '_' || c.is_ascii_alphabetic()) && it.all(|c| c == '_' || c.is_ascii_alphanumeric())
}

fn typename_stream(ctx: &mut Ctx) {
    let s = |x: &str| x.to_string();
    // hand-made: suffix probing through gaps, reserved words retried, trailing underscores trimmed
    let a3: Vec<u8> = [spell("A"), spell("A"), spell("A")].concat();
    typename_case(ctx, &[], &a3, 3);
    typename_case(ctx, &[s("A"), s("A0"), s("B")], &a3, 3);
    typename_case(ctx, &[s("A"), s("A1"), s("A3")], &a3, 4);
    typename_case(ctx, &[s("A0"), s("A00"), s("A1")], &[spell("A0"), spell("A"), spell("A0")].concat(), 3);
    typename_case(ctx, &[s("x")], &[spell("on"), spell("type"), spell("x"), spell("Int"), spell("x")].concat(), 2);
    typename_case(ctx, &[s("ab")], &[spell("ab__"), spell("ab_"), spell("a_b")].concat(), 3);
    typename_case(ctx, &[], &[], 5);
    typename_case(ctx, &[s("A"), s("A0"), s("A1"), s("A2"), s("A3"), s("A4"), s("A5"), s("A6"), s("A7"), s("A8"), s("A9"), s("A10")], &[], 4);
    typename_case(ctx, &[], &[255; 40], 3);
    let n = if ctx.thorough { 20_000 } else { 2_000 };
    for _ in 0..n {
        // a small vocabulary so that bases collide with the used set and with each other
        let vocab = ["A", "B", "a", "Ab", "A0", "A1", "q_1", "Zz9", "on", "Int", "type", "query", "x_"];
        let mut used: Vec<String> = vec![];
        for _ in 0..ctx.rng.below(10) {
            let base = *ctx.rng.pick(&vocab);
            let cand = if ctx.rng.chance(1, 2) { base.trim_end_matches('_').to_string() } else { format!("{}{}", base.trim_end_matches('_'), ctx.rng.below(4)) };
            if spec_name(&cand) && !["on", "Int", "type", "query"].contains(&cand.as_str()) && !used.contains(&cand) { used.push(cand); }
        }
        let k = 1 + ctx.rng.below(6);
        let mut bytes = vec![];
        for _ in 0..k + ctx.rng.below(3) {
            match ctx.rng.below(4) {
                0 => bytes.extend((0..ctx.rng.below(12)).map(|_| ctx.rng.next() as u8)),
                _ => { let w: &str = *ctx.rng.pick(&vocab); bytes.extend(spell(w.trim_end_matches(|c: char| c == '_').max("A"))) }
            }
        }
        if ctx.rng.chance(1, 6) { bytes.truncate(ctx.rng.below(bytes.len() + 1)); }
        typename_case(ctx, &used, &bytes, k);
    }
}

// ---------------------------------------------------------------- implements_interfaces through the public API

fn implements_case(ctx: &mut Ctx, defs: &[TypeDefInfo], bytes: &[u8]) {
    let mut schema = String::new();
    for (i, d) in defs.iter().enumerate() {
        let imp = if d.interfaces.is_empty() { String::new() } else { format!(" implements {}", d.interfaces.join(" & ")) };
        if d.extend { schema.push_str(&format!("extend interface {}{imp} {{ g{i}: Int }}\n", d.name)); }
        else { schema.push_str(&format!("interface {}{imp} {{ f: Int }}\n", d.name)); }
    }
    let r = catch(|| {
        let cst = apollo_parser::Parser::new(&schema).parse();
        let doc = apollo_smith::Document::try_from(cst.document()).map_err(|e| format!("{e:?}"))?;
        let mut u = Unstructured::new(bytes);
        let mut b = DocumentBuilder::with_document(&mut u, doc).map_err(|e| format!("{e:?}"))?;
        let picked = b.implements_interfaces().map_err(|e| format!("{e:?}"))?;
        Ok::<_, String>(picked.into_iter().map(String::from).collect::<Vec<String>>())
    });
    let input = format!("interfaces {} bytes {}", enc_defs(defs), bytes_str(bytes));
    let out = match r {
        Err(m) => { ctx.fail(&format!("smith-panic:{}", class_of(&m)), &input, "implements_interfaces panicked"); "PANIC".to_string() }
        Ok(Err(_)) => "ERR".to_string(),
        Ok(Ok(mut picked)) => {
            // oracle: the pick is closed under the declared `implements` edges
            let mut edges: BTreeMap<String, Vec<String>> = BTreeMap::new();
            for d in defs { edges.entry(d.name.clone()).or_default().extend(d.interfaces.iter().cloned()); }
            for p in &picked {
                for q in reach_from(p, &edges) {
                    if !picked.contains(&q) { ctx.fail("smith-implements-not-transitive", &input, &format!("picked {p} but not {q}, which {p} transitively implements")); }
                }
            }
            if picked.len() >= 3 { ctx.nontrivial(&input); }
            picked.sort();
            picked.join(",")
        }
    };
    ctx.stat("implements_cases");
    ctx.case("c32.implements", &[enc_defs(defs), bytes_str(bytes)], &out);
}

fn implements_stream(ctx: &mut Ctx) {
    let d = |n: &str, e: bool, p: &[&str]| TypeDefInfo { name: n.to_string(), extend: e, interfaces: p.iter().map(|s| s.to_string()).collect() };
    let chain = vec![d("Z", false, &[]), d("Y", false, &["Z"]), d("X", false, &["Y"]), d("W", false, &["X"])];
    let diamond = vec![d("T", false, &[]), d("L", false, &["T"]), d("R", false, &["T"]), d("B", false, &["L", "R"])];
    let cyc = vec![d("P", false, &["Q"]), d("Q", false, &["P"]), d("S", false, &["P"])];
    let ext = vec![d("Z", false, &[]), d("Y", false, &[]), d("Y", true, &["Z"]), d("X", false, &["Y"])];
    for g in [&chain, &diamond, &cyc, &ext] {
        for b0 in 0..4u8 { for b1 in 0..4u8 { for b2 in 0..4u8 { implements_case(ctx, g, &[b0, b1, b2, b0]); } } }
        implements_case(ctx, g, &[]);
    }
    let n = if ctx.thorough { 20_000 } else { 2_000 };
    for _ in 0..n {
        let k = 1 + ctx.rng.below(7);
        let names: Vec<String> = (0..k).map(|i| format!("I{i}")).collect();
        let mut defs = vec![];
        for i in 0..k {
            // mostly edges to earlier interfaces (a DAG), sometimes any (cycles)
            let mut ps = vec![];
            for j in 0..k {
                if j == i { continue; }
                let p = if j < i { 3 } else { 12 };
                if ctx.rng.chance(1, p) { ps.push(names[j].clone()); }
            }
            defs.push(TypeDefInfo { name: names[i].clone(), extend: false, interfaces: ps });
            if ctx.rng.chance(1, 6) {
                let j = ctx.rng.below(k);
                if j != i { defs.push(TypeDefInfo { name: names[i].clone(), extend: true, interfaces: vec![names[j].clone()] }); }
            }
        }
        let bytes: Vec<u8> = (0..ctx.rng.below(10)).map(|_| if ctx.rng.chance(1, 3) { ctx.rng.next() as u8 } else { ctx.rng.below(8) as u8 }).collect();
        implements_case(ctx, &defs, &bytes);
    }
}

// ---------------------------------------------------------------- operations against a parsed schema

const SCHEMAS: [&str; 5] = [
    "schema { query: Query } type Query { id: ID! name: String other: Other list: [Other!]! } type Other { a: Int b: Query }",
    "schema { query: Q mutation: M subscription: S } interface Node { id: ID! } type Q implements Node { id: ID! node(id: ID!, first: Int = 3): Node u: U e: E }
     type M { set(input: In!, flag: Boolean): Q } type S { tick: Int q: Q } type A implements Node { id: ID! x: [Int] } union U = A | Q enum E { X Y }
     input In { a: Int! b: [String!] = [\"x\"] c: In2 } input In2 { z: Float } directive @d(n: Int) on FIELD | QUERY | FRAGMENT_SPREAD | INLINE_FRAGMENT",
    "schema { query: Root } interface I { i: Int } interface J implements I { i: Int j(x: Float! = 1.5, y: [ID]): String } type Root implements J & I { i: Int j(x: Float! = 1.5, y: [ID]): String k: J r: Root }
     scalar Date directive @x(a: Date) repeatable on FIELD | QUERY | MUTATION | SUBSCRIPTION",
    // fields of custom scalar and union type (a union that is extended), a recursive (nullable / list) input object,
    // an input object with a required field added by an extension
    "schema { query: Q } scalar Date union U = A extend union U = Q type A { d: Date us: [U!] n: Int } type Q { u: U d(i: In, r: Req!): Date a: A }
     input In { c: In l: [In!] = [] n: Int m: [[In]!] } input Req { a: Int } extend input Req { b: Date! c: In }",
    // definitions and extensions WITHOUT a fields / values block (valid SDL: `extend interface N @t`)
    "schema { query: Q } directive @t on OBJECT | INTERFACE | ENUM | INPUT_OBJECT | UNION | SCALAR  interface N { a: Int } type Q implements N { a: Int e: E n: N }
     enum E { A B } input I { x: Int } union U = Q scalar S  extend interface N @t extend type Q @t extend enum E @t extend input I @t extend union U @t extend scalar S @t",
];

fn schema_only(doc: &ast::Document) -> String {
    let mut d = ast::Document::new();
    for def in &doc.definitions {
        if !matches!(def, ast::Definition::OperationDefinition(_) | ast::Definition::FragmentDefinition(_)) { d.definitions.push(def.clone()); }
    }
    d.to_string()
}

/// does some input object (transitively) contain itself?  (`input_value_for_type` then never returns)
fn has_input_cycle(schema: &Schema) -> bool {
    use apollo_compiler::schema::ExtendedType;
    let mut edges: BTreeMap<String, Vec<String>> = BTreeMap::new();
    for (n, t) in &schema.types {
        if let ExtendedType::InputObject(io) = t {
            edges.insert(n.to_string(), io.fields.values().map(|f| f.ty.inner_named_type().to_string()).collect());
        }
    }
    edges.keys().any(|n| reach_from(n, &edges).contains(n))
}

fn operations_against(ctx: &mut Ctx, schema_text: &str, bytes: &[u8], label: &str) { operations_against_f(ctx, schema_text, "", bytes, label) }

/// `fragments_text`: fragment definitions (valid against the schema, acyclic) that the smith document carries in
/// addition to the schema, so that `fragment_spread()` has something to choose from; a generated operation is
/// validated together with the fragments it (transitively) spreads
fn operations_against_f(ctx: &mut Ctx, schema_text: &str, fragments_text: &str, bytes: &[u8], label: &str) {
    let Ok(schema) = Schema::parse_and_validate(schema_text, "schema.graphql") else { ctx.stat("op_schema_rejected"); return; };
    // schemas with recursive input objects: `input_value_for_type` used not to return on them (repaired). They are
    // generated against like any other schema — unless the child-process probe, run first, died: then the defect is
    // back, it has been reported under its own key, and these schemas are left out so that the run can go on
    if has_input_cycle(&schema) {
        if SKIP_RECURSIVE_INPUT.load(std::sync::atomic::Ordering::SeqCst) { ctx.stat("op_schema_skipped_recursive_input_object"); return; }
        ctx.stat("op_schema_with_recursive_input_object");
    }
    let facts = ast::Document::parse(schema_text, "schema.graphql").map(|d| doc_facts(&d)).unwrap_or_default();
    let with_frags = !fragments_text.is_empty();
    let full_text = format!("{schema_text}\n{fragments_text}");
    let frag_defs: Vec<(String, Vec<String>, String, String)> = if with_frags {
        ast::Document::parse(fragments_text, "fragments.graphql").map(|d| d.definitions.iter().filter_map(|def| match def {
            ast::Definition::FragmentDefinition(f) => { let mut v = vec![]; collect_spreads(&f.selection_set, &mut v); Some((f.name.to_string(), v, f.type_condition.to_string(), f.to_string())) }
            _ => None,
        }).collect()).unwrap_or_default()
    } else { vec![] };
    let r = catch(|| {
        let cst = apollo_parser::Parser::new(&full_text).parse();
        let doc = apollo_smith::Document::try_from(cst.document()).map_err(|e| format!("{e:?}"))?;
        let mut u = Unstructured::new(bytes);
        let mut b = DocumentBuilder::with_document(&mut u, doc).map_err(|e| format!("{e:?}"))?;
        let mut ops = vec![];
        for _ in 0..3 {
            match b.operation_definition() { Ok(Some(op)) => ops.push(String::from(op)), Ok(None) => {}, Err(e) => return Err(format!("{e:?}")) }
        }
        Ok::<_, String>(ops)
    });
    let input = format!("operation against {label} bytes {}", bytes_str(bytes));
    match r {
        Err(m) => {
            // the recorded `todo!()` needs a field of union or custom scalar type in the schema
            let c = class_of(&m);
            let explained = !c.starts_with("not-yet-implemented") || facts.has_union_or_custom_scalar;
            ctx.fail(&format!("smith-op-panic:{c}{}", if explained { "" } else { "/unexplained" }), &input, &m.chars().take(160).collect::<String>())
        }
        Ok(Err(_)) => ctx.stat("op_gen_err"),
        Ok(Ok(ops)) => for op in ops {
            ctx.stat("ops_generated");
            // the operation together with the given fragments it reaches
            let op = if with_frags {
                let mut direct = vec![];
                if let Ok(d) = ast::Document::parse(op.as_str(), "op.graphql") { for def in &d.definitions { if let ast::Definition::OperationDefinition(o) = def { collect_spreads(&o.selection_set, &mut direct); } } }
                let mut fedges: BTreeMap<String, Vec<String>> = frag_defs.iter().map(|(n, v, _, _)| (n.clone(), v.clone())).collect();
                fedges.insert("<op>".into(), direct.clone());
                let reach = reach_from("<op>", &fedges);
                ctx.stat("frag_ops_generated");
                if !direct.is_empty() { ctx.stat("frag_ops_with_spread"); }
                for (n, _, cond, _) in &frag_defs { if direct.contains(n) { ctx.stat(&format!("frag_ops_spread_of_fragment_on:{cond}")); } }
                if direct.len() >= 2 { ctx.stat("frag_ops_with_two_or_more_spreads"); ctx.nontrivial(&format!("fragop{label}{}", direct.join(","))); }
                let mut t = op.clone();
                for (n, _, _, text) in &frag_defs { if reach.contains(n) { t.push('\n'); t.push_str(text); } }
                t
            } else { op };
            match ExecutableDocument::parse_and_validate(&schema, &op, "op.graphql") {
                Ok(_) => ctx.stat("ops_valid"),
                Err(e) => {
                    let keys = explained_keys(e.errors.iter().map(|d| d.error.to_string()).collect(), Some(&facts), &op);
                    for k in keys { ctx.fail(&format!("smith-op-invalid:{k}"), &input, &format!("generated operation is invalid against the schema: {}", op.replace('\n', " ").chars().take(300).collect::<String>())); }
                }
            }
        },
    }
}

// ---------------------------------------------------------------- type_name against all nine preloaded kinds

fn typename_kinds_stream(ctx: &mut Ctx) {
    let s = |x: &str| x.to_string();
    // each kind alone holds the colliding name: the base and its first suffix must both be avoided
    for r in 0..9 {
        typename_case_k(ctx, &[s("A")], &[spell("A"), spell("A")].concat(), 2, Some(r));
        typename_case_k(ctx, &[s("A"), s("A0"), s("A1"), s("B"), s("B0"), s("a"), s("A2"), s("b"), s("C")], &[spell("A"), spell("B"), spell("C"), spell("a"), spell("b")].concat(), 5, Some(r));
    }
    // the carrier itself is a used name
    typename_case_k(ctx, &[], &[spell(CARRIER), spell(CARRIER)].concat(), 2, Some(0));
    let n = if ctx.thorough { 6_000 } else { 500 };
    let vocab = ["A", "B", "a", "Ab", "A0", "A1", "q_1", "Zz9", "x"];
    for _ in 0..n {
        let mut used: Vec<String> = vec![];
        for _ in 0..ctx.rng.below(12) {
            let base = *ctx.rng.pick(&vocab);
            let cand = if ctx.rng.chance(1, 2) { base.to_string() } else { format!("{base}{}", ctx.rng.below(3)) };
            if !used.contains(&cand) { used.push(cand); }
        }
        let k = 1 + ctx.rng.below(5);
        let mut bytes = vec![];
        for _ in 0..k { let w: &str = *ctx.rng.pick(&vocab); bytes.extend(spell(w)); }
        let r = ctx.rng.below(9);
        typename_case_k(ctx, &used, &bytes, k, Some(r));
    }
}

// ---------------------------------------------------------------- implements_interfaces with clashing field signatures

/// signatures of the shared field `s` (two interfaces that declare `s` differently cannot both be implemented)
const SIGS: [&str; 6] = ["s: Int", "s: String", "s(a: Int): Int", "s(a: String): Int", "s: [Int]", "s: Int!"];

/// `implements_interfaces()` must return a set that is closed under `implements` AND whose members agree on the
/// signature of every field they share (`try_accept_candidate`'s conflict guard: type and arguments). Oracle only:
/// the model of `c32.implements` has no field signatures (all its interfaces declare the same field)
fn implements_conflict_stream(ctx: &mut Ctx) {
    let n = if ctx.thorough { 20_000 } else { 1_500 };
    for case in 0..n {
        let k = 2 + ctx.rng.below(5);
        // variant of `s` per interface (None = does not declare it); a child inherits its parents' variant
        let mut var: Vec<Option<usize>> = vec![];
        let mut parents: Vec<Vec<usize>> = vec![];
        let nvar = 2 + ctx.rng.below(3);
        let base = ctx.rng.below(SIGS.len());
        for i in 0..k {
            let mut ps: Vec<usize> = vec![];
            let mut v: Option<usize> = None;
            for j in 0..i {
                if !ctx.rng.chance(1, 3) { continue; }
                if let (Some(a), Some(b)) = (v, var[j]) { if a != b { continue; } }
                if v.is_none() { v = var[j]; }
                ps.push(j);
            }
            // transitive parents must be listed
            let mut all: BTreeSet<usize> = BTreeSet::new();
            for p in &ps { all.insert(*p); for q in &parents[*p] { all.insert(*q); } }
            if v.is_none() && ctx.rng.chance(3, 4) { v = Some((base + ctx.rng.below(nvar)) % SIGS.len()); }
            var.push(v);
            parents.push(all.into_iter().collect());
        }
        let mut schema = String::new();
        for i in 0..k {
            let imp = if parents[i].is_empty() { String::new() } else { format!(" implements {}", parents[i].iter().map(|p| format!("I{p}")).collect::<Vec<_>>().join(" & ")) };
            let mut fields = format!("u{i}: Int");
            for p in &parents[i] { fields.push_str(&format!(" u{p}: Int")); }
            if let Some(v) = var[i] { fields.push(' '); fields.push_str(SIGS[v]); }
            schema.push_str(&format!("interface I{i}{imp} {{ {fields} }}\n"));
        }
        if case == 0 { if let Err(e) = Schema::parse_and_validate(format!("{schema} type Query {{ a: Int }}"), "s.graphql") { ctx.fail("harness-implements-conflict-schema-invalid", &schema, &e.errors.to_string()); } }
        let bytes: Vec<u8> = (0..2 + ctx.rng.below(14)).map(|_| if ctx.rng.chance(1, 3) { ctx.rng.next() as u8 } else { ctx.rng.below(8) as u8 }).collect();
        let r = catch(|| {
            let cst = apollo_parser::Parser::new(&schema).parse();
            let doc = apollo_smith::Document::try_from(cst.document()).map_err(|e| format!("{e:?}"))?;
            let mut u = Unstructured::new(&bytes);
            let mut b = DocumentBuilder::with_document(&mut u, doc).map_err(|e| format!("{e:?}"))?;
            let picked = b.implements_interfaces().map_err(|e| format!("{e:?}"))?;
            Ok::<_, String>(picked.into_iter().map(String::from).collect::<Vec<String>>())
        });
        let input = format!("interfaces `{}` bytes {}", schema.replace('\n', " "), bytes_str(&bytes));
        ctx.stat("implements_conflict_cases");
        match r {
            Err(m) => ctx.fail(&format!("smith-panic:{}", class_of(&m)), &input, "implements_interfaces panicked"),
            Ok(Err(_)) => ctx.stat("implements_conflict_gen_err"),
            Ok(Ok(picked)) => {
                let idx: Vec<usize> = picked.iter().filter_map(|p| p[1..].parse().ok()).collect();
                for i in &idx { for p in &parents[*i] { if !idx.contains(p) { ctx.fail("smith-implements-not-transitive", &input, &format!("picked I{i} but not I{p}")); } } }
                let vs: BTreeSet<usize> = idx.iter().filter_map(|i| var[*i]).collect();
                if vs.len() > 1 { ctx.fail("smith-implements-conflicting-signatures", &input, &format!("picked {} whose declarations of `s` differ", picked.join(","))); }
                let distinct_vars: BTreeSet<usize> = var.iter().flatten().cloned().collect();
                if distinct_vars.len() > 1 { ctx.stat("implements_conflict_cases_with_clashing_interfaces"); }
                if distinct_vars.len() > 1 && idx.len() >= 2 { ctx.stat("implements_conflict_picked_two_or_more"); ctx.nontrivial(&input); }
            }
        }
    }
}

// ---------------------------------------------------------------- operations against a schema WITH fragments

/// (schema, fragments): fragments on objects, interfaces (also an interface implementing an interface) and
/// unions, nested spreads, inline fragments — `fragment_spread_possible` / `possible_object_types` take their
/// interface and union branches only here (`build()` only makes fragments on object types). The fragments select
/// argument-less fields whose names are unique per type, so any conflict is the generator's doing
const FRAG_SCHEMAS: [(&str, &str); 3] = [
    ("schema { query: Q mutation: M } interface Node { id: ID! } interface Named implements Node { id: ID! name: String }
      type Q implements Node { id: ID! node: Node named: Named a: A b: B c: C u: U w: W list: [Node!] find(id: ID!, n: Int = 1): Node }
      type M { touch: Node b: B } type A implements Node & Named { id: ID! name: String x: Int b: B }
      type B implements Node { id: ID! y: Float a: A u: U c: C } type C { z: Int q: Q } union U = A | B union W = C | B",
     "fragment fNode on Node { id } fragment fNamed on Named { id name } fragment fA on A { x ...fNode } fragment fB on B { y a { ...fA } }
      fragment fC on C { z } fragment fU on U { __typename ...fA } fragment fW on W { ... on C { z } ...fB } fragment fQ on Q { id ...fNode } fragment fM on M { __typename }"),
    // disjoint islands: nothing defined for one island may be spread in the other
    ("schema { query: Q } interface I { i: Int } interface J { j: Int } type Q { p: P r: R ip: I jr: J }
      type P implements I { i: Int r: R } type R implements J { j: Int p: P } union UP = P union UR = R",
     "fragment fI on I { i } fragment fJ on J { j } fragment fP on P { i ...fI } fragment fR on R { j ...fJ } fragment fUP on UP { ...fP } fragment fUR on UR { ...fR }"),
    // an interface without implementers, a union of one member, a diamond
    ("schema { query: Q subscription: S } interface Top { t: Int } interface L implements Top { t: Int l: Int } interface Rr implements Top { t: Int r: Int } interface Lonely { e: Int }
      type Q { top: Top l: L r: Rr d: D o: O lonely: Lonely } type S { d: D } type D implements L & Rr & Top { t: Int l: Int r: Int o: O } type O implements Top { t: Int d: D } union One = O",
     "fragment fTop on Top { t } fragment fL on L { l ...fTop } fragment fRr on Rr { r ...fTop } fragment fD on D { ...fL ...fRr } fragment fO on O { t d { ...fD } } fragment fOne on One { ...fO } fragment fLonely on Lonely { e }"),
];

fn fragment_ops_stream(ctx: &mut Ctx, mark: &dyn Fn(&str, &[u8])) {
    // the given fragments must be valid against their schema (a harness fact, checked once per run)
    for (i, (schema, frags)) in FRAG_SCHEMAS.iter().enumerate() {
        let root = if i == 0 { "a" } else if i == 1 { "p" } else { "top" };
        // all the fragments next to an operation that spreads none: only "must be used" may be reported
        let probe = format!("{{ {root} {{ __typename }} }} {frags}");
        if let Ok(s) = Schema::parse_and_validate(*schema, "schema.graphql") {
            if let Err(e) = ExecutableDocument::parse_and_validate(&s, &probe, "probe.graphql") {
                let other: Vec<String> = e.errors.iter().map(|d| d.error.to_string()).filter(|m| !m.contains("must be used in an operation")).collect();
                if !other.is_empty() { ctx.fail("harness-fragment-schema-invalid", &format!("fragment schema #{i}"), &other.join(" / ")); }
            }
        } else { ctx.fail("harness-fragment-schema-invalid", &format!("fragment schema #{i}"), "schema rejected"); }
    }
    let n = if ctx.thorough { 20_000 } else { 1_500 };
    for i in 0..n {
        let k = i % FRAG_SCHEMAS.len();
        let mut b = gen_bytes(&mut ctx.rng);
        b.truncate(match ctx.rng.below(3) { 0 => 40, 1 => 120, _ => 300 });
        mark(&format!("frag-ops {k}"), &b);
        operations_against_f(ctx, FRAG_SCHEMAS[k].0, FRAG_SCHEMAS[k].1, &b, &format!("fragment schema #{k} (`{}` with `{}`)", FRAG_SCHEMAS[k].0.split_whitespace().collect::<Vec<_>>().join(" "), FRAG_SCHEMAS[k].1.split_whitespace().collect::<Vec<_>>().join(" ")));
    }
}

// ---------------------------------------------------------------- driver

const RECURSIVE_INPUT_SCHEMA: &str = "schema { query: Q } type Q { f(i: In): Int } input In { c: In }";
/// recursion through a list and through a second input object
const RECURSIVE_INPUT_SCHEMA_2: &str = "schema { query: Q } type Q { f(i: A): Int } input A { b: B l: [A!] } input B { a: [[A]!] }";
static SKIP_RECURSIVE_INPUT: std::sync::atomic::AtomicBool = std::sync::atomic::AtomicBool::new(false);

/// a valid schema with a self-referential (nullable) input object: run in a child process, because the
/// generator recurses without bound and the stack overflow cannot be caught
fn recursive_input_probe(ctx: &mut Ctx) {
    let exe = match std::env::current_exe() { Ok(e) => e, Err(_) => return };
    let dir = ctx.out_dir.join("child");
    let out = std::process::Command::new(exe)
        .args(["C32", "--seed", "1", "--tier", "quick", "--out"]).arg(&dir)
        .env("VH_C32_CHILD", "recursive-input")
        .stdout(std::process::Stdio::piped()).stderr(std::process::Stdio::null()).output();
    ctx.stat("child_probes");
    match out {
        Ok(o) if o.status.success() => ctx.stat("recursive_input_probe_ok"),
        Ok(o) => { SKIP_RECURSIVE_INPUT.store(true, std::sync::atomic::Ordering::SeqCst); ctx.fail("smith-op-unbounded-recursion-on-recursive-input-object",
            &format!("operation against `{RECURSIVE_INPUT_SCHEMA}` bytes 1,1,0,0,0,0"),
            &format!("the child process died ({:?}): input_value_for_type generates every field of an input object, so `input In {{ c: In }}` recurses until the stack overflows", o.status)) },
        Err(_) => ctx.stat("child_probe_not_started"),
    }
}

/// run `outcome` on every input in a child process first: a stack overflow (unbounded recursion in the
/// generator, the parser or the validator) aborts the process and cannot be caught, so the parent learns
/// from the child's progress output which input did it, records it and leaves it out
fn crash_scan(ctx: &mut Ctx, inputs: &[Inp]) -> (BTreeSet<usize>, usize) {
    let mut crashed = BTreeSet::new();
    let Ok(exe) = std::env::current_exe() else { return (crashed, inputs.len()) };
    let path = ctx.out_dir.join("e2e_inputs.txt");
    let text: String = inputs.iter().map(|b| b.line() + "\n").collect();
    if std::fs::write(&path, text).is_err() { return (crashed, inputs.len()); }
    let mut start = 0usize;
    let mut safe_upto = 0usize;
    for _ in 0..12 {
        let out = std::process::Command::new(&exe)
            .args(["C32", "--seed", "1", "--tier", "quick", "--out"]).arg(ctx.out_dir.join("child"))
            .env("VH_C32_CHILD", format!("scan:{}:{start}", path.display()))
            .stdout(std::process::Stdio::piped()).stderr(std::process::Stdio::null()).output();
        ctx.stat("child_scans");
        let Ok(o) = out else { safe_upto = inputs.len(); break };
        if o.status.success() { safe_upto = inputs.len(); break; }
        let last = String::from_utf8_lossy(&o.stdout).lines().last().and_then(|l| l.parse::<usize>().ok());
        let Some(i) = last else { safe_upto = inputs.len(); break };
        ctx.fail("smith-crash", &inputs[i].label(),
            &format!("generating / parsing / validating this input killed the process ({:?}): unbounded recursion", o.status));
        crashed.insert(i);
        start = i + 1;
        safe_upto = start;
    }
    if safe_upto < inputs.len() { ctx.stat("e2e_truncated_after_repeated_crashes"); }
    (crashed, safe_upto)
}

/// one end-to-end input: the byte string and (optionally) the builder's maximums
pub struct Inp { pub lim: Option<Limits>, pub bytes: Vec<u8> }
impl Inp {
    fn label(&self) -> String {
        match &self.lim {
            None => format!("bytes {}", bytes_str(&self.bytes)),
            Some(l) => format!("limits {} bytes {}", l.iter().map(|x| x.to_string()).collect::<Vec<_>>().join(","), bytes_str(&self.bytes)),
        }
    }
    fn line(&self) -> String {
        match &self.lim {
            None => bytes_str(&self.bytes),
            Some(l) => format!("{}|{}", l.iter().map(|x| x.to_string()).collect::<Vec<_>>().join(","), bytes_str(&self.bytes)),
        }
    }
    fn parse(line: &str) -> Inp {
        let nums = |s: &str| s.split(',').filter_map(|x| x.parse::<usize>().ok()).collect::<Vec<_>>();
        match line.split_once('|') {
            None => Inp { lim: None, bytes: nums(line).into_iter().map(|x| x as u8).collect() },
            Some((l, b)) => { let v = nums(l); let mut lim = [1usize; 9]; for (i, x) in v.iter().take(9).enumerate() { lim[i] = *x; } Inp { lim: Some(lim), bytes: nums(b).into_iter().map(|x| x as u8).collect() } }
        }
    }
}

/// maximum profiles of the low-limit family (order: scalars, enums, interfaces, objects, unions, input objects,
/// fragments, directives, operations)
const PROFILES: [Limits; 13] = [
    [1, 1, 1, 1, 1, 1, 1, 1, 1],
    [2, 2, 2, 2, 2, 2, 2, 2, 2],
    [3, 3, 3, 3, 3, 3, 3, 3, 3],
    [1, 1, 1, 1, 1, 1, 4, 1, 3],   // fragments and operations
    [1, 1, 1, 2, 1, 1, 6, 1, 4],
    [2, 2, 2, 2, 2, 2, 8, 2, 6],
    [1, 1, 3, 3, 1, 1, 3, 1, 2],   // interfaces / objects (extensions, implements closure)
    [1, 1, 6, 6, 1, 1, 2, 1, 1],
    [1, 1, 4, 4, 2, 1, 5, 2, 3],
    [1, 1, 2, 2, 3, 3, 2, 1, 2],   // unions / input objects
    [1, 1, 1, 1, 1, 1, 1, 4, 2],   // directives
    [1, 2, 2, 3, 1, 4, 3, 3, 3],
    [5, 5, 5, 5, 5, 5, 5, 5, 5],
];

fn limited_inputs(ctx: &mut Ctx) -> Vec<Inp> {
    let mut v = vec![];
    // systematic part: every profile on counting / constant byte strings
    for p in PROFILES.iter() {
        for n in [0usize, 1, 4, 10, 64, 256] { v.push(Inp { lim: Some(*p), bytes: (0..n).map(|i| i as u8).collect() }); }
        for c in 0..6u8 { v.push(Inp { lim: Some(*p), bytes: vec![c; 600] }); }
    }
    let n = if ctx.thorough { 24_000 } else { 1_300 };
    for i in 0..n {
        let lim = if i % 5 == 4 { let mut l = [1usize; 9]; for x in l.iter_mut() { *x = 1 + ctx.rng.below(4); } l } else { PROFILES[(i / 5 * 4 + i % 5) % PROFILES.len()] };
        // the type-system phases cost some hundred bytes even with one definition of each kind (names of up to 30
        // characters, descriptions, default values); small byte values keep names and lists short
        let cap = match ctx.rng.below(5) { 0 => 200, 1 => 600, 2 => 1500, 3 => 3000, _ => 4096 };
        let b: Vec<u8> = if i % 2 == 0 { let mut b = gen_bytes(&mut ctx.rng); b.truncate(cap); b } else {
            let small = 2 + ctx.rng.below(7) as u64;
            let noise = *ctx.rng.pick(&[4u32, 8, 16, 64]);
            let len = cap / 2 + ctx.rng.below(cap / 2 + 1);
            (0..len).map(|_| if ctx.rng.chance(1, noise) { ctx.rng.next() as u8 } else { (ctx.rng.next() % small) as u8 }).collect()
        };
        v.push(Inp { lim: Some(lim), bytes: b });
    }
    v
}

/// the end-to-end oracle, the structural oracles / correspondence cases and operations against the generated schema
fn e2e(ctx: &mut Ctx, inputs: &[Inp], tag: &str, structure_budget: usize, mark: &dyn Fn(&str, &[u8])) {
    let mut structured = 0;
    let mut op_runs = 0;
    let (crashed, safe_upto) = crash_scan(ctx, inputs);
    for (idx, inp) in inputs.iter().enumerate().take(safe_upto) {
        if crashed.contains(&idx) { continue; }
        let bytes = &inp.bytes;
        let input = inp.label();
        ctx.stat(&format!("{tag}len_{}", match bytes.len() { 0..=15 => "0-15", 16..=255 => "16-255", 256..=2047 => "256-2047", _ => "2048-8192" }));
        mark("outcome", bytes);
        let oc = outcome_l(inp.lim.as_ref(), bytes);
        mark("after-outcome", bytes);
        match oc {
            Outcome::GenErr(e) => ctx.stat(&format!("{tag}gen_err:{e}")),
            Outcome::Panic(m) => ctx.fail(&format!("smith-panic:{}", class_of(&m)), &input, &m.chars().take(200).collect::<String>()),
            Outcome::Syntax(_, keys) => { ctx.stat(&format!("{tag}gen_ok")); for k in keys { ctx.fail(&format!("smith-syntax:{k}"), &input, "the generated document does not parse"); } }
            Outcome::Invalid(text, keys) => {
                ctx.stat(&format!("{tag}gen_ok"));
                for k in keys { ctx.fail(&format!("smith-invalid:{k}"), &input, "the generated document does not validate"); }
                if structured < structure_budget { if let Ok(doc) = ast::Document::parse(text, "smith.graphql") { structured += 1; structure_checks(ctx, &input, &doc, tag); } }
            }
            Outcome::Valid(text, doc) => {
                ctx.stat(&format!("{tag}gen_ok")); ctx.stat(&format!("{tag}valid"));
                // the same bytes give the same document
                if idx % 4 == 0 {
                    match generate_l(inp.lim.as_ref(), bytes) { Ok(Ok(t2)) if t2 == text => ctx.stat(&format!("{tag}determinism_checks")), _ => ctx.fail("smith-nondeterministic", &input, "a second run on the same bytes produced a different document") }
                }
                if structured < structure_budget { structured += 1; structure_checks(ctx, &input, &doc, tag); }
                // operations against this document's schema, parsed back from text
                if op_runs < structure_budget / 2 && idx % 3 == 0 {
                    op_runs += 1;
                    let seed_bytes: Vec<u8> = bytes.iter().rev().cloned().collect();
                    operations_against(ctx, &schema_only(&doc), &seed_bytes, &format!("the schema generated from {input}"));
                }
            }
        }
    }
}

pub fn run(ctx: &mut Ctx) {
    if let Some(spec) = std::env::var("VH_C32_CHILD").ok().and_then(|v| v.strip_prefix("scan:").map(|s| s.to_string())) {
        use std::io::Write;
        let (path, start) = spec.rsplit_once(':').unwrap();
        let start: usize = start.parse().unwrap();
        let text = std::fs::read_to_string(path).unwrap();
        let stdout = std::io::stdout();
        for (i, line) in text.lines().enumerate().skip(start) {
            let inp = Inp::parse(line);
            { let mut h = stdout.lock(); writeln!(h, "{i}").unwrap(); h.flush().unwrap(); }
            let _ = outcome_l(inp.lim.as_ref(), &inp.bytes);
        }
        std::process::exit(0);
    }
    if std::env::var("VH_C32_CHILD").as_deref() == Ok("recursive-input") {
        // every small byte string that selects the field `f` with its argument
        for schema in [RECURSIVE_INPUT_SCHEMA, RECURSIVE_INPUT_SCHEMA_2] { for b0 in 0..4u8 { for b1 in 0..4u8 {
            let bytes = [b0, b1, 1, 1, 1, 1, 1, 1];
            let cst = apollo_parser::Parser::new(schema).parse();
            let doc = apollo_smith::Document::try_from(cst.document()).unwrap();
            let mut u = Unstructured::new(&bytes);
            let mut b = DocumentBuilder::with_document(&mut u, doc).unwrap();
            let _ = b.operation_definition();
        } } }
        std::process::exit(0);
    }
    // developer tool: VH_C32_DUMP=<scan-file line> prints the document generated from it
    if let Ok(line) = std::env::var("VH_C32_DUMP") {
        let inp = Inp::parse(&line);
        println!("{:?}", generate_l(inp.lim.as_ref(), &inp.bytes));
        return;
    }
    // developer tool: VH_C32_SHRINK=<key> prints a minimised byte string for that failure key
    if let Ok(key) = std::env::var("VH_C32_SHRINK") {
        let mut found = 0;
        for _ in 0..200_000 {
            let b = gen_bytes(&mut ctx.rng);
            if keys_of(&b).iter().any(|k| *k == key) {
                let m = shrink(&b, &key, 4000);
                let text = generate(&m).ok().and_then(|r| r.ok()).unwrap_or_default();
                println!("KEY {key}\nBYTES [{}]\n{text}\n=====", bytes_str(&m));
                found += 1;
                if found >= 2 { break; }
            }
        }
        return;
    }

    let dbg = std::env::var("VH_C32_DEBUG").is_ok();
    let mark = |what: &str, b: &[u8]| { if dbg { std::fs::write("/work/bD/current.txt", format!("{what} {}", bytes_str(b))).unwrap(); } };
    let t0 = std::time::Instant::now();
    recursive_input_probe(ctx);
    typename_stream(ctx);
    implements_stream(ctx);

    // regression inputs first (minimised failing byte strings of the recorded findings), then generated ones
    let mut inputs: Vec<Inp> = REGRESSIONS.iter().map(|b| Inp { lim: None, bytes: b.to_vec() }).collect();
    for n in [0usize, 1, 4, 10, 64, 256, 1024, 4096] { inputs.push(Inp { lim: None, bytes: (0..n).map(|i| i as u8).collect() }); }
    let n = if ctx.thorough { 60_000 } else { 5_000 };
    for _ in 0..n { let b = gen_bytes(&mut ctx.rng); inputs.push(Inp { lim: None, bytes: b }); }
    let structure_budget = if ctx.thorough { 6_000 } else { 1_200 };
    let ms = |ctx: &mut Ctx, k: &str, t: std::time::Instant| ctx.stat_n(&format!("ms_{k}"), t.elapsed().as_millis() as u64);
    ms(ctx, "before_e2e", t0);
    let t = std::time::Instant::now();
    e2e(ctx, &inputs, "", structure_budget, &mark);
    ms(ctx, "e2e_default", t);
    let t = std::time::Instant::now();
    // the same pipeline under low maximums: the byte string reaches the fragment / operation phases
    let inputs = limited_inputs(ctx);
    e2e(ctx, &inputs, "lim_", if ctx.thorough { 8_000 } else { 1_500 }, &mark);
    ms(ctx, "e2e_low_limits", t);
    let t = std::time::Instant::now();
    typename_kinds_stream(ctx);
    implements_conflict_stream(ctx);
    ms(ctx, "typename_kinds_and_implements_conflict", t);
    let t = std::time::Instant::now();
    fragment_ops_stream(ctx, &mark);
    ms(ctx, "fragment_ops", t);
    // operations against fixed schemas
    let n_ops = if ctx.thorough { 30_000 } else { 3_000 };
    for i in 0..n_ops {
        let mut b = gen_bytes(&mut ctx.rng);
        b.truncate(600);
        mark(&format!("fixed-ops {}", i % SCHEMAS.len()), &b);
        operations_against(ctx, SCHEMAS[i % SCHEMAS.len()], &b, &format!("fixed schema #{}", i % SCHEMAS.len()));
    }
}

/// minimised inputs of recorded findings (run first on every run)
const REGRESSIONS: &[&[u8]] = &[
    // smith-invalid:_-has-extra-required-argument-_-not-present-in-interface-_
    &[1,2,4,2,4,2,4,0,1,0,0,0,0,4,4,3,2,0,3,0,0,4,3,3,1,3,4,3,4,2,0,1,4,3,2,3,2,1,1,0,2,3,1,1,4,1,1,1,4,3,2,4,1,2,4,1,4,2,3,0,1,2,0,1,2,3,2,2,2,0,0,2,4,4,4,3,3,1,1,0,3,2,3,4,3,1,2,3,3,4,1,2,4,4,2,3,1,4,4,2,4,0,0,3,2,3,1,3,0,1,3,3,1,3,1,0,2,2,0,0,2,3,1,3,2,1,4,0,0,4,1,2,2,2,2,2,3,0,0,3,0,3,4,0,4,3,2,4,4,3,1,4,0,0,3,4,1,4,4,3,2,3,1,2,1,1,2,2,0,1,1,0,2,2,1,0,2,3,1,3,1,3,2,0,2,4,1,3,0,3,0,3,4,1,4,1,0,0,1,3,2,0,4,2,4,2,0,3,1,3,3,3,4,1,2,4,4,4,3,3,3,0,0,0,4,4,2,4,2,3,3,3,3,0,4,4,4,4,4,3,4,0,3,3,2,0,1,4,1,4,0,4,3,0,4,3,0,4,2,0,4,1,4,4,0,2,4,0,2,0,0,4,2,2,1,1,0,1,3,2,0,2,1,3,1,1,4,0,4,3,1,0,1,3,1,2,4,3,1,4,1,3,4,2,0,0,4,4,3,3,1,4,2,1,1,2,3,1,0,0,2,0,3,1,4,4,4,2,0,3,1,4,0,0,3,3,1,0,1,4,2,4,4,2,2,0,2,3,1,4,4,1,4,2,1,2,4,0,0,0,0,2,3,2,1,1,2,0,4,2,2,2,3,0,3,1,2,3,0,0,1,3,0,0,2,0,1,0,1,2,1,4,1,0,3,0,4,3,3,1,1,4,0,4,1,0,0,1,2,0,4,2,1,4,4,3,1,2,4,3,0,4,4,2,2,1,3,1,3,1,3,1,4,2,3,1,4,1,0,2,2,2,1,4,0,2,2,0,4,0,4,1,1,2,4,4,4,0,0,1,4,0,4,4,1,2,0,2,3,1,4,0,2,1,3,0,4,3,2,0,0,2,2,4,0,2,1,2,2,2,4,3,4,2,2,4,3,0,4,4,3,2,4,2,3,0,0,4,0,3,3,2,3,3,2,1,3,1,1,0,4,3,2,4,0,0,3,1,3,0,1,2,0,4,2,0,1,1,2,4,3,2,4,4,4,4,4,1,1,3,2,2,0,1,0,0,1,2,3,2,0,4,0,2,1,2,3,4,2,1,0,0,2,4,0,3,4,2,0,4,0,1,1,0,4,3,1,4,3,3,4,2,0,0,1,4,1,2,1,1,2,3,3,0,4,4,4,2,2,0,4,4,2,2,0,2,0,1,0,0,4,4,3,4,2,3,1,2,2,2,4,2,1,2,3,2,2,4,1,4,1,3,2,3,4,2,0,1,1,1,0,4,2,4,1,1,4,3,1,3,4,2,4,0,0,0,2,4,1,3,2,4,2,0,2,0,2,1,2,0,1,4,3,4,2,1,4,1,1,4,1,2,3,2,3,4,3,4,1,0,4,2,0,4,4,1,1,3,2,1,4,3,2,3,0,2,0,4,4,3,0,0,4,2,1,2,0,3,1,4,3,3,1,2,1,4,3,2,0,3,3,1,0,3,0,0,2,4,4,1,0,2,4,1,4,4,3,3,3,1,4,1,1,2,1,4,3,2,1,3,4,1,2,2,4,1,0,4,2,1,2,1,2,0,1,1,2,4,3,4,4,1,3,2,1,4,4,2,2,3,4,3,4,2,4,0,2,4,4,2,0,4,1,2,0,1,2,1,0,0,0,3,3,0,0,3,1,3,0,3,4,3,2,3,4,3,3,4,2,1,3,3,0,1,2,3,3,4,3,3,1,0,4,2,3,1,3,4,0,4,3,0,1,4,1,0,3,3,3,3,3,4,3,4,3,3,0,2,1,4,0,4,4,3,1,4,0,1,0,3,3,1,3,3,0,4,0,4,2,0,3,2,2,0,3,3,0,3,3,2,4,1,0,2,1,0,0,2,4,4,4,3,2,4,3,4,4,3,0,0,0,3,4,2,1,0,4,0,2,4,0,1,2,2,0,4,2,4,1,3,3,3,0,2,0,1,1,2,4,3,1,3,0,3,1,0,0,1,0,2,3,0,4,3,0,3,3,4,3,0,4,2,2,3,0,2,1,2,2,3,4,0,4,1,3,1,1,4,4,0,1,4,3,2,4,2,4,2,4,3,2,4,1,3,0,0,2,1,2,0,0,4,3,0,2,2,2,2,2,3,3,0,3,1,2,4,1,0,2,4,2,0,2,1,0,0,4,3,2,2,1,3,1,4,1,4,2,2,2,2,2,2,0,0,0,1,4,4,1,2,3,1,4,2,3,3,2,2],
    // smith-invalid:interface-field-_-expects-argument-_-but-_-does-not-provide-it
    &[1,1,1,1,1,1,0,0,1,1,1,1,0,0,1,1,1,0,0,0,1,1,1,1,0,0,1,0,1,1,1,0,1,1,0,1,0,1,0,1,1,0,0,1,0,1,1,1,0,0,1,1,1,1,1,1,0,0,0,1,0,0,0,1,0,0,0,0,1,0,1,0,1,1,1,1,1,0,0,1,0,0,1,1,1,1,1,0,0,0,0,1,1,0,0,0,0,1,1,1,1,0,0,1,0,1,1,1,0,1,1,1,0,0,1,1,0,0,0,1,0,0,0,0,0,0,0,1,1,0,1,1,1,0,1,1,0,0,0,1,0,1,0,0,1,1,1,0,0,1,0,0,0,0,0,1,0,1,1,0,1,1,1,1,1,1,1,0,0,0,0,1,0,0,0,0,1,1,1,1,1,1,1,0,0,1,1,0,1,0,1,0,0,0,0,0,0,1,0,1,0,0,0,0,1,0,1,1,1,0,0,1,0,0,1,1,0,0,1,1,1,1,0,1,1,1,1,1,0,0,1,0,0,1,0,0,0,0,1,0,0,1,1,1,0,1,0,0,1,0,1,1,1,0,1,1,0,1,0,1,0,0,0,1,1,0,0,0,1,0,0,0,1,1,0,0,0,0,0,0,0,0,1,1,0,1,1,1,0,0,1,1,0,0,0,0,1,1,1,1,1,0,1,0,0,1,0,1,1,0,0,1,1,1,0,1,1,1,1,1,1,1,1,1,1,1,0,1,1,1,1,0,1,1,1,1,0,0,1,0,0,0,0,0,0,1,0,0,0,0,0,1,0,1,1,0,0,0,0,0,1,1,0,1,0,1,1,0,0,1,1,1,0,0,1,1,0,1,1,0,0,0,1,0,1,0,0,0,0,0,0,0,0,0,0,1,1,0,1,0],
    // smith-invalid:interface-field-_-expects-argument-_-of-type-_-but-_-provides-type-_
    &[4,2,0,3,2,4,3,4,0,4,0,4,3,2,0,3,2,4,1,0,1,4,1,3,3,3,1,3,4,4,1,0,1,3,4,0,0,3,0,0,4,1,1,4,2,0,2,4,4,4,0,1,4,0,0,3,2,4,0,3,0,4,2,3,4,0,3,1,2,4,3,1,3,3,1,2,1,3,2,4,4,0,1,1,2,4,4,4,0,4,3,2,2,0,4,0,4,2,3,3,2,0,2,4,2,4,1,3,4,3,1,4,0,2,1,4,4,4,1,1,2,2,3,1,2,0,4,3,2,2,3,2,4,3,1,3,3,4,2,1,0,1,3,1,0,1,2,0,2,1,2,2,2,2,2,4,3,4,2,1,2,2,2,2,4,3,3,4,0,3,0,2,1,1,3,3,2,2,3,4,1,3,1,0,1,0,1,0,2,0,4,4,0,0,3,3,1,2,3,0,0,1,0,4,4,4,0,0,3,0,3,3,2,4,2,3,4,0,3,1,2,2,4,0,4,4,4,2,2,4,1,4,4,1,2,1,0,2,1,4,4,2,0,4,0,1,3,2,2,3,0,1,3,1,2,2,1,0,4,2,1,3,2,4,2,0,3,2,4,3,0,1,0,0,1,4,2,1,2,4,2,2,0,0,1,0,4,3,3,1,3,2,1,0,2,1,2,1,3,1,0,1,0,4,1,4,0,4,3,3,1,0,1,3,3,4,0,0,4,0,2,2,4,2,1,0,0,0,3,0,3,3,3,4,4,4,3,3,4,4,3,0,3,1,0,0,1,1,0,2,4,0,0,2,1,1,3,4,0,4,3,3,2,4,3,3,4,2,4,0,4,3,2,2,2,2,2,4,2,3,1,0,3,1,4,0,0,2,3,2,3,1,4,2,4,2,2,1,4,3,4,1,0,0,3,0,0,0,4,3,3,1,3,3,2,4,3,2,3,2,4,4,3,1,2,2,1,4,1,0,3,0,3,0,4,0,1,1,4,4,4,3,0,1,2,2,0,0,2,4,3,1,2,2,4,1,0,4,3,1,1,3,1,3,1,3,2,3,0,4,3,0,0,2,1,4,1,4,4,0,0,2,0,1,0,2,2,3,3,3,1,4,2,2,4,4,0,2,1,2,1,1,4,3,0,3,1,1,1,4,0,4,0,1,2,3,4,0,2,0,1,4,2,1,4,3,1,0,3,3,3,4,0,4,1,0,1,3,0,2,2,1,2,0,4,1,0,2,2,4,1,0,0,2,0,0,3],
    // smith-invalid:interface-field-_-expects-type-_-but-_-of-type-_-is-not-a-proper-subtype
    &[4,2,0,3,2,4,3,4,0,4,0,4,3,2,0,3,2,4,1,0,1,4,1,3,3,3,1,3,4,4,1,0,1,3,4,0,0,3,0,0,4,1,1,4,2,0,2,4,4,4,0,1,4,0,0,3,2,4,0,3,0,4,2,3,4,0,3,1,2,4,3,1,3,3,1,2,1,3,2,4,4,0,1,1,2,4,4,4,0,4,3,2,2,0,4,0,4,2,3,3,2,0,2,4,2,4,1,3,4,3,1,4,0,2,1,4,4,4,1,1,2,2,3,1,2,0,4,3,2,2,3,2,4,3,1,3,3,4,2,1,0,1,3,1,0,1,2,0,2,1,2,2,2,2,2,4,3,4,2,1,2,2,2,2,4,3,3,4,0,3,0,2,1,1,3,3,2,2,3,4,1,3,1,0,1,0,1,0,2,0,4,4,0,0,3,3,1,2,3,0,0,1,0,4,4,4,0,0,3,0,3,3,2,4,2,3,4,0,3,1,2,2,4,0,4,4,4,2,2,4,1,4,4,1,2,1,0,2,1,4,4,2,0,4,0,1,3,2,2,3,0,1,3,1,2,2,1,0,4,2,1,3,2,4,2,0,3,2,4,3,0,1,0,0,1,4,2,1,2,4,2,2,0,0,1,0,4,3,3,1,3,2,1,0,2,1,2,1,3,1,0,1,0,4,1,4,0,4,3,3,1,0,1,3,3,4,0,0,4,0,2,2,4,2,1,0,0,0,3,0,3,3,3,4,4,4,3,3,4,4,3,0,3,1,0,0,1,1,0,2,4,0,0,2,1,1,3,4,0,4,3,3,2,4,3,3,4,2,4,0,4,3,2,2,2,2,2,4,2,3,1,0,3,1,4,0,0,2,3,2,3,1,4,2,4,2,2,1,4,3,4,1,0,0,3,0,0,0,4,3,3,1,3,3,2,4,3,2,3,2,4,4,3,1,2,2,1,4,1,0,3,0,3,0,4,0,1,1,4,4,4,3,0,1,2,2,0,0,2,4,3,1,2,2,4,1,0,4,3,1,1,3,1,3,1,3,2,3,0,4,3,0,0,2,1,4,1,4,4,0,0,2,0,1,0,2,2,3,3,3,1,4,2,2,4,4,0,2,1,2,1,1,4,3,0,3,1,1,1,4,0,4,0,1,2,3,4,0,2,0,1,4,2,1,4,3,1,0,3,3,3,4,0,4,1,0,1,3,0,2,2,1,2,0,4,1,0,2,2,4,1,0,0,2,0,0,3],
    // smith-invalid:object-type-_-implements-interface-_-more-than-once
    &[3,0,2,1,3,0,0,0,0,3,2,0,3,2,1,0,1,2,2,3,3,2,0,0,1,1,1,0,1,1,0,2,1,3,0,2,1,3,2,3,3,3,1,1,2,2,0,3,2,1,0,3,3,2,1,1,3,1,1,1,2,2,0,0,1,3,1,1,3,3,1,2,1,0,2,0,1,2,3,1,3,1,1,0,2,3,1,1,3,3,1,0,0,2,0,1,2,2,2,2,2,2,3,2,0,3,1,2,1,1,1,1,0,0,2,0,1,2,3,1,0,3,3,2,1,0,0,0,1,3,0,0,1,2,2,1,2,3,0,3,2,1,2,2,0,2,3,0,3,2,0,1,3,3,3,0,3,2,3,2,1,0,1,1,1,1,1,2,2,2,0,0,1,3,3,2,3,3,1,3,3,2,0,0,1,3,0,2,1,3,3,2,1,3,2,0,2,2,1,0,2,2,1,3,0,0,0,3,2,1,2,1,1,3,1,3,3,3,2,3,3,1,0,2,3,2,1,0,1,1,3,2,2,2,0,3,0,3,1,3,2,3,1,0,2,1,0,0,2,1,2,1,1,2,3,2,2,0,3,2,3,2,3,1,2,2,0,3,3,2,0,0,0,2,3,0,2,2,1,1,1,2,1,2,2,2,1,1,3,3,2,3,2,1,2,1,3,2,3,2,2,3,2,2,1,1,3,0,0,1,2,0,0,3,0,3,2,3,0,0,1,2,3,1,2,3,0,3,2,0,3,3,3,1,1,0,1,3,2,2,0,3,3,3,0,3,3,2,3,2,0,0,3,1,0,3,1,0,3,0,2,2,0,3,2,1,3,3,0,3,0,3,3,3,0,0,1,2,3,3,1,0,3,1,1,1,1,1,1,3,1,3,1,2,3,3,3,0,0,1,1,0,3,2,3,3,2,2,1,3,2,2,2,0,2,2,2,3,1,0,2,3,2,0,3,3,0,2,2,0,0,3,2,2,0,0,3,1,2,1,2,2,3,3,1,3,0,2,1,1,2,2,1,1,0,2,1,3,2,1,1,3,3,0,1,1,0,3,2,2,2,2,3,1,1,0,0,3,3,1,3,0,2,3,0,1,3,1,3,3,3,1,3,2,0,0,3,2,0,0,1,0,0,0,1,0,1,2,0,3,3,1,1,1,1,1,0,3,3,0,2,1,3,3,1,0,3,0,2,1,2,0,3,3,0,0,0,1,3,2,1,2,3,1,3,0,3,3,3,1,0,0,1,3,0,1,3,3,0,1,0,3,1,2,3,3,0,3,3,3,1,2,2,1,2,3,0,3,3,3,1,2,0,1,3,1,3,2,3,2,1,3,1,2,0,2,0,3,2,1,0,0,1,0,1,0,1,1,0,2,3,2,0,3,0,3,1,2,2,2,0,0,3,0,3,2,0,2,0,1,0,0,2,0,0,3,3,0,0,2,2,1,2,1,2,1,3,2,2,2,1,0,0,2,0,0,3,2,0,0,3,2,2,1,3,3,3,0,0,3,0,3,3,0,0,3,2,0,0,1,1,3,2,1,0,0,0,1,3,2,3,3,2,2,0,0,2,1,1,0,0,0,0,2,0,0,0,2,2,1,0,0,2,0,0,1,2,3,1,1,1,1,1,0,0,2,1,3,0,0,3,2,3,3,1,0,3,1,1,2,0,1,3,1,2,1,1,0,1,3,0,0,0,3,1,3,2,1,1,3,3,2,2,0,3,0,0,3,3,3,3,1,1,1,0,0,1,0,0,3,2,0,0,2,0,0,1,1,1,2,1,1,0,3,3,3,3,0,1,2,1,3,3,1,1,0,1,0,2,0,0,3,3,0,2,3,1,3,2,1,0,0,2,0,2,0,1,2,3,0,0,2,3,1,0,0,0,0,3,3,3],
    // smith-invalid:_-input-object-cannot-reference-itself (a cycle of required fields closed by extensions; repaired)
    &[1,152,0,121,1,2,214,0,1,2,2,0,1,2,1,13,1,1,210,123,1,131,0,1,242,0,0,1,1,82,28,0,158,0,2,0,76,2,1,2,0,1,174,0,1,0,2,0,1,2,1,107,0,1,128,1,0,2,1,97,0,0,1,0,2,1,0,195,0,0,58,0,2,2,2,1,192,2,2,0,0,0,33,0,0,2,0,68,0,1,0,1,1,0,2,227,91,0,1,2,225,0,2,2,0,2,1,0,2,74,1,2,2,1,1,244,1,0,11,184,248,150,2,2,0,2,242,2,249,31,2,2,1,123,102,115,2,0,2,2,2,51,1,0,0,0,2,18,145,1,2,1,1,1,1,0,0,197,1,2,2,0,1,0,42,0,0,131,1,0,147,2,2,1,2,2,0,230,234,2,0,1,2,0,0,232,2,1,2,2,134,1,2,0,1,0,1,0,1,1,2,0,28,2,0,210,113,1,2,170,0,0,0,2,0,0,0,1,1,2,0,2,126,136,0,2,0,2,132,2,1,1,0,0,2,0,0,0,0,0,2,1,0,1,2,0,1,2,0,67,0,175,1,65,1,19,0,2,48,0,50,1,0,2,2,0,2,2,0,0,0,54,2,1,2,0,1,0,0,1,2,0,1,1,70,2,230,0,2,2,2,0,0,2,0,180,0,0,0,0,0,0,2,2,2,201,2,0,154,0,0,0,2,0,1,2,47,2,1,94,53,2,1,0,2,0,1,2,2,1,1,2,0,0,1,0,25,236,0,0,2,0,1,1,0,41,1,0,2,0,1,33,2,2,0,2,2,0,9,3,2,0,184,2,2,2,1,2,195,2,0,0,1,2,0,2,0,191,1,1,0,1,2,0,0,0,2,0,2,2,0,0,1,2,1,0,1,0,2,215,0,2,0,0,2,2,90,1,60,1,2,0,2,0,1,136,72,206,0,0,203,0,2,0,0,148,110,1,0,145,91,71,241,2,2,0,0,1,1,23,1,2,217,136,1,0,108,200,146,1,1,194,0,1,0,2,159,0,1,1,0,0,2,226,2,2,0,2,0,0,0,2,210,12,208,2,2,2,1,2,0,0,183,0,240,0,2,1,99,0,0,174,51,0,1,2,1,1,2,0,0,2,0,185,2,0,1,2,224,0,1,2,0,0,2,0,2,2,2,1,20,1,0,158,0,67,1,240,0,2,0,202,111,1,2,154,0,1,0,2,2,1,2,0,1,1,0,1,38,124,0,2,242,212,0,2,195,1,0,18,95,248,221,2,2,2,0,73,0,0,2,122,1,2,2,71,0,158,2,69,1,101,109,1,17,2,2,1,1,2,2,87,1,2,168,0,1,2,0,0,0,14,1,0,233,1,0,2,0,0,1,1,0,0,246,1,157,32,2,151,1,126,0,98,0,1,0,0,1,2,1,0,0,1,185,2,0,189,224,0,0,0,0,1,201,2,2,2,1,0,1,0,2,2,1,2,2,2,2,2,0,2,0,1,0,23,0,2,1,1,95,225,16,2,2,1,1,1,2,41,146,2,16,0,1,0,0,2,1,214,146,114,101,2,120,0,1,1,2,0,2,1,2,182,2,2,0,0,1,215,2,0,0,2,0,0,60,2,2,115,1,0,0,0,0,73,0,2,2,0,0,2,0,0,1,1,184,2,1,121,0,1,1,2,2,32,1,1,1,162,1,2,1,2,0,1,42,200,2,1,0,0,1,2,130,0,0,1,0,0,2,0,250],
    // smith-invalid:the-required-field-_-is-not-provided
    &[0,1,0,0,1,1,1,0,0,1,1,2,0,2,1,1,2,1,0,0,0,1,0,0,1,2,1,1,2,0,0,1,1,1,2,1,1,0,1,2,1,2,2,2,2,2,2,1,2,0,0,2,2,1,0,1,1,2,0,2,2,0,0,1,1,0,0,2,1,2,0,2,0,0,2,2,0,2,1,0,0,1,0,1,2,0,1,2,2,2,1,1,1,0,1,2,0,1,2,1,2,2,2,1,1,0,0,1,2,1,1,2,0,2,0,0,1,2,2,2,2,2,0,1,2,2,2,1,2,2,2,0,2,1,2,1,0,0,1,1,0,2,1,0,0,0,2,0,0,0,1,1,1,0,2,1,1,1,1,1,2,2,0,0,2,2,2,1,2,1,2,0,0,0,1,0,2,0,2,0,2,2,2,1,2,1,1,0,1,2,1,1,1,0,0,0,1,2,1,2,1,1,0,2,1,2,0,0,2,1,2,0,1,2,2,2,0,1,1,1,1,0,2,1,1,1,1,0,1,0,1,2,0,1,2,1,1,2,2,0,1,0,0,1,2,1,0,0,1,1,0,1,2,1,0,1,1,0,2,0,2,0,2,2,0,0,1,1,2,0,2,0,1,1,1,2,1,2,1,0,2,0,0,2,1,1,0,1,2,1,1,0,2,0,2,0,1,2,2,0,2,1,2,0,2,0,2,2,0,0,1,0,2,0,1,0,0,2,2,0,0,2,1,0,1,2,1,2,1,1,1,1,2,1,0,1,2,1,0,1,0,1,1,0,0,1,2,0,2,1,0,2,0,0,1,1,2,0,1,1,2,1,1,0,2,0,0,0,0,2,0,2,2,1,0,0,2,2,1,1,1,2,0,1,2,1,2,2,0,1,0,0,0,1,2,0,2,1,1,1,2,2,2,2,0,0,1,0,2,0,2,2,2,0,0,0,2,1,2,1,1,2,0,2,2,0,0,0,1,1,0,0,2,1,0,2,1,1,1,2,1,1,1,1,0,0,2,0,0,1,1,1,0,1,0,1,0,0,1,0,2,0,0,1,2,2,1,1,2,0,2,1,0,1,1,2,2,0,0,2,0,0,2,2,1,2,0,0,0,1,0,0,1,1,0,1,0,2,1,2,1,2,2,2,0,0,0,0,0,2,2,2,1,2,2,1,0,1,2,1,2,0,0,2,2,1,1,1,2,1,0,2,1,2,1,1,2,1,0,1,0,0,1,1,0,1,2,1,1,0,2,1,0,2,1,1,1,0,2,2,0,2,2,0,2,1,2,0,1,1,1,2,1,2,2,2,0,2,0,2,2,0,0,2,2,1,2,2,2,1,2,2,2,2,2,1,0,2,1,0,2,2,0,0,2,0,1,0,1,1,0,1,1,0,0,1,0,0,1,2,2,1,2,0,0,0,1,2,1,2,2,0,0,1,1,2,2,2,2,0,0,0,2,2,0,2,2,1,2,0,1,0,2,2,0,0,1,1,2,2,1,1,0,1,2,1,2,0,1,1,0,2,0,1,0,0,2,0,1,2,1,0,0,0,2,2,2,0,2,1,2,0,1,1,0,1,0,2,0,1,1,1,0,1,1,0,1,2,0,1,0,1,1,1,2,1,1,1,1,0,1,1,2,0,1,0,1,2,0,0,1,1,1,1,1,2,0,1,0,1,2,1,2,1,2,2,1,0,2,1,0,2,0,0,1,0,0,2,2,2,2,0,1,1,0,0,0,0,0,1,0,1,2,2,1,1,2,1,1,1,2,0,1,2,0,0,2,2,1,1,2,1,1,2,2,0,0,2,0,1,2,1,1,0,2,1,0,0,1,2,2,1,1,1,0,0,2,0,2,1,0,2,2,0,0,0,1,2,2,0,2,1,1,1,0,0,0,1,0,1,2,1,1,1,0,0,0,2,0,1,2,0,1,2,2,0,1,0,1,1,0,0,0,0,2,1,1,0,1,0,2,2,0,2,1,0,2,1,2,0,1,0],
    // smith-syntax:parser-recursion-limit-reached
    &[64,199,250,137,211,64,199,250,137,211,64,199,250,137,211,64,199,250,137,211,64,199,250,137,211,64,199,250,137,211,64,199,250,137,211,64,199,250,137,211,64,199,250,137,211,64,199,250,137,211,64,199,250,137,211,64,199,250,137,211,64,199,250,137,211,64,199,250,137,211,64,199,250,137,211,64,199,250,137,211,64,199,250,137,211,64,199,250,137,211,64,199,250,137,211,64,199,250,137,211,64,199,250,137,211,64,199,250,137,211,64,199,250,137,211,64,199,250,137,211,64,199,250,137,211,64,199,250,137,211,64,199,250,137,211,64,199,250,137,211,64,199,250,137,211,64,199,250,137,211,64,199,250,137,211,64,199,250,137,211,64,199,250,137,211,64,199,250,137,211,64,199,250,137,211,64,199,250,137,211,64,199,250,137,211,64,199,250,137,211,64,199,250,137,211,64,199,250,137,211,64,199,250,137,211,64,199,250,137,211,64,199,250,137,211,64,199,250,137,211,64,199,250,137,211,64,199,250,137,211,64,199,250,137,211,64,199,250,137,211,64,199,250,137,211,64,199,250,137,211,64,199,250,137,211,64,199,250,137,211,64,199,250,137,211,64,199,250,137,211,64,199,250,137,211,64,199,250,137,211,64,199,250,137,211,64,199,250,137,211,64,199,250,137,211,64,199,250,137,211,64,199,250,137,211,64,199,250,137,211,64,199,250,137,211,64,199,250,137,211,64,199,250,137,211,64,199,250,137,211,64,199,250,137,211,64,199,250,137,211,64,199,250,137,211,64,199,250,137,211,64,199,250,137,211,64,199,250,137,211,64,199,250,137,211,64,199,250,137,211,64,199,250,137,211,64,199,250,137,211,64,199,250,137,211,64,199,250,137,211,64,199,250,137,211,64,199,250,137,211,64,199,250,137,211,64,199,250,137,211,64,199,250,137,211,64,199,250,137,211,64,199,250,137,211,64,199,250,137,211,64,199,250,137,211,64,199,250,137,211,64,199,250,137,211,64,199,250,137,211,64,199,250,137,211,64,199,250,137,211,64,199,250,137,211,64,199,250,137,211,64,199,250,137,211,64,199,250,137,211,64,199,250,137,211,64,199,250,137,211,64,199,250,137,211,64,199,250,137,211,64,199,250,137,211,64,199,250,137,211,64,199,250,137,211,64,199,250,137,211,64,199,250,137,211,64,199,250,137,211,64,199,250,137,211,64,199,250,137,211,64,199,250,137,211,64,199,250,137,211,64,199,250,137,211,64,199,250,137,211,64,199,250,137,211,64,199,250,137,211,64,199,250,137,211,64,199,250,137,211,64,199,250,137,211,64,199,250,137,211,64,199,250,137,211,64,199,250,137,211,64,199,250,137,211,64,199,250,137,211,64,199,250,137,211,64,199,250,137,211,64,199,250,137,211,64,199,250,137,211,64,199,250,137,211,64,199,250,137,211,64,199,250,137,211,64,199,250,137,211,64,199,250,137,211,64,199,250,137,211,64,199,250,137,211,64,199,250,137,211,64,199,250,137,211,64,199,250,137,211,64,199,250,137,211,64,199,250,137,211,64,199,250,137,211,64,199,250,137,211,64,199,250,137,211,64,199,250,137,211,64,199,250,137,211,64,199,250,137,211,64,199,250,137,211,64,199,250,137,211,64,199,250,137,211,64,199,250,137,211,64,199,250,137,211,64,199,250,137,211,64,199,250,137,211,64,199,250,137,211,64,199,250,137,211,64,199,250,137,211,64,199,250,137,211,64,199,250,137,211,64,199,250,137,211,64,199,250,137,211,64,199,250,137,211,64,199,250,137,211,64,199,250,137,211,64,199,250,137,211,64,199,250,137,211,64,199,250,137,211,64,199,250,137,211,64,199,250,137,211,64,199,250,137,211,64,199,250,137,211,64,199,250,137,211,64,199,250,137,211,64,199,250,137,211,64,199,250,137,211,64,199,250,137,211,64,199,250,137,211,64,199,250,137,211,64,199,250,137,211,64,199,250,137,211,64,199,250,137,211,64,199,250,137,211,64,199,250,137,211,64,199,250,137,211,64,199,250,137,211,64,199,250,137,211,64,199,250,137,211,64,199,250,137,211,64,199,250,137,211,64,199,250,137,211,64,199,250,137,211,64,199,250,137,211,64,199,250,137,211,64,199,250,137,211,64,199,250,137,211,64,199,250,137,211,64,199,250,137,211,64,199,250,137,211,64,199,250,137,211,64,199,250,137,211,64,199,250,137,211,64,199,250,137,211,64,199,250,137,211,64,199,250,137,211,64,199,250,137,211,64,199,250,137,211,64,199,250,137,211,64,199,250,137,211,64,199,250,137,211,64,199,250,137,211,64,199,250,137,211,64,199,250,137,211,64,199,250,137,211,64,199,250,137,211,64,199,250,137,211,64,199,250,137,211,64,199,250,137,211,64,199,250,137,211,64,199,250,137,211,64,199,250,137,211,64,199,250,137,211,64,199,250,137,211,64,199,250,137,211,64,199,250,137,211,64,199,250,137,211,64,199,250,137,211,64,199,250,137,211,64,199,250,137,211,64,199,250,137,211,64,199,250,137,211,64,199,250,137,211,64,199,250,137,211,64,199,250,137,211,64,199,250,137,211,64,199,250,137,211,64,199,250,137,211,64,199,250,137,211,64,199,250,137,211,64,199,250,137,211,64,199,250,137,211,64,199,250,137,211,64,199,250,137,211,64,199,250,137,211,64,199,250,137,211,64,199,250,137,211,64,199,250,137,211,64,199,250,137,211,64,199,250,137,211,64,199,250,137,211,64,199,250,137,211,64,199,250,137,211,64,199,250,137,211,64,199,250,137,211,64,199,250,137,211,64,199,250,137,211,64,199,250,137,211,64,199,250,137,211,64,199,250,137,211,64,199,250,137,211,64,199,250,137,211,64,199,250,137,211,64,199,250,137,211,64,199,250,137,211,64,199,250,137,211,64,199,250,137,211,64,199,250,137,211,64,199,250,137,211,64,199,250,137,211,64,199,250,137,211,64,199,250,137,211,64,199,250,137,211,64,199,250,137,211,64,199,250,137,211,64,199,250,137,211,64,199,250,137,211,64,199,250,137,211,64,199,250,137,211,64,199,250,137,211,64,199,250,137,211,64,199,250,137,211,64,199,250,137,211,64,199,250,137,211,64,199,250,137,211,64,199,250,137,211,64,199,250,137,211,64,199,250,137,211,64,199,250,137,211,64,199,250,137,211,64,199,250,137,211,64,199,250,137,211,64,199,250,137,211,64,199,250,137,211,64,199,250,137,211,64],
];
