//! C25 — introspection depth limit vs named fragments.
use crate::util::*;
use apollo_compiler::{ExecutableDocument, Schema};

#[derive(Clone, Debug)]
pub enum Sel {
    Field(bool, Vec<Sel>), // list field?
    Inline(Vec<Sel>),
    Spread(usize),
}

fn enc_sels(s: &[Sel], out: &mut String) {
    for x in s {
        match x {
            Sel::Field(l, sub) => { out.push(if *l { 'L' } else { 'P' }); enc_sels(sub, out); }
            Sel::Inline(sub) => { out.push('I'); enc_sels(sub, out); }
            Sel::Spread(j) => { out.push('S'); out.push_str(&j.to_string()); out.push(';'); }
        }
    }
    out.push('.');
}

/// selections on `__Type`
fn print_sels(s: &[Sel], out: &mut String, alt: &mut usize) {
    out.push_str("{ name ");
    for x in s {
        match x {
            Sel::Field(true, sub) => {
                *alt += 1;
                match *alt % 4 {
                    0 => { out.push_str("interfaces "); print_sels(sub, out, alt); }
                    1 => { out.push_str("possibleTypes "); print_sels(sub, out, alt); }
                    2 => { out.push_str("fields { name type "); print_sels(sub, out, alt); out.push_str("} "); }
                    _ => { out.push_str("inputFields { name type "); print_sels(sub, out, alt); out.push_str("} "); }
                }
            }
            Sel::Field(false, sub) => { out.push_str("ofType "); print_sels(sub, out, alt); }
            Sel::Inline(sub) => {
                *alt += 1;
                out.push_str(if *alt % 2 == 0 { "... on __Type " } else { "... " });
                print_sels(sub, out, alt);
            }
            Sel::Spread(j) => out.push_str(&format!("...F{j} ")),
        }
    }
    out.push_str("} ");
}

fn doc_text(frags: &[Vec<Sel>], op: &[Sel]) -> String {
    let mut out = String::from("{ __type(name: \"X\") ");
    let mut alt = 0;
    print_sels(op, &mut out, &mut alt);
    out.push_str("} ");
    for (j, f) in frags.iter().enumerate() {
        out.push_str(&format!("fragment F{j} on __Type "));
        print_sels(f, &mut out, &mut alt);
    }
    out
}

fn expanded_depth(frags: &[Vec<Sel>], s: &[Sel]) -> u32 {
    s.iter().map(|x| match x {
        Sel::Field(l, sub) => (*l as u32) + expanded_depth(frags, sub),
        Sel::Inline(sub) => expanded_depth(frags, sub),
        Sel::Spread(j) => expanded_depth(frags, &frags[*j]),
    }).max().unwrap_or(0)
}

fn inline_all(frags: &[Vec<Sel>], s: &[Sel]) -> Vec<Sel> {
    s.iter().map(|x| match x {
        Sel::Field(l, sub) => Sel::Field(*l, inline_all(frags, sub)),
        Sel::Inline(sub) => Sel::Inline(inline_all(frags, sub)),
        Sel::Spread(j) => Sel::Inline(inline_all(frags, &frags[*j])),
    }).collect()
}

fn used(frags: &[Vec<Sel>], s: &[Sel], seen: &mut Vec<bool>) {
    for x in s {
        match x {
            Sel::Field(_, sub) | Sel::Inline(sub) => used(frags, sub, seen),
            Sel::Spread(j) => { if !seen[*j] { seen[*j] = true; used(frags, &frags[*j].clone(), seen); } }
        }
    }
}

fn renumber(s: &[Sel], map: &[usize]) -> Vec<Sel> {
    s.iter().map(|x| match x {
        Sel::Field(l, sub) => Sel::Field(*l, renumber(sub, map)),
        Sel::Inline(sub) => Sel::Inline(renumber(sub, map)),
        Sel::Spread(j) => Sel::Spread(map[*j]),
    }).collect()
}

fn gen_sels(rng: &mut Rng, depth: usize, max_frag: usize, budget: &mut usize) -> Vec<Sel> {
    let n = rng.below(3) + if depth == 0 { 1 } else { 0 };
    let mut out = vec![];
    for _ in 0..n {
        if *budget == 0 { break; }
        *budget -= 1;
        let k = rng.below(10);
        if depth >= 5 { if max_frag > 0 && k < 5 { out.push(Sel::Spread(rng.below(max_frag))); } continue; }
        out.push(match k {
            0..=3 => Sel::Field(true, gen_sels(rng, depth + 1, max_frag, budget)),
            4 => Sel::Field(false, gen_sels(rng, depth + 1, max_frag, budget)),
            5 | 6 => Sel::Inline(gen_sels(rng, depth + 1, max_frag, budget)),
            _ => if max_frag > 0 { Sel::Spread(rng.below(max_frag)) } else { Sel::Field(true, gen_sels(rng, depth + 1, max_frag, budget)) },
        });
    }
    out
}

fn verdict(schema: &apollo_compiler::validation::Valid<Schema>, text: &str) -> Result<bool, String> {
    let doc = ExecutableDocument::parse_and_validate(schema, text, "d.graphql").map_err(|e| e.errors.to_string())?;
    let op = doc.operations.get(None).map_err(|_| "no op".to_string())?;
    Ok(apollo_compiler::introspection::check_max_depth(&doc, op).is_ok())
}

fn one(ctx: &mut Ctx, schema: &apollo_compiler::validation::Valid<Schema>, frags: Vec<Vec<Sel>>, op: Vec<Sel>) {
    // keep only fragments reachable from the operation (validation rejects unused ones), renumber
    let mut seen = vec![false; frags.len()];
    used(&frags, &op, &mut seen);
    let mut map = vec![0; frags.len()];
    let mut kept = vec![];
    for (j, f) in frags.iter().enumerate() { if seen[j] { map[j] = kept.len(); kept.push(f.clone()); } }
    let kept: Vec<Vec<Sel>> = kept.iter().map(|f| renumber(f, &map)).collect();
    let op = renumber(&op, &map);
    let text = doc_text(&kept, &op);
    let got = match catch(|| verdict(schema, &text)) {
        Err(p) => { ctx.fail("maxdepth-panic", &text, &p); return; }
        Ok(Err(e)) => { ctx.stat("generated_invalid"); ctx.fail("maxdepth-generator-invalid", &text, &e); return; }
        Ok(Ok(v)) => v,
    };
    let d = expanded_depth(&kept, &op);
    ctx.stat(&format!("expanded_depth_{}", d.min(6)));
    if !kept.is_empty() { ctx.stat("with_named_fragments"); }
    let want_ok = d < 3;
    if got != want_ok {
        let key = if got { "maxdepth-accepts-deep-via-fragment" } else { "maxdepth-rejects-shallow" };
        ctx.fail(key, &text, &format!("check_max_depth ok={got}, expanded list depth={d}"));
    }
    // same selections written without named fragments
    if !kept.is_empty() {
        let inl = inline_all(&kept, &op);
        let text2 = doc_text(&[], &inl);
        match catch(|| verdict(schema, &text2)) {
            Ok(Ok(v2)) => if v2 != got { ctx.fail("maxdepth-inline-differs", &text, &format!("with fragments ok={got}, inlined ok={v2}: {text2}")); },
            _ => ctx.fail("maxdepth-generator-invalid", &text2, "inlined form did not validate"),
        }
    }
    let mut f_enc = String::new();
    for f in &kept { enc_sels(f, &mut f_enc); f_enc.push('|'); }
    let mut o_enc = String::new();
    enc_sels(&op, &mut o_enc);
    if (2..=3).contains(&d) { ctx.nontrivial(&format!("{f_enc}{o_enc}")); }
    ctx.case("maxdepth", &[format!("={f_enc}"), format!("={o_enc}")], if got { "ok" } else { "err" });
}

pub fn run(ctx: &mut Ctx) {
    let schema = Schema::parse_and_validate("type Query { x: Int }", "s.graphql").unwrap();
    // corpus: the two C25 defect witnesses (fixed in /repo by d28b90c)
    let f = vec![Sel::Field(true, vec![Sel::Field(true, vec![])])];
    one(ctx, &schema, vec![f.clone()], vec![Sel::Spread(0), Sel::Field(true, vec![Sel::Spread(0)])]);
    let f1 = vec![Sel::Field(true, vec![])];
    let g = vec![Sel::Spread(0)];
    one(ctx, &schema, vec![f1, g], vec![Sel::Spread(0), Sel::Spread(1), Sel::Field(true, vec![Sel::Field(true, vec![Sel::Spread(1)])])]);
    // exhaustive small shapes: chains of {L, P, I, S0, S1} of length ≤ 5 with two fixed fragment families
    let frag_families: Vec<Vec<Vec<Sel>>> = vec![
        vec![vec![Sel::Field(true, vec![])], vec![Sel::Spread(0), Sel::Field(true, vec![Sel::Spread(0)])]],
        vec![vec![Sel::Field(false, vec![Sel::Field(true, vec![Sel::Field(true, vec![])])])], vec![Sel::Inline(vec![Sel::Spread(0)])]],
        vec![vec![], vec![Sel::Field(true, vec![Sel::Spread(0)])]],
    ];
    let maxlen = if ctx.thorough { 6 } else { 5 };
    for fam in &frag_families {
        let mut chain: Vec<usize> = vec![];
        loop {
            // build nested chain: each element wraps the next; leaf = both spreads
            let mut inner: Vec<Sel> = vec![];
            for &c in chain.iter().rev() {
                inner = match c {
                    0 => vec![Sel::Field(true, inner)],
                    1 => vec![Sel::Field(false, inner)],
                    2 => vec![Sel::Inline(inner)],
                    3 => { let mut v = vec![Sel::Spread(0)]; v.extend(inner); v }
                    _ => { let mut v = inner; v.push(Sel::Spread(1)); v }
                };
            }
            one(ctx, &schema, fam.clone(), inner);
            // next chain
            let mut i = chain.len();
            loop {
                if i == 0 { chain = vec![0; chain.len() + 1]; break; }
                i -= 1;
                if chain[i] < 4 { chain[i] += 1; for j in i + 1..chain.len() { chain[j] = 0; } break; }
            }
            if chain.len() > maxlen { break; }
        }
    }
    // random documents
    let n = if ctx.thorough { 100_000 } else { 6_000 };
    for _ in 0..n {
        let nf = ctx.rng.below(4);
        let mut frags = vec![];
        for j in 0..nf { let mut b = 6; frags.push(gen_sels(&mut ctx.rng, 2, j, &mut b)); }
        let mut b = 10;
        let op = gen_sels(&mut ctx.rng, 0, nf, &mut b);
        one(ctx, &schema, frags, op);
    }
}
