//! C25 — introspection depth limit vs named fragments.
use crate::util::*;
use apollo_compiler::{ExecutableDocument, Schema};

#[derive(Clone, Debug)]
pub enum Sel {
    Field(bool, Vec<Sel>), // list field?
    Inline(Vec<Sel>),
    Spread(usize),
}

fn enc_sels(s: &[Sel], out: &mut String) {
    for x in s {
        match x {
            Sel::Field(l, sub) => { out.push(if *l { 'L' } else { 'P' }); enc_sels(sub, out); }
            Sel::Inline(sub) => { out.push('I'); enc_sels(sub, out); }
            Sel::Spread(j) => { out.push('S'); out.push_str(&j.to_string()); out.push(';'); }
        }
    }
    out.push('.');
}

/// How the abstract selection tree is written down as GraphQL text.  The abstract tree (and so the
/// model case and the oracle) is the same for every style: only things the depth rule must ignore vary.
#[derive(Clone, Copy, Debug, Default, PartialEq)]
pub struct Style {
    /// 0 `__type`, 1 `__schema{types}`, 2 `__schema{queryType}`, 3 `__schema{directives{args{type}}}`,
    /// 4 named query with alias, `__typename` and a concrete root field, 5 second of two operations
    pub root: u8,
    /// 0 none, 1 every list field gets a unique alias, 2 additionally `ofType` is aliased to a list-field name
    pub alias: u8,
    /// list-valued introspection fields that do NOT count (`args`, `enumValues`) are interleaved
    pub noise: bool,
    /// `@skip(if: false)` / `@include(if: true)` on fields, inline fragments and spreads
    pub dirs: bool,
}
pub const N_ROOTS: u8 = 6;

struct Pr { alt: usize, uniq: usize, st: Style }

impl Pr {
    fn dir(&mut self) -> &'static str {
        if !self.st.dirs { return ""; }
        self.uniq += 1;
        match self.uniq % 3 { 0 => " @skip(if: false)", 1 => " @include(if: true)", _ => "" }
    }
    fn list_alias(&mut self) -> String {
        if self.st.alias == 0 { return String::new(); }
        self.uniq += 1;
        format!("a{}: ", self.uniq)
    }
}

/// selections on `__Type`
fn print_sels(s: &[Sel], out: &mut String, pr: &mut Pr) {
    out.push_str("{ name ");
    if pr.st.noise && pr.alt % 3 == 0 { out.push_str("enumValues(includeDeprecated: true) { name } "); }
    for x in s {
        match x {
            Sel::Field(true, sub) => {
                pr.alt += 1;
                let al = pr.list_alias();
                let d = pr.dir();
                match pr.alt % 4 {
                    0 => { out.push_str(&format!("{al}interfaces{d} ")); print_sels(sub, out, pr); }
                    1 => { out.push_str(&format!("{al}possibleTypes{d} ")); print_sels(sub, out, pr); }
                    2 => {
                        if pr.st.noise {
                            out.push_str(&format!("{al}fields{d} {{ name args {{ name type "));
                            print_sels(sub, out, pr);
                            out.push_str("} } ");
                        } else {
                            out.push_str(&format!("{al}fields{d} {{ name type "));
                            print_sels(sub, out, pr);
                            out.push_str("} ");
                        }
                    }
                    _ => { out.push_str(&format!("{al}inputFields{d} {{ name type ")); print_sels(sub, out, pr); out.push_str("} "); }
                }
            }
            Sel::Field(false, sub) => {
                let al = if pr.st.alias == 2 { pr.uniq += 1; ["fields: ", "interfaces: ", "possibleTypes: ", "inputFields: "][pr.uniq % 4] } else { "" };
                let d = pr.dir();
                out.push_str(&format!("{al}ofType{d} "));
                print_sels(sub, out, pr);
            }
            Sel::Inline(sub) => {
                pr.alt += 1;
                let d = pr.dir();
                out.push_str(if pr.alt % 2 == 0 { "... on __Type" } else { "..." });
                out.push_str(d);
                out.push(' ');
                print_sels(sub, out, pr);
            }
            Sel::Spread(j) => { let d = pr.dir(); out.push_str(&format!("...F{j}{d} ")) }
        }
    }
    out.push_str("} ");
}

/// the name of the operation to check (None: the only one)
fn op_name(st: Style) -> Option<&'static str> { if st.root == 5 { Some("B") } else { None } }

fn doc_text(frags: &[Vec<Sel>], op: &[Sel], st: Style) -> String {
    let (pre, post) = match st.root {
        0 => ("{ __type(name: \"X\") ", "} "),
        1 => ("{ __schema { types ", "} } "),
        2 => ("{ __schema { queryType ", "} } "),
        3 => ("{ __schema { directives { name args { name type ", "} } } } "),
        4 => ("query Q { __typename x t: __type(name: \"X\") ", "__schema { mutationType { name } } } "),
        _ => ("query A { __type(name: \"Y\") { name kind } } query B { __type(name: \"X\") ", "} "),
    };
    let mut out = String::from(pre);
    let mut pr = Pr { alt: 0, uniq: 0, st };
    print_sels(op, &mut out, &mut pr);
    out.push_str(post);
    for (j, f) in frags.iter().enumerate() {
        out.push_str(&format!("fragment F{j} on __Type "));
        print_sels(f, &mut out, &mut pr);
    }
    out
}

fn expanded_depth(frags: &[Vec<Sel>], s: &[Sel]) -> u32 {
    s.iter().map(|x| match x {
        Sel::Field(l, sub) => (*l as u32) + expanded_depth(frags, sub),
        Sel::Inline(sub) => expanded_depth(frags, sub),
        Sel::Spread(j) => expanded_depth(frags, &frags[*j]),
    }).max().unwrap_or(0)
}

fn inline_all(frags: &[Vec<Sel>], s: &[Sel]) -> Vec<Sel> {
    s.iter().map(|x| match x {
        Sel::Field(l, sub) => Sel::Field(*l, inline_all(frags, sub)),
        Sel::Inline(sub) => Sel::Inline(inline_all(frags, sub)),
        Sel::Spread(j) => Sel::Inline(inline_all(frags, &frags[*j])),
    }).collect()
}

fn used(frags: &[Vec<Sel>], s: &[Sel], seen: &mut Vec<bool>) {
    for x in s {
        match x {
            Sel::Field(_, sub) | Sel::Inline(sub) => used(frags, sub, seen),
            Sel::Spread(j) => { if !seen[*j] { seen[*j] = true; used(frags, &frags[*j].clone(), seen); } }
        }
    }
}

fn renumber(s: &[Sel], map: &[usize]) -> Vec<Sel> {
    s.iter().map(|x| match x {
        Sel::Field(l, sub) => Sel::Field(*l, renumber(sub, map)),
        Sel::Inline(sub) => Sel::Inline(renumber(sub, map)),
        Sel::Spread(j) => Sel::Spread(map[*j]),
    }).collect()
}

fn gen_sels(rng: &mut Rng, depth: usize, max_frag: usize, budget: &mut usize) -> Vec<Sel> {
    let n = rng.below(3) + if depth == 0 { 1 } else { 0 };
    let mut out = vec![];
    for _ in 0..n {
        if *budget == 0 { break; }
        *budget -= 1;
        let k = rng.below(10);
        if depth >= 5 { if max_frag > 0 && k < 5 { out.push(Sel::Spread(rng.below(max_frag))); } continue; }
        out.push(match k {
            0..=3 => Sel::Field(true, gen_sels(rng, depth + 1, max_frag, budget)),
            4 => Sel::Field(false, gen_sels(rng, depth + 1, max_frag, budget)),
            5 | 6 => Sel::Inline(gen_sels(rng, depth + 1, max_frag, budget)),
            _ => if max_frag > 0 { Sel::Spread(rng.below(max_frag)) } else { Sel::Field(true, gen_sels(rng, depth + 1, max_frag, budget)) },
        });
    }
    out
}

fn verdict(schema: &apollo_compiler::validation::Valid<Schema>, text: &str, name: Option<&str>) -> Result<bool, String> {
    let doc = ExecutableDocument::parse_and_validate(schema, text, "d.graphql").map_err(|e| e.errors.to_string())?;
    let op = doc.operations.get(name).map_err(|_| "no op".to_string())?;
    Ok(apollo_compiler::introspection::check_max_depth(&doc, op).is_ok())
}

fn one(ctx: &mut Ctx, schema: &apollo_compiler::validation::Valid<Schema>, frags: Vec<Vec<Sel>>, op: Vec<Sel>) {
    one_styled(ctx, schema, frags, op, Style::default())
}

fn one_styled(ctx: &mut Ctx, schema: &apollo_compiler::validation::Valid<Schema>, frags: Vec<Vec<Sel>>, op: Vec<Sel>, st: Style) {
    // keep only fragments reachable from the operation (validation rejects unused ones), renumber
    let mut seen = vec![false; frags.len()];
    used(&frags, &op, &mut seen);
    let mut map = vec![0; frags.len()];
    let mut kept = vec![];
    for (j, f) in frags.iter().enumerate() { if seen[j] { map[j] = kept.len(); kept.push(f.clone()); } }
    let kept: Vec<Vec<Sel>> = kept.iter().map(|f| renumber(f, &map)).collect();
    let op = renumber(&op, &map);
    let text = doc_text(&kept, &op, st);
    if st != Style::default() {
        ctx.stat("styled");
        ctx.stat(&format!("style:root_{}", st.root));
        if st.alias > 0 { ctx.stat(&format!("style:alias_{}", st.alias)); }
        if st.noise { ctx.stat("style:uncounted_list_fields"); }
        if st.dirs { ctx.stat("style:directives"); }
    }
    let got = match catch(|| verdict(schema, &text, op_name(st))) {
        Err(p) => { ctx.fail("maxdepth-panic", &text, &p); return; }
        Ok(Err(e)) => { ctx.stat("generated_invalid"); ctx.fail("maxdepth-generator-invalid", &text, &e); return; }
        Ok(Ok(v)) => v,
    };
    let d = expanded_depth(&kept, &op);
    ctx.stat(&format!("expanded_depth_{}", d.min(6)));
    if !kept.is_empty() { ctx.stat("with_named_fragments"); }
    let want_ok = d < 3;
    if got != want_ok {
        let key = if got { "maxdepth-accepts-deep-via-fragment" } else { "maxdepth-rejects-shallow" };
        ctx.fail(key, &text, &format!("check_max_depth ok={got}, expanded list depth={d}"));
    }
    // same selections written without named fragments
    if !kept.is_empty() {
        let inl = inline_all(&kept, &op);
        let text2 = doc_text(&[], &inl, st);
        match catch(|| verdict(schema, &text2, op_name(st))) {
            Ok(Ok(v2)) => if v2 != got { ctx.fail("maxdepth-inline-differs", &text, &format!("with fragments ok={got}, inlined ok={v2}: {text2}")); },
            _ => ctx.fail("maxdepth-generator-invalid", &text2, "inlined form did not validate"),
        }
    }
    let mut f_enc = String::new();
    for f in &kept { enc_sels(f, &mut f_enc); f_enc.push('|'); }
    let mut o_enc = String::new();
    enc_sels(&op, &mut o_enc);
    if (2..=3).contains(&d) { ctx.nontrivial(&format!("{f_enc}{o_enc}")); }
    ctx.case("maxdepth", &[format!("={f_enc}"), format!("={o_enc}")], if got { "ok" } else { "err" });
}

pub fn run(ctx: &mut Ctx) {
    let schema = Schema::parse_and_validate("type Query { x: Int }", "s.graphql").unwrap();
    // corpus: the two C25 defect witnesses (fixed in /repo by d28b90c)
    let f = vec![Sel::Field(true, vec![Sel::Field(true, vec![])])];
    one(ctx, &schema, vec![f.clone()], vec![Sel::Spread(0), Sel::Field(true, vec![Sel::Spread(0)])]);
    let f1 = vec![Sel::Field(true, vec![])];
    let g = vec![Sel::Spread(0)];
    one(ctx, &schema, vec![f1, g], vec![Sel::Spread(0), Sel::Spread(1), Sel::Field(true, vec![Sel::Field(true, vec![Sel::Spread(1)])])]);
    // exhaustive small shapes: chains of {L, P, I, S0, S1} of length ≤ 5 with two fixed fragment families
    let frag_families: Vec<Vec<Vec<Sel>>> = vec![
        vec![vec![Sel::Field(true, vec![])], vec![Sel::Spread(0), Sel::Field(true, vec![Sel::Spread(0)])]],
        vec![vec![Sel::Field(false, vec![Sel::Field(true, vec![Sel::Field(true, vec![])])])], vec![Sel::Inline(vec![Sel::Spread(0)])]],
        vec![vec![], vec![Sel::Field(true, vec![Sel::Spread(0)])]],
    ];
    let maxlen = if ctx.thorough { 6 } else { 5 };
    for fam in &frag_families {
        let mut chain: Vec<usize> = vec![];
        loop {
            // build nested chain: each element wraps the next; leaf = both spreads
            let mut inner: Vec<Sel> = vec![];
            for &c in chain.iter().rev() {
                inner = match c {
                    0 => vec![Sel::Field(true, inner)],
                    1 => vec![Sel::Field(false, inner)],
                    2 => vec![Sel::Inline(inner)],
                    3 => { let mut v = vec![Sel::Spread(0)]; v.extend(inner); v }
                    _ => { let mut v = inner; v.push(Sel::Spread(1)); v }
                };
            }
            one(ctx, &schema, fam.clone(), inner);
            // next chain
            let mut i = chain.len();
            loop {
                if i == 0 { chain = vec![0; chain.len() + 1]; break; }
                i -= 1;
                if chain[i] < 4 { chain[i] += 1; for j in i + 1..chain.len() { chain[j] = 0; } break; }
            }
            if chain.len() > maxlen { break; }
        }
    }
    // style sweep (audit G5): every way of writing the same abstract tree that the rule must ignore —
    // 6 roots × 3 alias modes × uncounted list fields × directives — over all chains of length ≤ 2 (≤ 3 thorough)
    let sweep_len = if ctx.thorough { 3 } else { 2 };
    let sweep_fams = if ctx.thorough { 3 } else { 1 };
    let mut styles = vec![];
    for root in 0..N_ROOTS { for alias in 0..3u8 { for noise in [false, true] { for dirs in [false, true] {
        let st = Style { root, alias, noise, dirs };
        if st != Style::default() { styles.push(st); }
    } } } }
    ctx.stat_n("style_sweep_styles", styles.len() as u64);
    for fam in frag_families.iter().take(sweep_fams) {
        for len in 0..=sweep_len {
            let total = 5usize.pow(len as u32);
            for code in 0..total {
                let mut c = code;
                let mut chain = vec![];
                for _ in 0..len { chain.push(c % 5); c /= 5; }
                let mut inner: Vec<Sel> = vec![];
                for &c in chain.iter().rev() {
                    inner = match c {
                        0 => vec![Sel::Field(true, inner)],
                        1 => vec![Sel::Field(false, inner)],
                        2 => vec![Sel::Inline(inner)],
                        3 => { let mut v = vec![Sel::Spread(0)]; v.extend(inner); v }
                        _ => { let mut v = inner; v.push(Sel::Spread(1)); v }
                    };
                }
                for st in &styles { ctx.stat("style_sweep"); one_styled(ctx, &schema, fam.clone(), inner.clone(), *st); }
            }
        }
    }
    // random documents (half of them in a random style)
    let n = if ctx.thorough { 100_000 } else { 6_000 };
    for i in 0..n {
        let nf = ctx.rng.below(4);
        let mut frags = vec![];
        for j in 0..nf { let mut b = 6; frags.push(gen_sels(&mut ctx.rng, 2, j, &mut b)); }
        let mut b = 10;
        let op = gen_sels(&mut ctx.rng, 0, nf, &mut b);
        let st = if i % 2 == 1 {
            Style { root: ctx.rng.below(N_ROOTS as usize) as u8, alias: ctx.rng.below(3) as u8, noise: ctx.rng.chance(1, 2), dirs: ctx.rng.chance(1, 2) }
        } else { Style::default() };
        one_styled(ctx, &schema, frags, op, st);
    }
}
