//! C19 — executable documents and field sets round-trip.
//!
//! Stream (Lean model: Model/ExecDoc.lean over Model/Ast.lean + Model/AstParse.lean + the lexer model):
//!   c19.toast  schema-view source → dump of the AST that `ExecutableDocument::to_ast` hands to the printer
//!              (observed by re-parsing the printed text with `ast::Document::parse`), for valid AND invalid documents
//!              (dropped selections, duplicate names, misplaced anonymous operations).
//! Oracles on the implementation (the repo's `reparse` fuzz target, made systematic):
//!   exec-*      valid (schema, document): for every indentation setting, print → parse_and_validate → equal; print again → identical;
//!   fieldset-*  valid field sets on every composite type: print → parse_and_validate → equal selection set; print again → identical;
//!   mixed-*     schema + executable in one text: parse_mixed_validate → print both → parse_mixed_validate → equal schema and document.
use crate::p20;
use crate::util::*;
use apollo_compiler::ast::OperationType;
use apollo_compiler::executable::FieldSet;
use apollo_compiler::parser::Parser;
use apollo_compiler::schema::ExtendedType;
use apollo_compiler::validation::Valid;
use apollo_compiler::{ast, ExecutableDocument, Name, Schema};

/// (indent prefix, initial level); None = no_indent
const CFGS: [(Option<&str>, usize); 18] = [
    (Some("  "), 0), (None, 0),
    (Some(""), 0), (Some(""), 1), (Some(""), 2), (Some(""), 3),
    (Some(" "), 0), (Some(" "), 1), (Some(" "), 2), (Some(" "), 3),
    (Some("\t"), 0), (Some("\t"), 1), (Some("\t"), 2), (Some("\t"), 3),
    (Some("    "), 0), (Some("    "), 1), (Some("    "), 2), (Some("    "), 3),
];

fn ser_doc(d: &ExecutableDocument, cfg: (Option<&str>, usize)) -> String {
    let s = d.serialize().initial_indent_level(cfg.1);
    match cfg.0 { Some(p) => s.indent_prefix(p).to_string(), None => s.no_indent().to_string() }
}
fn ser_fs(d: &FieldSet, cfg: (Option<&str>, usize)) -> String {
    let s = d.serialize().initial_indent_level(cfg.1);
    match cfg.0 { Some(p) => s.indent_prefix(p).to_string(), None => s.no_indent().to_string() }
}
fn ser_schema(d: &Schema, cfg: (Option<&str>, usize)) -> String {
    let s = d.serialize().initial_indent_level(cfg.1);
    match cfg.0 { Some(p) => s.indent_prefix(p).to_string(), None => s.no_indent().to_string() }
}
fn one_line(s: &str) -> String { s.replace('\n', "\\n").replace('\t', "\\t").replace('\r', "\\r") }

const SCHEMA_R: &str = r#"
directive @v(f: Float, s: String, i: ID, e: E, l: [[Int]], o: In, b: Boolean) repeatable on FIELD | QUERY | MUTATION | SUBSCRIPTION | FRAGMENT_DEFINITION | FRAGMENT_SPREAD | INLINE_FRAGMENT | VARIABLE_DEFINITION
type Query { v(f: Float, s: String, i: ID, e: E, l: [[Int]], o: In, b: Boolean): Int a: Int o: A i: I u: U }
type Mutation { m(o: In): A }
type Subscription { s: A }
type A implements I { a: Int v(f: Float, s: String, i: ID, e: E, l: [[Int]], o: In, b: Boolean): Int o: A i: I u: U }
type B implements I { a: Int bb: Boolean }
interface I { a: Int }
union U = A | B
enum E { X Y }
input In { x: Int y: String z: In l: [Float] }
"#;

// ---------------------------------------------------------------- schema view for the model

fn kind_code(t: &ExtendedType) -> &'static str {
    match t {
        ExtendedType::Object(_) => "o", ExtendedType::Interface(_) => "i", ExtendedType::Union(_) => "u",
        ExtendedType::Scalar(_) => "s", ExtendedType::Enum(_) => "e", ExtendedType::InputObject(_) => "n",
    }
}
fn e_schema(s: &Schema) -> String {
    let mut o: Vec<String> = vec!["R".into()];
    for t in [OperationType::Query, OperationType::Mutation, OperationType::Subscription] {
        o.push(match s.root_operation(t) { Some(n) => n.to_string(), None => "-".into() });
    }
    let mut next = 3usize;
    for (n, t) in &s.types {
        o.push("T".into()); o.push(n.to_string()); o.push(kind_code(t).into());
        let fields: Vec<(String, String)> = match t {
            ExtendedType::Object(x) => x.fields.iter().map(|(k, f)| (k.to_string(), f.ty.inner_named_type().to_string())).collect(),
            ExtendedType::Interface(x) => x.fields.iter().map(|(k, f)| (k.to_string(), f.ty.inner_named_type().to_string())).collect(),
            _ => vec![],
        };
        o.push(fields.len().to_string());
        for (k, ty) in fields { o.push(k); o.push(next.to_string()); o.push(ty); next += 1; }
    }
    o.join(" ")
}

// ---------------------------------------------------------------- executable documents

struct View { name: String, schema: Valid<Schema>, enc: String }

fn exec_case(ctx: &mut Ctx, v: &View, text: &str, family: &str) {
    let input = format!("[schema {}] {}", v.name, one_line(text));
    let Ok(ast_doc) = ast::Document::parse(text.to_string(), "d.graphql") else { ctx.stat("generator_syntax_error"); return };
    let built = catch(|| match ast_doc.to_executable(&v.schema) { Ok(d) => (d, true), Err(e) => (e.partial, false) });
    let (doc, build_ok) = match built { Ok(x) => x, Err(p) => { ctx.fail("to-executable-panic", &input, &p); return; } };
    // correspondence: what to_ast gives the printer, read back from the default print
    let printed = ser_doc(&doc, CFGS[0]);
    match ast::Document::parse(printed.clone(), "p.graphql") {
        Ok(back) => {
            ctx.stat("toast_cases");
            ctx.case("c19.toast", &[format!("={}", v.enc), enc(text)], &crate::p08::dump(&back));
        }
        Err(_) => ctx.stat("toast_skipped_unparseable_print"),
    }
    // oracle: only valid documents
    let valid = build_ok && catch(|| doc.clone().validate(&v.schema).is_ok()).unwrap_or(false);
    if !valid { ctx.stat(&format!("{family}_invalid")); return; }
    ctx.stat(&format!("{family}_valid"));
    ctx.nontrivial(&input);
    for cfg in CFGS {
        let t1 = ser_doc(&doc, cfg);
        let cfgs = format!("{:?}", cfg);
        match catch(|| ExecutableDocument::parse_and_validate(&v.schema, t1.clone(), "r.graphql")) {
            Err(p) => ctx.fail("exec-reparse-panic", &input, &format!("config {cfgs}: {p}")),
            Ok(Err(e)) => ctx.fail("exec-reparse-fails", &input, &format!("config {cfgs}: printed `{}` does not validate: {}", one_line(&t1), one_line(&e.errors.to_string()).chars().take(300).collect::<String>())),
            Ok(Ok(doc2)) => {
                if *doc2 != doc {
                    ctx.fail("exec-reparse-differs", &input, &format!("config {cfgs}: printed `{}` re-parses to a different document", one_line(&t1)));
                }
                let t2 = ser_doc(&doc2, cfg);
                if t2 != t1 { ctx.fail("exec-reserialize-differs", &input, &format!("config {cfgs}: `{}` vs `{}`", one_line(&t1), one_line(&t2))); }
            }
        }
        ctx.stat("exec_roundtrips");
    }
}

// ---------------------------------------------------------------- rich values (schema R)

fn pick<'a>(r: &mut Rng, xs: &[&'a str]) -> &'a str { xs[r.below(xs.len())] }

fn rich_args(r: &mut Rng, konst: bool) -> String {
    let mut parts: Vec<String> = vec![];
    let v = |r: &mut Rng, lits: &[&str], var: &str| -> String { if !konst && r.chance(1, 4) { var.to_string() } else { pick(r, lits).to_string() } };
    if r.chance(1, 3) { parts.push(format!("f: {}", v(r, &["1.5", "-0.0", "1e10", "1.25E-3", "3", "-7", "null", "0.1e+2"], "$f"))); }
    if r.chance(1, 3) { parts.push(format!("s: {}", v(r, &["\"\"", "\"a b\"", "\"q\\\"\\\\ \\n \\u00e9 \\t\"", "\"\"\"block\n  two \\\"\"\" lines\n\"\"\"", "\"é☃😀\"", "null", "\"\"\"\"\"\"", "\"#not a comment, {x: 1}\"", "\"\"\" lead\n   indent\n  less\"\"\""], "$s"))); }
    if r.chance(1, 4) { parts.push(format!("i: {}", v(r, &["\"id\"", "7", "null"], "$i"))); }
    if r.chance(1, 3) { parts.push(format!("e: {}", v(r, &["X", "Y", "null"], "$e"))); }
    if r.chance(1, 3) { parts.push(format!("l: {}", v(r, &["[]", "[[1, 2], []]", "[[1], null]", "[[-1,2 3]]", "null", "[[]]"], "[[$n], [1, $n]]"))); }
    if r.chance(1, 3) { parts.push(format!("o: {}", v(r, &["{}", "{x: 1}", "{y: \"s\", z: {l: [1.5, 2]}}", "{z: {z: {z: {}}}}", "null", "{x: null, l: []}"], "{x: $n, z: {y: $s}}"))); }
    if r.chance(1, 4) { parts.push(format!("b: {}", v(r, &["true", "false", "null"], "$b"))); }
    if parts.is_empty() { String::new() } else { format!("({})", parts.join(if r.chance(1, 3) { " " } else { ", " })) }
}
fn rich_dirs(r: &mut Rng, konst: bool) -> String {
    let mut o = String::new();
    if r.chance(1, 3) { for _ in 0..1 + r.below(2) { o.push_str(" @v"); o.push_str(&rich_args(r, konst)); } }
    if !konst && r.chance(1, 8) { o.push_str(" @skip(if: $b)"); }
    o
}
fn rich_sels(r: &mut Rng, ty: &str, depth: usize, frags: usize, counter: &mut usize) -> String {
    let mut o = String::from("{");
    let n = 1 + r.below(3);
    for _ in 0..n {
        o.push(' ');
        let k = r.below(10);
        // aliases: fresh ones, and the field's own name (`a: a`) on leaf fields without arguments
        let alias = if r.chance(1, 2) { *counter += 1; format!("k{}: ", counter) } else { *counter += 1; format!("z{}: ", counter) };
        let own = r.chance(1, 6);
        match (ty, k) {
            ("Query" | "A", 0..=3) => { o.push_str(&alias); o.push('v'); o.push_str(&rich_args(r, false)); o.push_str(&rich_dirs(r, false)); }
            ("Query" | "A", 4 | 5) if depth < 3 => { o.push_str(&alias); o.push_str("o"); o.push_str(&rich_dirs(r, false)); o.push(' '); o.push_str(&rich_sels(r, "A", depth + 1, frags, counter)); }
            ("Query" | "A", 6) if depth < 3 => { o.push_str(&alias); o.push_str("u "); o.push_str(&rich_sels(r, "U", depth + 1, frags, counter)); }
            (_, 7) if depth < 3 => { o.push_str("..."); o.push_str(&rich_dirs(r, false)); o.push(' '); o.push_str(&rich_sels(r, ty, depth + 1, frags, counter)); }
            ("U" | "I" | "A", 8) if depth < 3 => { o.push_str("... on A"); o.push_str(&rich_dirs(r, false)); o.push(' '); o.push_str(&rich_sels(r, "A", depth + 1, frags, counter)); }
            ("A" | "U" | "I", 9) if frags > 0 => { o.push_str(&format!("...F{}", r.below(frags))); o.push_str(&rich_dirs(r, false)); }
            ("U", _) => o.push_str("__typename"),
            _ => { o.push_str(if own { "a: " } else { &alias }); o.push('a'); o.push_str(&rich_dirs(r, false)); }
        }
    }
    o.push_str(" }");
    o
}
fn rich_doc(r: &mut Rng) -> String {
    let mut counter = 0usize;
    let frags = r.below(3);
    let kind = r.below(8);
    let (kw, root, body) = match kind {
        0 => ("mutation", "Mutation", format!("{{ m(o: {}) {} }}", pick(r, &["{x: 1}", "$o", "null"]), rich_sels(r, "A", 1, frags, &mut counter))),
        1 => ("subscription", "Subscription", format!("{{ s {} }}", rich_sels(r, "A", 1, frags, &mut counter))),
        _ => ("query", "Query", rich_sels(r, "Query", 0, frags, &mut counter)),
    };
    let _ = root;
    let op_dirs = if kind == 1 { String::new() } else { rich_dirs(r, false).replace(" @skip(if: $b)", "") };
    let mut frag_text = String::new();
    for j in 0..frags {
        // fragment j may spread higher-numbered ones only (no cycles)
        let inner = rich_sels(r, "A", 2, 0, &mut counter);
        let spread = if j + 1 < frags && r.chance(1, 2) { format!(" ...F{}", j + 1) } else { String::new() };
        let inner = format!("{}{} }}", &inner[..inner.len() - 2], spread);
        frag_text.push_str(&format!("\nfragment F{j} on A{} {}", rich_dirs(r, false).replace(" @skip(if: $b)", ""), inner));
    }
    let all = format!("{op_dirs} {body} {frag_text}");
    // every fragment must be used: spread the unused ones from the operation when it can (query root → o { … })
    let mut extra = String::new();
    for j in 0..frags { if !body.contains(&format!("...F{j}")) && !frag_text.contains(&format!(" ...F{j} ")) && !frag_text.contains(&format!(" ...F{j}}}")) { extra.push_str(&format!(" ...F{j}")); } }
    let body = if extra.is_empty() { body } else {
        match kind { 0 => format!("{} q9: m {{{extra} }} }}", &body[..body.len() - 1]), 1 => format!("{{ s {{ a{extra} }} }}"), _ => format!("{} q9: o {{{extra} }} }}", &body[..body.len() - 1]) }
    };
    let all = format!("{all} {body}");
    let mut vars: Vec<String> = vec![];
    for (name, decl) in [("$f", "$f: Float = 1.5"), ("$s", "$s: String = \"d\\\"x\""), ("$i", "$i: ID"), ("$e", "$e: E = Y"), ("$n", "$n: Int = -3"), ("$o", "$o: In = {x: 2, z: {l: [1]}}"), ("$b", "$b: Boolean! = true")] {
        if all.contains(name) {
            let mut d = decl.to_string();
            if r.chance(1, 3) { if let Some(i) = d.find(" =") { d.truncate(i); } }
            if r.chance(1, 4) { d.push_str(&rich_dirs(r, true)); }
            vars.push(d);
        }
    }
    let named = !vars.is_empty() || !op_dirs.is_empty() || kw != "query" || r.chance(1, 2);
    let head = if named {
        let name = if r.chance(2, 3) { " Q" } else { "" };
        let vs = if vars.is_empty() { String::new() } else { format!("({})", vars.join(", ")) };
        format!("{kw}{name}{vs}{op_dirs} ")
    } else { String::new() };
    format!("{head}{body}{frag_text}")
}

// ---------------------------------------------------------------- field sets

fn fieldset_text(r: &mut Rng, ty: &str, depth: usize, counter: &mut usize) -> String {
    let s = rich_sels(r, ty, depth, 0, counter);
    // strip the outer braces half of the time (both forms are accepted)
    s
}

fn fieldset_case(ctx: &mut Ctx, v: &View, ty: &str, text: &str) {
    let input = format!("[schema {} type {ty}] {}", v.name, one_line(text));
    let Ok(tyname) = Name::new(ty) else { return };
    let fs = match catch(|| FieldSet::parse_and_validate(&v.schema, tyname.clone(), text.to_string(), "f.graphql")) {
        Err(p) => { ctx.fail("fieldset-panic", &input, &p); return; }
        Ok(Err(_)) => { ctx.stat("fieldset_invalid"); return; }
        Ok(Ok(fs)) => fs,
    };
    ctx.stat("fieldset_valid");
    ctx.nontrivial(&input);
    for cfg in CFGS {
        let t1 = ser_fs(&fs, cfg);
        let cfgs = format!("{:?}", cfg);
        if t1.trim_start().starts_with('{') { ctx.stat("fieldset_printed_with_braces"); }
        match catch(|| FieldSet::parse_and_validate(&v.schema, tyname.clone(), t1.clone(), "r.graphql")) {
            Err(p) => ctx.fail("fieldset-reparse-panic", &input, &format!("config {cfgs}: {p}")),
            Ok(Err(e)) => ctx.fail("fieldset-reparse-fails", &input, &format!("config {cfgs}: printed `{}`: {}", one_line(&t1), one_line(&e.errors.to_string()).chars().take(300).collect::<String>())),
            Ok(Ok(fs2)) => {
                if fs2.selection_set != fs.selection_set { ctx.fail("fieldset-reparse-differs", &input, &format!("config {cfgs}: printed `{}` re-parses to a different field set", one_line(&t1))); }
                let t2 = ser_fs(&fs2, cfg);
                if t2 != t1 { ctx.fail("fieldset-reserialize-differs", &input, &format!("config {cfgs}: `{}` vs `{}`", one_line(&t1), one_line(&t2))); }
            }
        }
        ctx.stat("fieldset_roundtrips");
    }
}

// ---------------------------------------------------------------- mixed documents

fn mixed_case(ctx: &mut Ctx, schema_src: &str, exec_src: &str, order: usize) {
    let text = match order { 0 => format!("{schema_src}\n{exec_src}"), _ => format!("{exec_src}\n{schema_src}") };
    mixed_text_case(ctx, text, &[CFGS[0], CFGS[1], CFGS[11], CFGS[16]]);
}

/// type-system and executable definitions interleaved (both texts have one definition per line)
fn interleave(r: &mut Rng, a: &str, b: &str) -> String {
    let (la, lb): (Vec<&str>, Vec<&str>) = (a.lines().filter(|l| !l.trim().is_empty()).collect(), b.lines().filter(|l| !l.trim().is_empty()).collect());
    let (mut i, mut j, mut out) = (0, 0, String::new());
    while i < la.len() || j < lb.len() {
        let take_a = j >= lb.len() || (i < la.len() && r.below(la.len() - i + lb.len() - j) < la.len() - i);
        if take_a { out.push_str(la[i]); i += 1; } else { out.push_str(lb[j]); j += 1; }
        out.push('\n');
    }
    out
}

fn mixed_text_case(ctx: &mut Ctx, text: String, cfgs: &[(Option<&str>, usize)]) {
    let input = one_line(&text);
    let (schema, doc) = match catch(|| Parser::new().parse_mixed_validate(text.clone(), "m.graphql")) {
        Err(p) => { ctx.fail("mixed-panic", &input, &p); return; }
        Ok(Err(_)) => { ctx.stat("mixed_invalid"); return; }
        Ok(Ok(x)) => x,
    };
    ctx.stat("mixed_valid");
    for &cfg in cfgs {
        let cfgs = format!("{:?}", cfg);
        let t = format!("{}\n{}", ser_schema(&schema, cfg), ser_doc(&doc, cfg));
        match catch(|| Parser::new().parse_mixed_validate(t.clone(), "r.graphql")) {
            Err(p) => ctx.fail("mixed-reparse-panic", &input, &format!("config {cfgs}: {p}")),
            Ok(Err(e)) => ctx.fail("mixed-reparse-fails", &input, &format!("config {cfgs}: {}", one_line(&e.to_string()).chars().take(300).collect::<String>())),
            Ok(Ok((schema2, doc2))) => {
                if *schema2 != *schema { ctx.fail("mixed-schema-differs", &input, &format!("config {cfgs}: the printed schema re-parses to a different schema")); }
                if *doc2 != *doc { ctx.fail("mixed-document-differs", &input, &format!("config {cfgs}: the printed document re-parses to a different document")); }
            }
        }
        ctx.stat("mixed_roundtrips");
    }
}

// ---------------------------------------------------------------- run

pub fn run(ctx: &mut Ctx) {
    let mut views = vec![];
    for (n, src) in [("A", p20::SCHEMA_A), ("B", p20::SCHEMA_B), ("C", p20::SCHEMA_C), ("R", SCHEMA_R)] {
        match Schema::parse_and_validate(src, "s.graphql") {
            Ok(s) => { let enc = e_schema(&s); views.push(View { name: n.into(), schema: s, enc }); }
            Err(e) => { ctx.fail("generator-schema-invalid", n, &one_line(&e.errors.to_string())); return; }
        }
    }
    // fixed: the printer's special forms
    let fixed_a = [
        "{ a }", "query { a }", "query Q { a }", "{ a: a o: o { a: a b: a } }", "{ a } fragment F on A { a }", "query Q { o { ...F } } fragment F on A { a ... { b } ... on A { a } }",
        "fragment F on A { a } { o { ...F } }", "query N { a } { b }", "{ o { ... { ... { a } } } }", "{ u { __typename ... on B { bb } } }",
        "query Q($b0: Boolean! = true, $i0: Int = 7 @c) @c { x: b(x: $i0, f: $b0) @skip(if: $b0) y: b(en: X, inp: {x: 1}) }",
        "mutation { m(x: null) { a } }", "subscription S { s { a } }", "{ __schema { types { name } } __type(name: \"A\") { name } __typename }",
        "{ nope o { nope a } a { a } ... on Nope { a } ...Nope }", "{ a } { b } query N { a } query N { b } fragment F on A { a } fragment F on B { bb }",
    ];
    for t in fixed_a { for v in &views[..3] { exec_case(ctx, v, t, "fixed"); } }
    let n_gen = if ctx.thorough { 20_000 } else { 2_500 };
    for i in 0..n_gen {
        let clean = i % 4 != 3;
        let mut d = p20::gen_doc(&mut ctx.rng, clean);
        p20::with_defaults(&mut ctx.rng, &mut d);
        let text = p20::doc_text(&d);
        exec_case(ctx, &views[0], &text, if clean { "gen" } else { "gendirty" });
        let vi = 1 + i % 2;
        exec_case(ctx, &views[vi], &text, if clean { "gen" } else { "gendirty" });
    }
    let n_rich = if ctx.thorough { 20_000 } else { 2_500 };
    for _ in 0..n_rich {
        let t = rich_doc(&mut ctx.rng);
        exec_case(ctx, &views[3], &t, "rich");
    }
    // field sets on every composite type of schema R and A
    let n_fs = if ctx.thorough { 16_000 } else { 2_000 };
    for i in 0..n_fs {
        let ty = ["Query", "A", "U", "I", "B"][i % 5];
        let mut counter = 0;
        let t = fieldset_text(&mut ctx.rng, ty, 1, &mut counter);
        let t = t.replace("$f", "1.5").replace("$s", "\"v\"").replace("$i", "\"i\"").replace("$e", "X").replace("$n", "4").replace("$o", "{x: 3}").replace("$b", "true");
        let text = if ctx.rng.chance(1, 2) { t[1..t.len() - 1].trim().to_string() } else { t };
        fieldset_case(ctx, &views[3], ty, &text);
    }
    for (ty, t) in [("Query", "a"), ("Query", "{ a }"), ("A", "a o { a }"), ("A", "x: a y: v(f: 1.5, s: \"\"\"b\"\"\") ... on A { a }"), ("U", "... on A { a } __typename"), ("I", "a ... { a }")] {
        fieldset_case(ctx, &views[3], ty, t);
    }
    // mixed
    let n_mixed = if ctx.thorough { 3_000 } else { 300 };
    for i in 0..n_mixed {
        let t = rich_doc(&mut ctx.rng);
        mixed_case(ctx, SCHEMA_R, &t, i % 2);
        let d = p20::gen_doc(&mut ctx.rng, true);
        mixed_case(ctx, p20::SCHEMA_A, &p20::doc_text(&d), i % 2);
        // definitions of both kinds interleaved, every schema of the generator, every indentation setting in turn
        let mut d = p20::gen_doc(&mut ctx.rng, true);
        p20::with_defaults(&mut ctx.rng, &mut d);
        let schema_src = [p20::SCHEMA_A, p20::SCHEMA_C, p20::SCHEMA_B][i % 3];
        let text = interleave(&mut ctx.rng, schema_src, &p20::doc_text(&d));
        ctx.stat("mixed_interleaved");
        mixed_text_case(ctx, text, &[CFGS[i % CFGS.len()], CFGS[(i / 2 + 7) % CFGS.len()]]);
    }
    // field sets on the generator's schemas (meta-fields, directives with nested values, inline fragments on unions / interfaces)
    let n_fs2 = if ctx.thorough { 8_000 } else { 800 };
    for i in 0..n_fs2 {
        let ty = ["Query", "A", "U", "I", "B"][i % 5];
        let t = p20::gen_fieldset(&mut ctx.rng, ty);
        let text = if ctx.rng.chance(1, 2) { t[1..t.len() - 1].trim().to_string() } else { t };
        ctx.stat("fieldset_generator_schema_cases");
        fieldset_case(ctx, &views[if i % 7 == 6 { 2 } else { 0 }], if i % 7 == 6 && ty == "Query" { "Q" } else { ty }, &text);
    }
}
