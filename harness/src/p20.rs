//! C20 — validating without a schema is a relaxation.
//!
//! Streams (Lean model: Model/Standalone.lean):
//!   c20.standalone  doc            → sorted diagnostic kinds of `ast::Document::validate_standalone_executable`
//!   c20.schema      schema-view doc → sorted modelled diagnostic kinds of `ExecutableDocument::parse_and_validate`
//! Oracles on the implementation (independent of the model):
//!   O1  a document that validates against one of the schemas validates standalone;
//!   O2  no standalone diagnostic belongs to a class whose truth depends on the schema.
use crate::util::*;
use apollo_compiler::ast::OperationType;
use apollo_compiler::schema::ExtendedType;
use apollo_compiler::validation::{DiagnosticList, Valid};
use apollo_compiler::{ast, ExecutableDocument, Schema};
use std::collections::{BTreeSet, HashMap};

// ---------------------------------------------------------------- documents

#[derive(Clone, Debug)]
pub(crate) enum Val { Var(String), Bool(bool), Str(String), Null, Int, Enum, List(Vec<String>), Obj(Vec<String>),
    /// an `In2` literal with variables nested several levels deep: `{l: [{x: $a}], o: {o: {ll: [[1 $b]]}}}`
    Deep(Vec<String>) }
#[derive(Clone, Debug)]
pub(crate) struct Arg { pub name: String, pub value: Val }
#[derive(Clone, Debug)]
pub(crate) struct Dir { pub name: String, pub args: Vec<Arg> }
#[derive(Clone, Debug)]
pub(crate) enum Sel {
    Field { alias: Option<String>, name: String, dirs: Vec<Dir>, args: Vec<Arg>, sub: Vec<Sel> },
    Spread { frag: String, dirs: Vec<Dir> },
    Inline { tc: Option<String>, dirs: Vec<Dir>, sub: Vec<Sel> },
}
#[derive(Clone, Debug)]
pub(crate) struct VarDef { pub name: String, pub ty: String, pub dirs: Vec<Dir> }
#[derive(Clone, Debug)]
pub(crate) struct Op { pub ty: u8, pub name: Option<String>, pub vars: Vec<VarDef>, pub dirs: Vec<Dir>, pub sels: Vec<Sel> }
#[derive(Clone, Debug)]
pub(crate) struct Frag { pub name: String, pub tc: String, pub dirs: Vec<Dir>, pub sels: Vec<Sel> }
#[derive(Clone, Debug)]
pub(crate) enum Def { Op(Op), Frag(Frag), TypeSystem }

fn p_val(v: &Val, o: &mut String) {
    match v {
        Val::Var(n) => { o.push('$'); o.push_str(n); }
        Val::Bool(b) => o.push_str(if *b { "true" } else { "false" }),
        Val::Str(s) => { o.push('"'); o.push_str(s); o.push('"'); }
        Val::Null => o.push_str("null"),
        Val::Int => o.push('7'),
        Val::Enum => o.push('X'),
        Val::List(vs) => { o.push_str("[1"); for v in vs { o.push_str(" $"); o.push_str(v); } o.push(']'); }
        Val::Obj(vs) => { if vs.is_empty() { o.push_str("{x: 1}"); } else { o.push_str("{x: $"); o.push_str(&vs[0]); o.push('}'); } }
        Val::Deep(vs) => {
            o.push_str("{l: [{x: ");
            // (`_` = no variable at the first position, only in the nested list)
            match vs.first() { Some(v) if v != "_" => { o.push('$'); o.push_str(v); } _ => o.push('1') }
            o.push_str("}], o: {o: {ll: [[1");
            for v in vs.iter().skip(1) { o.push_str(" $"); o.push_str(v); }
            o.push_str("]]}}}");
        }
    }
}
fn p_args(a: &[Arg], o: &mut String) {
    if a.is_empty() { return; }
    o.push('(');
    for (i, x) in a.iter().enumerate() { if i > 0 { o.push_str(", "); } o.push_str(&x.name); o.push_str(": "); p_val(&x.value, o); }
    o.push(')');
}
fn p_dirs(d: &[Dir], o: &mut String) {
    for x in d { o.push_str(" @"); o.push_str(&x.name); p_args(&x.args, o); }
}
fn p_sels(s: &[Sel], o: &mut String) {
    o.push_str(" {");
    for x in s {
        o.push(' ');
        match x {
            Sel::Field { alias, name, dirs, args, sub } => {
                if let Some(a) = alias { o.push_str(a); o.push_str(": "); }
                o.push_str(name); p_args(args, o); p_dirs(dirs, o);
                if !sub.is_empty() { p_sels(sub, o); }
            }
            Sel::Spread { frag, dirs } => { o.push_str("..."); o.push_str(frag); p_dirs(dirs, o); }
            Sel::Inline { tc, dirs, sub } => {
                o.push_str("...");
                if let Some(t) = tc { o.push_str(" on "); o.push_str(t); }
                p_dirs(dirs, o); p_sels(sub, o);
            }
        }
    }
    o.push_str(" }");
}
pub(crate) fn doc_text(defs: &[Def]) -> String {
    let mut o = String::new();
    for d in defs {
        match d {
            Def::Op(op) => {
                let kw = ["query", "mutation", "subscription"][op.ty as usize];
                let shorthand = op.ty == 0 && op.name.is_none() && op.vars.is_empty() && op.dirs.is_empty();
                if !shorthand {
                    o.push_str(kw);
                    if let Some(n) = &op.name { o.push(' '); o.push_str(n); }
                    if !op.vars.is_empty() {
                        o.push('(');
                        for (i, v) in op.vars.iter().enumerate() {
                            if i > 0 { o.push_str(", "); }
                            o.push('$'); o.push_str(&v.name); o.push_str(": "); o.push_str(&v.ty); p_dirs(&v.dirs, &mut o);
                        }
                        o.push(')');
                    }
                    p_dirs(&op.dirs, &mut o);
                }
                p_sels(&op.sels, &mut o);
            }
            Def::Frag(f) => {
                o.push_str("fragment "); o.push_str(&f.name); o.push_str(" on "); o.push_str(&f.tc);
                p_dirs(&f.dirs, &mut o); p_sels(&f.sels, &mut o);
            }
            Def::TypeSystem => o.push_str("scalar Zz"),
        }
        o.push('\n');
    }
    o
}

// ---------------------------------------------------------------- encoding for the model

pub(crate) struct Intern { pub map: HashMap<String, usize> }
impl Intern {
    pub fn new() -> Self {
        let mut map = HashMap::new();
        for (i, n) in ["skip", "include", "defer", "if", "label", "__typename", "__schema", "__type", "String", "__Schema", "__Type"].iter().enumerate() { map.insert(n.to_string(), i); }
        Intern { map }
    }
    pub fn id(&mut self, s: &str) -> usize { let n = self.map.len(); *self.map.entry(s.to_string()).or_insert(n) }
}
/// the named type of a variable definition's type text (a default value, `Int = 7`, is not part of it)
pub(crate) fn inner_name(ty: &str) -> String { ty.split('=').next().unwrap_or("").chars().filter(|c| c.is_ascii_alphanumeric() || *c == '_').collect() }

fn e_val(v: &Val, it: &mut Intern, o: &mut Vec<String>) {
    match v {
        Val::Var(n) => o.push(format!("v{}", it.id(n))),
        Val::Bool(b) => o.push(if *b { "bt".into() } else { "bf".into() }),
        Val::Str(s) => o.push(format!("s{}", it.id(s))),
        Val::Null => o.push("n".into()),
        Val::Int | Val::Enum => o.push("o0".into()),
        Val::List(vs) | Val::Obj(vs) | Val::Deep(vs) => { let vs: Vec<&String> = vs.iter().filter(|v| *v != "_").collect(); o.push(format!("o{}", vs.len())); for v in vs { o.push(it.id(v).to_string()); } }
    }
}
fn e_args(a: &[Arg], it: &mut Intern, o: &mut Vec<String>) {
    o.push(a.len().to_string());
    for x in a { o.push(it.id(&x.name).to_string()); e_val(&x.value, it, o); }
}
fn e_dirs(d: &[Dir], it: &mut Intern, o: &mut Vec<String>) {
    o.push(d.len().to_string());
    for x in d { o.push(it.id(&x.name).to_string()); e_args(&x.args, it, o); }
}
fn e_sels(s: &[Sel], it: &mut Intern, o: &mut Vec<String>) {
    for x in s {
        match x {
            Sel::Field { name, dirs, args, sub, .. } => { o.push("F".into()); o.push(it.id(name).to_string()); e_dirs(dirs, it, o); e_args(args, it, o); e_sels(sub, it, o); }
            Sel::Spread { frag, dirs } => { o.push("S".into()); o.push(it.id(frag).to_string()); e_dirs(dirs, it, o); }
            Sel::Inline { tc, dirs, sub } => {
                o.push("I".into());
                o.push(match tc { Some(t) => it.id(t).to_string(), None => "-".into() });
                e_dirs(dirs, it, o); e_sels(sub, it, o);
            }
        }
    }
    o.push(".".into());
}
pub(crate) fn e_doc(defs: &[Def], it: &mut Intern) -> String {
    let mut o = vec![];
    for d in defs {
        match d {
            Def::Op(op) => {
                o.push("O".into()); o.push(["q", "m", "s"][op.ty as usize].into());
                o.push(match &op.name { Some(n) => it.id(n).to_string(), None => "-".into() });
                o.push(op.vars.len().to_string());
                for v in &op.vars { o.push(it.id(&v.name).to_string()); o.push(it.id(&inner_name(&v.ty)).to_string()); e_dirs(&v.dirs, it, &mut o); }
                e_dirs(&op.dirs, it, &mut o); e_sels(&op.sels, it, &mut o);
            }
            Def::Frag(f) => { o.push("G".into()); o.push(it.id(&f.name).to_string()); o.push(it.id(&f.tc).to_string()); e_dirs(&f.dirs, it, &mut o); e_sels(&f.sels, it, &mut o); }
            Def::TypeSystem => o.push("T".into()),
        }
    }
    o.join(" ")
}

fn loc_code(l: &ast::DirectiveLocation) -> String {
    use ast::DirectiveLocation::*;
    match l {
        Query => "q".into(), Mutation => "m".into(), Subscription => "s".into(), Field => "f".into(),
        FragmentDefinition => "g".into(), FragmentSpread => "p".into(), InlineFragment => "i".into(),
        VariableDefinition => "v".into(),
        other => format!("t{}", other.name().len()),
    }
}

/// The schema view, read from the real `Schema` through its public API
/// (`root_operation`, `types`, `type_field`, `directive_definitions`).
fn e_schema(s: &Schema, field_names: &[String], it: &mut Intern) -> String {
    let mut o: Vec<String> = vec!["R".into()];
    for t in [OperationType::Query, OperationType::Mutation, OperationType::Subscription] {
        o.push(match s.root_operation(t) { Some(n) => it.id(n.as_str()).to_string(), None => "-".into() });
    }
    for (n, t) in &s.types {
        let k = match t {
            ExtendedType::Object(_) | ExtendedType::Interface(_) | ExtendedType::Union(_) => "c",
            ExtendedType::Scalar(_) | ExtendedType::Enum(_) => "l",
            ExtendedType::InputObject(_) => "i",
        };
        o.push("K".into()); o.push(it.id(n.as_str()).to_string()); o.push(k.into());
        if k == "c" {
            for f in field_names {
                let Ok(fname) = apollo_compiler::Name::new(f) else { continue };
                if let Ok(fd) = s.type_field(n.as_str(), &fname) {
                    o.push("Y".into()); o.push(it.id(n.as_str()).to_string()); o.push(it.id(f).to_string());
                    o.push(it.id(fd.ty.inner_named_type().as_str()).to_string());
                    o.push(fd.arguments.len().to_string());
                    for a in &fd.arguments { o.push(it.id(a.name.as_str()).to_string()); o.push((a.is_required() as u8).to_string()); }
                }
            }
        }
    }
    for (n, d) in &s.directive_definitions {
        o.push("D".into()); o.push(it.id(n.as_str()).to_string()); o.push((d.repeatable as u8).to_string());
        o.push(d.locations.len().to_string());
        for l in &d.locations { o.push(loc_code(l)); }
        o.push(d.arguments.len().to_string());
        for a in &d.arguments { o.push(it.id(a.name.as_str()).to_string()); o.push((a.is_required() as u8).to_string()); }
    }
    o.join(" ")
}

// ---------------------------------------------------------------- running the implementation

const DEFER_KINDS: [&str; 4] = ["DuplicateDeferLabel", "DeferLabelMustNotBeVariable", "DeferOnRootMutationOrSubscriptionField", "DeferInSubscriptionMustBeConditional"];
/// kinds the with-schema model produces (everything else comes from typed rules that are not modelled)
const MODELLED: [&str; 25] = [
    "AmbiguousAnonymousOperation", "OperationNameCollision", "FragmentNameCollision", "TypeSystemDefinition", "UniqueArgument",
    "UniqueVariable", "UnusedVariable", "UndefinedFragment", "RecursiveFragmentDefinition", "UnusedFragment",
    "UndefinedDirective", "UniqueDirective", "UnsupportedLocation", "UndefinedArgument", "RequiredArgument",
    "UndefinedRootOperation", "UndefinedTypeInNamedFragmentTypeCondition", "UndefinedTypeInInlineFragmentTypeCondition",
    "UndefinedField", "SubselectionOnLeaf", "MissingSubselection", "InvalidFragmentTarget", "VariableInputType", "UndefinedDefinition",
    "OutOfFuel",
];
/// Classes whose truth depends on what the schema defines (GraphQL October 2021 §5: rules that mention
/// a type, a field definition, a directive definition or an argument definition).  A standalone run has
/// no schema, so it has no ground to report any of these.
const SCHEMA_DEPENDENT: [&str; 27] = [
    "UndefinedDirective", "UniqueDirective", "UnsupportedLocation", "UndefinedArgument", "RequiredArgument",
    "UndefinedRootOperation", "UndefinedTypeInNamedFragmentTypeCondition", "UndefinedTypeInInlineFragmentTypeCondition",
    "UndefinedField", "SubselectionOnScalarType", "SubselectionOnEnumType", "MissingSubselection", "InvalidFragmentTarget",
    "InvalidFragmentSpread", "VariableInputType", "UndefinedDefinition", "DisallowedVariableUsage", "UnsupportedValueType",
    "UndefinedEnumValue", "UndefinedInputValue", "RequiredField", "IntCoercionError", "FloatCoercionError",
    "ConflictingFieldType", "ConflictingFieldName", "ConflictingFieldArgument", "UniqueInputValue",
];

pub(crate) fn kinds(l: &DiagnosticList) -> Vec<String> {
    l.iter().map(|d| d.error.unstable_error_name().unwrap_or("Unnamed").to_string()).collect()
}
fn canon(mut ks: Vec<String>) -> String {
    if ks.is_empty() { return "ok".into(); }
    ks.sort();
    ks.join(",")
}

/// Ok(kinds) of the standalone run; Err = syntax error / panic
fn run_standalone(text: &str) -> Result<Vec<String>, String> {
    match catch(|| {
        let doc = ast::Document::parse(text, "d.graphql").map_err(|e| format!("syntax: {}", e.errors))?;
        Ok(match doc.validate_standalone_executable() { Ok(()) => vec![], Err(l) => kinds(&l) })
    }) {
        Ok(r) => r,
        Err(p) => Err(format!("panic: {p}")),
    }
}
fn run_schema(schema: &Valid<Schema>, text: &str) -> Result<Vec<String>, String> {
    match catch(|| match ExecutableDocument::parse_and_validate(schema, text, "d.graphql") { Ok(_) => vec![], Err(e) => kinds(&e.errors) }) {
        Ok(r) => Ok(r),
        Err(p) => Err(format!("panic: {p}")),
    }
}

pub(crate) static DOCN: std::sync::atomic::AtomicUsize = std::sync::atomic::AtomicUsize::new(0);

struct World { schemas: Vec<(String, Valid<Schema>)>, field_names: Vec<String> }

pub(crate) fn has_directive(defs: &[Def]) -> bool {
    fn s(x: &[Sel]) -> bool {
        x.iter().any(|y| match y {
            Sel::Field { dirs, sub, .. } => !dirs.is_empty() || s(sub),
            Sel::Spread { dirs, .. } => !dirs.is_empty(),
            Sel::Inline { dirs, sub, .. } => !dirs.is_empty() || s(sub),
        })
    }
    defs.iter().any(|d| match d {
        Def::Op(o) => !o.dirs.is_empty() || o.vars.iter().any(|v| !v.dirs.is_empty()) || s(&o.sels),
        Def::Frag(f) => !f.dirs.is_empty() || s(&f.sels),
        Def::TypeSystem => false,
    })
}

fn one(ctx: &mut Ctx, w: &World, defs: &[Def], family: &str) {
    let text = doc_text(defs);
    let text1 = text.replace('\n', " ");
    ctx.stat(&format!("family_{family}"));
    let sa = match run_standalone(&text) {
        Ok(k) => k,
        Err(e) => {
            if e.starts_with("panic") { ctx.fail("standalone-panic", &text1, &e); } else { ctx.fail("generator-syntax-error", &text1, &e); }
            return;
        }
    };
    let with_dirs = has_directive(defs);
    if with_dirs { ctx.stat("docs_with_directives"); }
    if sa.is_empty() { ctx.stat("standalone_ok"); } else { ctx.stat("standalone_err"); }
    for k in &sa { ctx.stat(&format!("standalone_kind_{k}")); }
    // correspondence, standalone
    let mut it = Intern::new();
    let enc_doc = e_doc(defs, &mut it);
    let sa_model: Vec<String> = sa.iter().filter(|k| !DEFER_KINDS.contains(&k.as_str())).cloned().collect();
    ctx.case("c20.standalone", &[format!("={enc_doc}")], &canon(sa_model));
    // O2: no schema-dependent class without a schema
    let dep: BTreeSet<&str> = sa.iter().map(|k| k.as_str()).filter(|k| SCHEMA_DEPENDENT.contains(k)).collect();
    if !dep.is_empty() {
        let others: Vec<&str> = dep.iter().copied().filter(|k| *k != "UndefinedDirective").collect();
        let key = if others.is_empty() { "standalone-undefined-directive".to_string() } else { format!("standalone-reports-schema-dependent:{}", others[0]) };
        ctx.fail(&key, &text1, &format!("standalone validation reports {:?}, which no schema-less check can know", dep));
    }
    // against every schema
    let docn = DOCN.fetch_add(1, std::sync::atomic::Ordering::Relaxed);
    let mut valid_somewhere = false;
    for (si, (sname, schema)) in w.schemas.iter().enumerate() {
        let ws = match run_schema(schema, &text) {
            Ok(k) => k,
            Err(e) => { ctx.fail("schema-validation-panic", &text1, &e); continue; }
        };
        // correspondence, with schema (modelled kinds only); the first schema always, the others on a sample
        if si == 0 || family == "fixed" || (docn + si) % 2 == 0 {
            ctx.stat(&format!("schema_stream_{sname}"));
            let mut it2 = Intern::new();
            let enc_doc2 = e_doc(defs, &mut it2);
            let enc_s = e_schema(schema, &w.field_names, &mut it2);
            let m: Vec<String> = ws.iter().map(|k| if k == "SubselectionOnScalarType" || k == "SubselectionOnEnumType" { "SubselectionOnLeaf".to_string() } else { k.clone() })
                .filter(|k| MODELLED.contains(&k.as_str())).collect();
            ctx.case("c20.schema", &[format!("={enc_s}"), format!("={enc_doc2}")], &canon(m));
        }
        if ws.is_empty() {
            valid_somewhere = true;
            ctx.stat("valid_with_schema");
            if with_dirs { ctx.stat("valid_with_schema_and_directives"); }
            ctx.nontrivial(&format!("{si}|{text1}"));
            // O1: the relaxation
            if !sa.is_empty() {
                let set: BTreeSet<&str> = sa.iter().map(|k| k.as_str()).collect();
                let others: Vec<&str> = set.iter().copied().filter(|k| *k != "UndefinedDirective").collect();
                let key = if others.is_empty() { "standalone-undefined-directive".to_string() } else { format!("standalone-stricter-than-schema:{}", others[0]) };
                ctx.fail(&key, &text1, &format!("valid against schema {sname} but standalone validation reports {:?}", set));
            }
        }
    }
    if valid_somewhere { ctx.stat("docs_valid_somewhere"); } else { ctx.stat("docs_valid_nowhere"); }
    if !valid_somewhere && family == "clean" {
        // which rules keep the rule-abiding documents from validating (generator quality, shown in the evidence)
        if let Ok(ws) = run_schema(&w.schemas[0].1, &text) { let set: BTreeSet<String> = ws.into_iter().collect(); for k in set { ctx.stat(&format!("clean_doc_invalid_on_A:{k}")); } }
    }
}

// ---------------------------------------------------------------- generator

pub(crate) const SCHEMA_A: &str = r#"
directive @c(x: Int, l: [Int], o: In, d: In2) repeatable on QUERY | MUTATION | SUBSCRIPTION | FIELD | FRAGMENT_DEFINITION | FRAGMENT_SPREAD | INLINE_FRAGMENT | VARIABLE_DEFINITION
directive @d(r: Int!) on FIELD | QUERY
directive @defer(label: String, if: Boolean! = true) on FRAGMENT_SPREAD | INLINE_FRAGMENT
type Query { a: Int b(x: Int, f: Boolean! = true, en: E, inp: In, deep: In2): String o: A i: I u: U l(r: Int!): [A!]! e: E }
type Mutation { m(x: Int): A }
type Subscription { s: A }
type A implements I { a: Int b(x: Int): String o: A i: I u: U }
type B implements I { a: Int o: A bb: Boolean }
interface I { a: Int o: A }
union U = A | B
enum E { X Y }
input In { x: Int }
input In2 { x: Int l: [In2!] o: In2 ll: [[Int]] }
"#;
pub(crate) const SCHEMA_B: &str = r#"
directive @c(x: Int!) on FIELD
type Query { a: Int b(x: Int, f: Boolean! = true, en: E, inp: In, deep: In2): String o: A i: I u: U l(r: Int!): [A!]! e: E }
type A implements I { a: Int b(x: Int): String o: A i: I u: U }
type B implements I { a: Int o: A bb: Boolean }
interface I { a: Int o: A }
union U = A | B
enum E { X Y }
input In { x: Int }
input In2 { x: Int l: [In2!] o: In2 ll: [[Int]] }
"#;
pub(crate) const SCHEMA_C: &str = r#"
schema { query: Q mutation: M subscription: Sb }
directive @c(x: Int, l: [Int], o: In, d: In2) repeatable on QUERY | MUTATION | SUBSCRIPTION | FIELD | FRAGMENT_DEFINITION | FRAGMENT_SPREAD | INLINE_FRAGMENT | VARIABLE_DEFINITION
directive @d(r: Int) repeatable on FIELD | QUERY | INLINE_FRAGMENT | FRAGMENT_SPREAD | FRAGMENT_DEFINITION | VARIABLE_DEFINITION | MUTATION | SUBSCRIPTION
directive @u on FIELD | QUERY | MUTATION | SUBSCRIPTION | FRAGMENT_DEFINITION | FRAGMENT_SPREAD | INLINE_FRAGMENT | VARIABLE_DEFINITION
directive @defer(label: String, if: Boolean! = true) on FRAGMENT_SPREAD | INLINE_FRAGMENT
type Q { a: Int b(x: Int, f: Boolean! = true, en: E, inp: In, deep: In2): String o: A i: I u: U l(r: Int!): [A!]! e: E zz: Int }
type M { m(x: Int): A }
type Sb { s: A }
type A implements I { a: Int b(x: Int): String o: A i: I u: U zz: A }
type B implements I { a: Int o: A bb: Boolean }
interface I { a: Int o: A }
union U = A | B
enum E { X Y }
input In { x: Int }
input In2 { x: Int l: [In2!] o: In2 ll: [[Int]] }
scalar Query
"#;

/// generation-side description of the object graph shared by the three schemas:
/// (type, [(field, [(arg, kind, required)], result composite type or "")])
type FieldRow = (&'static str, &'static [(&'static str, char, bool)], &'static str);
fn fields_of(t: &str) -> &'static [FieldRow] {
    match t {
        "Query" => &[("a", &[], ""), ("b", &[("x", 'i', false), ("f", 'b', false), ("en", 'e', false), ("inp", 'n', false), ("deep", 'd', false)], ""), ("o", &[], "A"), ("i", &[], "I"), ("u", &[], "U"), ("l", &[("r", 'i', true)], "A"), ("e", &[], ""),
            ("__typename", &[], ""), ("__schema", &[], "__Schema"), ("__type", &[("name", 's', true)], "__Type")],
        "__Schema" => &[("queryType", &[], "__Type"), ("types", &[], "__Type"), ("__typename", &[], "")],
        "__Type" => &[("name", &[], ""), ("kind", &[], ""), ("ofType", &[], "__Type"), ("__typename", &[], "")],
        "Mutation" => &[("m", &[("x", 'i', false)], "A")],
        "Subscription" => &[("s", &[], "A")],
        "A" => &[("a", &[], ""), ("b", &[("x", 'i', false)], ""), ("o", &[], "A"), ("i", &[], "I"), ("u", &[], "U"), ("__typename", &[], "")],
        "B" => &[("a", &[], ""), ("o", &[], "A"), ("bb", &[], ""), ("__typename", &[], "")],
        "I" => &[("a", &[], ""), ("o", &[], "A"), ("__typename", &[], "")],
        _ => &[("__typename", &[], "")],
    }
}
fn possible(t: &str) -> &'static [&'static str] {
    match t { "__Schema" => &["__Schema"], "__Type" => &["__Type"], "A" => &["A"], "B" => &["B"], "I" | "U" => &["A", "B"], "Query" => &["Query"], "Mutation" => &["Mutation"], "Subscription" => &["Subscription"], _ => &[] }
}
fn overlaps(a: &str, b: &str) -> bool { possible(a).iter().any(|x| possible(b).contains(x)) }

struct G<'a> {
    r: &'a mut Rng,
    /// probability (per mille) of a rule-breaking choice at each site
    bad: u32,
    /// probability (per mille) of attaching directives at a site
    dirp: u32,
    frag_tcs: Vec<String>,
    counter: usize,
    in_query: bool,
}
impl G<'_> {
    fn bad(&mut self) -> bool { self.bad > 0 && self.r.chance(self.bad, 1000) }
    fn fresh(&mut self, p: &str) -> String { self.counter += 1; format!("{p}{}", self.counter) }
    fn bool_val(&mut self) -> Val {
        match self.r.below(4) { 0 => Val::Var(format!("b{}", self.r.below(2))), 1 => Val::Bool(false), _ => Val::Bool(true) }
    }
    fn int_val(&mut self) -> Val {
        match self.r.below(5) { 0 | 1 => Val::Var(format!("i{}", self.r.below(2))), 2 if self.bad() => Val::Null, _ => Val::Int }
    }
    /// a value for a required `Int!` position: in rule-abiding documents a literal or the `Int!` variable `$r0`
    fn int_req(&mut self) -> Val {
        if self.bad == 0 { if self.r.chance(1, 3) { Val::Var("r0".into()) } else { Val::Int } } else { self.int_val() }
    }
    fn deep_val(&mut self) -> Val {
        let n = self.r.below(4);
        Val::Deep((0..n).map(|_| format!("i{}", self.r.below(2))).collect())
    }
    fn dirs(&mut self, loc: char) -> Vec<Dir> {
        let mut out = vec![];
        if !self.r.chance(self.dirp, 1000) { return out; }
        let n = 1 + self.r.below(3);
        for _ in 0..n {
            let sel_loc = matches!(loc, 'f' | 'p' | 'i');
            let k = self.r.below(12);
            let d = match k {
                0..=2 if sel_loc => Dir { name: "skip".into(), args: vec![Arg { name: "if".into(), value: self.bool_val() }] },
                3 | 4 if sel_loc => Dir { name: "include".into(), args: vec![Arg { name: "if".into(), value: self.bool_val() }] },
                5 if matches!(loc, 'p' | 'i') && self.in_query => {
                    let mut args = vec![];
                    if self.r.chance(1, 2) { let l = if self.bad() { "dup".to_string() } else { self.fresh("l") }; args.push(Arg { name: "label".into(), value: Val::Str(l) }); }
                    if self.r.chance(1, 3) { args.push(Arg { name: "if".into(), value: self.bool_val() }); }
                    Dir { name: "defer".into(), args }
                }
                6 if loc == 'f' || loc == 'q' => Dir { name: "d".into(), args: if self.bad() { vec![] } else { vec![Arg { name: "r".into(), value: self.int_req() }] } },
                7 if self.bad() => Dir { name: (*self.r.pick(&["u", "deprecated", "specifiedBy", "d", "skip"])).into(), args: vec![] },
                _ => {
                    let mut args = vec![];
                    if self.r.chance(1, 2) { args.push(Arg { name: "x".into(), value: self.int_val() }); }
                    if self.r.chance(1, 4) { args.push(Arg { name: "l".into(), value: Val::List(if self.r.chance(1, 2) { vec![format!("i{}", self.r.below(2))] } else { vec![] }) }); }
                    if self.r.chance(1, 6) { args.push(Arg { name: "o".into(), value: Val::Obj(if self.r.chance(1, 2) { vec![format!("i{}", self.r.below(2))] } else { vec![] }) }); }
                    if self.r.chance(1, 6) { let v = self.deep_val(); args.push(Arg { name: "d".into(), value: v }); }
                    if self.bad() { args.push(Arg { name: (*self.r.pick(&["x", "nope"])).into(), value: Val::Int }); }
                    Dir { name: "c".into(), args }
                }
            };
            // rule-abiding documents do not repeat a directive that one of the schemas declares non-repeatable
            if self.bad == 0 && d.name != "c" && out.iter().any(|x: &Dir| x.name == d.name) { continue; }
            out.push(d);
        }
        if self.bad() && !out.is_empty() { let d = out[0].clone(); out.push(d); }
        if loc == 'v' {
            // directives on a variable definition are constant: no variables inside
            for d in out.iter_mut() { for a in d.args.iter_mut() {
                a.value = match &a.value { Val::Var(n) if n.starts_with('b') => Val::Bool(true), Val::Var(_) => Val::Int, Val::List(_) => Val::List(vec![]), Val::Obj(_) => Val::Obj(vec![]), Val::Deep(_) => Val::Deep(vec![]), v => v.clone() };
            } }
        }
        out
    }
    fn sels(&mut self, parent: &str, depth: usize, allow_spread_from: usize, root: bool) -> Vec<Sel> {
        let n = 1 + self.r.below(if root && parent == "Subscription" { 1 } else { 3 });
        let mut out = vec![];
        if root && parent == "Subscription" && self.bad == 0 {
            // a rule-abiding subscription: exactly one root field, not under @skip / @include
            let sub = self.sels("A", depth + 1, allow_spread_from, false);
            let alias = if self.r.chance(1, 2) { Some(self.fresh("k")) } else { None };
            let dirs: Vec<Dir> = self.dirs('f').into_iter().filter(|d| d.name != "skip" && d.name != "include").collect();
            return vec![Sel::Field { alias, name: "s".into(), dirs, args: vec![], sub }];
        }
        for _ in 0..n {
            let rows = fields_of(parent);
            let k = self.r.below(10);
            if k < 6 || depth >= 4 {
                let leafs: Vec<&FieldRow> = rows.iter().filter(|r| r.2.is_empty()).collect();
                let row: &FieldRow = if depth >= 4 && !leafs.is_empty() { leafs[self.r.below(leafs.len())] } else { &rows[self.r.below(rows.len())] };
                let mut name = row.0.to_string();
                if self.bad() { name = (*self.r.pick(&["zz", "nope", "__schema", "__type", "__typename", "a"])).to_string(); }
                let mut args = vec![];
                for (an, kind, req) in row.1 {
                    if *req && self.bad() { continue; }
                    if *req || self.r.chance(1, 2) {
                        let v = match *kind {
                            'b' => self.bool_val(),
                            's' => Val::Str("A".into()),
                            'e' => if self.r.chance(1, 2) { Val::Var(format!("e{}", self.r.below(2))) } else { Val::Enum },
                            'n' => if self.r.chance(1, 2) { Val::Var(format!("n{}", self.r.below(2))) } else { Val::Obj(vec![]) },
                            'd' => self.deep_val(),
                            _ => if *req { self.int_req() } else { self.int_val() },
                        };
                        args.push(Arg { name: an.to_string(), value: v });
                    }
                }
                if self.bad() { args.push(Arg { name: (*self.r.pick(&["x", "nope"])).into(), value: Val::Int }); }
                let mut sub = if row.2.is_empty() { vec![] } else { self.sels(row.2, depth + 1, allow_spread_from, false) };
                if self.bad() { if sub.is_empty() { sub = vec![Sel::Field { alias: None, name: "a".into(), dirs: vec![], args: vec![], sub: vec![] }]; } else { sub.clear(); } }
                // (rule-abiding documents: a field with arguments always gets its own response key, so that two selections never conflict)
                let alias = if name != "__typename" && (self.r.chance(9, 10) || (self.bad == 0 && !args.is_empty())) { Some(self.fresh("k")) } else { None };
                let dirs = self.dirs('f');
                out.push(Sel::Field { alias, name, dirs, args, sub });
            } else if k < 8 {
                let cands: Vec<&str> = ["A", "B", "I", "U", "Query", "__Schema", "__Type"].iter().copied().filter(|t| overlaps(t, parent)).collect();
                let mut tc = if self.r.chance(1, 4) || cands.is_empty() { None } else { Some(cands[self.r.below(cands.len())].to_string()) };
                if self.bad() { tc = Some((*self.r.pick(&["Nope", "E", "In", "B", "Int"])).to_string()); }
                let inner = tc.clone().unwrap_or(parent.to_string());
                let dirs = self.dirs('i');
                let sub = self.sels(&inner, depth + 1, allow_spread_from, root && false);
                out.push(Sel::Inline { tc, dirs, sub });
            } else {
                let cands: Vec<usize> = (allow_spread_from..self.frag_tcs.len()).filter(|j| overlaps(&self.frag_tcs[*j], parent)).collect();
                let frag = if self.bad() { (*self.r.pick(&["Nope", "F0", "F1"])).to_string() }
                    else if cands.is_empty() { continue } else { format!("F{}", cands[self.r.below(cands.len())]) };
                let dirs = self.dirs('p');
                out.push(Sel::Spread { frag, dirs });
            }
        }
        if out.is_empty() {
            let row = &fields_of(parent)[0];
            let sub = if row.2.is_empty() || self.bad > 0 { vec![] } else { vec![Sel::Field { alias: None, name: "__typename".into(), dirs: vec![], args: vec![], sub: vec![] }] };
            out.push(Sel::Field { alias: None, name: if parent == "U" { "__typename".into() } else { row.0.into() }, dirs: vec![], args: vec![], sub });
        }
        out
    }
}

/// variables used by an operation (through every reachable fragment): written independently of the
/// implementation, used only to declare the right variables
pub(crate) fn collect_vars(defs_frags: &[Frag], sels: &[Sel], dirs: &[Dir], out: &mut BTreeSet<String>) {
    fn dv(d: &[Dir], out: &mut BTreeSet<String>) { for x in d { av(&x.args, out); } }
    fn av(a: &[Arg], out: &mut BTreeSet<String>) {
        for x in a { match &x.value { Val::Var(n) => { out.insert(n.clone()); } Val::List(vs) | Val::Obj(vs) | Val::Deep(vs) => { for v in vs { if v != "_" { out.insert(v.clone()); } } } _ => {} } }
    }
    fn go(fr: &[Frag], s: &[Sel], seen: &mut BTreeSet<String>, out: &mut BTreeSet<String>) {
        for x in s {
            match x {
                Sel::Field { dirs, args, sub, .. } => { dv(dirs, out); av(args, out); go(fr, sub, seen, out); }
                Sel::Inline { dirs, sub, .. } => { dv(dirs, out); go(fr, sub, seen, out); }
                Sel::Spread { frag, dirs } => {
                    dv(dirs, out);
                    if seen.insert(frag.clone()) { if let Some(f) = fr.iter().find(|f| &f.name == frag) { dv(&f.dirs, out); go(fr, &f.sels, seen, out); } }
                }
            }
        }
    }
    dv(dirs, out);
    go(defs_frags, sels, &mut BTreeSet::new(), out);
}
fn spreads_in(s: &[Sel], out: &mut BTreeSet<String>) {
    for x in s { match x { Sel::Field { sub, .. } | Sel::Inline { sub, .. } => spreads_in(sub, out), Sel::Spread { frag, .. } => { out.insert(frag.clone()); } } }
}

pub(crate) fn gen_doc(r: &mut Rng, clean: bool) -> Vec<Def> {
    let bad = if clean { 0 } else { *r.pick(&[15u32, 30, 60, 120]) };
    let dirp = *r.pick(&[0u32, 150, 300, 300, 600]);
    let nfrag = r.below(4);
    let mut g = G { r, bad, dirp, frag_tcs: vec![], counter: 0, in_query: true };
    for _ in 0..nfrag { let t = (*g.r.pick(&["A", "A", "B", "I", "U"])).to_string(); g.frag_tcs.push(t); }
    // operations
    let nops = if g.r.chance(7, 10) { 1 } else { 2 + g.r.below(2) };
    let mut ops: Vec<Op> = vec![];
    for j in 0..nops {
        let ty = match g.r.below(10) { 0 => 1u8, 1 => 2u8, _ => 0u8 };
        g.in_query = ty == 0;
        let root = ["Query", "Mutation", "Subscription"][ty as usize];
        let mut name = if nops == 1 && g.r.chance(1, 2) { None } else { Some(format!("Op{j}")) };
        if g.bad() { name = if g.r.chance(1, 2) { None } else { Some("Op0".into()) }; }
        let dirs = g.dirs(['q', 'm', 's'][ty as usize]);
        let sels = g.sels(root, 0, 0, true);
        ops.push(Op { ty, name, vars: vec![], dirs, sels });
    }
    // fragments: fragment j spreads only higher-numbered ones unless a cycle is wanted
    g.in_query = ops.iter().all(|o| o.ty == 0);
    let mut frags: Vec<Frag> = vec![];
    for j in 0..nfrag {
        let tc = g.frag_tcs[j].clone();
        let from = if g.bad() { 0 } else { j + 1 };
        let dirs = g.dirs('g');
        let sels = g.sels(&tc, 2, from, false);
        let mut tcn = tc.clone();
        if g.bad() { tcn = (*g.r.pick(&["Nope", "E", "Query"])).to_string(); }
        let name = if g.bad() { "F0".to_string() } else { format!("F{j}") };
        frags.push(Frag { name, tc: tcn, dirs, sels });
    }
    // every fragment should be used: spread the unreached ones from the first operation (inside a typed inline fragment)
    if !ops.is_empty() {
        let mut reached = BTreeSet::new();
        let mut todo: Vec<String> = vec![];
        for o in &ops { let mut s = BTreeSet::new(); spreads_in(&o.sels, &mut s); todo.extend(s); }
        while let Some(f) = todo.pop() {
            if reached.insert(f.clone()) { if let Some(fr) = frags.iter().find(|x| x.name == f) { let mut s = BTreeSet::new(); spreads_in(&fr.sels, &mut s); todo.extend(s); } }
        }
        let host = ops.iter().position(|o| o.ty == 0);
        for j in 0..nfrag {
            let n = format!("F{j}");
            if let (false, Some(host)) = (reached.contains(&n) || g.bad(), host) {
                let dirs = g.dirs('p');
                let wrap = Sel::Field { alias: Some(g.fresh("k")), name: if g.frag_tcs[j] == "B" { "i".into() } else if g.frag_tcs[j] == "U" { "u".into() } else { "o".into() }, dirs: vec![], args: vec![],
                    sub: vec![Sel::Spread { frag: n.clone(), dirs }] };
                ops[host].sels.push(wrap);
                let mut s = BTreeSet::new();
                spreads_in(&frags[j].sels, &mut s);
                let mut todo: Vec<String> = s.into_iter().collect();
                reached.insert(n);
                while let Some(f) = todo.pop() {
                    if reached.insert(f.clone()) { if let Some(fr) = frags.iter().find(|x| x.name == f) { let mut s = BTreeSet::new(); spreads_in(&fr.sels, &mut s); todo.extend(s); } }
                }
            }
        }
    }
    if g.bad == 0 {
        // rule-abiding documents have no unused fragment (no query operation could host it)
        let mut reached = BTreeSet::new();
        let mut todo: Vec<String> = vec![];
        for o in &ops { let mut s = BTreeSet::new(); spreads_in(&o.sels, &mut s); todo.extend(s); }
        while let Some(f) = todo.pop() {
            if reached.insert(f.clone()) { if let Some(fr) = frags.iter().find(|x| x.name == f) { let mut s = BTreeSet::new(); spreads_in(&fr.sels, &mut s); todo.extend(s); } }
        }
        frags.retain(|f| reached.contains(&f.name));
    }
    // variables: declare what is used (types follow the name), with the occasional slip
    for o in ops.iter_mut() {
        let mut used = BTreeSet::new();
        collect_vars(&frags, &o.sels, &o.dirs, &mut used);
        for v in used {
            if g.bad() { continue; }
            let mut ty = match v.chars().next() { Some('b') => "Boolean!", Some('e') => "E", Some('n') => "In", Some('r') => "Int!", _ => "Int" }.to_string();
            if ty == "E" && g.r.chance(1, 3) { ty = "E!".into(); }
            if g.bad() { ty = (*g.r.pick(&["A", "Nope", "[In]", "E"])).to_string(); }
            let dirs = if g.r.chance(1, 5) { g.dirs('v') } else { vec![] };
            o.vars.push(VarDef { name: v.clone(), ty, dirs });
            if g.bad() { o.vars.push(VarDef { name: v, ty: "Int".into(), dirs: vec![] }); }
        }
        if g.bad() { o.vars.push(VarDef { name: "unused".into(), ty: "Int".into(), dirs: vec![] }); }
    }
    let mut defs: Vec<Def> = vec![];
    for o in ops { defs.push(Def::Op(o)); }
    for f in frags { let at = if g.r.chance(1, 4) { g.r.below(defs.len() + 1) } else { defs.len() }; defs.insert(at, Def::Frag(f)); }
    if g.bad() { let at = g.r.below(defs.len() + 1); defs.insert(at, Def::TypeSystem); }
    defs
}

fn devar(sels: &mut [Sel]) {
    fn dv(v: &mut Val) {
        let new = match &*v {
            Val::Var(n) => match n.chars().next() { Some('b') => Val::Bool(true), Some('e') => Val::Enum, Some('n') => Val::Obj(vec![]), _ => Val::Int },
            Val::List(_) => Val::List(vec![]), Val::Obj(_) => Val::Obj(vec![]), Val::Deep(_) => Val::Deep(vec![]), x => x.clone(),
        };
        *v = new;
    }
    for s in sels.iter_mut() {
        match s {
            Sel::Field { dirs, args, sub, .. } => { for d in dirs.iter_mut() { for a in d.args.iter_mut() { dv(&mut a.value); } } for a in args.iter_mut() { dv(&mut a.value); } devar(sub); }
            Sel::Inline { dirs, sub, .. } => { for d in dirs.iter_mut() { for a in d.args.iter_mut() { dv(&mut a.value); } } devar(sub); }
            Sel::Spread { dirs, .. } => { for d in dirs.iter_mut() { for a in d.args.iter_mut() { dv(&mut a.value); } } }
        }
    }
}

/// a rule-abiding selection set on composite type `parent` of the generator's schemas, without variables and without
/// named fragments (the text of a field set), braces included
pub(crate) fn gen_fieldset(r: &mut Rng, parent: &str) -> String {
    let dirp = *r.pick(&[0u32, 300, 600]);
    let mut g = G { r, bad: 0, dirp, frag_tcs: vec![], counter: 0, in_query: false };
    let mut sels = g.sels(parent, 2, 0, false);
    devar(&mut sels);
    let mut o = String::new();
    p_sels(&sels, &mut o);
    o.trim().to_string()
}

/// default values on some variable definitions (the type text carries them: `Int = 7`)
pub(crate) fn with_defaults(r: &mut Rng, defs: &mut [Def]) {
    for d in defs.iter_mut() {
        if let Def::Op(o) = d {
            for v in o.vars.iter_mut() {
                if !r.chance(1, 3) { continue; }
                let dv = match v.ty.as_str() { "Int" => " = 7", "Boolean!" => " = false", "E" => " = X", "In" => " = {x: 1}", _ => "" };
                v.ty.push_str(dv);
            }
        }
    }
}

/// Fragment graphs for the cycle rule: an acyclic chain of `k` entry fragments leading into a cycle of `m`
/// fragments (k = 0: the operation enters the cycle directly; `close` = false: the same shape without the
/// back edge, a valid document).  Spreads sit directly in the fragment, inside a field, inside an inline fragment
/// with or without type condition.  `op_mode`: 0 = the operation spreads only the entry, 1 = a cycle member
/// first and then the entry, 2 = the entry and then a cycle member, 3 = two operations (entry / cycle member).
pub(crate) fn gen_cycle_graph(r: &mut Rng, k: usize, m: usize, close: bool, op_mode: usize) -> Vec<Def> {
    let mut counter = 0usize;
    let mut alias = || { counter += 1; format!("k{counter}") };
    let wrap = |r: &mut Rng, alias: String, target: String| -> Sel {
        let sp = Sel::Spread { frag: target, dirs: vec![] };
        match r.below(4) {
            0 => sp,
            1 => Sel::Field { alias: Some(alias), name: "o".into(), dirs: vec![], args: vec![], sub: vec![sp] },
            2 => Sel::Inline { tc: Some("A".into()), dirs: vec![], sub: vec![sp] },
            _ => Sel::Inline { tc: None, dirs: vec![], sub: vec![Sel::Field { alias: Some(alias), name: "o".into(), dirs: vec![], args: vec![], sub: vec![sp] }] },
        }
    };
    let names: Vec<String> = (0..k).map(|i| format!("E{i}")).chain((0..m).map(|i| format!("C{i}"))).collect();
    let mut frags = vec![];
    for (i, n) in names.iter().enumerate() {
        let mut sels = vec![Sel::Field { alias: Some(alias()), name: "a".into(), dirs: vec![], args: vec![], sub: vec![] }];
        let next = if i + 1 < names.len() { Some(names[i + 1].clone()) } else if close && m > 0 { Some(names[k].clone()) } else { None };
        if let Some(t) = next { let a = alias(); let w = wrap(r, a, t); if r.chance(1, 2) { sels.push(w) } else { sels.insert(0, w) } }
        frags.push(Frag { name: n.clone(), tc: "A".into(), dirs: vec![], sels });
    }
    let entry = names[0].clone();
    let member = names[k + r.below(m.max(1)).min(names.len() - k - 1)].clone();
    let spread_in_o = |a: String, f: &str| Sel::Field { alias: Some(a), name: "o".into(), dirs: vec![], args: vec![], sub: vec![Sel::Spread { frag: f.into(), dirs: vec![] }] };
    let mut defs = vec![];
    match op_mode {
        0 => defs.push(Def::Op(Op { ty: 0, name: None, vars: vec![], dirs: vec![], sels: vec![spread_in_o(alias(), &entry)] })),
        1 => defs.push(Def::Op(Op { ty: 0, name: None, vars: vec![], dirs: vec![], sels: vec![spread_in_o(alias(), &member), spread_in_o(alias(), &entry)] })),
        2 => defs.push(Def::Op(Op { ty: 0, name: None, vars: vec![], dirs: vec![], sels: vec![spread_in_o(alias(), &entry), spread_in_o(alias(), &member)] })),
        _ => {
            defs.push(Def::Op(Op { ty: 0, name: Some("P".into()), vars: vec![], dirs: vec![], sels: vec![spread_in_o(alias(), &entry)] }));
            defs.push(Def::Op(Op { ty: 0, name: Some("R".into()), vars: vec![], dirs: vec![], sels: vec![spread_in_o(alias(), &member)] }));
        }
    }
    // fragment definitions in a random order (validation order follows the spreads, not the text)
    while !frags.is_empty() { let i = r.below(frags.len()); let at = r.below(defs.len() + 1); defs.insert(at, Def::Frag(frags.remove(i))); }
    defs
}

/// every (k, m, close, op_mode) shape once, then random ones
pub(crate) fn cycle_graph_family(r: &mut Rng, extra: usize) -> Vec<Vec<Def>> {
    let mut out = vec![];
    for k in 0..4 { for m in 1..4 { for close in [true, false] { for mode in 0..4 { out.push(gen_cycle_graph(r, k, m, close, mode)); } } } }
    for _ in 0..extra {
        let (k, m, close, mode) = (r.below(4), 1 + r.below(3), r.chance(3, 4), r.below(4));
        out.push(gen_cycle_graph(r, k, m, close, mode));
    }
    out
}

// ---------------------------------------------------------------- fixed inputs

fn fld(name: &str, dirs: Vec<Dir>, sub: Vec<Sel>) -> Sel { Sel::Field { alias: None, name: name.into(), dirs, args: vec![], sub } }
fn dir(name: &str, args: Vec<(&str, Val)>) -> Dir { Dir { name: name.into(), args: args.into_iter().map(|(n, v)| Arg { name: n.into(), value: v }).collect() } }
fn q(sels: Vec<Sel>) -> Def { Def::Op(Op { ty: 0, name: None, vars: vec![], dirs: vec![], sels }) }

pub(crate) fn fixed() -> Vec<Vec<Def>> {
    let skip = || dir("skip", vec![("if", Val::Bool(true))]);
    let incl_v = || dir("include", vec![("if", Val::Var("b0".into()))]);
    let mut v = vec![];
    // the probe of the property text
    v.push(vec![q(vec![fld("a", vec![skip()], vec![])])]);
    v.push(vec![q(vec![fld("a", vec![], vec![])])]);
    v.push(vec![Def::Op(Op { ty: 0, name: Some("Q".into()), vars: vec![VarDef { name: "b0".into(), ty: "Boolean!".into(), dirs: vec![] }], dirs: vec![],
        sels: vec![fld("o", vec![incl_v()], vec![Sel::Inline { tc: None, dirs: vec![skip()], sub: vec![fld("a", vec![], vec![])] }, Sel::Spread { frag: "F".into(), dirs: vec![incl_v()] }])] }),
        Def::Frag(Frag { name: "F".into(), tc: "A".into(), dirs: vec![], sels: vec![fld("a", vec![skip()], vec![])] })]);
    // custom directives in every location
    let c = || dir("c", vec![("x", Val::Var("i0".into()))]);
    v.push(vec![Def::Op(Op { ty: 0, name: Some("Q".into()), vars: vec![VarDef { name: "i0".into(), ty: "Int".into(), dirs: vec![dir("c", vec![])] }], dirs: vec![c(), c()],
        sels: vec![fld("o", vec![c()], vec![Sel::Inline { tc: Some("A".into()), dirs: vec![c()], sub: vec![fld("a", vec![], vec![])] }, Sel::Spread { frag: "F".into(), dirs: vec![c()] }])] }),
        Def::Frag(Frag { name: "F".into(), tc: "A".into(), dirs: vec![c()], sels: vec![fld("a", vec![], vec![])] })]);
    // type-system built-ins in an executable location, an undefined directive, a repeated non-repeatable one
    v.push(vec![q(vec![fld("a", vec![dir("deprecated", vec![])], vec![])])]);
    v.push(vec![q(vec![fld("a", vec![dir("specifiedBy", vec![("url", Val::Str("u".into()))])], vec![])])]);
    v.push(vec![q(vec![fld("a", vec![dir("u", vec![])], vec![])])]);
    v.push(vec![q(vec![fld("a", vec![skip(), skip()], vec![])])]);
    v.push(vec![q(vec![fld("a", vec![dir("skip", vec![])], vec![])])]);
    v.push(vec![q(vec![fld("a", vec![dir("skip", vec![("if", Val::Bool(true)), ("if", Val::Bool(true))])], vec![])])]);
    // the classes the property lists
    v.push(vec![q(vec![Sel::Spread { frag: "Nope".into(), dirs: vec![] }])]);
    v.push(vec![q(vec![fld("a", vec![], vec![])]), Def::Frag(Frag { name: "F".into(), tc: "A".into(), dirs: vec![], sels: vec![fld("a", vec![], vec![])] })]);
    v.push(vec![q(vec![fld("o", vec![], vec![Sel::Spread { frag: "F".into(), dirs: vec![] }])]),
        Def::Frag(Frag { name: "F".into(), tc: "A".into(), dirs: vec![], sels: vec![fld("o", vec![], vec![Sel::Spread { frag: "G".into(), dirs: vec![] }])] }),
        Def::Frag(Frag { name: "G".into(), tc: "A".into(), dirs: vec![], sels: vec![Sel::Spread { frag: "F".into(), dirs: vec![] }] })]);
    v.push(vec![Def::Op(Op { ty: 0, name: Some("Q".into()), vars: vec![VarDef { name: "i0".into(), ty: "Int".into(), dirs: vec![] }, VarDef { name: "i0".into(), ty: "Int".into(), dirs: vec![] }, VarDef { name: "i1".into(), ty: "Int".into(), dirs: vec![] }],
        dirs: vec![], sels: vec![Sel::Field { alias: None, name: "b".into(), dirs: vec![], args: vec![Arg { name: "x".into(), value: Val::Var("i0".into()) }], sub: vec![] }] })]);
    v.push(vec![q(vec![fld("a", vec![], vec![])]), q(vec![fld("a", vec![], vec![])]), q(vec![fld("a", vec![], vec![])])]);
    v.push(vec![q(vec![fld("a", vec![], vec![])]), Def::Op(Op { ty: 0, name: Some("N".into()), vars: vec![], dirs: vec![], sels: vec![fld("a", vec![], vec![])] }),
        Def::Op(Op { ty: 0, name: Some("N".into()), vars: vec![], dirs: vec![], sels: vec![fld("a", vec![], vec![])] })]);
    v.push(vec![q(vec![fld("a", vec![], vec![])]), Def::TypeSystem]);
    // a fragment cycle entered through a fragment that is not on it (entry → loopA ⇄ loopB; outer → inner → inner)
    let spr = |f: &str| Sel::Spread { frag: f.into(), dirs: vec![] };
    let fr = |n: &str, sels: Vec<Sel>| Def::Frag(Frag { name: n.into(), tc: "A".into(), dirs: vec![], sels });
    v.push(vec![q(vec![fld("o", vec![], vec![spr("entry")])]), fr("entry", vec![fld("a", vec![], vec![]), spr("loopA")]),
        fr("loopA", vec![fld("o", vec![], vec![spr("loopB")])]), fr("loopB", vec![fld("o", vec![], vec![spr("loopA")])])]);
    v.push(vec![q(vec![fld("o", vec![], vec![spr("outer")])]), fr("outer", vec![fld("a", vec![], vec![]), fld("o", vec![], vec![spr("inner")])]),
        fr("inner", vec![fld("a", vec![], vec![]), fld("o", vec![], vec![spr("inner")])])]);
    // things only a schema can object to
    v.push(vec![q(vec![fld("nope", vec![], vec![fld("deeper", vec![], vec![Sel::Spread { frag: "Nope".into(), dirs: vec![] }])])])]);
    v.push(vec![Def::Op(Op { ty: 1, name: None, vars: vec![], dirs: vec![], sels: vec![fld("m", vec![], vec![fld("a", vec![], vec![])])] })]);
    v.push(vec![Def::Op(Op { ty: 2, name: None, vars: vec![], dirs: vec![], sels: vec![fld("s", vec![], vec![fld("a", vec![], vec![])])] })]);
    v.push(vec![q(vec![Sel::Inline { tc: Some("Nope".into()), dirs: vec![], sub: vec![fld("a", vec![], vec![Sel::Spread { frag: "Nope".into(), dirs: vec![] }])] }])]);
    v
}

pub fn run(ctx: &mut Ctx) {
    let mut schemas = vec![];
    for (n, src) in [("A", SCHEMA_A), ("B", SCHEMA_B), ("C", SCHEMA_C)] {
        match Schema::parse_and_validate(src, "s.graphql") {
            Ok(s) => schemas.push((n.to_string(), s)),
            Err(e) => { ctx.fail("generator-schema-invalid", n, &e.errors.to_string().replace('\n', " ")); return; }
        }
    }
    let field_names: Vec<String> = ["a", "b", "o", "i", "u", "l", "e", "m", "s", "bb", "zz", "nope", "deeper", "__typename", "__schema", "__type", "queryType", "types", "name", "kind", "ofType"].iter().map(|s| s.to_string()).collect();
    let w = World { schemas, field_names };
    for d in fixed() { one(ctx, &w, &d, "fixed"); }
    let n_cyc = if ctx.thorough { 2_000 } else { 200 };
    for d in cycle_graph_family(&mut ctx.rng, n_cyc) { one(ctx, &w, &d, "cyclegraph"); }
    let n = if ctx.thorough { 60_000 } else { 5_000 };
    for i in 0..n {
        let clean = i % 2 == 0;
        let mut d = gen_doc(&mut ctx.rng, clean);
        // every third document: default values on variable definitions
        if i % 3 == 2 { with_defaults(&mut ctx.rng, &mut d); ctx.stat("docs_with_variable_defaults_possible"); }
        one(ctx, &w, &d, if clean { "clean" } else { "dirty" });
    }
}
