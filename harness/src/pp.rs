//! Stream P — the parser: real `apollo_parser::Parser` vs the Lean model, for the three entry points
//! and all (token limit, recursion limit) settings.  Shared by C01, C02, C04, C05, C07.
use crate::util::*;
use apollo_parser::cst::CstNode;
use apollo_parser::{Parser, SyntaxElement, SyntaxNode};

pub struct Parsed {
    pub sexpr: String,
    pub text: String,
    pub root_kind: String,
    pub errors: Vec<(char, usize, usize)>, // E/F/L, index, len
    pub rec_high: usize,
    pub tok_high: usize,
    pub boundaries_ok: bool,
    pub msgs: Vec<(usize, String)>,
    pub depth: usize,
    /// how the tree text differs from the source: see `classify_loss`
    pub loss: Loss,
}

#[derive(Clone, Copy, PartialEq, Eq, Debug)]
pub enum Loss {
    /// tree text = source, or a proper prefix of it (token limit)
    None,
    /// whole tokens are missing and EVERY missing token is one that ty.rs `parse` popped because it cannot start a
    /// type (neither a Name nor `[`), directly after `[` of a LIST_TYPE (lexer-error fragments and ignored tokens may stand in
    /// between), or at the very start of the type entry point: the recorded finding, exactly
    TypePositionDropOnly,
    /// anything else: some other token is missing, text was added, reordered …
    Other,
}

fn show(node: &SyntaxNode, src: &str, out: &mut String, bad: &mut bool) {
    out.push('(');
    out.push_str(&format!("{:?}", node.kind()));
    let r = node.text_range();
    let (a, b): (usize, usize) = (r.start().into(), r.end().into());
    if !(src.is_char_boundary(a.min(src.len())) && src.is_char_boundary(b.min(src.len()))) { *bad = true; }
    for c in node.children_with_tokens() {
        out.push(' ');
        match c {
            SyntaxElement::Node(n) => show(&n, src, out, bad),
            SyntaxElement::Token(t) => {
                out.push_str(&format!("{:?}#", t.kind()));
                let mut first = true;
                for ch in t.text().chars() { if !first { out.push(','); } first = false; out.push_str(&(ch as u32).to_string()); }
            }
        }
    }
    out.push(')');
}

/// nesting depth counted from the tree alone: selection sets, list element values, object field
/// values and list item types each add one level
pub fn nesting_depth(node: &SyntaxNode) -> usize {
    use apollo_parser::SyntaxKind as K;
    fn go(node: &SyntaxNode) -> usize {
        let own = match node.kind() {
            K::SELECTION_SET => 1,
            // the counter is bumped right after `[`, before the item type is looked at
            K::LIST_TYPE => 1,
            // one level per attempted element value (anything but the brackets and ignored tokens)
            // (a lexer-error fragment queued in front of `]` is an ERROR token too, but no element was attempted for it)
            K::LIST_VALUE => if node.children_with_tokens().any(|c| !matches!(c.kind(), K::L_BRACK | K::R_BRACK | K::WHITESPACE | K::COMMENT | K::COMMA) && !is_lexer_error_fragment(&c)) { 1 } else { 0 },
            // the value after `name:`
            K::OBJECT_FIELD => if node.children_with_tokens().any(|c| c.kind() == K::COLON) { 1 } else { 0 },
            _ => 0,
        };
        own + node.children().map(|c| go(&c)).max().unwrap_or(0)
    }
    go(node)
}

/// an ERROR token that holds what the *lexer* refused (its text does not lex as a token), as opposed to a token the parser popped
fn is_lexer_error_fragment(c: &SyntaxElement) -> bool {
    match c {
        SyntaxElement::Token(t) if t.kind() == apollo_parser::SyntaxKind::ERROR => matches!(apollo_parser::Lexer::new(t.text()).next(), Some(Err(_))),
        _ => false,
    }
}

/// nesting depth of the tree of an entry point: the standalone selection-set entry keeps its temporary root (a second
/// SELECTION_SET around the real one) when lexer errors precede the first node; that wrapper is not a level
pub fn entry_depth(entry: &str, node: &SyntaxNode) -> usize {
    use apollo_parser::SyntaxKind as K;
    let d = nesting_depth(node);
    if entry == "sel" && node.kind() == K::SELECTION_SET && node.children().any(|c| c.kind() == K::SELECTION_SET) { d - 1 } else { d }
}

/// Aligns the tree text with the source token by token and classifies what is missing.
pub fn classify_loss(entry: &str, src: &str, node: &SyntaxNode, limited: bool) -> Loss {
    let text = node.text().to_string();
    // a proper prefix is what a token limit leaves; without one it means the LAST tokens are missing (`type T { f: [ }` loses its `}`)
    // (the standalone entry points stop after their construct: a proper prefix is all they promise)
    if text == src || ((limited || entry != "doc") && src.starts_with(&text)) { return Loss::None; }
    // items of the source (tokens and lexer-error fragments tile it)
    let mut items: Vec<(usize, String, bool, bool)> = vec![]; // start, text, is_trivia, can_start_type
    for r in apollo_parser::Lexer::new(src) {
        match r {
            Ok(t) => { let k = t.kind(); use apollo_parser::TokenKind as T;
                if k == T::Eof { continue; }
                items.push((t.index(), t.data().to_string(), matches!(k, T::Whitespace | T::Comment | T::Comma), k == T::Name || k == T::LBracket)); }
            // what the lexer refused is queued like an ignored token and flushed into the current node: it never is the dropped token,
            // and it does not separate `[` / `:` from the token that ty.rs pops (`[é]` loses its `]`)
            Err(e) => items.push((e.index(), e.data().to_string(), true, false)),
        }
    }
    // significant tokens of the tree with their parent kinds, by tree offset
    let mut tree_toks: std::collections::HashMap<usize, (String, String)> = Default::default();
    for el in node.descendants_with_tokens() {
        if let SyntaxElement::Token(t) = el {
            let a: usize = t.text_range().start().into();
            tree_toks.insert(a, (t.text().to_string(), t.parent().map(|p| format!("{:?}", p.kind())).unwrap_or_default()));
        }
    }
    // is there an alignment in which every missing item is such a drop?  (`[[]]` → `[[]`: either `]` may be the missing
    // one; only "the first" fits the defect, so both alignments are tried where the text allows both)
    fn drop_ok(entry: &str, prev: &Option<(String, String)>) -> bool {
        match prev {
            None => entry == "type" || entry == "ty",
            // (audit G1: only after `[` — field_definition / input_value_definition / variable_definition look at the token after `:`
            // themselves and never hand a token that cannot start a type to ty.rs; a drop after `:` would be a NEW defect)
            Some((t, parent)) => t == "[" && parent == "LIST_TYPE",
        }
    }
    struct Al<'a> { entry: &'a str, items: &'a [(usize, String, bool, bool)], text: &'a str, toks: &'a std::collections::HashMap<usize, (String, String)>, steps: usize, limited: bool }
    impl Al<'_> {
        // iterative along the forced path; recursion only where a token can both be matched and be the dropped one (`[[]]` → `[[]`)
        fn go(&mut self, mut i: usize, mut j: usize, mut prev: Option<(String, String)>, mut dropped: bool, depth: usize) -> bool {
            if depth > 1000 { return false; }
            loop {
                self.steps += 1;
                if self.steps > 400_000 { return false; }
                if i >= self.items.len() { return dropped && j == self.text.len(); }
                let (_, data, trivia, can_start) = &self.items[i];
                let can_drop = !*trivia && !*can_start && drop_ok(self.entry, &prev);
                if j >= self.text.len() {
                    if j != self.text.len() { return false; }
                    if self.limited { return dropped; }
                    // no token limit: the tree text is used up, so every remaining source item must itself be such a drop
                    if can_drop { i += 1; dropped = true; continue; }
                    return false;
                }
                let matches = self.text[j..].starts_with(data.as_str());
                if matches {
                    let p2 = if *trivia { prev.clone() } else { Some(self.toks.get(&j).cloned().unwrap_or((data.clone(), String::new()))) };
                    if can_drop {
                        if self.go(i + 1, j + data.len(), p2, dropped, depth + 1) { return true; }
                        i += 1; dropped = true; continue;
                    }
                    j += data.len(); i += 1; prev = p2; continue;
                }
                if can_drop { i += 1; dropped = true; continue; }
                return false;
            }
        }
    }
    let mut al = Al { entry, items: &items, text: &text, toks: &tree_toks, steps: 0, limited: limited || entry != "doc" };
    if al.go(0, 0, None, false, 0) { Loss::TypePositionDropOnly } else { Loss::Other }
}

pub fn run_parser(entry: &str, tl: Option<usize>, rl: usize, src: &str) -> Result<Parsed, String> {
    catch(|| {
        let mut p = Parser::new(src).recursion_limit(rl);
        if let Some(t) = tl { p = p.token_limit(t); }
        let (node, errs, rh, th): (SyntaxNode, Vec<apollo_parser::Error>, usize, usize) = match entry {
            "doc" => { let t = p.parse(); (t.document().syntax().clone(), t.errors().cloned().collect(), t.recursion_limit().high, t.token_limit().high) }
            "sel" => { let t = p.parse_selection_set(); (t.field_set().syntax().clone(), t.errors().cloned().collect(), t.recursion_limit().high, t.token_limit().high) }
            _ => { let t = p.parse_type(); (t.ty().syntax().clone(), t.errors().cloned().collect(), t.recursion_limit().high, t.token_limit().high) }
        };
        let mut sexpr = String::new();
        let mut bad = false;
        show(&node, src, &mut sexpr, &mut bad);
        let errors = errs.iter().map(|e| if e.is_limit() { ('L', e.index(), 0) } else if e.is_eof() { ('F', e.index(), 0) } else { ('E', e.index(), e.data().len()) }).collect();
        let msgs = errs.iter().map(|e| (e.index(), e.message().to_string())).collect();
        Parsed { sexpr, text: node.text().to_string(), root_kind: format!("{:?}", node.kind()), errors, rec_high: rh, tok_high: th, boundaries_ok: !bad, msgs, depth: entry_depth(entry, &node), loss: classify_loss(entry, src, &node, tl.is_some()) }
    })
}

pub fn show_parsed(p: &Result<Parsed, String>) -> String {
    match p {
        Err(_) => "PANIC".to_string(),
        Ok(p) => {
            let errs: Vec<String> = p.errors.iter().map(|(k, i, l)| match k { 'E' => format!("E:{i}:{l}"), 'F' => format!("F:{i}"), _ => format!("L:{i}") }).collect();
            format!("T {} | {} | {} {}", p.sexpr, errs.join(","), p.rec_high, p.tok_high)
        }
    }
}

pub fn case(ctx: &mut Ctx, entry: &str, tl: Option<usize>, rl: usize, src: &str) -> Result<Parsed, String> {
    let r = run_parser(entry, tl, rl, src);
    let tls = tl.map(|t| t.to_string()).unwrap_or_else(|| "-".to_string());
    ctx.case("parse", &[entry.to_string(), tls, rl.to_string(), enc(src)], &show_parsed(&r));
    r
}

pub const TOKENS: [&str; 26] = ["{", "}", "(", ")", "[", "]", ":", "!", "$", "@", "=", "|", "&", "...", "a", "on", "query", "type", "extend", "fragment", "schema", "1", "\"s\"", ",", "é", "implements"];

/// all token sequences of length ≤ k over `alphabet`, separated by one space
pub fn token_seqs(alphabet: &[&str], k: usize, mut f: impl FnMut(&str)) {
    let mut idx: Vec<usize> = vec![];
    loop {
        let s: Vec<&str> = idx.iter().map(|&i| alphabet[i]).collect();
        f(&s.join(" "));
        let mut pos = idx.len();
        loop {
            if pos == 0 { idx = vec![0; idx.len() + 1]; break; }
            pos -= 1;
            if idx[pos] + 1 < alphabet.len() { idx[pos] += 1; for j in pos + 1..idx.len() { idx[j] = 0; } break; }
        }
        if idx.len() > k { return; }
    }
}

pub fn repo_documents() -> Vec<String> {
    let mut out = vec![];
    for dir in ["parser/ok", "parser/err", "lexer/ok", "lexer/err"] {
        let Ok(rd) = std::fs::read_dir(format!("/repo/crates/apollo-parser/test_data/{dir}")) else { continue };
        let mut files: Vec<_> = rd.filter_map(|e| e.ok()).map(|e| e.path()).filter(|p| p.extension().is_some_and(|e| e == "graphql")).collect();
        files.sort();
        for f in files { if let Ok(s) = std::fs::read_to_string(&f) { if s.len() < 3000 { out.push(s); } } }
    }
    out
}
