//! Stream P — the parser: real `apollo_parser::Parser` vs the Lean model, for the three entry points
//! and all (token limit, recursion limit) settings.  Shared by C01, C02, C04, C05, C07.
use crate::util::*;
use apollo_parser::cst::CstNode;
use apollo_parser::{Parser, SyntaxElement, SyntaxNode};

pub struct Parsed {
    pub sexpr: String,
    pub text: String,
    pub root_kind: String,
    pub errors: Vec<(char, usize, usize)>, // E/F/L, index, len
    pub rec_high: usize,
    pub tok_high: usize,
    pub boundaries_ok: bool,
    pub msgs: Vec<(usize, String)>,
    pub depth: usize,
}

fn show(node: &SyntaxNode, src: &str, out: &mut String, bad: &mut bool) {
    out.push('(');
    out.push_str(&format!("{:?}", node.kind()));
    let r = node.text_range();
    let (a, b): (usize, usize) = (r.start().into(), r.end().into());
    if !(src.is_char_boundary(a.min(src.len())) && src.is_char_boundary(b.min(src.len()))) { *bad = true; }
    for c in node.children_with_tokens() {
        out.push(' ');
        match c {
            SyntaxElement::Node(n) => show(&n, src, out, bad),
            SyntaxElement::Token(t) => {
                out.push_str(&format!("{:?}#", t.kind()));
                let mut first = true;
                for ch in t.text().chars() { if !first { out.push(','); } first = false; out.push_str(&(ch as u32).to_string()); }
            }
        }
    }
    out.push(')');
}

/// nesting depth counted from the tree alone: selection sets, list element values, object field
/// values and list item types each add one level
pub fn nesting_depth(node: &SyntaxNode) -> usize {
    use apollo_parser::SyntaxKind as K;
    fn go(node: &SyntaxNode) -> usize {
        let own = match node.kind() {
            K::SELECTION_SET => 1,
            // the counter is bumped right after `[`, before the item type is looked at
            K::LIST_TYPE => 1,
            // one level per attempted element value (anything but the brackets and ignored tokens)
            K::LIST_VALUE => if node.children_with_tokens().any(|c| !matches!(c.kind(), K::L_BRACK | K::R_BRACK | K::WHITESPACE | K::COMMENT | K::COMMA)) { 1 } else { 0 },
            // the value after `name:`
            K::OBJECT_FIELD => if node.children_with_tokens().any(|c| c.kind() == K::COLON) { 1 } else { 0 },
            _ => 0,
        };
        own + node.children().map(|c| go(&c)).max().unwrap_or(0)
    }
    go(node)
}

pub fn run_parser(entry: &str, tl: Option<usize>, rl: usize, src: &str) -> Result<Parsed, String> {
    catch(|| {
        let mut p = Parser::new(src).recursion_limit(rl);
        if let Some(t) = tl { p = p.token_limit(t); }
        let (node, errs, rh, th): (SyntaxNode, Vec<apollo_parser::Error>, usize, usize) = match entry {
            "doc" => { let t = p.parse(); (t.document().syntax().clone(), t.errors().cloned().collect(), t.recursion_limit().high, t.token_limit().high) }
            "sel" => { let t = p.parse_selection_set(); (t.field_set().syntax().clone(), t.errors().cloned().collect(), t.recursion_limit().high, t.token_limit().high) }
            _ => { let t = p.parse_type(); (t.ty().syntax().clone(), t.errors().cloned().collect(), t.recursion_limit().high, t.token_limit().high) }
        };
        let mut sexpr = String::new();
        let mut bad = false;
        show(&node, src, &mut sexpr, &mut bad);
        let errors = errs.iter().map(|e| if e.is_limit() { ('L', e.index(), 0) } else if e.is_eof() { ('F', e.index(), 0) } else { ('E', e.index(), e.data().len()) }).collect();
        let msgs = errs.iter().map(|e| (e.index(), e.message().to_string())).collect();
        Parsed { sexpr, text: node.text().to_string(), root_kind: format!("{:?}", node.kind()), errors, rec_high: rh, tok_high: th, boundaries_ok: !bad, msgs, depth: nesting_depth(&node) }
    })
}

pub fn show_parsed(p: &Result<Parsed, String>) -> String {
    match p {
        Err(_) => "PANIC".to_string(),
        Ok(p) => {
            let errs: Vec<String> = p.errors.iter().map(|(k, i, l)| match k { 'E' => format!("E:{i}:{l}"), 'F' => format!("F:{i}"), _ => format!("L:{i}") }).collect();
            format!("T {} | {} | {} {}", p.sexpr, errs.join(","), p.rec_high, p.tok_high)
        }
    }
}

pub fn case(ctx: &mut Ctx, entry: &str, tl: Option<usize>, rl: usize, src: &str) -> Result<Parsed, String> {
    let r = run_parser(entry, tl, rl, src);
    let tls = tl.map(|t| t.to_string()).unwrap_or_else(|| "-".to_string());
    ctx.case("parse", &[entry.to_string(), tls, rl.to_string(), enc(src)], &show_parsed(&r));
    r
}

pub const TOKENS: [&str; 26] = ["{", "}", "(", ")", "[", "]", ":", "!", "$", "@", "=", "|", "&", "...", "a", "on", "query", "type", "extend", "fragment", "schema", "1", "\"s\"", ",", "é", "implements"];

/// all token sequences of length ≤ k over `alphabet`, separated by one space
pub fn token_seqs(alphabet: &[&str], k: usize, mut f: impl FnMut(&str)) {
    let mut idx: Vec<usize> = vec![];
    loop {
        let s: Vec<&str> = idx.iter().map(|&i| alphabet[i]).collect();
        f(&s.join(" "));
        let mut pos = idx.len();
        loop {
            if pos == 0 { idx = vec![0; idx.len() + 1]; break; }
            pos -= 1;
            if idx[pos] + 1 < alphabet.len() { idx[pos] += 1; for j in pos + 1..idx.len() { idx[j] = 0; } break; }
        }
        if idx.len() > k { return; }
    }
}

pub fn repo_documents() -> Vec<String> {
    let mut out = vec![];
    for dir in ["parser/ok", "parser/err", "lexer/ok", "lexer/err"] {
        let Ok(rd) = std::fs::read_dir(format!("/repo/crates/apollo-parser/test_data/{dir}")) else { continue };
        let mut files: Vec<_> = rd.filter_map(|e| e.ok()).map(|e| e.path()).filter(|p| p.extension().is_some_and(|e| e == "graphql")).collect();
        files.sort();
        for f in files { if let Ok(s) = std::fs::read_to_string(&f) { if s.len() < 3000 { out.push(s); } } }
    }
    out
}
