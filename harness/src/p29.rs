//! C29 — type compatibility: is_assignable_to, is_variable_usage_allowed,
//! is_valid_implementation_field_type vs the Lean model; plus spec oracles evaluated on the impl.
use crate::util::*;
use apollo_compiler::ast::{self, Type};
use apollo_compiler::{name, Name, Node, Schema};

const NAMES: [&str; 3] = ["A", "B", "C"];

pub fn all_types(depth: usize, names: &[&str]) -> Vec<Type> {
    let mut level: Vec<Type> = Vec::new();
    for n in names {
        let nm = Name::new(n).unwrap();
        level.push(Type::Named(nm.clone()));
        level.push(Type::NonNullNamed(nm));
    }
    let mut all = level.clone();
    for _ in 0..depth {
        let mut next = Vec::new();
        for t in &level {
            next.push(Type::List(Box::new(t.clone())));
            next.push(Type::NonNullList(Box::new(t.clone())));
        }
        all.extend(next.iter().cloned());
        level = next;
    }
    all
}

pub fn enc_ty(t: &Type) -> String {
    match t {
        Type::Named(n) => format!("n{n};"),
        Type::NonNullNamed(n) => format!("N{n};"),
        Type::List(i) => format!("l{}", enc_ty(i)),
        Type::NonNullList(i) => format!("L{}", enc_ty(i)),
    }
}

// ---- spec oracles, written directly on the Rust type from the spec text (independent of both
// ---- the implementation and the Lean model)
#[derive(Clone, PartialEq, Debug)]
enum S { Named(String), List(Box<S>), NonNull(Box<S>) }
fn embed(t: &Type) -> S {
    match t {
        Type::Named(n) => S::Named(n.to_string()),
        Type::NonNullNamed(n) => S::NonNull(Box::new(S::Named(n.to_string()))),
        Type::List(i) => S::List(Box::new(embed(i))),
        Type::NonNullList(i) => S::NonNull(Box::new(S::List(Box::new(embed(i))))),
    }
}
fn compat(v: &S, l: &S) -> bool {
    if let S::NonNull(li) = l {
        return match v { S::NonNull(vi) => compat(vi, li), _ => false };
    }
    if let S::NonNull(vi) = v { return compat(vi, l); }
    if let S::List(li) = l {
        return match v { S::List(vi) => compat(vi, li), _ => false };
    }
    if let S::List(_) = v { return false; }
    v == l
}
fn usage_allowed(v: &S, dflt: u8, l: &S, loc_default: bool) -> bool {
    if let S::NonNull(nl) = l {
        if !matches!(v, S::NonNull(_)) {
            let has_non_null_default = dflt == 2;
            if !has_non_null_default && !loc_default { return false; }
            return compat(v, nl);
        }
    }
    compat(v, l)
}
fn valid_impl(sub: &dyn Fn(&str, &str) -> bool, field: &S, implemented: &S) -> bool {
    if let S::NonNull(f) = field {
        let i = if let S::NonNull(i) = implemented { i.as_ref() } else { implemented };
        return valid_impl(sub, f, i);
    }
    if let (S::List(f), S::List(i)) = (field, implemented) { return valid_impl(sub, f, i); }
    if field == implemented { return true; }
    if let (S::Named(f), S::Named(i)) = (field, implemented) { return sub(i, f); }
    false
}

fn b(x: bool) -> &'static str { if x { "true" } else { "false" } }

/// kinds: 0 = object, 1 = interface, 2 = union; `edges[i][j]`: i declares implementing / contains j
fn schema_for(kinds: [u8; 3], edges: [[bool; 3]; 3]) -> Option<Schema> {
    let mut s = String::from("type Query { q: Int }\n");
    for i in 0..3 {
        let n = NAMES[i];
        match kinds[i] {
            0 | 1 => {
                let impls: Vec<&str> = (0..3).filter(|&j| edges[i][j] && kinds[j] == 1 && j != i).map(|j| NAMES[j]).collect();
                let kw = if kinds[i] == 0 { "type" } else { "interface" };
                s.push_str(&format!("{kw} {n}"));
                if !impls.is_empty() { s.push_str(&format!(" implements {}", impls.join(" & "))); }
                s.push_str(" { x: Int }\n");
            }
            _ => {
                let mem: Vec<&str> = (0..3).filter(|&j| edges[i][j] && kinds[j] == 0).map(|j| NAMES[j]).collect();
                if mem.is_empty() { return None; }
                s.push_str(&format!("union {n} = {}\n", mem.join(" | ")));
            }
        }
    }
    Schema::parse(s, "s.graphql").ok()
}

pub fn run(ctx: &mut Ctx) {
    let depth = if ctx.thorough { 4 } else { 3 };
    let types = all_types(depth, &NAMES);
    ctx.stat_n("types_enumerated", types.len() as u64);

    // --- stream T1: is_assignable_to, exhaustive pairs
    for a in &types {
        for t in &types {
            let got = a.is_assignable_to(t);
            ctx.case("assignable", &[enc_ty(a), enc_ty(t)], b(got));
            let want = compat(&embed(a), &embed(t));
            if got { ctx.nontrivial(&format!("as{}{}", enc_ty(a), enc_ty(t))); }
            if got != want {
                ctx.fail("assignable-vs-AreTypesCompatible", &format!("{a} -> {t}"),
                    &format!("is_assignable_to={got}, AreTypesCompatible={want}"));
            }
        }
    }

    // --- stream T2: is_variable_usage_allowed via hook, exhaustive pairs × defaults
    let sub_types = all_types(if ctx.thorough { 3 } else { 2 }, &NAMES[..2]);
    for v in &sub_types {
        for l in &sub_types {
            for dflt in 0..3u8 {
                for ld in [false, true] {
                    let var_def = ast::VariableDefinition {
                        name: name!("v"),
                        ty: Node::new(v.clone()),
                        default_value: match dflt {
                            0 => None,
                            1 => Some(Node::new(ast::Value::Null)),
                            _ => Some(Node::new(ast::Value::Int(1.into()))),
                        },
                        directives: Default::default(),
                    };
                    let usage = ast::InputValueDefinition {
                        description: None,
                        name: name!("arg"),
                        ty: Node::new(l.clone()),
                        default_value: if ld { Some(Node::new(ast::Value::Int(1.into()))) } else { None },
                        directives: Default::default(),
                    };
                    let got = apollo_compiler::verif_hooks::is_variable_usage_allowed(&var_def, &usage);
                    let d = ["absent", "null", "value"][dflt as usize];
                    ctx.case("usage", &[enc_ty(v), d.to_string(), enc_ty(l), b(ld).to_string()], b(got));
                    let want = usage_allowed(&embed(v), dflt, &embed(l), ld);
                    if got != want {
                        let key = if dflt == 1 { "usage-null-default" } else { "usage-vs-IsVariableUsageAllowed" };
                        ctx.fail(key, &format!("$v: {v} default={d} at location {l} locDefault={ld}"),
                            &format!("is_variable_usage_allowed={got}, spec={want}"));
                    }
                    if got { ctx.nontrivial(&format!("us{}{}{}{}", enc_ty(v), d, enc_ty(l), ld)); }
                }
            }
        }
    }

    // --- the same rule through public validation of a minimal document (no hook)
    let list_wrap = |t: &Type| t.to_string();
    let mini_types = all_types(1, &["Int"]);
    for v in &mini_types {
        for l in &mini_types {
            for dflt in 0..3u8 {
                for ld in [false, true] {
                    let schema_src = format!(
                        "type Query {{ f(a: {}{}): Int }}",
                        list_wrap(l),
                        if ld { if l.is_list() { " = [1]" } else { " = 1" } } else { "" }
                    );
                    let d = match dflt { 0 => "".to_string(), 1 => " = null".to_string(), _ => if v.is_list() { " = [1]".into() } else { " = 1".into() } };
                    let doc = format!("query($v: {}{}) {{ f(a: $v) }}", list_wrap(v), d);
                    let Ok(schema) = Schema::parse_and_validate(&schema_src, "s.graphql") else { ctx.stat("mini_schema_invalid"); continue };
                    let res = apollo_compiler::ExecutableDocument::parse_and_validate(&schema, &doc, "d.graphql");
                    // a non-null variable type with `= null` default is rejected for another reason
                    if dflt == 1 && v.is_non_null() { continue; }
                    let got = res.is_ok();
                    let want = usage_allowed(&embed(v), dflt, &embed(l), ld);
                    ctx.stat("mini_documents");
                    if got != want {
                        let key = if dflt == 1 { "usage-null-default" } else { "usage-public-route" };
                        ctx.fail(key, &format!("{schema_src} || {doc}"), &format!("validates={got}, spec allows={want}"));
                    }
                }
            }
        }
    }

    // --- stream T3: is_valid_implementation_field_type via hook over every schema shape on A,B,C
    let small = all_types(if ctx.thorough { 3 } else { 2 }, &NAMES);
    let mut n_schemas = 0u64;
    let mut kinds_iter = vec![];
    for k0 in 0..3u8 { for k1 in 0..3u8 { for k2 in 0..3u8 { kinds_iter.push([k0, k1, k2]); } } }
    for kinds in kinds_iter {
        for mask in 0..64u32 {
            // six off-diagonal edges
            let mut edges = [[false; 3]; 3];
            let mut bit = 0;
            for i in 0..3 { for j in 0..3 { if i != j { edges[i][j] = mask & (1 << bit) != 0; bit += 1; } } }
            // skip masks with edges that `schema_for` ignores (keeps the enumeration canonical)
            let mut canonical = true;
            for i in 0..3 { for j in 0..3 { if edges[i][j] {
                let ok = match kinds[i] { 0 | 1 => kinds[j] == 1, _ => kinds[j] == 0 };
                if !ok { canonical = false; }
            } } }
            if !canonical { continue; }
            let Some(schema) = schema_for(kinds, edges) else { continue };
            n_schemas += 1;
            // the schema's subtype relation, as exposed by the public API
            let mut rel = String::new();
            for a in NAMES { for c in NAMES { rel.push(if schema.is_subtype(a, c) { '1' } else { '0' }); } }
            let sub = |a: &str, c: &str| schema.is_subtype(a, c);
            // sample pairs for quick, all for thorough on a subset of schemas
            let stride = if ctx.thorough { 1 } else { 7 };
            let mut k = (mask as usize) % stride;
            while k < small.len() * small.len() {
                let (i, j) = (k / small.len(), k % small.len());
                k += stride;
                let (iface_t, impl_t) = (&small[i], &small[j]);
                let got = apollo_compiler::verif_hooks::is_valid_implementation_field_type(&schema, iface_t, impl_t);
                ctx.case("implfield", &[rel.clone(), enc_ty(iface_t), enc_ty(impl_t)], b(got));
                let want = valid_impl(&sub, &embed(impl_t), &embed(iface_t));
                if got != want {
                    ctx.fail("implfield-vs-IsValidImplementationFieldType",
                        &format!("kinds={kinds:?} rel={rel} interface field {iface_t}, implementation {impl_t}"),
                        &format!("impl={got} spec={want}"));
                }
                if got { ctx.nontrivial(&format!("if{rel}{}{}", enc_ty(iface_t), enc_ty(impl_t))); }
            }
        }
    }
    ctx.stat_n("schemas_enumerated", n_schemas);
}
