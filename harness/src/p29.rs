//! C29 — type compatibility: is_assignable_to, is_variable_usage_allowed,
//! is_valid_implementation_field_type vs the Lean model; plus spec oracles evaluated on the impl.
use crate::util::*;
use apollo_compiler::ast::{self, Type};
use apollo_compiler::{name, Name, Node, Schema};

const NAMES: [&str; 3] = ["A", "B", "C"];

pub fn all_types(depth: usize, names: &[&str]) -> Vec<Type> {
    let mut level: Vec<Type> = Vec::new();
    for n in names {
        let nm = Name::new(n).unwrap();
        level.push(Type::Named(nm.clone()));
        level.push(Type::NonNullNamed(nm));
    }
    let mut all = level.clone();
    for _ in 0..depth {
        let mut next = Vec::new();
        for t in &level {
            next.push(Type::List(Box::new(t.clone())));
            next.push(Type::NonNullList(Box::new(t.clone())));
        }
        all.extend(next.iter().cloned());
        level = next;
    }
    all
}

pub fn enc_ty(t: &Type) -> String {
    match t {
        Type::Named(n) => format!("n{n};"),
        Type::NonNullNamed(n) => format!("N{n};"),
        Type::List(i) => format!("l{}", enc_ty(i)),
        Type::NonNullList(i) => format!("L{}", enc_ty(i)),
    }
}

// ---- spec oracles, written directly on the Rust type from the spec text (independent of both
// ---- the implementation and the Lean model)
#[derive(Clone, PartialEq, Debug)]
enum S { Named(String), List(Box<S>), NonNull(Box<S>) }
fn embed(t: &Type) -> S {
    match t {
        Type::Named(n) => S::Named(n.to_string()),
        Type::NonNullNamed(n) => S::NonNull(Box::new(S::Named(n.to_string()))),
        Type::List(i) => S::List(Box::new(embed(i))),
        Type::NonNullList(i) => S::NonNull(Box::new(S::List(Box::new(embed(i))))),
    }
}
fn compat(v: &S, l: &S) -> bool {
    if let S::NonNull(li) = l {
        return match v { S::NonNull(vi) => compat(vi, li), _ => false };
    }
    if let S::NonNull(vi) = v { return compat(vi, l); }
    if let S::List(li) = l {
        return match v { S::List(vi) => compat(vi, li), _ => false };
    }
    if let S::List(_) = v { return false; }
    v == l
}
fn usage_allowed(v: &S, dflt: u8, l: &S, loc_default: bool) -> bool {
    if let S::NonNull(nl) = l {
        if !matches!(v, S::NonNull(_)) {
            let has_non_null_default = dflt == 2;
            if !has_non_null_default && !loc_default { return false; }
            return compat(v, nl);
        }
    }
    compat(v, l)
}
fn valid_impl(sub: &dyn Fn(&str, &str) -> bool, field: &S, implemented: &S) -> bool {
    if let S::NonNull(f) = field {
        let i = if let S::NonNull(i) = implemented { i.as_ref() } else { implemented };
        return valid_impl(sub, f, i);
    }
    if let (S::List(f), S::List(i)) = (field, implemented) { return valid_impl(sub, f, i); }
    if field == implemented { return true; }
    if let (S::Named(f), S::Named(i)) = (field, implemented) { return sub(i, f); }
    false
}

fn b(x: bool) -> &'static str { if x { "true" } else { "false" } }

/// kinds: 0 = object, 1 = interface, 2 = union, 3 = scalar; `edges[i][j]`: i declares implementing / contains j.
/// `via_ext`: the declarations (`implements`, union members) are made by type extensions instead of the definitions.
fn schema_text(kinds: [u8; 3], edges: [[bool; 3]; 3], via_ext: bool) -> Option<String> {
    let mut s = String::from("type Query { q: Int }\n");
    for i in 0..3 {
        let n = NAMES[i];
        match kinds[i] {
            0 | 1 => {
                let impls: Vec<&str> = (0..3).filter(|&j| edges[i][j] && kinds[j] == 1 && j != i).map(|j| NAMES[j]).collect();
                let kw = if kinds[i] == 0 { "type" } else { "interface" };
                s.push_str(&format!("{kw} {n}"));
                if !impls.is_empty() && !via_ext { s.push_str(&format!(" implements {}", impls.join(" & "))); }
                s.push_str(" { x: Int }\n");
                if !impls.is_empty() && via_ext { s.push_str(&format!("extend {kw} {n} implements {}\n", impls.join(" & "))); }
            }
            2 => {
                let mem: Vec<&str> = (0..3).filter(|&j| edges[i][j] && kinds[j] == 0).map(|j| NAMES[j]).collect();
                if mem.is_empty() { return None; }
                if via_ext {
                    // first member by the definition, the others by one extension each
                    s.push_str(&format!("union {n} = {}\n", mem[0]));
                    for m in &mem[1..] { s.push_str(&format!("extend union {n} = {m}\n")); }
                } else {
                    s.push_str(&format!("union {n} = {}\n", mem.join(" | ")));
                }
            }
            _ => s.push_str(&format!("scalar {n}\n")),
        }
    }
    Some(s)
}
fn schema_for(kinds: [u8; 3], edges: [[bool; 3]; 3], via_ext: bool) -> Option<Schema> {
    Schema::parse(schema_text(kinds, edges, via_ext)?, "s.graphql").ok()
}

/// The subtype relation *as declared in the schema text* (spec IsValidImplementationFieldType 4.b/4.c: an object
/// that is a member of the union; an object or interface that declares it implements the interface) — computed
/// from the enumeration's own `kinds`/`edges`, never through `Schema::is_subtype`.
fn declared_sub(kinds: [u8; 3], edges: [[bool; 3]; 3], abstract_: usize, maybe: usize) -> bool {
    abstract_ != maybe && match kinds[abstract_] {
        1 => matches!(kinds[maybe], 0 | 1) && edges[maybe][abstract_],
        2 => kinds[maybe] == 0 && edges[abstract_][maybe],
        _ => false,
    }
}

fn default_values() -> Vec<(u8, &'static str, ast::Value)> {
    // (class for the model: 1 = null, 2 = a value that is not null), label, value
    vec![
        (1, "null", ast::Value::Null),
        (2, "1", ast::Value::Int(1.into())),
        (2, "0", ast::Value::Int(0.into())),
        (2, "false", ast::Value::Boolean(false)),
        (2, "\"\"", ast::Value::String(String::new())),
        (2, "\"null\"", ast::Value::String("null".into())),
        (2, "0.0", ast::Value::Float(0.0.into())),
        (2, "E", ast::Value::Enum(name!("NULL"))),
        (2, "[]", ast::Value::List(vec![])),
        (2, "[null]", ast::Value::List(vec![Node::new(ast::Value::Null)])),
        (2, "{}", ast::Value::Object(vec![])),
        (2, "{a: null}", ast::Value::Object(vec![(name!("a"), Node::new(ast::Value::Null))])),
    ]
}

pub fn run(ctx: &mut Ctx) {
    let depth = if ctx.thorough { 4 } else { 3 };
    let types = all_types(depth, &NAMES);
    ctx.stat_n("types_enumerated", types.len() as u64);

    // --- stream T1: is_assignable_to, exhaustive pairs
    for a in &types {
        for t in &types {
            let got = a.is_assignable_to(t);
            ctx.case("assignable", &[enc_ty(a), enc_ty(t)], b(got));
            let want = compat(&embed(a), &embed(t));
            if got { ctx.nontrivial(&format!("as{}{}", enc_ty(a), enc_ty(t))); }
            if got != want {
                ctx.fail("assignable-vs-AreTypesCompatible", &format!("{a} -> {t}"),
                    &format!("is_assignable_to={got}, AreTypesCompatible={want}"));
            }
        }
    }
    // the same name at nesting depths beyond the exhaustive bound (a recursion that stops early, a depth counter):
    // towers of list / non-null-list wrappers around A and around A!, paired with the towers that differ in ONE layer
    {
        let mut n = 0u64;
        let tower = |bits: u64, h: usize, leaf_nn: bool, leaf: &str| -> Type {
            let nm = Name::new(leaf).unwrap();
            let mut t = if leaf_nn { Type::NonNullNamed(nm) } else { Type::Named(nm) };
            for k in 0..h { t = if bits & (1 << k) != 0 { Type::NonNullList(Box::new(t)) } else { Type::List(Box::new(t)) }; }
            t
        };
        for h in [5usize, 8, 17, 40] {
            let patterns: Vec<u64> = if h <= 8 && ctx.thorough { (0..(1u64 << h)).collect() } else { vec![0, u64::MAX, 0x5555_5555_5555_5555, 0xAAAA_AAAA_AAAA_AAAA, 1, 1 << (h as u64 - 1)] };
            for &p in &patterns {
                for leaf_nn in [false, true] {
                    let a = tower(p, h, leaf_nn, "A");
                    let mut others = vec![a.clone(), tower(p, h, !leaf_nn, "A"), tower(p, h, leaf_nn, "B"), tower(p, h - 1, leaf_nn, "A"), tower(p, h + 1, leaf_nn, "A")];
                    for k in 0..h { others.push(tower(p ^ (1 << k), h, leaf_nn, "A")); }
                    for t in &others {
                        for (x, y) in [(&a, t), (t, &a)] {
                            let got = x.is_assignable_to(y);
                            ctx.case("assignable", &[enc_ty(x), enc_ty(y)], b(got));
                            n += 1;
                            if got != compat(&embed(x), &embed(y)) {
                                ctx.fail("assignable-vs-AreTypesCompatible", &format!("{x} -> {y}"), &format!("is_assignable_to={got}"));
                            }
                        }
                    }
                }
            }
        }
        ctx.stat_n("family:assignable_deep_towers", n);
    }

    // --- stream T2: is_variable_usage_allowed via hook, exhaustive pairs × defaults
    let sub_types = all_types(if ctx.thorough { 3 } else { 2 }, &NAMES[..2]);
    for v in &sub_types {
        for l in &sub_types {
            for dflt in 0..3u8 {
                for ld in [false, true] {
                    let var_def = ast::VariableDefinition {
                        name: name!("v"),
                        ty: Node::new(v.clone()),
                        default_value: match dflt {
                            0 => None,
                            1 => Some(Node::new(ast::Value::Null)),
                            _ => Some(Node::new(ast::Value::Int(1.into()))),
                        },
                        directives: Default::default(),
                    };
                    let usage = ast::InputValueDefinition {
                        description: None,
                        name: name!("arg"),
                        ty: Node::new(l.clone()),
                        default_value: if ld { Some(Node::new(ast::Value::Int(1.into()))) } else { None },
                        directives: Default::default(),
                    };
                    let got = apollo_compiler::verif_hooks::is_variable_usage_allowed(&var_def, &usage);
                    let d = ["absent", "null", "value"][dflt as usize];
                    ctx.case("usage", &[enc_ty(v), d.to_string(), enc_ty(l), b(ld).to_string()], b(got));
                    let want = usage_allowed(&embed(v), dflt, &embed(l), ld);
                    if got != want {
                        let key = if dflt == 1 { "usage-null-default" } else { "usage-vs-IsVariableUsageAllowed" };
                        ctx.fail(key, &format!("$v: {v} default={d} at location {l} locDefault={ld}"),
                            &format!("is_variable_usage_allowed={got}, spec={want}"));
                    }
                    if got { ctx.nontrivial(&format!("us{}{}{}{}", enc_ty(v), d, enc_ty(l), ld)); }
                }
            }
        }
    }
    // every KIND of default value (the rule only asks "exists and is not the value null": `0`, `false`, `""`, `[]`,
    // `[null]`, `{}` … all count as non-null defaults) × every kind of LOCATION default (any default, `null`
    // included, makes hasLocationDefaultValue true), on the types where the default decides (depth ≤ 1, one name)
    {
        let ts = all_types(1, &NAMES[..1]);
        let dvs = default_values();
        let mut n = 0u64;
        for v in &ts { for l in &ts {
            for (class, label, dv) in &dvs {
                for (ldl, ldv) in [("absent", None), ("null", Some(ast::Value::Null)), ("[]", Some(ast::Value::List(vec![]))), ("0", Some(ast::Value::Int(0.into())))] {
                    let var_def = ast::VariableDefinition { name: name!("v"), ty: Node::new(v.clone()), default_value: Some(Node::new(dv.clone())), directives: Default::default() };
                    let ld = ldv.is_some();
                    let usage = ast::InputValueDefinition { description: None, name: name!("arg"), ty: Node::new(l.clone()), default_value: ldv.map(Node::new), directives: Default::default() };
                    let got = apollo_compiler::verif_hooks::is_variable_usage_allowed(&var_def, &usage);
                    let d = ["absent", "null", "value"][*class as usize];
                    ctx.case("usage", &[enc_ty(v), d.to_string(), enc_ty(l), b(ld).to_string()], b(got));
                    n += 1;
                    let want = usage_allowed(&embed(v), *class, &embed(l), ld);
                    if got != want {
                        let key = if *class == 1 { "usage-null-default" } else { "usage-vs-IsVariableUsageAllowed" };
                        ctx.fail(key, &format!("$v: {v} = {label} at location {l} with location default {ldl}"), &format!("is_variable_usage_allowed={got}, spec={want}"));
                    }
                }
            }
        } }
        ctx.stat_n("family:usage_default_kinds", n);
    }

    // --- the same rule through public validation of a minimal document (no hook):
    // both call sites of the rule (a field argument, a directive argument), two named types (Int, Float: the literal
    // `1` is a valid default for both, so the only possible complaint is the usage rule), nesting depth ≤ 2 in thorough
    let list_wrap = |t: &Type| t.to_string();
    let mini_types = all_types(if ctx.thorough { 2 } else { 1 }, &["Int", "Float"]);
    fn lit(t: &Type, leaf: &str) -> String { match t { Type::Named(_) | Type::NonNullNamed(_) => leaf.to_string(), Type::List(i) | Type::NonNullList(i) => format!("[{}]", lit(i, leaf)) } }
    for v in &mini_types {
        for l in &mini_types {
            if !ctx.thorough && v.inner_named_type() != l.inner_named_type() && (v.is_list() || l.is_list()) && v.is_list() != l.is_list() { continue; }
            for dflt in 0..3u8 {
                for ld in [false, true] {
                    for route in 0..4u8 {
                        let loc = format!("{}{}", list_wrap(l), if ld { format!(" = {}", lit(l, "1")) } else { String::new() });
                        let schema_src = match route {
                            0 => format!("type Query {{ f(a: {loc}): Int }}"),
                            1 => format!("type Query {{ f: Int }} directive @d(a: {loc}) on FIELD"),
                            // the argument is not the first one / the same name exists on another field and directive
                            2 => format!("type Query {{ g(a: Float!): Int f(z: Int, a: {loc}): Int }} directive @d(a: Boolean!) on FIELD"),
                            _ => format!("type Query {{ f(a: Boolean!): Int }} directive @e(a: Float!) on FIELD directive @d(z: Int, a: {loc}) on FIELD | QUERY | FRAGMENT_SPREAD | INLINE_FRAGMENT | FRAGMENT_DEFINITION"),
                        };
                        let d = match dflt { 0 => "".to_string(), 1 => " = null".to_string(), _ => format!(" = {}", lit(v, "1")) };
                        let vd = format!("$v: {}{}", list_wrap(v), d);
                        let docs: Vec<String> = match route {
                            0 | 2 => vec![format!("query({vd}) {{ f(a: $v) }}")],
                            1 => vec![format!("query({vd}) {{ f @d(a: $v) }}")],
                            _ => vec![
                                format!("query({vd}) {{ x: f(a: true) @d(a: $v) }}"),
                                format!("query({vd}) @d(a: $v) {{ f(a: true) }}"),
                                format!("query({vd}) {{ ... @d(a: $v) {{ f(a: true) }} }}"),
                                format!("query({vd}) {{ ...F @d(a: $v) }} fragment F on Query {{ f(a: true) }}"),
                                format!("query({vd}) {{ ...F }} fragment F on Query {{ ... on Query {{ f(a: true) @d(a: $v) }} }}"),
                                // two operations, only the second declares the default that decides
                                format!("query P($v: {}) {{ f(a: true) @d(a: $v) }} query R({vd}) {{ f(a: true) @d(a: $v) }}", list_wrap(&v.clone().non_null())),
                            ],
                        };
                        let Ok(schema) = Schema::parse_and_validate(&schema_src, "s.graphql") else { ctx.stat("mini_schema_invalid"); continue };
                        // a non-null variable type with `= null` default is rejected for another reason
                        if dflt == 1 && v.is_non_null() { continue; }
                        for doc in docs {
                            let res = apollo_compiler::ExecutableDocument::parse_and_validate(&schema, &doc, "d.graphql");
                            let got = res.is_ok();
                            let mut want = usage_allowed(&embed(v), dflt, &embed(l), ld);
                            if doc.starts_with("query P") { want = want && usage_allowed(&embed(&v.clone().non_null()), 0, &embed(l), ld); }
                            ctx.stat("mini_documents");
                            ctx.stat(&format!("mini_documents:route{route}"));
                            if got != want {
                                let key = if dflt == 1 { "usage-null-default" } else { "usage-public-route" };
                                ctx.fail(key, &format!("{schema_src} || {doc}"), &format!("validates={got}, spec allows={want}"));
                            }
                        }
                    }
                }
            }
        }
    }

    // --- stream T3: is_valid_implementation_field_type via hook over every schema shape on A,B,C
    let small = all_types(if ctx.thorough { 3 } else { 2 }, &NAMES);
    let foreign = all_types(if ctx.thorough { 1 } else { 0 }, &["A", "Int", "Zz"]);
    let mut n_schemas = 0u64;
    let mut kinds_iter = vec![];
    for k0 in 0..4u8 { for k1 in 0..4u8 { for k2 in 0..4u8 { kinds_iter.push([k0, k1, k2]); } } }
    for kinds in kinds_iter {
        // scalars take part in no declaration; keep one representative position for them (the last names)
        if kinds.iter().filter(|&&k| k == 3).count() > 1 { continue; }
        for mask in 0..64u32 {
            // six off-diagonal edges
            let mut edges = [[false; 3]; 3];
            let mut bit = 0;
            for i in 0..3 { for j in 0..3 { if i != j { edges[i][j] = mask & (1 << bit) != 0; bit += 1; } } }
            // skip masks with edges that `schema_for` ignores (keeps the enumeration canonical)
            let mut canonical = true;
            for i in 0..3 { for j in 0..3 { if edges[i][j] {
                let ok = match kinds[i] { 0 | 1 => kinds[j] == 1, 2 => kinds[j] == 0, _ => false };
                if !ok { canonical = false; }
            } } }
            if !canonical { continue; }
            let has_edges = mask != 0;
            for via_ext in [false, true] {
                if via_ext && !has_edges { continue; }
                let Some(schema) = schema_for(kinds, edges, via_ext) else { continue };
                n_schemas += 1;
                if via_ext { ctx.stat("schemas_declared_by_extension"); }
                if kinds.contains(&3) { ctx.stat("schemas_with_scalar"); }
                // the schema's subtype relation, as exposed by the public API …
                let mut rel = String::new();
                for a in NAMES { for c in NAMES { rel.push(if schema.is_subtype(a, c) { '1' } else { '0' }); } }
                // … which must be exactly what the schema text declares
                for a in 0..3 { for c in 0..3 {
                    let (got, want) = (schema.is_subtype(NAMES[a], NAMES[c]), declared_sub(kinds, edges, a, c));
                    if got != want {
                        ctx.fail("is-subtype-vs-declared", &format!("{} || is_subtype({}, {})", schema_text(kinds, edges, via_ext).unwrap().replace('\n', " "), NAMES[a], NAMES[c]),
                            &format!("is_subtype={got}, the schema declares={want}"));
                    }
                } }
                for other in ["Query", "Int", "Zz", "__Type"] { for n in NAMES {
                    if schema.is_subtype(other, n) || schema.is_subtype(n, other) {
                        ctx.fail("is-subtype-vs-declared", &format!("{} || is_subtype between {other} and {n}", schema_text(kinds, edges, via_ext).unwrap().replace('\n', " ")), "is_subtype=true, nothing declared");
                    }
                } }
                let sub = |a: &str, c: &str| {
                    let (Some(i), Some(j)) = (NAMES.iter().position(|n| *n == a), NAMES.iter().position(|n| *n == c)) else { return false };
                    declared_sub(kinds, edges, i, j)
                };
                // sample pairs for quick, all for thorough on a subset of schemas
                let stride = if via_ext || kinds.contains(&3) { if ctx.thorough { 5 } else { 37 } } else if ctx.thorough { 1 } else { 7 };
                let mut k = (mask as usize) % stride;
                let mut pairs: Vec<(&Type, &Type)> = vec![];
                while k < small.len() * small.len() {
                    let (i, j) = (k / small.len(), k % small.len());
                    k += stride;
                    pairs.push((&small[i], &small[j]));
                }
                // names that are not among the schema's abstract/object types: a built-in scalar, an undefined name
                if n_schemas % 3 == 1 || ctx.thorough {
                    for i in &foreign { for j in &foreign { pairs.push((i, j)); ctx.stat("family:implfield_foreign_names"); } }
                }
                for (iface_t, impl_t) in pairs {
                    let got = apollo_compiler::verif_hooks::is_valid_implementation_field_type(&schema, iface_t, impl_t);
                    ctx.case("implfield", &[rel.clone(), enc_ty(iface_t), enc_ty(impl_t)], b(got));
                    let want = valid_impl(&sub, &embed(impl_t), &embed(iface_t));
                    if got != want {
                        ctx.fail("implfield-vs-IsValidImplementationFieldType",
                            &format!("kinds={kinds:?} rel={rel} interface field {iface_t}, implementation {impl_t}"),
                            &format!("impl={got} spec={want}"));
                    }
                    if got { ctx.nontrivial(&format!("if{rel}{}{}", enc_ty(iface_t), enc_ty(impl_t))); }
                }
                // the same predicate through public schema validation: `interface I { f: T1 } type O implements I { f: T2 }`
                // appended to the (valid) base schema validates exactly when IsValidImplementationFieldType(T2, T1)
                let base = schema_text(kinds, edges, via_ext).unwrap();
                if Schema::parse_and_validate(&base, "b.graphql").is_ok() {
                    ctx.stat("implfield_public_base_valid");
                    let stride = if ctx.thorough { 11 } else { 61 };
                    let mut k = (mask as usize * 5 + n_schemas as usize) % stride;
                    while k < small.len() * small.len() {
                        let (iface_t, impl_t) = (&small[k / small.len()], &small[k % small.len()]);
                        k += stride;
                        let src = format!("{base}interface I {{ f: {iface_t} }}\ntype O implements I {{ f: {impl_t} }}\n");
                        let got = Schema::parse_and_validate(&src, "p.graphql").is_ok();
                        let want = valid_impl(&sub, &embed(impl_t), &embed(iface_t));
                        ctx.stat("family:implfield_public_route");
                        if got != want {
                            ctx.fail("implfield-public-route", &src.replace('\n', " "), &format!("schema validates={got}, IsValidImplementationFieldType={want}"));
                        }
                    }
                }
            }
        }
    }
    ctx.stat_n("schemas_enumerated", n_schemas);
}
