//! C18: not built yet.
use crate::util::Ctx;

pub fn run(_ctx: &mut Ctx) {}
