//! C18 — executable documents are typed consistently with the schema.
//!
//! Stream (Lean model: Model/TypedDoc.lean):
//!   c18.typed  schema doc → typed dump of the document built by `ast::Document::to_executable`
//!                           (per field: name, definition id, selection-set type; per inline fragment / operation /
//!                           fragment: selection-set type) + the `root_fields` / `all_fields` sequences of every operation
//! Oracles on the implementation, written from the property text (they never call `Schema::type_field`):
//!   typing-*   every field's definition is the schema's definition of that name on the parent type (explicit field,
//!              `__typename` on composite types, `__schema`/`__type` on the query root), selection sets are typed by the
//!              field's inner type / the type condition / the parent type;
//!   iter-*     both iterators yield exactly the fields of a recursive walk that enters each named fragment once;
//!   valid-*    in a document that validates: spreads defined, no cycle, used variables defined, leaf shape.
use crate::p20::{self, Def, Intern, Sel};
use crate::util::*;
use apollo_compiler::ast::OperationType;
use apollo_compiler::executable as ex;
use apollo_compiler::schema::{ExtendedType, FieldDefinition};
use apollo_compiler::validation::Valid;
use apollo_compiler::{ast, ExecutableDocument, Node, Schema};
use std::collections::{BTreeSet, HashSet};

struct View {
    name: String,
    schema: Valid<Schema>,
    /// explicit field definitions in export order; id = index + 3
    defs: Vec<Node<FieldDefinition>>,
}

fn kind_code(t: &ExtendedType) -> &'static str {
    match t {
        ExtendedType::Object(_) => "o", ExtendedType::Interface(_) => "i", ExtendedType::Union(_) => "u",
        ExtendedType::Scalar(_) => "s", ExtendedType::Enum(_) => "e", ExtendedType::InputObject(_) => "n",
    }
}

fn make_view(name: &str, src: &str) -> Result<View, String> {
    let schema = Schema::parse_and_validate(src, "s.graphql").map_err(|e| e.errors.to_string())?;
    let mut defs = vec![];
    for t in schema.types.values() {
        match t {
            ExtendedType::Object(o) => for f in o.fields.values() { defs.push(f.node.clone()); },
            ExtendedType::Interface(o) => for f in o.fields.values() { defs.push(f.node.clone()); },
            _ => {}
        }
    }
    Ok(View { name: name.to_string(), schema, defs })
}

fn e_schema(v: &View, it: &mut Intern) -> String {
    let s = &v.schema;
    let mut o: Vec<String> = vec!["R".into()];
    for t in [OperationType::Query, OperationType::Mutation, OperationType::Subscription] {
        o.push(match s.root_operation(t) { Some(n) => it.id(n.as_str()).to_string(), None => "-".into() });
    }
    let mut next = 3usize;
    for (n, t) in &s.types {
        o.push("T".into()); o.push(it.id(n.as_str()).to_string()); o.push(kind_code(t).into());
        let fields: Vec<(&str, &Node<FieldDefinition>)> = match t {
            ExtendedType::Object(x) => x.fields.iter().map(|(k, f)| (k.as_str(), &f.node)).collect(),
            ExtendedType::Interface(x) => x.fields.iter().map(|(k, f)| (k.as_str(), &f.node)).collect(),
            _ => vec![],
        };
        o.push(fields.len().to_string());
        for (k, f) in fields {
            o.push(it.id(k).to_string()); o.push(next.to_string()); o.push(it.id(f.ty.inner_named_type().as_str()).to_string());
            next += 1;
        }
    }
    o.join(" ")
}

/// identity of the definition a built field carries: index of the schema node it points to, or the
/// meta-field it structurally is; `?` if neither
fn def_id(v: &View, d: &Node<FieldDefinition>) -> String {
    if let Some(i) = v.defs.iter().position(|x| x.ptr_eq(d)) { return (i + 3).to_string(); }
    if let Some(i) = v.defs.iter().position(|x| **x == **d && x.location() == d.location()) { return (i + 3).to_string(); }
    match (d.name.as_str(), d.ty.to_string().as_str()) {
        ("__typename", "String!") if d.arguments.is_empty() => "0".into(),
        ("__schema", "__Schema!") if d.arguments.is_empty() => "1".into(),
        ("__type", "__Type") if d.arguments.len() == 1 => "2".into(),
        _ => "?".into(),
    }
}

fn dump_sels(v: &View, it: &mut Intern, s: &ex::SelectionSet, o: &mut String) {
    for sel in &s.selections {
        match sel {
            ex::Selection::Field(f) => {
                o.push_str(&format!("F{}:{}:{}[", it.id(f.name.as_str()), def_id(v, &f.definition), it.id(f.selection_set.ty.as_str())));
                dump_sels(v, it, &f.selection_set, o);
                o.push(']');
            }
            ex::Selection::FragmentSpread(sp) => o.push_str(&format!("S{};", it.id(sp.fragment_name.as_str()))),
            ex::Selection::InlineFragment(i) => {
                let tc = match &i.type_condition { Some(t) => it.id(t.as_str()).to_string(), None => "-".into() };
                o.push_str(&format!("I{}:{}[", tc, it.id(i.selection_set.ty.as_str())));
                dump_sels(v, it, &i.selection_set, o);
                o.push(']');
            }
        }
    }
}

fn items<'a>(it: &mut Intern, fs: impl Iterator<Item = &'a Node<ex::Field>>) -> String {
    let v: Vec<String> = fs.map(|f| format!("{}:{}", it.id(f.name.as_str()), it.id(f.selection_set.ty.as_str()))).collect();
    v.join(" ")
}

fn dump_doc(v: &View, it: &mut Intern, d: &ExecutableDocument) -> String {
    let mut ops = vec![];
    for op in d.operations.iter() {
        let mut o = format!("op:{}:{}[", match &op.name { Some(n) => it.id(n.as_str()).to_string(), None => "-".into() }, it.id(op.selection_set.ty.as_str()));
        dump_sels(v, it, &op.selection_set, &mut o);
        o.push_str("] R(");
        o.push_str(&items(it, op.root_fields(d)));
        o.push_str(") A(");
        o.push_str(&items(it, op.all_fields(d)));
        o.push(')');
        ops.push(o);
    }
    let mut frs = vec![];
    for (n, f) in &d.fragments {
        let mut o = format!("frag:{}:{}[", it.id(n.as_str()), it.id(f.selection_set.ty.as_str()));
        dump_sels(v, it, &f.selection_set, &mut o);
        o.push(']');
        frs.push(o);
    }
    format!("{} | {}", ops.join(" "), frs.join(" "))
}

// ---------------------------------------------------------------- oracle: typing

fn is_composite(s: &Schema, t: &str) -> bool {
    matches!(s.types.get(t), Some(ExtendedType::Object(_) | ExtendedType::Interface(_) | ExtendedType::Union(_)))
}

/// the property's "schema's definition of that field on its parent type (meta-fields included)"
/// Some(Ok(node)) explicit definition, Some(Err(meta name)) a meta-field, None: the parent type has no such field
fn spec_lookup<'a>(s: &'a Schema, parent: &str, field: &str) -> Option<Result<&'a Node<FieldDefinition>, &'static str>> {
    let explicit = match s.types.get(parent)? {
        ExtendedType::Object(o) => o.fields.get(field).map(|c| &c.node),
        ExtendedType::Interface(o) => o.fields.get(field).map(|c| &c.node),
        _ => None,
    };
    if let Some(n) = explicit { return Some(Ok(n)); }
    if field == "__typename" && is_composite(s, parent) { return Some(Err("__typename")); }
    let is_query_root = s.schema_definition.query.as_ref().is_some_and(|q| q.name.as_str() == parent);
    if is_query_root && field == "__schema" { return Some(Err("__schema")); }
    if is_query_root && field == "__type" { return Some(Err("__type")); }
    None
}

fn check_sels(ctx: &mut Ctx, s: &Schema, input: &str, parent: &str, set: &ex::SelectionSet, n_fields: &mut usize) {
    for sel in &set.selections {
        match sel {
            ex::Selection::Field(f) => {
                *n_fields += 1;
                match spec_lookup(s, parent, f.name.as_str()) {
                    None => ctx.fail("typing-field-without-definition", input, &format!("field `{}` is in the document but type `{parent}` has no such field", f.name)),
                    Some(Ok(node)) => {
                        if !(node.ptr_eq(&f.definition) || (**node == *f.definition && node.location() == f.definition.location())) {
                            ctx.fail("typing-field-definition", input, &format!("field `{}` on `{parent}` carries definition `{}: {}` instead of `{parent}.{}: {}`", f.name, f.definition.name, f.definition.ty, node.name, node.ty));
                        }
                    }
                    Some(Err(meta)) => {
                        let want_ty = match meta { "__typename" => "String!", "__schema" => "__Schema!", _ => "__Type" };
                        if f.definition.name.as_str() != meta || f.definition.ty.to_string() != want_ty {
                            ctx.fail("typing-meta-field-definition", input, &format!("meta-field `{}` on `{parent}` carries definition `{}: {}`", f.name, f.definition.name, f.definition.ty));
                        }
                        ctx.stat(&format!("meta_{meta}"));
                    }
                }
                let inner = f.definition.ty.inner_named_type();
                if f.selection_set.ty != *inner {
                    ctx.fail("typing-selection-set-type", input, &format!("selection set of field `{}` is typed `{}`, its definition's inner type is `{inner}`", f.name, f.selection_set.ty));
                }
                check_sels(ctx, s, input, f.selection_set.ty.as_str(), &f.selection_set, n_fields);
            }
            ex::Selection::FragmentSpread(_) => {}
            ex::Selection::InlineFragment(i) => {
                let want = match &i.type_condition { Some(t) => t.as_str(), None => { ctx.stat("inline_without_type_condition"); parent } };
                if i.selection_set.ty.as_str() != want {
                    ctx.fail("typing-inline-fragment-type", input, &format!("inline fragment (type condition {:?}) inside `{parent}` is typed `{}`", i.type_condition.as_ref().map(|t| t.as_str()), i.selection_set.ty));
                }
                check_sels(ctx, s, input, i.selection_set.ty.as_str(), &i.selection_set, n_fields);
            }
        }
    }
}

// ---------------------------------------------------------------- oracle: iterators

fn fkey(f: &Node<ex::Field>) -> (usize, String) { (f.location().map(|l| l.offset()).unwrap_or(usize::MAX), f.name.to_string()) }

fn walk_spec(d: &ExecutableDocument, set: &ex::SelectionSet, all: bool, seen: &mut HashSet<String>, out: &mut Vec<(usize, String)>) {
    for sel in &set.selections {
        match sel {
            ex::Selection::Field(f) => { out.push(fkey(f)); if all { walk_spec(d, &f.selection_set, all, seen, out); } }
            ex::Selection::InlineFragment(i) => walk_spec(d, &i.selection_set, all, seen, out),
            ex::Selection::FragmentSpread(sp) => {
                if let Some(fr) = d.fragments.get(&sp.fragment_name) {
                    if seen.insert(sp.fragment_name.to_string()) { walk_spec(d, &fr.selection_set, all, seen, out); }
                }
            }
        }
    }
}

// ---------------------------------------------------------------- oracle: valid documents

/// the variables of a value.  `hidden`: those inside an object literal given where a custom scalar is expected
/// (before fix 1d09582 `value_of_correct_type` accepted such an object without looking inside; kept apart only for the message)
fn value_vars(v: &ast::Value, custom: bool, in_obj: bool, out: &mut BTreeSet<String>, hidden: &mut BTreeSet<String>) {
    match v {
        ast::Value::Variable(n) => { if custom && in_obj { hidden.insert(n.to_string()); } else { out.insert(n.to_string()); } }
        ast::Value::List(l) => for x in l { value_vars(x, custom, in_obj, out, hidden); },
        ast::Value::Object(l) => for (_, x) in l { value_vars(x, custom, true, out, hidden); },
        _ => {}
    }
}
fn is_custom_scalar(s: &Schema, ty: &str) -> bool { matches!(s.types.get(ty), Some(ExtendedType::Scalar(sc)) if !sc.is_built_in()) }
fn dirs_vars(s: &Schema, ds: &ast::DirectiveList, out: &mut BTreeSet<String>, hidden: &mut BTreeSet<String>) {
    for d in ds.iter() {
        let def = s.directive_definitions.get(&d.name);
        for a in &d.arguments {
            let custom = def.and_then(|df| df.arguments.iter().find(|x| x.name == a.name)).is_some_and(|x| is_custom_scalar(s, x.ty.inner_named_type().as_str()));
            value_vars(&a.value, custom, false, out, hidden);
        }
    }
}

fn valid_sels(ctx: &mut Ctx, s: &Schema, d: &ExecutableDocument, input: &str, set: &ex::SelectionSet, seen: &mut HashSet<String>, vars: &mut BTreeSet<String>, hidden: &mut BTreeSet<String>) {
    for sel in &set.selections {
        match sel {
            ex::Selection::Field(f) => {
                dirs_vars(s, &f.directives, vars, hidden);
                for a in &f.arguments {
                    let custom = f.definition.arguments.iter().find(|x| x.name == a.name).is_some_and(|x| is_custom_scalar(s, x.ty.inner_named_type().as_str()));
                    value_vars(&a.value, custom, false, vars, hidden);
                }
                let inner = f.definition.ty.inner_named_type();
                let comp = is_composite(s, inner.as_str());
                if comp && f.selection_set.selections.is_empty() { ctx.fail("valid-composite-without-subselection", input, &format!("valid document: field `{}` of composite type `{inner}` has no sub-selection", f.name)); }
                if !comp && !f.selection_set.selections.is_empty() { ctx.fail("valid-leaf-with-subselection", input, &format!("valid document: field `{}` of leaf type `{inner}` has a sub-selection", f.name)); }
                valid_sels(ctx, s, d, input, &f.selection_set, seen, vars, hidden);
            }
            ex::Selection::InlineFragment(i) => { dirs_vars(s, &i.directives, vars, hidden); valid_sels(ctx, s, d, input, &i.selection_set, seen, vars, hidden); }
            ex::Selection::FragmentSpread(sp) => {
                dirs_vars(s, &sp.directives, vars, hidden);
                match d.fragments.get(&sp.fragment_name) {
                    None => ctx.fail("valid-undefined-spread", input, &format!("valid document spreads undefined fragment `{}`", sp.fragment_name)),
                    Some(fr) => if seen.insert(sp.fragment_name.to_string()) { dirs_vars(s, &fr.directives, vars, hidden); valid_sels(ctx, s, d, input, &fr.selection_set, seen, vars, hidden); },
                }
            }
        }
    }
}

fn spreads_of(set: &ex::SelectionSet, out: &mut Vec<String>) {
    for sel in &set.selections {
        match sel {
            ex::Selection::Field(f) => spreads_of(&f.selection_set, out),
            ex::Selection::InlineFragment(i) => spreads_of(&i.selection_set, out),
            ex::Selection::FragmentSpread(sp) => out.push(sp.fragment_name.to_string()),
        }
    }
}

fn has_cycle(d: &ExecutableDocument) -> Option<String> {
    // colour DFS over the spread graph
    fn go(d: &ExecutableDocument, n: &str, grey: &mut Vec<String>, black: &mut HashSet<String>) -> Option<String> {
        if black.contains(n) { return None; }
        if grey.iter().any(|g| g == n) { return Some(n.to_string()); }
        let Some(fr) = d.fragments.get(n) else { return None };
        grey.push(n.to_string());
        let mut sp = vec![];
        spreads_of(&fr.selection_set, &mut sp);
        for m in sp { if let Some(c) = go(d, &m, grey, black) { return Some(c); } }
        grey.pop();
        black.insert(n.to_string());
        None
    }
    let mut black = HashSet::new();
    for n in d.fragments.keys() { if let Some(c) = go(d, n.as_str(), &mut vec![], &mut black) { return Some(c); } }
    None
}

// ---------------------------------------------------------------- one case

static DOCN: std::sync::atomic::AtomicUsize = std::sync::atomic::AtomicUsize::new(0);

fn one(ctx: &mut Ctx, views: &[View], defs: &[Def], family: &str) { one_on(ctx, views, defs, family, None) }

fn one_on(ctx: &mut Ctx, views: &[View], defs: &[Def], family: &str, only: Option<usize>) {
    let text = p20::doc_text(defs);
    let text1 = text.replace('\n', " ");
    ctx.stat(&format!("family_{family}"));
    let Ok(ast_doc) = ast::Document::parse(text.clone(), "d.graphql") else { ctx.fail("generator-syntax-error", &text1, "does not parse"); return };
    let docn = DOCN.fetch_add(1, std::sync::atomic::Ordering::Relaxed);
    for (vi, v) in views.iter().enumerate() {
        // the first schema always, each of the others for every second document (all of them for the fixed inputs)
        if let Some(o) = only { if vi != o { continue; } }
        else if vi >= 3 { continue; }
        else if vi > 0 && !family.starts_with("fixed") && (docn + vi) % 2 != 0 { continue; }
        ctx.stat(&format!("schema_{}", v.name));
        let built = catch(|| match ast_doc.to_executable(&v.schema) { Ok(d) => (d, true), Err(e) => (e.partial, false) });
        let (doc, build_ok) = match built { Ok(x) => x, Err(p) => { ctx.fail("to-executable-panic", &text1, &p); continue; } };
        if build_ok { ctx.stat("build_ok"); } else { ctx.stat("build_errors"); }
        let input = format!("[schema {}] {}", v.name, text1);
        // correspondence
        let mut it = Intern::new();
        let enc_doc = p20::e_doc(defs, &mut it);
        let enc_s = e_schema(v, &mut it);
        let dump = match catch(|| dump_doc(v, &mut it, &doc)) { Ok(d) => d, Err(p) => { ctx.fail("iterator-panic", &input, &p); continue; } };
        ctx.case("c18.typed", &[format!("={enc_s}"), format!("={enc_doc}")], &dump);
        // correspondence, variables: per operation the variables written in the arguments and directives of the fields
        // `all_fields` yields (through every fragment the operation reaches), against the model on ExecRules documents
        if family.starts_with("shared") || family == "fixedJ" || docn % 4 == 0 {
            let per_op: Vec<String> = doc.operations.iter().map(|op| {
                let mut vs = BTreeSet::new();
                let mut hidden = BTreeSet::new();
                for f in op.all_fields(&doc) {
                    for a in &f.arguments { value_vars(&a.value, false, false, &mut vs, &mut hidden); }
                    for d in f.directives.iter() { for a in &d.arguments { value_vars(&a.value, false, false, &mut vs, &mut hidden); } }
                }
                if !vs.is_empty() && doc.operations.iter().count() > 1 && !doc.fragments.is_empty() { ctx.stat("opvars_multi_operation_with_variables"); }
                format!("{}:{}", op.name.as_ref().map(|n| n.as_str()).unwrap_or("-"), vs.into_iter().collect::<Vec<_>>().join(","))
            }).collect();
            ctx.stat("opvars_cases");
            ctx.case("c18.opvars", &[crate::p17::enc_rschema(&v.schema), crate::p17::enc_rdoc(&ast_doc)], &per_op.join(";"));
        }
        // oracle: typing
        let mut n_fields = 0usize;
        for op in doc.operations.iter() {
            match v.schema.root_operation(op.operation_type) {
                Some(t) if *t == op.selection_set.ty => {}
                other => ctx.fail("typing-root-type", &input, &format!("operation is typed `{}`, the schema's root type is {:?}", op.selection_set.ty, other.map(|t| t.as_str()))),
            }
            let ty = op.selection_set.ty.to_string();
            check_sels(ctx, &v.schema, &input, &ty, &op.selection_set, &mut n_fields);
        }
        for (n, fr) in &doc.fragments {
            let tcs: Vec<&str> = defs.iter().filter_map(|d| match d { Def::Frag(f) if f.name == n.as_str() => Some(f.tc.as_str()), _ => None }).collect();
            if !tcs.contains(&fr.selection_set.ty.as_str()) {
                ctx.fail("typing-fragment-type", &input, &format!("fragment `{n}` is typed `{}`, its type condition is one of {:?}", fr.selection_set.ty, tcs));
            }
            let ty = fr.selection_set.ty.to_string();
            check_sels(ctx, &v.schema, &input, &ty, &fr.selection_set, &mut n_fields);
        }
        ctx.stat_n("fields_checked", n_fields as u64);
        if n_fields > 0 { ctx.nontrivial(&format!("{vi}|{text1}")); }
        // oracle: iterators
        for op in doc.operations.iter() {
            for all in [false, true] {
                let mut want = vec![];
                walk_spec(&doc, &op.selection_set, all, &mut HashSet::new(), &mut want);
                let mut got: Vec<(usize, String)> = if all { op.all_fields(&doc).map(fkey).collect() } else { op.root_fields(&doc).map(fkey).collect() };
                want.sort(); got.sort();
                if want != got {
                    ctx.fail(if all { "iter-all-fields" } else { "iter-root-fields" }, &input,
                        &format!("iterator yields {} fields {:?}, the recursive walk (each named fragment once) reaches {} {:?}", got.len(), got.iter().map(|x| &x.1).collect::<Vec<_>>(), want.len(), want.iter().map(|x| &x.1).collect::<Vec<_>>()));
                }
            }
        }
        // oracle: valid documents
        let valid = build_ok && catch(|| doc.clone().validate(&v.schema).is_ok()).unwrap_or(false);
        if valid {
            ctx.stat("valid_documents");
            for op in doc.operations.iter() {
                // per operation: everything the operation reaches through fragments, against ITS variable definitions
                let (mut used, mut hidden) = (BTreeSet::new(), BTreeSet::new());
                dirs_vars(&v.schema, &op.directives, &mut used, &mut hidden);
                valid_sels(ctx, &v.schema, &doc, &input, &op.selection_set, &mut HashSet::new(), &mut used, &mut hidden);
                if doc.operations.iter().count() > 1 && !doc.fragments.is_empty() && !used.is_empty() { ctx.stat("valid_multi_operation_with_fragment_variables"); }
                for u in used {
                    if !op.variables.iter().any(|vd| vd.name.as_str() == u) {
                        ctx.fail("valid-undefined-variable", &input, &format!("valid document: operation {:?} uses `${u}` without defining it", op.name.as_ref().map(|n| n.as_str())));
                    }
                }
                for u in hidden {
                    if !op.variables.iter().any(|vd| vd.name.as_str() == u) {
                        ctx.fail("valid-undefined-variable", &input, &format!("valid document: operation {:?} uses `${u}` (inside an object literal given to a custom scalar) without defining it", op.name.as_ref().map(|n| n.as_str())));
                    }
                }
            }
            for fr in doc.fragments.values() {
                let mut sp = vec![];
                spreads_of(&fr.selection_set, &mut sp);
                for n in sp { if !doc.fragments.contains_key(n.as_str()) { ctx.fail("valid-undefined-spread", &input, &format!("valid document: fragment `{}` spreads undefined `{n}`", fr.name)); } }
            }
            if let Some(c) = has_cycle(&doc) { ctx.fail("valid-cycle", &input, &format!("valid document has a fragment cycle through `{c}`")); }
        }
    }
}

// ---------------------------------------------------------------- fixed inputs

fn fld(name: &str, sub: Vec<Sel>) -> Sel { Sel::Field { alias: None, name: name.into(), dirs: vec![], args: vec![], sub } }
fn inl(tc: Option<&str>, sub: Vec<Sel>) -> Sel { Sel::Inline { tc: tc.map(|s| s.to_string()), dirs: vec![], sub } }
fn spr(f: &str) -> Sel { Sel::Spread { frag: f.into(), dirs: vec![] } }
fn q(sels: Vec<Sel>) -> Def { Def::Op(p20::Op { ty: 0, name: None, vars: vec![], dirs: vec![], sels }) }
fn op(ty: u8, name: &str, sels: Vec<Sel>) -> Def { Def::Op(p20::Op { ty, name: Some(name.into()), vars: vec![], dirs: vec![], sels }) }
fn frag(n: &str, tc: &str, sels: Vec<Sel>) -> Def { Def::Frag(p20::Frag { name: n.into(), tc: tc.into(), dirs: vec![], sels }) }

fn fixed() -> Vec<Vec<Def>> {
    let ty = || Sel::Field { alias: None, name: "__type".into(), dirs: vec![], args: vec![p20::Arg { name: "name".into(), value: p20::Val::Str("A".into()) }], sub: vec![fld("name", vec![]), fld("ofType", vec![fld("name", vec![])])] };
    vec![
        // inline fragments without type condition at every depth
        vec![q(vec![inl(None, vec![inl(None, vec![fld("a", vec![]), fld("o", vec![inl(None, vec![inl(None, vec![fld("a", vec![])])])])])])])],
        vec![q(vec![fld("u", vec![inl(None, vec![fld("__typename", vec![]), inl(Some("A"), vec![inl(None, vec![fld("b", vec![])])])])])])],
        vec![q(vec![fld("i", vec![inl(None, vec![fld("a", vec![]), fld("bb", vec![])]), inl(Some("B"), vec![inl(None, vec![fld("bb", vec![])])])])])],
        // meta-fields at allowed and disallowed places
        vec![q(vec![fld("__typename", vec![]), fld("__schema", vec![fld("types", vec![fld("name", vec![])]), fld("__typename", vec![])]), ty()])],
        vec![q(vec![fld("o", vec![fld("__schema", vec![fld("types", vec![fld("name", vec![])])]), ty(), fld("__typename", vec![])])])],
        vec![op(1, "M", vec![fld("__schema", vec![fld("types", vec![fld("name", vec![])])]), fld("__typename", vec![]), fld("m", vec![fld("a", vec![])])])],
        vec![op(2, "S", vec![fld("__typename", vec![])])],
        vec![q(vec![fld("e", vec![fld("__typename", vec![])]), fld("a", vec![fld("__typename", vec![])])])],
        vec![q(vec![fld("__typename", vec![fld("a", vec![])]), inl(Some("Query"), vec![fld("__type", vec![])])])],
        // cyclic fragments, fragments spread twice, duplicate names, undefined fragments / types / fields
        vec![q(vec![spr("F"), fld("o", vec![spr("G")]), spr("F")]), frag("F", "Query", vec![fld("a", vec![]), spr("G0")]), frag("G0", "Query", vec![fld("b", vec![]), spr("F")]), frag("G", "A", vec![fld("a", vec![]), spr("G")])],
        vec![q(vec![fld("o", vec![spr("F"), spr("F"), fld("o", vec![spr("F")])]), spr("Nope")]), frag("F", "A", vec![fld("a", vec![])]), frag("F", "B", vec![fld("bb", vec![])])],
        vec![q(vec![fld("o", vec![spr("F")])]), frag("F", "Nope", vec![fld("a", vec![])]), frag("F", "A", vec![fld("b", vec![]), fld("nope", vec![fld("a", vec![])])])],
        vec![q(vec![inl(Some("Nope"), vec![fld("a", vec![])]), fld("nope", vec![fld("a", vec![])]), fld("a", vec![fld("a", vec![])]), fld("o", vec![])])],
        vec![q(vec![fld("a", vec![])]), q(vec![fld("b", vec![])]), op(0, "N", vec![fld("e", vec![])]), op(0, "N", vec![fld("a", vec![])])],
        vec![op(0, "N", vec![fld("a", vec![])]), q(vec![fld("b", vec![])]), op(1, "M", vec![fld("m", vec![fld("a", vec![])])])],
    ]
}

const SCHEMA_J: &str = r#"
scalar JSON
directive @j(a: JSON, l: [JSON]) repeatable on FIELD | QUERY | FRAGMENT_SPREAD | INLINE_FRAGMENT | FRAGMENT_DEFINITION
type Query { j(a: JSON, l: [JSON], i: Int): Int a: Int o: A }
type A { a: Int j(a: JSON): Int o: A }
"#;

fn varg(name: &str, v: p20::Val) -> p20::Arg { p20::Arg { name: name.into(), value: v } }
fn fa(alias: &str, name: &str, args: Vec<p20::Arg>, dirs: Vec<p20::Dir>, sub: Vec<Sel>) -> Sel {
    Sel::Field { alias: Some(alias.into()), name: name.into(), dirs, args, sub }
}

/// several operations sharing fragments that use variables; `break_later`: one operation other than the first
/// does not define a variable that it reaches through a fragment
fn gen_shared(r: &mut Rng, break_later: bool) -> Vec<Def> {
    let nf = 1 + r.below(3);
    let mut counter = 0usize;
    let mut fresh = |p: &str| { counter += 1; format!("{p}{counter}") };
    let var = |r: &mut Rng| -> (String, char) { match r.below(3) { 0 => ("i0".into(), 'i'), 1 => ("i1".into(), 'i'), _ => ("b0".into(), 'b') } };
    let mut tcs: Vec<&str> = vec![];
    for _ in 0..nf { tcs.push(if r.chance(1, 2) { "Query" } else { "A" }); }
    let mut frags: Vec<p20::Frag> = vec![];
    for j in 0..nf {
        let mut sels = vec![];
        for _ in 0..1 + r.below(2) {
            let (v, k) = var(r);
            let use_dir = k == 'b' || r.chance(1, 3);
            if k == 'b' {
                sels.push(fa(&fresh("k"), "a", vec![], vec![p20::Dir { name: (*r.pick(&["skip", "include"])).into(), args: vec![varg("if", p20::Val::Var(v))] }], vec![]));
            } else if use_dir {
                sels.push(fa(&fresh("k"), "a", vec![], vec![p20::Dir { name: "c".into(), args: vec![varg(if r.chance(1, 2) { "x" } else { "l" }, if r.chance(1, 2) { p20::Val::Var(v.clone()) } else { p20::Val::List(vec![v.clone()]) })] }], vec![]));
                if let Some(Sel::Field { dirs, .. }) = sels.last_mut() { if let Some(d) = dirs.last_mut() { if d.args[0].name == "x" { d.args[0].value = p20::Val::Var(v); } else { d.args[0].value = p20::Val::List(vec![v]); } } }
            } else {
                sels.push(fa(&fresh("k"), "b", vec![varg("x", p20::Val::Var(v))], vec![], vec![]));
            }
        }
        // spread a later fragment (no cycles)
        for j2 in j + 1..nf {
            if !r.chance(1, 2) { continue; }
            let sp = Sel::Spread { frag: format!("F{j2}"), dirs: vec![] };
            if tcs[j2] == tcs[j] { sels.push(sp); } else if tcs[j2] == "A" { sels.push(fa(&fresh("k"), "o", vec![], vec![], vec![sp])); }
        }
        frags.push(p20::Frag { name: format!("F{j}"), tc: tcs[j].into(), dirs: vec![], sels });
    }
    let nops = 2 + r.below(2);
    let mut ops: Vec<p20::Op> = vec![];
    for i in 0..nops {
        let mut sels = vec![];
        for j in 0..nf {
            if !(r.chance(1, 2) || i == 0) { continue; }
            let sp = Sel::Spread { frag: format!("F{j}"), dirs: vec![] };
            if tcs[j] == "Query" { sels.push(sp); } else { sels.push(fa(&fresh("k"), "o", vec![], vec![], vec![sp])); }
        }
        if sels.is_empty() || r.chance(1, 3) { sels.push(fa(&fresh("k"), "a", vec![], vec![], vec![])); }
        ops.push(p20::Op { ty: 0, name: Some(format!("Op{i}")), vars: vec![], dirs: vec![], sels });
    }
    let victim = if break_later { 1 + r.below(nops - 1) } else { usize::MAX };
    for (i, o) in ops.iter_mut().enumerate() {
        let mut used = BTreeSet::new();
        p20::collect_vars(&frags, &o.sels, &o.dirs, &mut used);
        let mut used: Vec<String> = used.into_iter().collect();
        if i == victim && !used.is_empty() { let k = r.below(used.len()); used.remove(k); }
        for v in used { o.vars.push(p20::VarDef { ty: if v.starts_with('b') { "Boolean!".into() } else { "Int".into() }, name: v, dirs: vec![] }); }
    }
    let mut defs: Vec<Def> = ops.into_iter().map(Def::Op).collect();
    for f in frags { let at = if r.chance(1, 3) { r.below(defs.len() + 1) } else { defs.len() }; defs.insert(at, Def::Frag(f)); }
    defs
}

/// documents on the custom-scalar schema: variables inside lists and object literals given to a custom scalar
fn fixed_custom_scalar() -> Vec<Vec<Def>> {
    let j = |args: Vec<p20::Arg>| Sel::Field { alias: None, name: "j".into(), dirs: vec![], args, sub: vec![] };
    let qv = |vars: Vec<&str>, sels: Vec<Sel>| Def::Op(p20::Op { ty: 0, name: Some("Q".into()), vars: vars.into_iter().map(|v| p20::VarDef { name: v.into(), ty: "Int".into(), dirs: vec![] }).collect(), dirs: vec![], sels });
    vec![
        vec![qv(vec![], vec![j(vec![varg("a", p20::Val::Obj(vec!["nope".into()]))])])],
        vec![qv(vec![], vec![j(vec![varg("a", p20::Val::List(vec!["nope".into()]))])])],
        vec![qv(vec![], vec![j(vec![varg("a", p20::Val::Var("nope".into()))])])],
        vec![qv(vec![], vec![j(vec![varg("l", p20::Val::List(vec!["nope".into()]))])])],
        vec![qv(vec!["i0"], vec![j(vec![varg("i", p20::Val::Var("i0".into())), varg("a", p20::Val::Obj(vec!["nope".into()]))])])],
        vec![qv(vec!["i0"], vec![j(vec![varg("i", p20::Val::Var("i0".into()))]), Sel::Spread { frag: "F".into(), dirs: vec![] }]),
             Def::Frag(p20::Frag { name: "F".into(), tc: "Query".into(), dirs: vec![], sels: vec![Sel::Field { alias: Some("k".into()), name: "a".into(), args: vec![], sub: vec![],
                dirs: vec![p20::Dir { name: "j".into(), args: vec![varg("a", p20::Val::Obj(vec!["nope".into()]))] }] }] })],
    ]
}

// ---------------------------------------------------------------- single-fault family (generator audit G3)
//
// The random "dirty" documents break several rules at once, so a rule that is no longer enforced hides behind the
// other errors.  Here a document that VALIDATES gets exactly one fault of a class the property names — an undefined
// spread, an undefined variable, a composite field without sub-selection, a leaf field with one — at EVERY site of
// the document in turn; the implementation must reject each of them (oracles `valid-*`).

/// pre-order walk over selection sets (`want_sel` = false) or selections (`want_sel` = true); `f` runs at site `target`
fn walk_sites(set: &mut Vec<Sel>, n: &mut usize, target: usize, want_sel: bool, f: &mut dyn FnMut(&mut Vec<Sel>, Option<usize>)) -> bool {
    if !want_sel { if *n == target { f(set, None); return true; } *n += 1; }
    for i in 0..set.len() {
        if want_sel { if *n == target { f(set, Some(i)); return true; } *n += 1; }
        let child = match &mut set[i] { Sel::Field { sub, .. } | Sel::Inline { sub, .. } => Some(sub), Sel::Spread { .. } => None };
        if let Some(sub) = child { if !sub.is_empty() && walk_sites(sub, n, target, want_sel, f) { return true; } }
    }
    false
}

/// apply `f` at site `target` of the document (subscriptions are left alone: one root field only); returns the number
/// of sites when `target` is out of range
fn at_site(defs: &mut [Def], target: usize, want_sel: bool, f: &mut dyn FnMut(&mut Vec<Sel>, Option<usize>)) -> Result<(), usize> {
    let mut n = 0usize;
    for d in defs.iter_mut() {
        let sels = match d { Def::Op(o) if o.ty != 2 => &mut o.sels, Def::Frag(fr) => &mut fr.sels, _ => continue };
        if walk_sites(sels, &mut n, target, want_sel, f) { return Ok(()); }
    }
    Err(n)
}

fn undef_var_dir(variant: usize) -> p20::Dir {
    // 0: `@skip(if: $v)`; 1–4: `@c` with the variable in a list, in an object, in an object inside a list, in a nested list
    // (never 0 for `variant = 1 + k % 4`: definitions take no `@skip`)
    match variant % 5 {
        0 => p20::Dir { name: "skip".into(), args: vec![varg("if", p20::Val::Var("undef9".into()))] },
        1 => p20::Dir { name: "c".into(), args: vec![varg("l", p20::Val::List(vec!["undef9".into()]))] },
        2 => p20::Dir { name: "c".into(), args: vec![varg("o", p20::Val::Obj(vec!["undef9".into()]))] },
        3 => p20::Dir { name: "c".into(), args: vec![varg("d", p20::Val::Deep(vec!["undef9".into()]))] },
        _ => p20::Dir { name: "c".into(), args: vec![varg("d", p20::Val::Deep(vec!["_".into(), "undef9".into()]))] },
    }
}

fn single_fault_family(ctx: &mut Ctx, views: &[View], max_docs: usize) {
    let mut produced = 0usize;
    let mut bases = 0usize;
    let mut attempts = 0usize;
    while produced < max_docs && attempts < 20 * max_docs {
        attempts += 1;
        let base = p20::gen_doc(&mut ctx.rng, true);
        let text = p20::doc_text(&base);
        if !ExecutableDocument::parse_and_validate(&views[0].schema, text, "b.graphql").is_ok() { continue; }
        bases += 1;
        ctx.stat("fault_base_documents");
        // 0 undefined spread, 1 leaf with sub-selection, 2 composite without sub-selection, 3 undefined variable at a selection
        for kind in 0..4usize {
            let want_sel = kind != 0;
            let n_sites = at_site(&mut base.clone(), usize::MAX, want_sel, &mut |_, _| {}).unwrap_err();
            for site in 0..n_sites {
                let mut d = base.clone();
                let mut applied = false;
                let variant = site + bases;
                let _ = at_site(&mut d, site, want_sel, &mut |set, pos| {
                    match (kind, pos) {
                        (0, None) => {
                            let sp = Sel::Spread { frag: "Undef9".into(), dirs: if variant % 3 == 1 { vec![p20::Dir { name: "skip".into(), args: vec![varg("if", p20::Val::Bool(false))] }] } else { vec![] } };
                            let new = if variant % 3 == 2 { Sel::Inline { tc: None, dirs: vec![], sub: vec![sp] } } else { sp };
                            let at = variant % (set.len() + 1);
                            set.insert(at, new);
                            applied = true;
                        }
                        (1, Some(i)) | (2, Some(i)) => {
                            if let Sel::Field { name, args, sub, .. } = &set[i] {
                                let leaf = sub.is_empty();
                                if (kind == 1) != leaf { return; }
                                let new_sub = if leaf { vec![fld("__typename", vec![])] } else { vec![] };
                                let copy = Sel::Field { alias: Some("zq".into()), name: name.clone(), dirs: vec![], args: args.clone(), sub: new_sub };
                                set.insert(i + 1, copy);
                                applied = true;
                            }
                        }
                        (3, Some(i)) => {
                            match &mut set[i] { Sel::Field { dirs, .. } | Sel::Inline { dirs, .. } | Sel::Spread { dirs, .. } => dirs.push(undef_var_dir(variant)) }
                            applied = true;
                        }
                        _ => {}
                    }
                });
                if !applied { continue; }
                produced += 1;
                one_on(ctx, views, &d, ["fault_undefined_spread", "fault_leaf_with_subselection", "fault_composite_without_subselection", "fault_undefined_variable"][kind], Some(0));
            }
        }
        // the undefined variable in the directives of every definition
        for di in 0..base.len() {
            let mut d = base.clone();
            match &mut d[di] { Def::Op(o) if o.ty == 0 => o.dirs.push(undef_var_dir(1 + (di + bases) % 4)), Def::Frag(f) => f.dirs.push(undef_var_dir(1 + (di + bases) % 4)), _ => continue }
            produced += 1;
            one_on(ctx, views, &d, "fault_undefined_variable", Some(0));
        }
    }
}

pub fn run(ctx: &mut Ctx) {
    let mut views = vec![];
    for (n, src) in [("A", p20::SCHEMA_A), ("B", p20::SCHEMA_B), ("C", p20::SCHEMA_C), ("J", SCHEMA_J)] {
        match make_view(n, src) { Ok(v) => views.push(v), Err(e) => { ctx.fail("generator-schema-invalid", n, &e.replace('\n', " ")); return; } }
    }
    for d in fixed_custom_scalar() { one_on(ctx, &views, &d, "fixedJ", Some(3)); }
    // fragment graphs: acyclic entry chains leading into a cycle (the cycle rule must not depend on which fragment is validated first)
    let n_cyc = if ctx.thorough { 3_000 } else { 300 };
    for d in p20::cycle_graph_family(&mut ctx.rng, n_cyc) { one_on(ctx, &views, &d, "cyclegraph", Some(0)); }
    // several operations sharing fragments that use variables (validation of a fragment is per operation)
    let n_shared = if ctx.thorough { 12_000 } else { 1_500 };
    for i in 0..n_shared {
        let brk = i % 3 == 2;
        let d = gen_shared(&mut ctx.rng, brk);
        one_on(ctx, &views, &d, if brk { "shared_broken" } else { "shared" }, Some(if i % 5 == 4 { 2 } else { 0 }));
    }
    for d in fixed() { one(ctx, &views, &d, "fixed"); }
    for d in p20::fixed() { one(ctx, &views, &d, "fixed20"); }
    let n = if ctx.thorough { 60_000 } else { 5_000 };
    for i in 0..n {
        let clean = i % 2 == 0;
        let d = p20::gen_doc(&mut ctx.rng, clean);
        one(ctx, &views, &d, if clean { "clean" } else { "dirty" });
    }
    let max_faults = if ctx.thorough { 25_000 } else { 2_500 };
    single_fault_family(ctx, &views, max_faults);
}
