//! The October 2021 lexical grammar as a direct longest-match reference lexer (written from the
//! spec's Appendix B, independent of apollo-parser).  Returns None when the input is not a sequence
//! of lexical tokens.  `strict_source_char`: reject C0 controls other than TAB/LF/CR anywhere.
#[derive(Debug, Clone, PartialEq)]
pub enum SK { Ws, Comment, Comma, Punct(&'static str), Name, Int, Float, Str }

fn is_name_start(c: char) -> bool { c == '_' || c.is_ascii_alphabetic() }
fn is_name_cont(c: char) -> bool { c == '_' || c.is_ascii_alphanumeric() }
fn source_char(c: char, strict: bool) -> bool {
    if !strict { return true; }
    matches!(c, '\u{9}' | '\u{A}' | '\u{D}') || c >= '\u{20}'
}

/// longest token at the start of `s`: (kind, length in chars)
fn token(s: &[char], strict: bool) -> Option<(SK, usize)> {
    let c = *s.first()?;
    match c {
        '\u{FEFF}' | '\t' | ' ' | '\n' => Some((SK::Ws, 1)),
        '\r' => Some((SK::Ws, if s.get(1) == Some(&'\n') { 2 } else { 1 })),
        ',' => Some((SK::Comma, 1)),
        '#' => {
            let mut i = 1;
            while i < s.len() && s[i] != '\n' && s[i] != '\r' { if !source_char(s[i], strict) { return None; } i += 1; }
            Some((SK::Comment, i))
        }
        '!' => Some((SK::Punct("!"), 1)), '$' => Some((SK::Punct("$"), 1)), '&' => Some((SK::Punct("&"), 1)),
        '(' => Some((SK::Punct("("), 1)), ')' => Some((SK::Punct(")"), 1)), ':' => Some((SK::Punct(":"), 1)),
        '=' => Some((SK::Punct("="), 1)), '@' => Some((SK::Punct("@"), 1)), '[' => Some((SK::Punct("["), 1)),
        ']' => Some((SK::Punct("]"), 1)), '{' => Some((SK::Punct("{"), 1)), '|' => Some((SK::Punct("|"), 1)),
        '}' => Some((SK::Punct("}"), 1)),
        '.' => if s.get(1) == Some(&'.') && s.get(2) == Some(&'.') { Some((SK::Punct("..."), 3)) } else { None },
        '"' => string(s, strict),
        c if is_name_start(c) => { let mut i = 1; while i < s.len() && is_name_cont(s[i]) { i += 1; } Some((SK::Name, i)) }
        c if c == '-' || c.is_ascii_digit() => number(s),
        _ => None,
    }
}

fn number(s: &[char]) -> Option<(SK, usize)> {
    let mut i = 0;
    if s.get(i) == Some(&'-') { i += 1; }
    match s.get(i) {
        Some('0') => i += 1,
        Some(c) if c.is_ascii_digit() => { while i < s.len() && s[i].is_ascii_digit() { i += 1; } }
        _ => return None,
    }
    let mut kind = SK::Int;
    if s.get(i) == Some(&'.') && s.get(i + 1).is_some_and(|c| c.is_ascii_digit()) {
        i += 1; while i < s.len() && s[i].is_ascii_digit() { i += 1; }
        kind = SK::Float;
    }
    if matches!(s.get(i), Some('e') | Some('E')) {
        let mut j = i + 1;
        if matches!(s.get(j), Some('+') | Some('-')) { j += 1; }
        if s.get(j).is_some_and(|c| c.is_ascii_digit()) {
            while j < s.len() && s[j].is_ascii_digit() { j += 1; }
            i = j; kind = SK::Float;
        }
    }
    // lookahead restriction: not followed by Digit, `.`, NameStart
    if let Some(&n) = s.get(i) { if n.is_ascii_digit() || n == '.' || is_name_start(n) { return None; } }
    Some((kind, i))
}

fn string(s: &[char], strict: bool) -> Option<(SK, usize)> {
    if s.get(1) == Some(&'"') && s.get(2) == Some(&'"') {
        // block string
        let mut i = 3;
        loop {
            if i >= s.len() { return None; }
            if s[i] == '"' && s.get(i + 1) == Some(&'"') && s.get(i + 2) == Some(&'"') { return Some((SK::Str, i + 3)); }
            if s[i] == '\\' && s.get(i + 1) == Some(&'"') && s.get(i + 2) == Some(&'"') && s.get(i + 3) == Some(&'"') { i += 4; continue; }
            if !source_char(s[i], strict) { return None; }
            i += 1;
        }
    }
    if s.get(1) == Some(&'"') { return Some((SK::Str, 2)); } // `""` [lookahead != `"`] (checked above)
    let mut i = 1;
    loop {
        let c = *s.get(i)?;
        match c {
            '"' => return Some((SK::Str, i + 1)),
            '\n' | '\r' => return None,
            '\\' => {
                match s.get(i + 1)? {
                    'u' => {
                        let mut v = 0u32;
                        for k in 0..4 { let h = s.get(i + 2 + k)?; v = v * 16 + h.to_digit(16)?; }
                        // documented exception: surrogate code points are rejected (no pairs, no braces)
                        if (0xD800..=0xDFFF).contains(&v) { return None; }
                        i += 6;
                    }
                    '"' | '\\' | '/' | 'b' | 'f' | 'n' | 'r' | 't' => i += 2,
                    _ => return None,
                }
            }
            c => { if !source_char(c, strict) { return None; } i += 1; }
        }
    }
}

/// All tokens (kind, char start, char len), or None if some position has no token.
pub fn spec_lex(src: &str, strict: bool) -> Option<Vec<(SK, usize, usize)>> {
    let cs: Vec<char> = src.chars().collect();
    let mut out = vec![];
    let mut i = 0;
    while i < cs.len() {
        let (k, n) = token(&cs[i..], strict)?;
        out.push((k, i, n));
        i += n;
    }
    Some(out)
}
