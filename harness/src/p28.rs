//! C28 — variable coercion follows the specification.
//!
//! Stream `c28.cv`: (schema description, variable definitions, JSON variables) ↦ `ok <json>` | `err`.
//! The real code is `apollo_compiler::request::coerce_variable_values` on a schema/operation that went
//! through full validation.  The oracle is a reference coercer written from the GraphQL specification
//! (October 2021 §6.1.2 CoerceVariableValues, §3.5–§3.12 input coercion) with apollo-compiler's documented
//! scalar rules; it never looks at apollo's `Schema`, only at the generator's own description.
use crate::util::*;
use apollo_compiler::{ExecutableDocument, Schema};
use serde_json_bytes::Value as SJ;

// ───────────────────────── data ─────────────────────────

#[derive(Clone, Debug, PartialEq)]
pub enum Ty {
    Named(String),
    NonNullNamed(String),
    List(Box<Ty>),
    NonNullList(Box<Ty>),
}

/// JSON without floats-as-floats: a number is an integer or a float *text*.
#[derive(Clone, Debug, PartialEq)]
pub enum JV {
    Null,
    Bool(bool),
    Int(i128),
    Float(String),
    Str(String),
    Arr(Vec<JV>),
    Obj(Vec<(String, JV)>),
}

/// GraphQL constant literal (default values)
#[derive(Clone, Debug, PartialEq)]
pub enum Lit {
    Null,
    Bool(bool),
    Int(i128),
    Float(String),
    Str(String),
    Enum(String),
    List(Vec<Lit>),
    Obj(Vec<(String, Lit)>),
}

#[derive(Clone, Debug)]
pub struct FieldDef {
    pub name: String,
    pub ty: Ty,
    pub default: Option<Lit>,
}

#[derive(Clone, Debug)]
pub enum Kind {
    Scalar,
    Enum(Vec<String>),
    Input(Vec<FieldDef>),
}

#[derive(Clone, Debug)]
pub struct SchemaDesc {
    pub types: Vec<(String, Kind)>,
}

impl SchemaDesc {
    fn kind(&self, n: &str) -> Option<&Kind> {
        self.types.iter().find(|(k, _)| k == n).map(|(_, k)| k)
    }
}

const BUILTIN: [&str; 5] = ["Int", "Float", "String", "Boolean", "ID"];

impl Ty {
    pub(crate) fn is_non_null(&self) -> bool { matches!(self, Ty::NonNullNamed(_) | Ty::NonNullList(_)) }
    pub(crate) fn print(&self) -> String {
        match self {
            Ty::Named(n) => n.clone(),
            Ty::NonNullNamed(n) => format!("{n}!"),
            Ty::List(t) => format!("[{}]", t.print()),
            Ty::NonNullList(t) => format!("[{}]!", t.print()),
        }
    }
    pub(crate) fn enc(&self, out: &mut Vec<String>) {
        match self {
            Ty::Named(n) => out.push(format!("n{n}")),
            Ty::NonNullNamed(n) => out.push(format!("N{n}")),
            Ty::List(t) => { out.push("l".into()); t.enc(out) }
            Ty::NonNullList(t) => { out.push("L".into()); t.enc(out) }
        }
    }
}

impl Lit {
    pub(crate) fn print(&self) -> String {
        match self {
            Lit::Null => "null".into(),
            Lit::Bool(b) => b.to_string(),
            Lit::Int(i) => i.to_string(),
            Lit::Float(t) => t.clone(),
            Lit::Str(s) => format!("\"{s}\""),
            Lit::Enum(e) => e.clone(),
            Lit::List(xs) => format!("[{}]", xs.iter().map(|x| x.print()).collect::<Vec<_>>().join(", ")),
            Lit::Obj(kvs) => format!("{{{}}}", kvs.iter().map(|(k, v)| format!("{k}: {}", v.print())).collect::<Vec<_>>().join(", ")),
        }
    }
    pub(crate) fn enc(&self, out: &mut Vec<String>) {
        match self {
            Lit::Null => out.push("z".into()),
            Lit::Bool(b) => out.push(if *b { "t" } else { "f" }.into()),
            Lit::Int(i) => out.push(format!("i{i}")),
            Lit::Float(t) => out.push(format!("d{t}")),
            Lit::Str(s) => out.push(format!("s{s}")),
            Lit::Enum(e) => out.push(format!("e{e}")),
            Lit::List(xs) => { out.push(format!("a{}", xs.len())); for x in xs { x.enc(out) } }
            Lit::Obj(kvs) => { out.push(format!("o{}", kvs.len())); for (k, v) in kvs { out.push(format!("k{k}")); v.enc(out) } }
        }
    }
    /// the JSON form of a constant literal (what a constant *means*, spec §2.9)
    pub(crate) fn to_jv(&self) -> JV {
        match self {
            Lit::Null => JV::Null,
            Lit::Bool(b) => JV::Bool(*b),
            Lit::Int(i) => JV::Int(*i),
            Lit::Float(t) => JV::Float(t.clone()),
            Lit::Str(s) | Lit::Enum(s) => JV::Str(s.clone()),
            Lit::List(xs) => JV::Arr(xs.iter().map(|x| x.to_jv()).collect()),
            Lit::Obj(kvs) => JV::Obj(kvs.iter().map(|(k, v)| (k.clone(), v.to_jv())).collect()),
        }
    }
}

impl JV {
    pub(crate) fn json_text(&self) -> String {
        match self {
            JV::Null => "null".into(),
            JV::Bool(b) => b.to_string(),
            JV::Int(i) => i.to_string(),
            JV::Float(t) => t.clone(),
            JV::Str(s) => format!("\"{s}\""),
            JV::Arr(xs) => format!("[{}]", xs.iter().map(|x| x.json_text()).collect::<Vec<_>>().join(",")),
            JV::Obj(kvs) => format!("{{{}}}", kvs.iter().map(|(k, v)| format!("\"{k}\":{}", v.json_text())).collect::<Vec<_>>().join(",")),
        }
    }
    pub(crate) fn enc(&self, out: &mut Vec<String>) {
        match self {
            JV::Null => out.push("z".into()),
            JV::Bool(b) => out.push(if *b { "t" } else { "f" }.into()),
            JV::Int(i) => out.push(format!("i{i}")),
            JV::Float(t) => out.push(format!("d{t}")),
            JV::Str(s) => out.push(format!("s{s}")),
            JV::Arr(xs) => { out.push(format!("a{}", xs.len())); for x in xs { x.enc(out) } }
            JV::Obj(kvs) => { out.push(format!("o{}", kvs.len())); for (k, v) in kvs { out.push(format!("k{k}")); v.enc(out) } }
        }
    }
    /// keys sorted at every level (hash/insertion order is not the subject of C28)
    pub(crate) fn sorted(&self) -> JV {
        match self {
            JV::Arr(xs) => JV::Arr(xs.iter().map(|x| x.sorted()).collect()),
            JV::Obj(kvs) => {
                let mut v: Vec<(String, JV)> = kvs.iter().map(|(k, v)| (k.clone(), v.sorted())).collect();
                v.sort_by(|a, b| a.0.cmp(&b.0));
                JV::Obj(v)
            }
            x => x.clone(),
        }
    }
    pub(crate) fn from_sj(v: &SJ) -> JV {
        match v {
            SJ::Null => JV::Null,
            SJ::Bool(b) => JV::Bool(*b),
            SJ::Number(n) => {
                if let Some(i) = n.as_i64() { JV::Int(i as i128) }
                else if let Some(u) = n.as_u64() { JV::Int(u as i128) }
                else { JV::Float(n.to_string()) }
            }
            SJ::String(s) => JV::Str(s.as_str().to_string()),
            SJ::Array(xs) => JV::Arr(xs.iter().map(JV::from_sj).collect()),
            SJ::Object(m) => JV::Obj(m.iter().map(|(k, v)| (k.as_str().to_string(), JV::from_sj(v))).collect()),
        }
    }
    pub(crate) fn to_sj(&self) -> SJ {
        serde_json::from_str::<SJ>(&self.json_text()).expect("generated JSON parses")
    }
    pub(crate) fn depth(&self) -> usize {
        match self {
            JV::Arr(xs) => 1 + xs.iter().map(|x| x.depth()).max().unwrap_or(0),
            JV::Obj(kvs) => 1 + kvs.iter().map(|(_, x)| x.depth()).max().unwrap_or(0),
            _ => 0,
        }
    }
}

pub(crate) fn toks(v: Vec<String>) -> String { format!("={}", v.join(" ")) }

#[derive(Clone, Debug)]
pub struct VarDef {
    pub name: String,
    pub ty: Ty,
    pub default: Option<Lit>,
}

fn enc_schema(sd: &SchemaDesc) -> String {
    let mut out = vec![sd.types.len().to_string()];
    for (n, k) in &sd.types {
        match k {
            Kind::Scalar => out.push(format!("S{n}")),
            Kind::Enum(vs) => { out.push(format!("E{n}")); out.push(vs.len().to_string()); for v in vs { out.push(format!("v{v}")) } }
            Kind::Input(fs) => {
                out.push(format!("I{n}"));
                out.push(fs.len().to_string());
                for f in fs {
                    out.push(format!("f{}", f.name));
                    f.ty.enc(&mut out);
                    match &f.default { None => out.push("-".into()), Some(d) => { out.push("=".into()); d.enc(&mut out) } }
                }
            }
        }
    }
    toks(out)
}

fn enc_vars(vs: &[VarDef]) -> String {
    let mut out = vec![vs.len().to_string()];
    for v in vs {
        out.push(format!("v{}", v.name));
        v.ty.enc(&mut out);
        match &v.default { None => out.push("-".into()), Some(d) => { out.push("=".into()); d.enc(&mut out) } }
    }
    toks(out)
}

fn sdl(sd: &SchemaDesc, vars: &[VarDef]) -> String {
    let mut s = String::new();
    for (n, k) in &sd.types {
        match k {
            Kind::Scalar => s.push_str(&format!("scalar {n}\n")),
            Kind::Enum(vs) => s.push_str(&format!("enum {n} {{ {} }}\n", vs.join(" "))),
            Kind::Input(fs) => {
                s.push_str(&format!("input {n} {{\n"));
                for f in fs {
                    s.push_str(&format!("  {}: {}", f.name, f.ty.print()));
                    if let Some(d) = &f.default { s.push_str(&format!(" = {}", d.print())) }
                    s.push('\n');
                }
                s.push_str("}\n");
            }
        }
    }
    s.push_str("type Query {\n  zz: Int\n");
    for (i, v) in vars.iter().enumerate() { s.push_str(&format!("  q{i}(a: {}): Int\n", v.ty.print())) }
    s.push_str("}\n");
    s
}

fn op_text(vars: &[VarDef]) -> String {
    if vars.is_empty() { return "query { zz }".into(); }
    let mut s = String::from("query(");
    for v in vars {
        s.push_str(&format!("${}: {}", v.name, v.ty.print()));
        if let Some(d) = &v.default { s.push_str(&format!(" = {}", d.print())) }
        s.push(' ');
    }
    s.push_str(") {");
    for (i, v) in vars.iter().enumerate() { s.push_str(&format!(" q{i}(a: ${})", v.name)) }
    s.push_str(" }");
    s
}

// ───────────────────────── the specification side (independent of apollo's code) ─────────────────────────

#[derive(Clone, Copy, PartialEq)]
struct Flags {
    /// use default values as written instead of coercing them (the behaviour of finding `default-not-coerced`)
    raw_defaults: bool,
}
const SPEC: Flags = Flags { raw_defaults: false };

const MAX_SAFE_INT: i128 = (1 << 53) - 1;

/// Input coercion of `v` to `ty` (spec §3.5–§3.12).  `Err(())` = a request error.
fn spec_coerce(sd: &SchemaDesc, fl: Flags, ty: &Ty, v: &JV) -> Result<JV, ()> {
    // §3.12 Non-Null / nullable
    if *v == JV::Null {
        return if ty.is_non_null() { Err(()) } else { Ok(JV::Null) };
    }
    match ty {
        // §3.11 List: a list is coerced item-wise; anything else is a list of size one
        Ty::List(item) | Ty::NonNullList(item) => match v {
            JV::Arr(xs) => Ok(JV::Arr(xs.iter().map(|x| spec_coerce(sd, fl, item, x)).collect::<Result<_, _>>()?)),
            other => Ok(JV::Arr(vec![spec_coerce(sd, fl, item, other)?])),
        },
        Ty::Named(n) | Ty::NonNullNamed(n) => match n.as_str() {
            "Int" => match v { JV::Int(i) if (-(1i128 << 31)..(1i128 << 31)).contains(i) => Ok(v.clone()), _ => Err(()) },
            "Float" => match v {
                JV::Float(_) => Ok(v.clone()),
                JV::Int(i) if i.abs() < MAX_SAFE_INT => Ok(v.clone()),
                _ => Err(()),
            },
            "String" => match v { JV::Str(_) => Ok(v.clone()), _ => Err(()) },
            "Boolean" => match v { JV::Bool(_) => Ok(v.clone()), _ => Err(()) },
            "ID" => match v {
                JV::Str(_) => Ok(v.clone()),
                JV::Int(_) => Ok(v.clone()),
                _ => Err(()),
            },
            _ => match sd.kind(n).ok_or(())? {
                Kind::Scalar => Ok(v.clone()),
                Kind::Enum(vals) => match v { JV::Str(s) if vals.contains(s) => Ok(v.clone()), _ => Err(()) },
                Kind::Input(fields) => {
                    let JV::Obj(kvs) = v else { return Err(()) };
                    if kvs.iter().any(|(k, _)| !fields.iter().any(|f| f.name == *k)) { return Err(()); }
                    let mut out = vec![];
                    for f in fields {
                        if let Some((_, fv)) = kvs.iter().find(|(k, _)| *k == f.name) {
                            out.push((f.name.clone(), spec_coerce(sd, fl, &f.ty, fv)?));
                        } else if let Some(d) = &f.default {
                            out.push((f.name.clone(), spec_default(sd, fl, &f.ty, d)?));
                        } else if f.ty.is_non_null() {
                            return Err(());
                        }
                    }
                    Ok(JV::Obj(out))
                }
            },
        },
    }
}

fn spec_default(sd: &SchemaDesc, fl: Flags, ty: &Ty, d: &Lit) -> Result<JV, ()> {
    if fl.raw_defaults { Ok(d.to_jv()) } else { spec_coerce(sd, fl, ty, &d.to_jv()) }
}

/// CoerceVariableValues (spec §6.1.2)
fn spec_coerce_vars(sd: &SchemaDesc, fl: Flags, vars: &[VarDef], values: &[(String, JV)]) -> Result<JV, ()> {
    let mut out = vec![];
    for vd in vars {
        let provided = values.iter().find(|(k, _)| *k == vd.name).map(|(_, v)| v);
        match (provided, &vd.default) {
            (None, Some(d)) => out.push((vd.name.clone(), spec_default(sd, fl, &vd.ty, d)?)),
            (None, None) => if vd.ty.is_non_null() { return Err(()) },
            (Some(v), _) => out.push((vd.name.clone(), spec_coerce(sd, fl, &vd.ty, v)?)),
        }
    }
    Ok(JV::Obj(out))
}

/// "conforms to its declared type": what a coerced value of type `ty` looks like.
fn conforms(sd: &SchemaDesc, ty: &Ty, v: &JV) -> bool {
    if *v == JV::Null { return !ty.is_non_null(); }
    match ty {
        Ty::List(item) | Ty::NonNullList(item) => match v { JV::Arr(xs) => xs.iter().all(|x| conforms(sd, item, x)), _ => false },
        Ty::Named(n) | Ty::NonNullNamed(n) => match n.as_str() {
            "Int" => matches!(v, JV::Int(i) if (-(1i128 << 31)..(1i128 << 31)).contains(i)),
            "Float" => matches!(v, JV::Float(_)) || matches!(v, JV::Int(i) if i.abs() < MAX_SAFE_INT),
            "String" => matches!(v, JV::Str(_)),
            "Boolean" => matches!(v, JV::Bool(_)),
            "ID" => matches!(v, JV::Str(_) | JV::Int(_)),
            _ => match sd.kind(n) {
                None => false,
                Some(Kind::Scalar) => true,
                Some(Kind::Enum(vals)) => matches!(v, JV::Str(s) if vals.contains(s)),
                Some(Kind::Input(fields)) => match v {
                    JV::Obj(kvs) => {
                        kvs.iter().all(|(k, _)| fields.iter().any(|f| f.name == *k))
                            && fields.iter().all(|f| match kvs.iter().find(|(k, _)| *k == f.name) {
                                Some((_, fv)) => conforms(sd, &f.ty, fv),
                                None => f.default.is_none() && !f.ty.is_non_null(),
                            })
                    }
                    _ => false,
                },
            },
        },
    }
}

// ───────────────────────── running the real code ─────────────────────────

struct Compiled {
    schema: apollo_compiler::validation::Valid<Schema>,
    doc: apollo_compiler::validation::Valid<ExecutableDocument>,
}

fn compile(sd: &SchemaDesc, vars: &[VarDef]) -> Result<Compiled, String> {
    let schema = Schema::parse_and_validate(sdl(sd, vars), "s.graphql").map_err(|e| format!("schema: {}", e.errors))?;
    let doc = ExecutableDocument::parse_and_validate(&schema, op_text(vars), "q.graphql").map_err(|e| format!("operation: {}", e.errors))?;
    Ok(Compiled { schema, doc })
}

fn run_impl(c: &Compiled, values: &[(String, JV)]) -> Result<JV, ()> {
    let op = c.doc.operations.get(None).expect("one operation");
    let SJ::Object(map) = JV::Obj(values.to_vec()).to_sj() else { unreachable!() };
    match apollo_compiler::request::coerce_variable_values(&c.schema, op, &map) {
        Ok(m) => Ok(JV::from_sj(&SJ::Object(m.into_inner()))),
        Err(_) => Err(()),
    }
}

fn show(r: &Result<JV, ()>) -> String {
    match r { Ok(v) => { let mut t = vec!["ok".to_string()]; v.sorted().enc(&mut t); t.join(" ") } Err(()) => "err".into() }
}

fn kind_tag(sd: &SchemaDesc, ty: &Ty) -> String {
    match ty {
        Ty::List(t) | Ty::NonNullList(t) => format!("list-of-{}", kind_tag(sd, t)),
        Ty::Named(n) | Ty::NonNullNamed(n) => {
            if BUILTIN.contains(&n.as_str()) { n.clone() } else {
                match sd.kind(n) { Some(Kind::Scalar) => "custom".into(), Some(Kind::Enum(_)) => "enum".into(), Some(Kind::Input(_)) => "input".into(), None => "undefined".into() }
            }
        }
    }
}

fn one(ctx: &mut Ctx, sd: &SchemaDesc, vars: &[VarDef], c: &Compiled, values: &[(String, JV)]) {
    let input = format!("{} || {} || {}", sdl(sd, vars).replace('\n', " "), op_text(vars), JV::Obj(values.to_vec()).json_text());
    let got = match catch(|| run_impl(c, values)) {
        Ok(r) => r,
        Err(p) => { ctx.fail("coercion-panics", &input, &p); return; }
    };
    let want = spec_coerce_vars(sd, SPEC, vars, values);
    let got_s = show(&got);
    let want_s = show(&want);
    for v in vars { ctx.stat(&format!("var_kind:{}", kind_tag(sd, &v.ty).replace("list-of-list-of-", "list2-of-"))); }
    ctx.stat(if got.is_ok() { "impl_ok" } else { "impl_err" });
    if got_s != want_s {
        // which documented deviation (if any) explains the difference?
        let alt = |fl: Flags| show(&spec_coerce_vars(sd, fl, vars, values)) == got_s;
        let key = if alt(Flags { raw_defaults: true }) { "default-not-coerced" }
            else if got.is_ok() && want.is_err() { "coercion-accepts-invalid" }
            else if got.is_err() && want.is_ok() { "coercion-rejects-valid" }
            else { "coercion-wrong-value" };
        ctx.fail(key, &input, &format!("coerce_variable_values = {got_s}; CoerceVariableValues of the specification = {want_s}"));
    } else if let Ok(JV::Obj(kvs)) = &got {
        // second, direct statement of the property on the result
        for vd in vars {
            let provided = values.iter().any(|(k, _)| *k == vd.name);
            let present = kvs.iter().find(|(k, _)| *k == vd.name);
            if present.is_some() != (provided || vd.default.is_some()) {
                ctx.fail("coercion-wrong-keys", &input, &format!("variable {} provided={provided} default={} but present={}", vd.name, vd.default.is_some(), present.is_some()));
            }
            if let Some((_, v)) = present {
                if !conforms(sd, &vd.ty, v) {
                    ctx.fail("coercion-result-does-not-conform", &input, &format!("variable {} : {} got {}", vd.name, vd.ty.print(), v.json_text()));
                }
            }
        }
        if kvs.iter().any(|(k, _)| !vars.iter().any(|v| v.name == *k)) {
            ctx.fail("coercion-wrong-keys", &input, "result has a key that is not a declared variable");
        }
        ctx.nontrivial(&format!("{}|{}", enc_vars(vars), show(&got)));
    } else {
        ctx.nontrivial(&format!("{}|{}", enc_vars(vars), JV::Obj(values.to_vec()).json_text()));
    }
    let mut vt = vec![];
    JV::Obj(values.to_vec()).enc(&mut vt);
    ctx.case("c28.cv", &[enc_schema(sd), enc_vars(vars), toks(vt)], &got_s);
}

// ───────────────────────── generators ─────────────────────────

fn int_atoms() -> Vec<i128> {
    vec![
        0, 1, -1, 42,
        (1 << 31) - 1, 1 << 31, -(1 << 31), -(1 << 31) - 1,
        // ±(2^53−1) itself is left out on purpose: the documented bound ("maximum safe integer") can be read either way there
        (1 << 53) - 2, 1 << 53, -((1 << 53) - 2), -(1 << 53),
        i64::MAX as i128, i64::MIN as i128, i64::MAX as i128 + 1, u64::MAX as i128,
    ]
}
/// float texts that serde_json prints back unchanged
const FLOAT_ATOMS: [&str; 6] = ["1.5", "-0.25", "3.0", "1e+100", "-1e+100", "2147483648.5"];
const STR_ATOMS: [&str; 11] = ["", "1", "abc", "RED", "GREEN", "1.5", "true", "red", "Red", "BLUE", "REDGREEN"];

fn atoms() -> Vec<JV> {
    let mut v = vec![JV::Null, JV::Bool(true), JV::Bool(false)];
    v.extend(int_atoms().into_iter().map(JV::Int));
    v.extend(FLOAT_ATOMS.iter().map(|t| JV::Float(t.to_string())));
    v.extend(STR_ATOMS.iter().map(|t| JV::Str(t.to_string())));
    v
}

fn gen_atom(rng: &mut Rng) -> JV {
    let a = atoms();
    match rng.below(10) {
        0 => JV::Int(rng.below(7) as i128 - 3),
        1 => {
            // around the boundaries
            let b = *rng.pick(&[1i128 << 31, -(1i128 << 31), 1i128 << 53, -(1i128 << 53), 1i128 << 63, -(1i128 << 63)]);
            let mut z = b + rng.below(7) as i128 - 3;
            if z.abs() == MAX_SAFE_INT { z += 1; }
            if z > u64::MAX as i128 { z = u64::MAX as i128 }
            if z < i64::MIN as i128 { z = i64::MIN as i128 }
            JV::Int(z)
        }
        _ => rng.pick(&a).clone(),
    }
}

fn gen_json_random(rng: &mut Rng, depth: usize, keys: &[String]) -> JV {
    let k = rng.below(10);
    if depth == 0 || k < 5 { return gen_atom(rng); }
    if k < 7 {
        let n = rng.below(4);
        JV::Arr((0..n).map(|_| gen_json_random(rng, depth - 1, keys)).collect())
    } else {
        let mut out: Vec<(String, JV)> = vec![];
        for key in keys { if rng.chance(1, 2) { out.push((key.clone(), gen_json_random(rng, depth - 1, keys))); } }
        if rng.chance(1, 8) { out.push(("unknown".into(), gen_atom(rng))); }
        JV::Obj(out)
    }
}

fn names_of(sd: &SchemaDesc) -> Vec<String> {
    let mut v: Vec<String> = BUILTIN.iter().map(|s| s.to_string()).collect();
    v.extend(sd.types.iter().map(|(n, _)| n.clone()));
    v
}

/// a type reference over `names`; `strict_ok(name)` tells whether a non-null *singular* reference is allowed
fn gen_ty(rng: &mut Rng, names: &[String], depth: usize, singular_nonnull_ok: &dyn Fn(&str) -> bool) -> Ty {
    if depth > 0 && rng.chance(2, 5) {
        let inner = gen_ty(rng, names, depth - 1, &|_| true);
        return if rng.chance(1, 2) { Ty::List(Box::new(inner)) } else { Ty::NonNullList(Box::new(inner)) };
    }
    let n = rng.pick(names).clone();
    if rng.chance(1, 2) && singular_nonnull_ok(&n) { Ty::NonNullNamed(n) } else { Ty::Named(n) }
}

/// JSON value that the specification accepts for `ty` (used as the starting point of mutations)
fn gen_json_valid(rng: &mut Rng, sd: &SchemaDesc, ty: &Ty, depth: usize) -> JV {
    if !ty.is_non_null() && (depth == 0 || rng.chance(1, 8)) { return JV::Null; }
    match ty {
        Ty::List(item) | Ty::NonNullList(item) => {
            if depth > 0 && rng.chance(1, 4) {
                let v = gen_json_valid(rng, sd, item, depth - 1);
                if v != JV::Null && !matches!(v, JV::Arr(_)) { return v; } // single value, to be wrapped
                return JV::Arr(vec![v]);
            }
            let n = if depth == 0 { 0 } else { rng.below(3) };
            JV::Arr((0..n).map(|_| gen_json_valid(rng, sd, item, depth - 1)).collect())
        }
        Ty::Named(n) | Ty::NonNullNamed(n) => match n.as_str() {
            "Int" => JV::Int(*rng.pick(&[0, 1, -1, 42, (1i128 << 31) - 1, -(1i128 << 31)])),
            "Float" => if rng.chance(1, 2) { JV::Float(rng.pick(&FLOAT_ATOMS).to_string()) } else { JV::Int(*rng.pick(&[0, 7, -7, (1i128 << 53) - 2, -((1i128 << 53) - 2), 1i128 << 31])) },
            "String" => JV::Str(rng.pick(&STR_ATOMS).to_string()),
            "Boolean" => JV::Bool(rng.chance(1, 2)),
            "ID" => if rng.chance(1, 2) { JV::Str(rng.pick(&STR_ATOMS).to_string()) } else { JV::Int(*rng.pick(&[0, 5, -5, 1i128 << 40, i64::MAX as i128, i64::MIN as i128])) },
            _ => match sd.kind(n).expect("defined") {
                Kind::Scalar => gen_json_random(rng, 2, &["a".to_string(), "b".to_string()]),
                Kind::Enum(vs) => JV::Str(rng.pick(vs).clone()),
                Kind::Input(fields) => {
                    let mut out = vec![];
                    for f in fields {
                        let required = f.ty.is_non_null() && f.default.is_none();
                        if required || (depth > 0 && rng.chance(3, 5)) {
                            out.push((f.name.clone(), gen_json_valid(rng, sd, &f.ty, depth.saturating_sub(1))));
                        }
                    }
                    // provided order is independent of declaration order
                    if out.len() > 1 && rng.chance(1, 2) { out.reverse(); }
                    JV::Obj(out)
                }
            },
        },
    }
}

/// a constant literal valid for `ty` (validation accepts it)
fn gen_lit_valid(rng: &mut Rng, sd: &SchemaDesc, ty: &Ty, depth: usize) -> Lit { gen_lit_valid_lim(rng, sd, ty, depth, usize::MAX) }

fn input_index(n: &str) -> Option<usize> {
    if n.len() >= 2 && n.starts_with('I') { n[1..].parse().ok() } else { None }
}

/// `limit`: no object literal of an input type `I<k>` with k ≥ limit (defaults of `I<i>` only mention lower-numbered
/// input types, so that coercing a default — which fills in further defaults — is well-founded)
fn gen_lit_valid_lim(rng: &mut Rng, sd: &SchemaDesc, ty: &Ty, depth: usize, limit: usize) -> Lit {
    if input_index(inner_name(ty)).is_some_and(|k| k >= limit) {
        return if !ty.is_non_null() { Lit::Null } else { Lit::List(vec![]) };
    }
    if !ty.is_non_null() && (depth == 0 || rng.chance(1, 8)) { return Lit::Null; }
    match ty {
        Ty::List(item) | Ty::NonNullList(item) => {
            if depth > 0 && rng.chance(1, 3) {
                let v = gen_lit_valid_lim(rng, sd, item, depth - 1, limit);
                if v != Lit::Null && !matches!(v, Lit::List(_)) { return v; }
                return Lit::List(vec![v]);
            }
            let n = if depth == 0 { 0 } else { rng.below(3) };
            Lit::List((0..n).map(|_| gen_lit_valid_lim(rng, sd, item, depth - 1, limit)).collect())
        }
        Ty::Named(n) | Ty::NonNullNamed(n) => match n.as_str() {
            "Int" => Lit::Int(*rng.pick(&[0, 1, -1, 42, (1i128 << 31) - 1, -(1i128 << 31)])),
            "Float" => if rng.chance(1, 2) { Lit::Float(rng.pick(&["1.5", "-0.25", "3.0", "1e+100"]).to_string()) } else { Lit::Int(*rng.pick(&[0, 7, -7])) },
            "String" => Lit::Str(rng.pick(&STR_ATOMS).to_string()),
            "Boolean" => Lit::Bool(rng.chance(1, 2)),
            "ID" => if rng.chance(1, 2) { Lit::Str(rng.pick(&STR_ATOMS).to_string()) } else { Lit::Int(*rng.pick(&[0, 5, -5])) },
            _ => match sd.kind(n).expect("defined") {
                Kind::Scalar => rng.pick(&[Lit::Int(3), Lit::Str("x".into()), Lit::Bool(true), Lit::List(vec![Lit::Int(1)]), Lit::Obj(vec![("k".into(), Lit::Float("1.5".into()))]), Lit::Enum("WHATEVER".into())]).clone(),
                Kind::Enum(vs) => Lit::Enum(rng.pick(vs).clone()),
                Kind::Input(fields) => {
                    let mut out = vec![];
                    for f in fields {
                        let required = f.ty.is_non_null() && f.default.is_none();
                        if required || (depth > 0 && rng.chance(1, 2)) {
                            out.push((f.name.clone(), gen_lit_valid_lim(rng, sd, &f.ty, depth.saturating_sub(1), limit)));
                        }
                    }
                    Lit::Obj(out)
                }
            },
        },
    }
}

fn gen_schema(rng: &mut Rng) -> SchemaDesc {
    let mut sd = SchemaDesc { types: vec![("Any".into(), Kind::Scalar), ("Color".into(), Kind::Enum(vec!["RED".into(), "GREEN".into(), "BLUE".into()]))] };
    let n_inputs = 1 + rng.below(3);
    let input_names: Vec<String> = (0..n_inputs).map(|i| format!("I{i}")).collect();
    for i in 0..n_inputs {
        let mut names = names_of(&sd);
        // later input objects may be referenced too (through nullable or list positions)
        for n in &input_names { if !names.contains(n) { names.push(n.clone()); } }
        let nf = 1 + rng.below(4);
        let mut fields = vec![];
        for j in 0..nf {
            let lower: Vec<String> = input_names[..i].to_vec();
            let ty = gen_ty(rng, &names, 2, &|n: &str| !n.starts_with('I') || n == "ID" || n == "Int" || lower.iter().any(|l| l == n));
            fields.push(FieldDef { name: format!("{}", (b'a' + j as u8) as char), ty, default: None });
        }
        sd.types.push((input_names[i].clone(), Kind::Input(fields)));
    }
    // defaults: only once all types exist; defaults of input-object type only for lower-numbered types
    for i in 0..n_inputs {
        let Kind::Input(fields) = sd.types[2 + i].1.clone() else { unreachable!() };
        let mut new_fields = fields.clone();
        for f in new_fields.iter_mut() {
            if rng.chance(2, 5) {
                f.default = Some(gen_lit_valid_lim(rng, &sd, &f.ty, 2, i));
            }
        }
        sd.types[2 + i].1 = Kind::Input(new_fields);
    }
    sd
}

fn inner_name(t: &Ty) -> &str {
    match t { Ty::Named(n) | Ty::NonNullNamed(n) => n, Ty::List(t) | Ty::NonNullList(t) => inner_name(t) }
}

fn mutate(rng: &mut Rng, v: &JV, keys: &[String]) -> JV {
    match v {
        JV::Arr(xs) if !xs.is_empty() && rng.chance(3, 4) => {
            let i = rng.below(xs.len());
            let mut ys = xs.clone();
            ys[i] = mutate(rng, &xs[i], keys);
            JV::Arr(ys)
        }
        JV::Obj(kvs) if rng.chance(3, 4) => {
            let mut out = kvs.clone();
            match rng.below(4) {
                0 => out.push((if rng.chance(1, 2) { "unknown".to_string() } else { rng.pick(keys).clone() }, gen_atom(rng))),
                1 if !out.is_empty() => { let i = rng.below(out.len()); out.remove(i); }
                _ if !out.is_empty() => { let i = rng.below(out.len()); out[i].1 = mutate(rng, &kvs[i].1, keys); }
                _ => {}
            }
            // keys stay distinct (a JSON object is a map)
            let mut seen = std::collections::HashSet::new();
            out.retain(|(k, _)| seen.insert(k.clone()));
            JV::Obj(out)
        }
        _ => match rng.below(5) {
            0 => JV::Arr(vec![v.clone()]),
            1 => JV::Null,
            _ => gen_atom(rng),
        },
    }
}

/// all wrappings of `name` up to two list layers
fn wrappings(name: &str) -> Vec<Ty> {
    let n = || Ty::Named(name.to_string());
    let nn = || Ty::NonNullNamed(name.to_string());
    let l = |t: Ty| Ty::List(Box::new(t));
    let ll = |t: Ty| Ty::NonNullList(Box::new(t));
    vec![n(), nn(), l(n()), l(nn()), ll(n()), ll(nn()), l(l(n())), l(ll(nn())), ll(l(nn())), ll(ll(nn())),
         // audit G5: the remaining two-layer wrappings (every combination of the three nullability bits)
         l(l(nn())), l(ll(n())), ll(l(n())), ll(ll(n()))]
}

/// every wrapping with exactly three list layers (16)
fn wrappings3(name: &str) -> Vec<Ty> {
    let mut out = vec![];
    for bits in 0..16u32 {
        let mut t = if bits & 1 == 0 { Ty::Named(name.to_string()) } else { Ty::NonNullNamed(name.to_string()) };
        for k in 1..4 { t = if bits >> k & 1 == 0 { Ty::List(Box::new(t)) } else { Ty::NonNullList(Box::new(t)) }; }
        out.push(t);
    }
    out
}

fn fixed_schema() -> SchemaDesc {
    let f = |n: &str, ty: Ty, d: Option<Lit>| FieldDef { name: n.into(), ty, default: d };
    let nm = |s: &str| Ty::Named(s.into());
    let nn = |s: &str| Ty::NonNullNamed(s.into());
    SchemaDesc {
        types: vec![
            ("Any".into(), Kind::Scalar),
            ("Color".into(), Kind::Enum(vec!["RED".into(), "GREEN".into()])),
            ("P".into(), Kind::Input(vec![
                f("x", nn("Int"), None),
                f("y", nm("Int"), Some(Lit::Int(7))),
                f("c", nm("Color"), Some(Lit::Enum("RED".into()))),
                f("n", nm("Float"), None),
            ])),
            ("Q".into(), Kind::Input(vec![
                f("p", nm("P"), None),
                f("ps", Ty::List(Box::new(nn("P"))), Some(Lit::List(vec![]))),
                f("q", nm("Q"), None),
                f("id", nn("ID"), Some(Lit::Str("abc".into()))),
                f("z", nm("Boolean"), Some(Lit::Null)),
            ])),
        ],
    }
}

fn with_case(ctx: &mut Ctx, sd: &SchemaDesc, vars: &[VarDef], f: impl FnOnce(&mut Ctx, &Compiled)) {
    match catch(|| compile(sd, vars)) {
        Ok(Ok(c)) => f(ctx, &c),
        Ok(Err(e)) => {
            // the generator only writes schemas/operations it believes valid; count, and surface the first few
            ctx.stat("generated_invalid");
            if ctx.stats.get("generated_invalid").copied().unwrap_or(0) <= 3 {
                ctx.fail("generator-invalid", &format!("{} || {}", sdl(sd, vars).replace('\n', " "), op_text(vars)), &e.replace('\n', " "));
            }
        }
        Err(p) => ctx.fail("compile-panics", &format!("{} || {}", sdl(sd, vars).replace('\n', " "), op_text(vars)), &p),
    }
}

pub fn run(ctx: &mut Ctx) {
    // serde prints the float atoms back unchanged (so float texts can be compared as texts)
    for t in FLOAT_ATOMS {
        let back = JV::from_sj(&JV::Float(t.to_string()).to_sj());
        if back != JV::Float(t.to_string()) { ctx.fail("harness-float-atom", t, &format!("{back:?}")); }
    }
    let fixed = fixed_schema();
    let v = |n: &str, ty: Ty, d: Option<Lit>| VarDef { name: n.into(), ty, default: d };
    let nm = |s: &str| Ty::Named(s.into());
    let nn = |s: &str| Ty::NonNullNamed(s.into());
    let list = |t: Ty| Ty::List(Box::new(t));
    let obj = |kvs: Vec<(&str, JV)>| -> Vec<(String, JV)> { kvs.into_iter().map(|(k, v)| (k.to_string(), v)).collect() };

    // ── regression inputs first ──
    {
        // the witness of the recorded finding (defaults) and of the repaired one (ID above i64::MAX, fix aeed67a), replayed on every run
        let vars = vec![v("x", list(nm("Int")), Some(Lit::Int(1)))];
        with_case(ctx, &fixed, &vars, |ctx, c| one(ctx, &fixed, &vars, c, &[]));
        let vars = vec![v("p", nm("P"), Some(Lit::Obj(vec![("x".into(), Lit::Int(1))])))];
        with_case(ctx, &fixed, &vars, |ctx, c| one(ctx, &fixed, &vars, c, &[]));
        let vars = vec![v("i", nm("ID"), None)];
        with_case(ctx, &fixed, &vars, |ctx, c| one(ctx, &fixed, &vars, c, &obj(vec![("i", JV::Int(i64::MAX as i128 + 1))])));
        // the six unit tests' shapes
        let vars = vec![v("bar", nn("Float"), None)];
        with_case(ctx, &fixed, &vars, |ctx, c| {
            for j in [JV::Float("9007199254740991.5".into()), JV::Int(14), JV::Int(i64::MAX as i128), JV::Str("14".into())] {
                // 9007199254740991.5 is not printed back unchanged; it is only checked through ok/err and the oracle
                if let JV::Float(_) = j { continue; }
                one(ctx, &fixed, &vars, c, &obj(vec![("bar", j)]));
            }
        });
        // explicit null vs absent, default vs provided, extra variables ignored
        let vars = vec![v("a", nm("Int"), None), v("b", nm("Int"), Some(Lit::Int(5))), v("c", nn("Int"), Some(Lit::Int(6))), v("q", nm("Q"), None)];
        with_case(ctx, &fixed, &vars, |ctx, c| {
            one(ctx, &fixed, &vars, c, &[]);
            one(ctx, &fixed, &vars, c, &obj(vec![("a", JV::Null), ("b", JV::Null)]));
            one(ctx, &fixed, &vars, c, &obj(vec![("c", JV::Null)]));
            one(ctx, &fixed, &vars, c, &obj(vec![("zzz", JV::Int(1)), ("a", JV::Int(2))]));
            one(ctx, &fixed, &vars, c, &obj(vec![("q", JV::Obj(obj(vec![("p", JV::Obj(obj(vec![("x", JV::Int(1))]))), ("z", JV::Null)])))]));
            one(ctx, &fixed, &vars, c, &obj(vec![("q", JV::Obj(obj(vec![("q", JV::Obj(obj(vec![("ps", JV::Obj(obj(vec![("x", JV::Int(3)), ("n", JV::Int(2))])))])))])))]));
            one(ctx, &fixed, &vars, c, &obj(vec![("q", JV::Obj(obj(vec![("p", JV::Obj(obj(vec![("x", JV::Int(1)), ("w", JV::Int(1))])))])))]));
            one(ctx, &fixed, &vars, c, &obj(vec![("q", JV::Obj(obj(vec![("p", JV::Obj(obj(vec![("y", JV::Int(1))])))])))]));
            one(ctx, &fixed, &vars, c, &obj(vec![("q", JV::Obj(obj(vec![("id", JV::Null)])))]));
        });
    }

    // ── exhaustive: every wrapping of every named type × every small JSON value ──
    let mut small: Vec<JV> = atoms();
    {
        let leafs = vec![JV::Null, JV::Int(1), JV::Int(1 << 31), JV::Float("1.5".into()), JV::Str("RED".into()), JV::Bool(true), JV::Int(i64::MAX as i128 + 1)];
        small.push(JV::Arr(vec![]));
        for a in &leafs { small.push(JV::Arr(vec![a.clone()])); small.push(JV::Arr(vec![JV::Arr(vec![a.clone()])])); }
        for a in &leafs { for b in &leafs { small.push(JV::Arr(vec![a.clone(), b.clone()])); } }
        small.push(JV::Arr(vec![JV::Arr(vec![]), JV::Arr(vec![JV::Int(1), JV::Null])]));
        small.push(JV::Arr(vec![JV::Arr(vec![JV::Arr(vec![JV::Int(1)])])]));
        for a in &leafs { if *a != JV::Int(1) { small.push(JV::Arr(vec![JV::Arr(vec![JV::Arr(vec![a.clone()])])])); } }
        small.push(JV::Arr(vec![JV::Arr(vec![JV::Arr(vec![JV::Arr(vec![JV::Int(1)])])])]));
        small.push(JV::Obj(vec![]));
        for a in &leafs {
            small.push(JV::Obj(obj(vec![("x", a.clone())])));
            small.push(JV::Obj(obj(vec![("x", JV::Int(1)), ("y", a.clone())])));
            small.push(JV::Obj(obj(vec![("n", a.clone()), ("x", JV::Int(0))])));
            small.push(JV::Obj(obj(vec![("x", JV::Int(1)), ("c", a.clone())])));
            small.push(JV::Obj(obj(vec![("p", JV::Obj(obj(vec![("x", a.clone())])))])));
            small.push(JV::Obj(obj(vec![("ps", a.clone())])));
            small.push(JV::Obj(obj(vec![("id", a.clone())])));
            small.push(JV::Obj(obj(vec![("z", a.clone()), ("q", JV::Obj(obj(vec![("z", a.clone())])))])));
        }
        small.push(JV::Obj(obj(vec![("x", JV::Int(1)), ("unknown", JV::Int(1))])));
        small.push(JV::Arr(vec![JV::Obj(obj(vec![("x", JV::Int(1))])), JV::Obj(obj(vec![("x", JV::Int(2)), ("y", JV::Null)]))]));
        small.push(JV::Obj(obj(vec![("ps", JV::Obj(obj(vec![("x", JV::Int(1))])))])));
        small.push(JV::Obj(obj(vec![("ps", JV::Arr(vec![JV::Obj(obj(vec![("x", JV::Int(1))])), JV::Null]))])));
    }
    ctx.stat_n("exhaustive_json_values", small.len() as u64);
    // audit G5: an operation without variables (everything provided is ignored)
    with_case(ctx, &fixed, &[], |ctx, c| {
        one(ctx, &fixed, &[], c, &[]);
        for j in small.iter().take(40) { ctx.stat("no_variables_declared"); one(ctx, &fixed, &[], c, &obj(vec![("v", j.clone())])); }
    });
    for name in ["Int", "Float", "String", "Boolean", "ID", "Any", "Color", "P", "Q"] {
        let mut tys = wrappings(name);
        // three list layers: a representative third in the quick tier, all sixteen in the thorough tier
        for (k, t) in wrappings3(name).into_iter().enumerate() { if ctx.thorough || k % 5 == 0 { tys.push(t); } }
        for ty in tys {
            ctx.stat("exhaustive_wrappings");
            let vars = vec![v("v", ty.clone(), None)];
            with_case(ctx, &fixed, &vars, |ctx, c| {
                one(ctx, &fixed, &vars, c, &[]);
                for j in &small { one(ctx, &fixed, &vars, c, &obj(vec![("v", j.clone())])); }
            });
        }
    }

    // ── random schemas, operations and values ──
    let n_schemas = if ctx.thorough { 20000 } else { 1200 };
    let per_schema_ops = 6;
    let per_op_values = if ctx.thorough { 24 } else { 12 };
    for _ in 0..n_schemas {
        let sd = gen_schema(&mut ctx.rng);
        let names = names_of(&sd);
        let mut keys: Vec<String> = vec!["a".into(), "b".into(), "c".into(), "d".into()];
        keys.push("e".into());
        for _ in 0..per_schema_ops {
            let nv = 1 + ctx.rng.below(3);
            let mut vars = vec![];
            for i in 0..nv {
                let ty = gen_ty(&mut ctx.rng, &names, 2, &|_| true);
                let default = if ctx.rng.chance(1, 3) { Some(gen_lit_valid(&mut ctx.rng, &sd, &ty, 3)) } else { None };
                vars.push(VarDef { name: format!("v{i}"), ty, default });
            }
            let sd2 = sd.clone();
            let vars2 = vars.clone();
            let keys = keys.clone();
            with_case(ctx, &sd, &vars, move |ctx, c| {
                for _ in 0..per_op_values {
                    let mut values: Vec<(String, JV)> = vec![];
                    for vd in &vars2 {
                        let r = ctx.rng.below(10);
                        if r == 0 { continue; } // absent
                        let base = gen_json_valid(&mut ctx.rng, &sd2, &vd.ty, 3);
                        let val = match r {
                            1..=4 => base,
                            5..=7 => mutate(&mut ctx.rng, &base, &keys),
                            8 => { let m = mutate(&mut ctx.rng, &base, &keys); mutate(&mut ctx.rng, &m, &keys) }
                            _ => gen_json_random(&mut ctx.rng, 3, &keys),
                        };
                        values.push((vd.name.clone(), val));
                    }
                    if ctx.rng.chance(1, 10) { values.push(("extra".into(), gen_atom(&mut ctx.rng))); }
                    if values.len() > 1 && ctx.rng.chance(1, 3) { values.reverse(); }
                    let d = values.iter().map(|(_, v)| v.depth()).max().unwrap_or(0);
                    ctx.stat(&format!("json_depth_{}", d.min(5)));
                    one(ctx, &sd2, &vars2, c, &values);
                }
            });
        }
    }
}
