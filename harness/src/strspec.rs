//! The spec's static semantics of string literals (October 2021 §2.9.4), written from the spec text:
//! StringValue for quoted strings and BlockStringValue(rawValue) steps 1–9.  Independent of
//! apollo-parser.  Input: the token text including quotes; None if it is not a valid literal.
pub fn spec_string_value(tok: &str) -> Option<String> {
    let cs: Vec<char> = tok.chars().collect();
    if cs.len() >= 6 && cs[..3] == ['"', '"', '"'] && cs[cs.len() - 3..] == ['"', '"', '"'] {
        // raw value with the `\"""` escape replaced (static semantics of BlockStringCharacter)
        let body = &cs[3..cs.len() - 3];
        let mut raw = String::new();
        let mut i = 0;
        while i < body.len() {
            if body[i] == '\\' && i + 3 < body.len() + 0 && body.get(i + 1) == Some(&'"') && body.get(i + 2) == Some(&'"') && body.get(i + 3) == Some(&'"') {
                raw.push_str("\"\"\""); i += 4;
            } else {
                if body[i] == '"' && body.get(i + 1) == Some(&'"') && body.get(i + 2) == Some(&'"') { return None; }
                raw.push(body[i]); i += 1;
            }
        }
        return Some(block_string_value(&raw));
    }
    if cs.len() < 2 || cs[0] != '"' || cs[cs.len() - 1] != '"' { return None; }
    let body = &cs[1..cs.len() - 1];
    let mut out = String::new();
    let mut i = 0;
    while i < body.len() {
        match body[i] {
            '"' | '\n' | '\r' => return None,
            '\\' => {
                match body.get(i + 1)? {
                    'u' => {
                        let mut v = 0u32;
                        for k in 0..4 { v = v * 16 + body.get(i + 2 + k)?.to_digit(16)?; }
                        out.push(char::from_u32(v)?);
                        i += 6;
                    }
                    '"' => { out.push('"'); i += 2 } '\\' => { out.push('\\'); i += 2 } '/' => { out.push('/'); i += 2 }
                    'b' => { out.push('\u{8}'); i += 2 } 'f' => { out.push('\u{c}'); i += 2 } 'n' => { out.push('\n'); i += 2 }
                    'r' => { out.push('\r'); i += 2 } 't' => { out.push('\t'); i += 2 }
                    _ => return None,
                }
            }
            c => { out.push(c); i += 1; }
        }
    }
    Some(out)
}

/// BlockStringValue(rawValue), steps numbered as in the spec
pub fn block_string_value(raw: &str) -> String {
    // 1. lines = split rawValue by LineTerminator
    let mut lines: Vec<String> = vec![];
    let cs: Vec<char> = raw.chars().collect();
    let mut cur = String::new();
    let mut i = 0;
    while i < cs.len() {
        match cs[i] {
            '\r' => { lines.push(std::mem::take(&mut cur)); if cs.get(i + 1) == Some(&'\n') { i += 1; } }
            '\n' => lines.push(std::mem::take(&mut cur)),
            c => cur.push(c),
        }
        i += 1;
    }
    lines.push(cur);
    let is_ws = |c: char| c == ' ' || c == '\t';
    // 2–3. commonIndent
    let mut common: Option<usize> = None;
    for (k, line) in lines.iter().enumerate() {
        if k == 0 { continue; }
        let length = line.chars().count();
        let indent = line.chars().take_while(|c| is_ws(*c)).count();
        if indent < length && common.map_or(true, |c| indent < c) { common = Some(indent); }
    }
    // 4. remove commonIndent characters
    if let Some(c) = common {
        for line in lines.iter_mut().skip(1) { *line = line.chars().skip(c).collect(); }
    }
    // 5. / 6. remove blank first / last lines
    while lines.first().is_some_and(|l| l.chars().all(is_ws)) { lines.remove(0); }
    while lines.last().is_some_and(|l| l.chars().all(is_ws)) { lines.pop(); }
    // 7–9.
    lines.join("\n")
}
