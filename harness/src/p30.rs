//! C30 — Names and nodes are memory-safe shared values.
//!
//! Operation histories over a small pool of slots are run on the REAL `Name` / `Arc<str>` / `Node<T>`
//! values.  After every step the harness observes, through public API only, every slot
//! (`as_str`, `location`, `as_static_str`, `to_cloned_arc`, `Node::{ptr_eq, get_mut, location}`) and the
//! strong count of every string allocation through a `Weak<str>` witness (taken with `to_cloned_arc` /
//! `Arc::downgrade` when the allocation is created; a `Weak` does not keep the string alive and does not
//! change the strong count).  The canonical line is compared with the Lean model (`c30.name`, `c30.node`).
//! The oracle is independent of the model: plain value semantics kept by the harness (which text/location
//! was supplied to which slot, how many live handles share an allocation) — "count = number of live
//! handles", "0 after the last drop", "text/location read back = supplied", "== and hash look at the text
//! only", "a mutation is seen through the mutated handle only".
//! The same kind of histories is then split across real threads (final accounting only).
use crate::util::*;
use apollo_compiler::ast;
use apollo_compiler::parser::{FileId, SourceSpan};
use apollo_compiler::{Name, Node};
use std::collections::hash_map::DefaultHasher;
use std::collections::HashMap;
use std::hash::{Hash, Hasher};
use std::sync::{Arc, Weak};
use std::fmt::Write as _;

const NONE_ID: u64 = 2;
const MAX_ID: u64 = (1 << 63) - 1;

// ---------------------------------------------------------------- spans through the public parser

struct Spans {
    cache: HashMap<(u64, u32, u32), SourceSpan>,
}

impl Spans {
    fn new() -> Self {
        Spans { cache: HashMap::new() }
    }
    /// a `SourceSpan` with the given file id, start offset (≥ 1) and length (≥ 1): the location of a field
    /// name in a document parsed with the file-id counter preset
    fn get(&mut self, fid: u64, start: u32, len: u32) -> SourceSpan {
        assert!(start >= 1 && len >= 1 && fid >= 1 && fid <= MAX_ID);
        *self.cache.entry((fid, start, len)).or_insert_with(|| {
            FileId::verif_set_next(fid);
            let src = format!("{{{}{}}}", " ".repeat(start as usize - 1), "a".repeat(len as usize));
            let doc = match ast::Document::parse(src, "s.graphql") {
                Ok(d) => d,
                Err(e) => e.partial,
            };
            FileId::reset();
            let mut found = None;
            for def in &doc.definitions {
                if let ast::Definition::OperationDefinition(op) = def {
                    if let Some(ast::Selection::Field(f)) = op.selection_set.first() {
                        // the field node spans exactly its name; `Node::location` also works for FileId::NONE
                        found = f.location();
                    }
                }
            }
            let span = found.expect("harness: no span");
            assert_eq!(
                (span.file_id().verif_raw(), span.offset(), span.node_len()),
                (fid, start as usize, len as usize),
                "harness: span factory"
            );
            span
        })
    }
}

type Loc = (u64, usize, usize);

fn loc_of(s: Option<SourceSpan>) -> Option<Loc> {
    s.map(|s| (s.file_id().verif_raw(), s.offset(), s.node_len()))
}

fn loc_str(l: Option<Loc>) -> String {
    match l {
        Some((f, s, n)) => format!("{f}:{s}:{n}"),
        None => "~".to_string(),
    }
}

fn cps(s: &str) -> String {
    s.chars().map(|c| (c as u32).to_string()).collect::<Vec<_>>().join(".")
}

fn hash_of<T: Hash + ?Sized>(x: &T) -> u64 {
    let mut h = DefaultHasher::new();
    x.hash(&mut h);
    h.finish()
}

/// GraphQL Name syntax, written from the specification (`/[_A-Za-z][_0-9A-Za-z]*/`)
fn spec_valid_name(s: &str) -> bool {
    let mut it = s.chars();
    match it.next() {
        Some(c) if c == '_' || c.is_ascii_alphabetic() => it.all(|c| c == '_' || c.is_ascii_alphanumeric()),
        _ => false,
    }
}

// ---------------------------------------------------------------- name histories

const STATICS: [&str; 10] =
    ["a", "b", "Query", "__typename", "x_1", "", "é", "not a name", "9x", "long_static_name_with_many_characters_0123456789"];
const TEXTS: [&str; 12] = ["a", "b", "Query", "x_1", "_", "é", "a b", "", "9x", "TypeName", "a", "日本"];

#[derive(Clone, Debug)]
enum NOp {
    NewName(usize, String),
    NewChecked(usize, String),
    NewStatic(usize, usize), // index into STATICS
    NewArc(usize, String),
    FromArc(usize, usize),
    TryFromArc(usize, usize),
    Clone(usize, usize),
    Drop(usize),
    WithLoc(usize, u64, u32, u32),
    ToClonedArc(usize, usize),
    IntoArc(usize, usize),
}

impl NOp {
    fn enc(&self) -> String {
        match self {
            NOp::NewName(d, t) => format!("nn,{d},{}", cps(t)),
            NOp::NewChecked(d, t) => format!("nc,{d},{}", cps(t)),
            NOp::NewStatic(d, i) => format!("ns,{d},{}", cps(STATICS[*i])),
            NOp::NewArc(d, t) => format!("na,{d},{}", cps(t)),
            NOp::FromArc(d, s) => format!("fa,{d},{s}"),
            NOp::TryFromArc(d, s) => format!("tf,{d},{s}"),
            NOp::Clone(d, s) => format!("cl,{d},{s}"),
            NOp::Drop(s) => format!("dr,{s}"),
            NOp::WithLoc(s, f, st, l) => format!("wl,{s},{f},{st},{l}"),
            NOp::ToClonedArc(d, s) => format!("tc,{d},{s}"),
            NOp::IntoArc(d, s) => format!("ia,{d},{s}"),
        }
    }
}

enum HS {
    Empty,
    Name { n: Name, cell: Option<usize>, text: String, loc: Option<Loc> },
    Arc { a: Arc<str>, cell: usize, text: String },
}

impl HS {
    fn cell(&self) -> Option<usize> {
        match self {
            HS::Empty => None,
            HS::Name { cell, .. } => *cell,
            HS::Arc { cell, .. } => Some(*cell),
        }
    }
    fn is_empty(&self) -> bool {
        matches!(self, HS::Empty)
    }
}

struct NameWorld {
    /// the public API offers several routes to the same operation (Name::new / TryFrom<&str> / TryFrom<String> /
    /// serde; clone / From<&Name> / to_component; …): successive operations rotate through them
    route: usize,
    routes_used: Vec<&'static str>,
    slots: Vec<HS>,
    /// one witness per string allocation created in this history
    wit: Vec<Weak<str>>,
    fails: Vec<(String, String)>,
}

impl NameWorld {
    fn new(pool: usize) -> Self {
        NameWorld { route: 0, routes_used: vec![], slots: (0..pool).map(|_| HS::Empty).collect(), wit: vec![], fails: vec![] }
    }
    fn fail(&mut self, key: &str, what: String) {
        if self.fails.len() < 4 {
            self.fails.push((key.to_string(), what));
        }
    }
    fn free(&self, i: usize) -> bool {
        i < self.slots.len() && self.slots[i].is_empty()
    }
    fn take(&mut self, i: usize) -> HS {
        std::mem::replace(&mut self.slots[i], HS::Empty)
    }
    /// a fresh heap name: take the witness through `to_cloned_arc`
    fn adopt_new_heap_name(&mut self, dst: usize, n: Name, text: &str) {
        let cell = match n.to_cloned_arc() {
            Some(a) => {
                self.wit.push(Arc::downgrade(&a));
                Some(self.wit.len() - 1)
            }
            None => {
                self.fail("name-static-flag", format!("to_cloned_arc() is None for a name created from &str {text:?}"));
                None
            }
        };
        self.slots[dst] = HS::Name { n, cell, text: text.to_string(), loc: None };
    }

    fn step(&mut self, op: &NOp, spans: &mut Spans) -> &'static str {
        self.route += 1;
        match op {
            NOp::NewName(d, t) => {
                if !self.free(*d) { return "skip"; }
                let n = Name::new_unchecked(t);
                self.adopt_new_heap_name(*d, n, t);
                "ok"
            }
            NOp::NewChecked(d, t) => {
                if !self.free(*d) { return "skip"; }
                let (made, route) = match self.route % 5 {
                    0 => (Name::new(t).ok(), "new"),
                    1 => (Name::try_from(t.as_str()).ok(), "try_from_str"),
                    2 => (Name::try_from(t.clone()).ok(), "try_from_string"),
                    3 => (Name::try_from(t).ok(), "try_from_string_ref"),
                    _ => (serde_json::from_value::<Name>(serde_json::Value::String(t.clone())).ok(), "deserialize"),
                };
                self.routes_used.push(route);
                match made.ok_or(()) {
                    Ok(n) => {
                        if !spec_valid_name(t) { self.fail("name-validity", format!("Name::new accepted {t:?}")); }
                        self.adopt_new_heap_name(*d, n, t);
                        "ok"
                    }
                    Err(_) => {
                        if spec_valid_name(t) { self.fail("name-validity", format!("Name::new rejected {t:?}")); }
                        "err"
                    }
                }
            }
            NOp::NewStatic(d, i) => {
                if !self.free(*d) { return "skip"; }
                let n = if self.route % 2 == 0 && spec_valid_name(STATICS[*i]) {
                    self.routes_used.push("new_static");
                    match Name::new_static(STATICS[*i]) { Ok(n) => n, Err(_) => { self.fail("name-validity", format!("Name::new_static rejected {:?}", STATICS[*i])); Name::new_static_unchecked(STATICS[*i]) } }
                } else {
                    if self.route % 2 == 0 && Name::new_static(STATICS[*i]).is_ok() { self.fail("name-validity", format!("Name::new_static accepted {:?}", STATICS[*i])); }
                    Name::new_static_unchecked(STATICS[*i])
                };
                self.slots[*d] = HS::Name { n, cell: None, text: STATICS[*i].to_string(), loc: None };
                "ok"
            }
            NOp::NewArc(d, t) => {
                if !self.free(*d) { return "skip"; }
                let a: Arc<str> = Arc::from(t.as_str());
                self.wit.push(Arc::downgrade(&a));
                self.slots[*d] = HS::Arc { a, cell: self.wit.len() - 1, text: t.clone() };
                "ok"
            }
            NOp::FromArc(d, s) | NOp::TryFromArc(d, s) => {
                if *s >= self.slots.len() || !matches!(self.slots[*s], HS::Arc { .. }) || !self.free(*d) { return "skip"; }
                let HS::Arc { a, cell, text } = self.take(*s) else { unreachable!() };
                if matches!(op, NOp::FromArc(..)) {
                    let n = Name::from_arc_unchecked(a);
                    self.slots[*d] = HS::Name { n, cell: Some(cell), text, loc: None };
                    "ok"
                } else {
                    match Name::try_from(a) {
                        Ok(n) => {
                            if !spec_valid_name(&text) { self.fail("name-validity", format!("Name::try_from(Arc) accepted {text:?}")); }
                            self.slots[*d] = HS::Name { n, cell: Some(cell), text, loc: None };
                            "ok"
                        }
                        Err(_) => {
                            if spec_valid_name(&text) { self.fail("name-validity", format!("Name::try_from(Arc) rejected {text:?}")); }
                            "err"
                        }
                    }
                }
            }
            NOp::Clone(d, s) => {
                if !self.free(*d) || *s >= self.slots.len() { return "skip"; }
                let new = match &self.slots[*s] {
                    HS::Empty => return "skip",
                    HS::Name { n, cell, text, loc } => {
                        let (c, route) = match self.route % 4 {
                            0 => (n.clone(), "clone"),
                            1 => (Name::from(n), "from_ref"),
                            2 => (n.to_component(apollo_compiler::schema::ComponentOrigin::Definition).name, "to_component"),
                            _ => (AsRef::<Name>::as_ref(n).clone(), "as_ref_clone"),
                        };
                        self.routes_used.push(route);
                        HS::Name { n: c, cell: *cell, text: text.clone(), loc: *loc }
                    }
                    HS::Arc { a, cell, text } => HS::Arc { a: a.clone(), cell: *cell, text: text.clone() },
                };
                self.slots[*d] = new;
                "ok"
            }
            NOp::Drop(s) => {
                if *s >= self.slots.len() || self.slots[*s].is_empty() { return "skip"; }
                drop(self.take(*s));
                "ok"
            }
            NOp::WithLoc(s, fid, start, len) => {
                if *s >= self.slots.len() || !matches!(self.slots[*s], HS::Name { .. }) { return "skip"; }
                let HS::Name { n, cell, text, .. } = self.take(*s) else { unreachable!() };
                let span = spans.get(*fid, *start, *len);
                match catch(move || n.with_location(span)) {
                    Ok(n2) => {
                        let loc = if *fid == NONE_ID { None } else { Some((*fid, *start as usize, *len as usize)) };
                        self.slots[*s] = HS::Name { n: n2, cell, text, loc };
                        "ok"
                    }
                    Err(_) => {
                        // only the length debug assertion may fire; the name is dropped by the unwinding
                        if *len as usize == text.len() {
                            self.fail("name-panic", format!("with_location panicked for a span of the name's own length ({text:?})"));
                        }
                        "PANIC"
                    }
                }
            }
            NOp::ToClonedArc(d, s) => {
                if !self.free(*d) || *s >= self.slots.len() { return "skip"; }
                let HS::Name { n, cell, text, .. } = &self.slots[*s] else { return "skip" };
                match n.to_cloned_arc() {
                    Some(a) => match cell {
                        Some(c) => {
                            let new = HS::Arc { a, cell: *c, text: text.clone() };
                            self.slots[*d] = new;
                            "ok"
                        }
                        None => {
                            let t = text.clone();
                            self.fail("name-static-flag", format!("to_cloned_arc() is Some for the static name {t:?}"));
                            "ok"
                        }
                    },
                    None => "none",
                }
            }
            NOp::IntoArc(d, s) => {
                if !self.free(*d) || *s >= self.slots.len() || !matches!(self.slots[*s], HS::Name { .. }) { return "skip"; }
                let HS::Name { n, cell, text, .. } = self.take(*s) else { unreachable!() };
                let a: Arc<str> = n.into();
                let cell = match cell {
                    Some(c) => c,
                    None => {
                        self.wit.push(Arc::downgrade(&a));
                        self.wit.len() - 1
                    }
                };
                self.slots[*d] = HS::Arc { a, cell, text };
                "ok"
            }
        }
    }

    /// observe every slot through the public API; evaluate the oracle; return the canonical line
    fn observe(&mut self, res: &str) -> String {
        let mut out = String::from(res);
        // expected number of live handles per allocation (harness bookkeeping only)
        let mut expect = vec![0usize; self.wit.len()];
        for s in &self.slots {
            if let Some(c) = s.cell() { expect[c] += 1; }
        }
        let mut fails: Vec<(String, String)> = vec![];
        for (i, s) in self.slots.iter().enumerate() {
            out.push(';');
            match s {
                HS::Empty => out.push('-'),
                HS::Name { n, cell, text, loc } => {
                    let got = n.as_str().to_string();
                    if &got != text { fails.push(("name-text".into(), format!("slot {i}: as_str() = {got:?}, supplied {text:?}"))); }
                    if n.len() != text.len() { fails.push(("name-text".into(), format!("slot {i}: len() = {}, supplied text has {} bytes", n.len(), text.len()))); }
                    let l = loc_of(n.location());
                    if l != *loc { fails.push(("name-location".into(), format!("slot {i}: location() = {}, supplied {}", loc_str(l), loc_str(*loc)))); }
                    let st = n.as_static_str();
                    if st.is_some() != cell.is_none() {
                        fails.push(("name-static-flag".into(), format!("slot {i} ({text:?}): as_static_str().is_some() = {}, created static = {}", st.is_some(), cell.is_none())));
                    }
                    if let Some(s) = st { if s != text { fails.push(("name-text".into(), format!("slot {i}: as_static_str() = {s:?}, supplied {text:?}"))); } }
                    // a name whose heap/static flag is already wrong must not be dereferenced as an Arc
                    // (Arc::from_raw on a pointer that is not one): report the flag and stop the history
                    let flag_bad = st.is_some() != cell.is_none();
                    let tca = if flag_bad { None } else { n.to_cloned_arc() };
                    if !flag_bad && tca.is_some() == st.is_some() {
                        fails.push(("name-static-flag".into(), format!("slot {i} ({text:?}): to_cloned_arc and as_static_str are both {}", if st.is_some() { "Some" } else { "None" })));
                    }
                    if let Some(a) = &tca { if &**a != text.as_str() { fails.push(("name-text".into(), format!("slot {i}: to_cloned_arc() = {:?}, supplied {text:?}", &**a))); } }
                    drop(tca);
                    let cnt = match cell { Some(c) => self.wit[*c].strong_count().to_string(), None => "_".to_string() };
                    out.push_str(&format!("N{}/{}/{}/{}", cps(&got), loc_str(l), if st.is_some() { "S" } else { "H" }, cnt));
                }
                HS::Arc { a, cell, text } => {
                    if &**a != text.as_str() { fails.push(("name-text".into(), format!("slot {i}: Arc<str> reads {:?}, supplied {text:?}", &**a))); }
                    out.push_str(&format!("A{}/{}", cps(a), self.wit[*cell].strong_count()));
                }
            }
        }
        for (c, w) in self.wit.iter().enumerate() {
            let got = w.strong_count();
            if got != expect[c] {
                let key = if expect[c] == 0 { "name-leak" } else if got < expect[c] { "name-premature-free" } else { "name-count-mismatch" };
                fails.push((key.into(), format!("allocation #{c}: strong count {got}, live handles {}", expect[c])));
            }
        }
        // equality / hashing look at the text only
        for (i, a) in self.slots.iter().enumerate() {
            let HS::Name { n: na, text: ta, .. } = a else { continue };
            if hash_of(na) != hash_of(ta.as_str()) { fails.push(("name-eq-hash".into(), format!("slot {i}: hash differs from the hash of its text {ta:?}"))); }
            if *na != *ta.as_str() { fails.push(("name-eq-hash".into(), format!("slot {i}: name != its text {ta:?}"))); }
            if na != &ta.as_str() || na.partial_cmp(ta.as_str()) != Some(std::cmp::Ordering::Equal) || na.partial_cmp(&"a") != ta.as_str().partial_cmp("a") {
                fails.push(("name-eq-hash".into(), format!("slot {i}: comparison with &str differs from the comparison of its text {ta:?}")));
            }
            if na.to_string() != *ta || format!("{na:?}") != format!("{ta:?}") || &**na != ta.as_str() || AsRef::<str>::as_ref(na) != ta.as_str() {
                fails.push(("name-text".into(), format!("slot {i}: Display / Debug / Deref / AsRef<str> do not give the supplied text {ta:?}")));
            }
            if serde_json::to_value(na).ok() != Some(serde_json::Value::String(ta.clone())) { fails.push(("name-text".into(), format!("slot {i}: serializes to something else than its text {ta:?}"))); }
            // Borrow<str>: a map keyed by names is looked up with the text
            let mut m: HashMap<Name, usize> = HashMap::new();
            m.insert(na.clone(), i);
            if m.get(ta.as_str()) != Some(&i) { fails.push(("name-eq-hash".into(), format!("slot {i}: a HashMap<Name, _> entry is not found through its text {ta:?}"))); }
            drop(m);
            for (j, b) in self.slots.iter().enumerate().skip(i + 1) {
                let HS::Name { n: nb, text: tb, .. } = b else { continue };
                if (na == nb) != (ta == tb) { fails.push(("name-eq-hash".into(), format!("slots {i},{j}: == is {}, texts {ta:?} {tb:?}", na == nb))); }
                if ta == tb && hash_of(na) != hash_of(nb) { fails.push(("name-eq-hash".into(), format!("slots {i},{j}: equal names hash differently ({ta:?})"))); }
                if na.cmp(nb) != ta.as_str().cmp(tb.as_str()) { fails.push(("name-eq-hash".into(), format!("slots {i},{j}: cmp differs from text order"))); }
            }
        }
        for (k, w) in fails { self.fail(&k, w); }
        out
    }
}

/// run one history on the real types; emits the correspondence case and the oracle failures
fn run_name_history(ctx: &mut Ctx, spans: &mut Spans, pool: usize, ops: &[NOp]) {
    // every history ends by dropping every slot: the last observation is the leak check
    let mut all: Vec<NOp> = ops.to_vec();
    for i in 0..pool { all.push(NOp::Drop(i)); }
    let mut w = NameWorld::new(pool);
    let mut steps: Vec<String> = vec![];
    let mut fields: Vec<String> = vec![pool.to_string()];
    let mut nontrivial = false;
    let mut poisoned = false;
    for op in &all {
        fields.push(op.enc());
        ctx.begin(&format!("name history: {}", fields.join(" ")));
        let before = w.fails.len();
        let res = match catch(|| w.step(op, spans)) {
            Ok(r) => r,
            Err(m) => {
                w.fail("name-panic", format!("{} panicked: {m}", op.enc()));
                "PANIC"
            }
        };
        if res != "skip" { ctx.stat(&format!("name_op:{}:{}", &op.enc()[..2], res)); }
        let line = w.observe(res);
        if w.wit.iter().any(|x| x.strong_count() >= 2) { nontrivial = true; }
        steps.push(line);
        if w.fails.len() > before {
            let input = fields.join(" ");
            for (k, what) in w.fails[before..].to_vec() { ctx.fail(&k, &input, &what); }
            // the property is already violated: going on (or releasing these values) could run into real
            // memory corruption, so the history stops here and its values are leaked on purpose
            poisoned = true;
            break;
        }
    }
    for r in std::mem::take(&mut w.routes_used) { ctx.stat(&format!("name_route:{r}")); }
    if poisoned { std::mem::forget(w); ctx.stat("name_histories_stopped_at_failure"); } else { drop(w); }
    if nontrivial { ctx.nontrivial(&fields.join(" ")); }
    ctx.stat("name_histories");
    ctx.case("c30.name", &fields, &steps.join("|"));
}

fn gen_name_op(rng: &mut Rng, w_empty: &[bool], kinds: &[u8], pool: usize) -> NOp {
    // kinds: 0 empty, 1 name, 2 arc (the generator's own guess, only used to bias choices)
    let pick_where = |rng: &mut Rng, want: &dyn Fn(usize) -> bool| -> usize {
        let c: Vec<usize> = (0..pool).filter(|i| want(*i)).collect();
        if c.is_empty() || rng.chance(1, 12) { rng.below(pool + 1) } else { c[rng.below(c.len())] }
    };
    let dst = pick_where(rng, &|i| w_empty[i]);
    let name_src = pick_where(rng, &|i| kinds[i] == 1);
    let arc_src = pick_where(rng, &|i| kinds[i] == 2);
    let any_src = pick_where(rng, &|i| kinds[i] != 0);
    let text = rng.pick(&TEXTS).to_string();
    match rng.below(100) {
        0..=9 => NOp::NewName(dst, text),
        10..=14 => NOp::NewChecked(dst, text),
        15..=22 => NOp::NewStatic(dst, rng.below(STATICS.len())),
        23..=28 => NOp::NewArc(dst, text),
        29..=34 => NOp::FromArc(dst, arc_src),
        35..=38 => NOp::TryFromArc(dst, arc_src),
        39..=56 => NOp::Clone(dst, any_src),
        57..=70 => NOp::Drop(any_src),
        71..=82 => NOp::WithLoc(name_src, 0, 0, 0), // completed by the caller (needs the name's length)
        83..=90 => NOp::ToClonedArc(dst, name_src),
        _ => NOp::IntoArc(dst, name_src),
    }
}

fn gen_fid(rng: &mut Rng) -> u64 {
    match rng.below(10) {
        0 => 1,
        1 => NONE_ID,
        2 => MAX_ID,
        3 => MAX_ID - 1,
        4 => (1u64 << 32) + 5,
        5 => 1u64 << 62,
        6 => 1 + (rng.next() >> (1 + rng.below(62) as u32)),
        _ => 3 + rng.below(6) as u64,
    }
}

/// a random history; the generator tracks (only as a guess, to aim its choices) what each slot holds
fn gen_name_history(rng: &mut Rng, pool: usize, len: usize) -> Vec<NOp> {
    let mut kinds = vec![0u8; pool];
    let mut lens = vec![0usize; pool];
    let mut ops = vec![];
    for _ in 0..len {
        let empty: Vec<bool> = kinds.iter().map(|k| *k == 0).collect();
        let mut op = gen_name_op(rng, &empty, &kinds, pool);
        if let NOp::WithLoc(s, ..) = op {
            let l = if s < pool { lens[s] } else { 1 };
            let l = if rng.chance(1, 25) || l == 0 { 1 + rng.below(5) } else { l };
            let span_max = if rng.chance(1, 6) { 100_000 } else { 40 };
            let fid = gen_fid(rng);
            op = NOp::WithLoc(s, fid, 1 + rng.below(span_max) as u32, l as u32);
        }
        // follow the intended effect (approximately; skips are decided by the executor)
        let ok = |d: usize| d < pool && kinds[d] == 0;
        match &op {
            NOp::NewName(d, t) | NOp::NewChecked(d, t) => if ok(*d) && (matches!(op, NOp::NewName(..)) || spec_valid_name(t)) { kinds[*d] = 1; lens[*d] = t.len(); },
            NOp::NewStatic(d, i) => if ok(*d) { kinds[*d] = 1; lens[*d] = STATICS[*i].len(); },
            NOp::NewArc(d, t) => if ok(*d) { kinds[*d] = 2; lens[*d] = t.len(); },
            NOp::FromArc(d, s) | NOp::TryFromArc(d, s) => if ok(*d) && *s < pool && kinds[*s] == 2 { kinds[*s] = 0; kinds[*d] = 1; lens[*d] = lens[*s]; },
            NOp::Clone(d, s) => if ok(*d) && *s < pool && kinds[*s] != 0 { kinds[*d] = kinds[*s]; lens[*d] = lens[*s]; },
            NOp::Drop(s) => if *s < pool { kinds[*s] = 0; },
            NOp::WithLoc(s, _, _, l) => if *s < pool && kinds[*s] == 1 && *l as usize != lens[*s] { kinds[*s] = 0; },
            NOp::ToClonedArc(d, s) => if ok(*d) && *s < pool && kinds[*s] == 1 { kinds[*d] = 2; lens[*d] = lens[*s]; },
            NOp::IntoArc(d, s) => if ok(*d) && *s < pool && kinds[*s] == 1 { kinds[*s] = 0; kinds[*d] = 2; lens[*d] = lens[*s]; },
        }
        ops.push(op);
    }
    ops
}

fn fixed_name_histories() -> Vec<(usize, Vec<NOp>)> {
    use NOp::*;
    let s = |x: &str| x.to_string();
    vec![
        (3, vec![NewName(0, s("a")), Clone(1, 0), WithLoc(1, 7, 4, 1), ToClonedArc(2, 1), Drop(0), IntoArc(0, 1), Drop(0), Drop(2)]),
        (3, vec![NewStatic(0, 2), Clone(1, 0), WithLoc(1, MAX_ID, 1, 5), ToClonedArc(2, 1), IntoArc(2, 1), Clone(1, 2), FromArc(1, 2), Drop(0)]),
        (4, vec![NewArc(0, s("Query")), Clone(1, 0), FromArc(2, 0), TryFromArc(3, 1), Clone(0, 3), WithLoc(0, 1, 9, 5), WithLoc(3, NONE_ID, 2, 5), Drop(2), Drop(3), IntoArc(1, 0)]),
        (3, vec![NewArc(0, s("not valid")), Clone(1, 0), TryFromArc(2, 0), TryFromArc(2, 1)]),
        (3, vec![NewName(0, s("abc")), Clone(1, 0), WithLoc(0, 5, 3, 2), Clone(2, 1), Drop(1), Drop(2)]),
        (2, vec![NewChecked(0, s("9x")), NewChecked(0, s("é")), NewChecked(0, s("ok_1")), NewName(1, s("")), Clone(0, 1), IntoArc(0, 1)]),
        (3, vec![NewStatic(0, 5), IntoArc(1, 0), FromArc(0, 1), ToClonedArc(2, 0), Clone(1, 0), Drop(0), Drop(1), Drop(2)]),
        (5, vec![NewName(0, s("日本")), WithLoc(0, 1u64 << 62, 100_000, 6), Clone(1, 0), Clone(2, 1), Clone(3, 2), Clone(4, 3), Drop(0), IntoArc(0, 2), Drop(1), FromArc(1, 0), Drop(3), Drop(4), Drop(1)]),
    ]
}

/// every history of length ≤ k over a reduced alphabet on two slots
fn exhaustive_name_histories(k: usize, mut f: impl FnMut(&[NOp])) {
    use NOp::*;
    let a = "a".to_string();
    let alphabet: Vec<NOp> = vec![
        NewName(0, a.clone()), NewStatic(0, 0), NewArc(1, a.clone()), Clone(1, 0), Clone(0, 1), Drop(0), Drop(1),
        WithLoc(0, 3, 1, 1), WithLoc(1, MAX_ID, 2, 1), ToClonedArc(1, 0), IntoArc(1, 0), IntoArc(0, 1), FromArc(0, 1), TryFromArc(0, 1),
    ];
    let mut idx = vec![0usize; k];
    loop {
        let h: Vec<NOp> = idx.iter().map(|i| alphabet[*i].clone()).collect();
        f(&h);
        let mut p = k;
        loop {
            if p == 0 { return; }
            p -= 1;
            if idx[p] + 1 < alphabet.len() { idx[p] += 1; for j in p + 1..k { idx[j] = 0; } break; }
        }
    }
}

// ---------------------------------------------------------------- node histories

#[derive(Clone)]
struct Probe {
    v: u64,
    live: Arc<()>,
}
impl PartialEq for Probe {
    fn eq(&self, o: &Self) -> bool { self.v == o.v }
}
impl Eq for Probe {}
impl Hash for Probe {
    fn hash<H: Hasher>(&self, h: &mut H) { self.v.hash(h) }
}

#[derive(Clone, Debug)]
enum DOp {
    New(usize, u64, Option<(u64, u32, u32)>),
    Clone(usize, usize),
    Drop(usize),
    MakeMut(usize, u64),
    GetMut(usize, u64),
    SameLoc(usize, usize, u64),
}

impl DOp {
    fn enc(&self) -> String {
        match self {
            DOp::New(d, v, Some((f, s, l))) => format!("nw,{d},{v},{f},{s},{l}"),
            DOp::New(d, v, None) => format!("nw,{d},{v},0,0,0"),
            DOp::Clone(d, s) => format!("cl,{d},{s}"),
            DOp::Drop(s) => format!("dr,{s}"),
            DOp::MakeMut(s, v) => format!("mm,{s},{v}"),
            DOp::GetMut(s, v) => format!("gm,{s},{v}"),
            DOp::SameLoc(d, s, v) => format!("sl,{d},{s},{v}"),
        }
    }
}

struct NodeWorld {
    route: usize,
    slots: Vec<Option<Node<Probe>>>,
    /// value semantics kept by the harness: what each slot must read
    shadow: Vec<Option<(u64, Option<Loc>)>>,
    live: Arc<()>,
    fails: Vec<(String, String)>,
}

impl NodeWorld {
    fn new(pool: usize) -> Self {
        NodeWorld { route: 0, slots: (0..pool).map(|_| None).collect(), shadow: vec![None; pool], live: Arc::new(()), fails: vec![] }
    }
    fn fail(&mut self, key: &str, what: String) {
        if self.fails.len() < 4 { self.fails.push((key.to_string(), what)); }
    }
    fn free(&self, i: usize) -> bool { i < self.slots.len() && self.slots[i].is_none() }
    fn held(&self, i: usize) -> bool { i < self.slots.len() && self.slots[i].is_some() }
    fn probe(&self, v: u64) -> Probe { Probe { v, live: self.live.clone() } }

    fn step(&mut self, op: &DOp, spans: &mut Spans) -> &'static str {
        match op {
            DOp::New(d, v, loc) => {
                if !self.free(*d) { return "skip"; }
                let p = self.probe(*v);
                self.slots[*d] = Some(match loc {
                    Some((f, s, l)) => Node::new_parsed(p, spans.get(*f, *s, *l)),
                    None => { self.route += 1; if self.route % 2 == 0 { Node::new(p) } else { Node::from(p) } }
                });
                self.shadow[*d] = Some((*v, loc.map(|(f, s, l)| (f, s as usize, l as usize))));
                "ok"
            }
            DOp::Clone(d, s) => {
                if !self.free(*d) || !self.held(*s) { return "skip"; }
                self.route += 1;
                self.slots[*d] = if self.route % 2 == 0 { self.slots[*s].clone() } else {
                    // `to_component` shares the allocation like a clone does
                    Some(self.slots[*s].as_ref().unwrap().to_component(apollo_compiler::schema::ComponentOrigin::Definition).node)
                };
                self.shadow[*d] = self.shadow[*s];
                "ok"
            }
            DOp::Drop(s) => {
                if !self.held(*s) { return "skip"; }
                self.slots[*s] = None;
                self.shadow[*s] = None;
                "ok"
            }
            DOp::MakeMut(s, v) => {
                if !self.held(*s) { return "skip"; }
                let shared = (0..self.slots.len()).any(|j| j != *s && self.held(j) && self.slots[j].as_ref().unwrap().ptr_eq(self.slots[*s].as_ref().unwrap()));
                self.slots[*s].as_mut().unwrap().make_mut().v = *v;
                self.shadow[*s].as_mut().unwrap().0 = *v;
                if shared { "cloned" } else { "ok" }
            }
            DOp::GetMut(s, v) => {
                if !self.held(*s) { return "skip"; }
                match self.slots[*s].as_mut().unwrap().get_mut() {
                    Some(r) => {
                        r.v = *v;
                        self.shadow[*s].as_mut().unwrap().0 = *v;
                        "ok"
                    }
                    None => "none",
                }
            }
            DOp::SameLoc(d, s, v) => {
                if !self.free(*d) || !self.held(*s) { return "skip"; }
                let p = self.probe(*v);
                let n = self.slots[*s].as_ref().unwrap().same_location(p);
                self.slots[*d] = Some(n);
                self.shadow[*d] = Some((*v, self.shadow[*s].unwrap().1));
                "ok"
            }
        }
    }

    fn observe(&mut self, res: &str) -> String {
        let mut out = String::from(res);
        let n = self.slots.len();
        let mut fails: Vec<(String, String)> = vec![];
        let mut classes = 0usize;
        for i in 0..n {
            out.push(';');
            if self.slots[i].is_none() { out.push('-'); continue; }
            let first = (0..n).find(|j| self.held(*j) && self.slots[*j].as_ref().unwrap().ptr_eq(self.slots[i].as_ref().unwrap())).unwrap();
            if first == i { classes += 1; }
            let shared = (0..n).any(|j| j != i && self.held(j) && self.slots[j].as_ref().unwrap().ptr_eq(self.slots[i].as_ref().unwrap()));
            let unique = self.slots[i].as_mut().unwrap().get_mut().is_some();
            let node = self.slots[i].as_ref().unwrap();
            let (v, l) = (node.v, loc_of(node.location()));
            let (sv, sl) = self.shadow[i].unwrap();
            if v != sv { fails.push(("node-value".into(), format!("slot {i} reads {v}, value semantics say {sv}"))); }
            if l != sl { fails.push(("node-location".into(), format!("slot {i}: location {} , supplied {}", loc_str(l), loc_str(sl)))); }
            if unique == shared { fails.push(("node-unique".into(), format!("slot {i}: get_mut().is_some() = {unique} but shares its allocation with another live node = {shared}"))); }
            out.push_str(&format!("{v}/{}/{first}/{}", loc_str(l), if unique { "u" } else { "s" }));
        }
        let live = Arc::strong_count(&self.live) - 1;
        out.push_str(&format!(";#{live}"));
        if live != classes {
            let key = if live > classes { "node-leak" } else { "node-premature-drop" };
            fails.push((key.into(), format!("{live} values alive, {classes} distinct allocations reachable")));
        }
        for i in 0..n {
            for j in i + 1..n {
                let (Some(a), Some(b)) = (&self.slots[i], &self.slots[j]) else { continue };
                let (ta, tb) = (self.shadow[i].unwrap().0, self.shadow[j].unwrap().0);
                if (a == b) != (ta == tb) { fails.push(("node-eq-hash".into(), format!("slots {i},{j}: == is {}, values {ta} {tb}", a == b))); }
                if ta == tb && hash_of(a) != hash_of(b) { fails.push(("node-eq-hash".into(), format!("slots {i},{j}: equal nodes hash differently"))); }
            }
        }
        for (k, w) in fails { self.fail(&k, w); }
        out
    }
}

fn run_node_history(ctx: &mut Ctx, spans: &mut Spans, pool: usize, ops: &[DOp]) {
    let mut all: Vec<DOp> = ops.to_vec();
    for i in 0..pool { all.push(DOp::Drop(i)); }
    let mut w = NodeWorld::new(pool);
    let mut steps = vec![];
    let mut fields = vec![pool.to_string()];
    let mut nontrivial = false;
    for op in &all {
        fields.push(op.enc());
        ctx.begin(&format!("node history: {}", fields.join(" ")));
        let before = w.fails.len();
        let res = match catch(|| w.step(op, spans)) {
            Ok(r) => r,
            Err(m) => { w.fail("node-panic", format!("{} panicked: {m}", op.enc())); "PANIC" }
        };
        if res != "skip" { ctx.stat(&format!("node_op:{}:{}", &op.enc()[..2], res)); }
        if res == "cloned" { nontrivial = true; }
        steps.push(w.observe(res));
        if w.fails.len() > before {
            let input = fields.join(" ");
            for (k, what) in w.fails[before..].to_vec() { ctx.fail(&k, &input, &what); }
        }
    }
    if nontrivial { ctx.nontrivial(&fields.join(" ")); }
    ctx.stat("node_histories");
    ctx.case("c30.node", &fields, &steps.join("|"));
}

fn gen_node_history(rng: &mut Rng, pool: usize, len: usize) -> Vec<DOp> {
    let mut held = vec![false; pool];
    let mut ops = vec![];
    for _ in 0..len {
        let pick = |rng: &mut Rng, want: bool, held: &Vec<bool>| -> usize {
            let c: Vec<usize> = (0..pool).filter(|i| held[*i] == want).collect();
            if c.is_empty() || rng.chance(1, 12) { rng.below(pool + 1) } else { c[rng.below(c.len())] }
        };
        let dst = pick(rng, false, &held);
        let src = pick(rng, true, &held);
        let v = rng.below(4) as u64 + if rng.chance(1, 8) { 1 << 40 } else { 0 };
        let op = match rng.below(100) {
            0..=14 => {
                let loc = if rng.chance(1, 2) { Some((gen_fid(rng), 1 + rng.below(30) as u32, 1 + rng.below(6) as u32)) } else { None };
                DOp::New(dst, v, loc)
            }
            15..=39 => DOp::Clone(dst, src),
            40..=54 => DOp::Drop(src),
            55..=79 => DOp::MakeMut(src, v),
            80..=91 => DOp::GetMut(src, v),
            _ => DOp::SameLoc(dst, src, v),
        };
        match &op {
            DOp::New(d, ..) => if *d < pool { held[*d] = true; },
            DOp::Clone(d, s) | DOp::SameLoc(d, s, _) => if *d < pool && *s < pool && held[*s] { held[*d] = true; },
            DOp::Drop(s) => if *s < pool { held[*s] = false; },
            _ => {}
        }
        ops.push(op);
    }
    ops
}

fn exhaustive_node_histories(k: usize, mut f: impl FnMut(&[DOp])) {
    use DOp::*;
    let alphabet: Vec<DOp> = vec![
        New(0, 1, None), New(1, 2, Some((3, 1, 2))), Clone(1, 0), Clone(0, 1), Clone(2, 0), Drop(0), Drop(1), MakeMut(0, 7), MakeMut(1, 8),
        GetMut(0, 5), GetMut(2, 6), SameLoc(2, 1, 4),
    ];
    let mut idx = vec![0usize; k];
    loop {
        let h: Vec<DOp> = idx.iter().map(|i| alphabet[*i].clone()).collect();
        f(&h);
        let mut p = k;
        loop {
            if p == 0 { return; }
            p -= 1;
            if idx[p] + 1 < alphabet.len() { idx[p] += 1; for j in p + 1..k { idx[j] = 0; } break; }
        }
    }
}

// ---------------------------------------------------------------- threads (final accounting only)

/// what a worker does with its private handles; decided up-front from the single PRNG
#[derive(Clone)]
enum TOp {
    CloneShared(usize),  // clone a shared base name (through `&Name`, concurrently with the other threads)
    CloneOwn(usize),
    Drop(usize),
    WithLoc(usize, usize), // own handle index, span index
    ToArcAndBack(usize),   // to_cloned_arc → from_arc_unchecked → replaces the handle
    IntoArcAndBack(usize), // Arc::from(name) → Name::from_arc_unchecked
    Read(usize),
}

struct Base {
    name: Name,
    text: String,
    wit: Option<Weak<str>>,
}

fn threads_names(ctx: &mut Ctx, spans: &mut Spans, threads: usize, per: usize) {
    // shared base names: heap and static, some located
    let mut base: Vec<Base> = vec![];
    for i in 0..6 {
        let text = TEXTS[ctx.rng.below(TEXTS.len())].to_string();
        if i % 3 == 2 {
            let k = ctx.rng.below(STATICS.len());
            base.push(Base { name: Name::new_static_unchecked(STATICS[k]), text: STATICS[k].to_string(), wit: None });
        } else {
            let n = Name::new_unchecked(&text);
            let wit = n.to_cloned_arc().map(|a| Arc::downgrade(&a));
            base.push(Base { name: n, text, wit });
        }
    }
    // spans by length, made before the threads start (the parser presets a global counter)
    let mut span_pool: Vec<(SourceSpan, Loc)> = vec![];
    for b in &base {
        if b.text.is_empty() { continue; }
        for _ in 0..2 {
            let (f, s, l) = (gen_fid(&mut ctx.rng), 1 + ctx.rng.below(50) as u32, b.text.len() as u32);
            span_pool.push((spans.get(f, s, l), (f, s as usize, l as usize)));
        }
    }
    let plans: Vec<Vec<TOp>> = (0..threads)
        .map(|_| {
            (0..per)
                .map(|_| {
                    let i = ctx.rng.below(8);
                    match ctx.rng.below(14) {
                        0..=3 => TOp::CloneShared(ctx.rng.below(base.len())),
                        4..=5 => TOp::CloneOwn(i),
                        6..=8 => TOp::Drop(i),
                        9 => TOp::WithLoc(i, ctx.rng.below(span_pool.len().max(1))),
                        10 => TOp::ToArcAndBack(i),
                        11 => TOp::IntoArcAndBack(i),
                        _ => TOp::Read(i),
                    }
                })
                .collect()
        })
        .collect();
    // each worker returns (base index, handle) for what it still holds, and the problems it saw
    let results: Vec<(Vec<(usize, Name)>, Vec<String>)> = std::thread::scope(|sc| {
        let base = &base;
        let span_pool = &span_pool;
        let hs: Vec<_> = plans
            .iter()
            .map(|plan| {
                sc.spawn(move || {
                    let mut own: Vec<(usize, Name, Option<Loc>)> = vec![];
                    let mut bad: Vec<String> = vec![];
                    for op in plan {
                        // at any time, under any schedule: the count of a shared string is at least the base
                        // handle plus the handles this thread holds; otherwise stop before memory is at risk
                        let mut mine = vec![0usize; base.len()];
                        for (b, _, _) in &own { mine[*b] += 1; }
                        for (b, m) in mine.iter().enumerate() {
                            if let Some(w) = &base[b].wit {
                                let c = w.strong_count();
                                if c < 1 + m || c > (1 << 40) {
                                    bad.push(format!("name-premature-free|base name {b}: strong count {c} while this thread alone holds {m} clones and the base is alive"));
                                }
                            }
                        }
                        if !bad.is_empty() {
                            std::mem::forget(std::mem::take(&mut own));
                            bad.push("POISON|".to_string());
                            break;
                        }
                        match op {
                            TOp::CloneShared(b) => own.push((*b, base[*b].name.clone(), None)),
                            TOp::CloneOwn(i) => if !own.is_empty() { let k = i % own.len(); let c = (own[k].0, own[k].1.clone(), own[k].2); own.push(c); },
                            TOp::Drop(i) => if !own.is_empty() { let k = i % own.len(); own.swap_remove(k); },
                            TOp::WithLoc(i, s) => if !own.is_empty() && !span_pool.is_empty() {
                                let k = i % own.len();
                                let (span, loc) = span_pool[s % span_pool.len()];
                                if loc.2 == base[own[k].0].text.len() {
                                    let (b, n, _) = own.swap_remove(k);
                                    own.push((b, n.with_location(span), if loc.0 == NONE_ID { None } else { Some(loc) }));
                                }
                            },
                            TOp::ToArcAndBack(i) => if !own.is_empty() {
                                let k = i % own.len();
                                if let Some(a) = own[k].1.to_cloned_arc() {
                                    let b = own[k].0;
                                    own[k] = (b, Name::from_arc_unchecked(a), None);
                                }
                            },
                            TOp::IntoArcAndBack(i) => if !own.is_empty() {
                                let k = i % own.len();
                                let (b, n, l) = own.swap_remove(k);
                                if base[b].wit.is_some() {
                                    let a: Arc<str> = n.into();
                                    own.push((b, Name::from_arc_unchecked(a), None));
                                } else {
                                    own.push((b, n, l)); // a static name would move to a private allocation: keep it
                                }
                            },
                            TOp::Read(i) => if !own.is_empty() {
                                let k = i % own.len();
                                let (b, n, loc) = &own[k];
                                if n.as_str() != base[*b].text { bad.push(format!("name-text|a clone of base name {b} reads {:?}, supplied {:?}", n.as_str(), base[*b].text)); }
                                if loc_of(n.location()) != *loc { bad.push(format!("name-location|a clone of base name {b}: location {} , supplied {}", loc_str(loc_of(n.location())), loc_str(*loc))); }
                                if *n != base[*b].name || hash_of(n) != hash_of(&base[*b].name) { bad.push(format!("name-eq-hash|a clone of base name {b} differs from it by ==/hash")); }
                            },
                        }
                    }
                    (own.into_iter().map(|(b, n, _)| (b, n)).collect::<Vec<_>>(), bad)
                })
            })
            .collect();
        hs.into_iter().map(|h| h.join().unwrap_or_else(|_| (vec![], vec!["name-panic|a worker thread panicked".to_string()]))).collect()
    });
    let desc = format!("{threads} threads x {per} operations on clones of 6 shared names (seed {})", ctx.seed);
    let mut held: Vec<(usize, Name)> = vec![];
    let mut poisoned = false;
    for (own, bad) in results {
        for b in bad {
            let (k, w) = b.split_once('|').unwrap();
            if k == "POISON" { poisoned = true; } else { ctx.fail(k, &desc, w); }
        }
        held.extend(own);
    }
    if poisoned {
        // a worker saw a count below the number of live handles: leak everything, touch nothing
        std::mem::forget(held);
        std::mem::forget(base);
        return;
    }
    ctx.stat("thread_runs_names");
    ctx.stat_n("thread_handles_returned", held.len() as u64);
    // accounting after the join: count = 1 (base) + handles returned
    for (i, b) in base.iter().enumerate() {
        let Some(w) = &b.wit else { continue };
        let expect = 1 + held.iter().filter(|(j, _)| *j == i).count();
        if w.strong_count() != expect {
            let key = if w.strong_count() > expect { "name-leak" } else { "name-premature-free" };
            ctx.fail(key, &desc, &format!("base name {i} ({:?}): strong count {} after the join, live handles {expect}", b.text, w.strong_count()));
        }
    }
    for (j, n) in &held {
        if n.as_str() != base[*j].text { ctx.fail("name-text", &desc, &format!("a returned clone of base name {j} reads {:?}", n.as_str())); }
    }
    drop(held);
    for (i, b) in base.iter().enumerate() {
        if let Some(w) = &b.wit {
            if w.strong_count() != 1 { ctx.fail("name-leak", &desc, &format!("base name {i}: strong count {} with only the base handle alive", w.strong_count())); }
        }
    }
    let wits: Vec<Weak<str>> = base.iter().filter_map(|b| b.wit.clone()).collect();
    drop(base);
    for w in wits {
        if w.strong_count() != 0 { ctx.fail("name-leak", &desc, &format!("strong count {} after every handle was dropped", w.strong_count())); }
    }
}

fn threads_nodes(ctx: &mut Ctx, threads: usize, per: usize) {
    let live = Arc::new(());
    let base: Vec<Node<Probe>> = (0..4).map(|i| Node::new(Probe { v: 100 + i, live: live.clone() })).collect();
    let plans: Vec<Vec<(usize, usize)>> = (0..threads).map(|_| (0..per).map(|_| (ctx.rng.below(5), ctx.rng.below(base.len()))).collect()).collect();
    let bad: Vec<String> = std::thread::scope(|sc| {
        let base = &base;
        let hs: Vec<_> = plans.iter().enumerate().map(|(t, plan)| {
            sc.spawn(move || {
                let mut bad = vec![];
                let mut own: Vec<(Node<Probe>, u64)> = vec![];
                for (k, (what, b)) in plan.iter().enumerate() {
                    match what {
                        0 | 1 => own.push((base[*b].clone(), 100 + *b as u64)),
                        2 => if !own.is_empty() {
                            // copy-on-write: mutate one handle, its own earlier clone must keep the old value
                            let i = k % own.len();
                            let keep = own[i].0.clone();
                            let old = own[i].1;
                            let v = (t as u64 + 1) * 1_000_000 + k as u64;
                            own[i].0.make_mut().v = v;
                            own[i].1 = v;
                            if keep.v != old { bad.push(format!("node-value|thread {t}: a clone read {} after make_mut on the other handle, expected {old}", keep.v)); }
                            if own[i].0.v != v { bad.push(format!("node-value|thread {t}: make_mut lost the write")); }
                            if keep.ptr_eq(&own[i].0) { bad.push(format!("node-unique|thread {t}: still ptr_eq after make_mut on a shared node")); }
                        },
                        3 => if !own.is_empty() { let i = k % own.len(); own.swap_remove(i); },
                        _ => for (n, v) in &own { if n.v != *v { bad.push(format!("node-value|thread {t}: a private handle reads {}, expected {v}", n.v)); } },
                    }
                }
                bad
            })
        }).collect();
        hs.into_iter().flat_map(|h| h.join().unwrap_or_else(|_| vec!["node-panic|a worker thread panicked".to_string()])).collect()
    });
    let desc = format!("{threads} threads x {per} node operations on clones of 4 shared nodes (seed {})", ctx.seed);
    for b in bad { let (k, w) = b.split_once('|').unwrap(); ctx.fail(k, &desc, w); }
    for (i, n) in base.iter().enumerate() {
        if n.v != 100 + i as u64 { ctx.fail("node-value", &desc, &format!("shared node {i} reads {} after the workers mutated their clones", n.v)); }
    }
    let mut base = base;
    for (i, n) in base.iter_mut().enumerate() {
        if n.get_mut().is_none() { ctx.fail("node-leak", &desc, &format!("shared node {i} is not unique after every clone was dropped")); }
    }
    if Arc::strong_count(&live) != 1 + base.len() { ctx.fail("node-leak", &desc, &format!("{} values alive, {} nodes", Arc::strong_count(&live) - 1, base.len())); }
    drop(base);
    if Arc::strong_count(&live) != 1 { ctx.fail("node-leak", &desc, &format!("{} values alive after every node was dropped", Arc::strong_count(&live) - 1)); }
    ctx.stat("thread_runs_nodes");
}

/// Names longer than any length field narrower than the `u32` the representation uses (255/256, 65 535/65 536 bytes;
/// one of them in two-byte characters, so that bytes ≠ chars): created, located, cloned, converted and dropped.
fn long_name_histories(thorough: bool) -> Vec<(usize, Vec<NOp>)> {
    use NOp::*;
    let mut lens: Vec<usize> = vec![255, 256, 257, 65_536];
    if thorough { lens.extend([4_096, 65_535, 65_537, 70_001]); }
    let mut out = vec![];
    for (k, len) in lens.into_iter().enumerate() {
        let t: String = if k % 2 == 1 { "é".repeat(len / 2) } else { "a".repeat(len) };
        let bytes = t.len() as u32;
        out.push((2, vec![NewName(0, t.clone()), WithLoc(0, 5, 7, bytes), Clone(1, 0), Drop(0), IntoArc(0, 1)]));
        if len <= 4_096 || thorough {
            out.push((2, vec![NewArc(0, t.clone()), Clone(1, 0), FromArc(1, 0), WithLoc(1, MAX_ID, 100_000, bytes), ToClonedArc(0, 1), WithLoc(1, 3, 1, bytes - 1)]));
            out.push((2, vec![NewChecked(0, t), Clone(1, 0), WithLoc(1, NONE_ID, 2, bytes), Drop(0)]));
        }
    }
    out
}

/// `Node<str>` (the unsized flavour: header and text in one allocation, built by `from_header_and_str`) has its own
/// constructors and conversions; it has no `make_mut` (`str` is not `Clone`). Value semantics only: text, location,
/// equality / hash by text, `ptr_eq` exactly between clones, `get_mut` exactly when unshared.
fn node_str_histories(ctx: &mut Ctx, spans: &mut Spans, n: usize) {
    let texts = ["", "a", "é", "Query", "a b\n", "日本語のテキスト", "x".repeat(300).leak() as &str];
    for _ in 0..n {
        let pool = 2 + ctx.rng.below(4);
        let mut slots: Vec<Option<(Node<str>, String, Option<Loc>, usize)>> = (0..pool).map(|_| None).collect();
        let mut next_class = 0usize;
        let mut desc = format!("Node<str> history, pool {pool}:");
        for _ in 0..4 + ctx.rng.below(24) {
            let (d, s) = (ctx.rng.below(pool), ctx.rng.below(pool));
            match ctx.rng.below(10) {
                0..=3 => if slots[d].is_none() {
                    let t = ctx.rng.pick(&texts).to_string();
                    let route = ctx.rng.below(5);
                    let loc = if route == 0 { let (f, st, l) = (gen_fid(&mut ctx.rng), 1 + ctx.rng.below(30) as u32, 1 + ctx.rng.below(6) as u32); Some((f, st, l)) } else { None };
                    let node: Node<str> = match route {
                        0 => { let (f, st, l) = loc.unwrap(); Node::new_str_parsed(&t, spans.get(f, st, l)) }
                        1 => Node::new_str(&t),
                        2 => Node::from(t.as_str()),
                        3 => Node::from(t.clone()),
                        _ => Node::from(&t),
                    };
                    ctx.stat(&format!("node_str_route:{route}"));
                    write!(desc, " new{route}({d},{t:?})").unwrap();
                    slots[d] = Some((node, t, loc.map(|(f, st, l)| (f, st as usize, l as usize)), next_class));
                    next_class += 1;
                },
                4..=6 => if slots[d].is_none() { if let Some((n, t, l, c)) = &slots[s] { write!(desc, " clone({d},{s})").unwrap(); slots[d] = Some((n.clone(), t.clone(), *l, *c)); } },
                7 => if slots[d].is_none() { if let Some((n, t, l, _)) = &slots[s] {
                    write!(desc, " same_location({d},{s})").unwrap();
                    // a new allocation at the same location
                    let m: Node<String> = n.same_location(t.clone());
                    if loc_of(m.location()) != *l || *m != *t { ctx.fail("node-location", &desc, "same_location from a Node<str> lost the location or the value"); }
                } },
                _ => { write!(desc, " drop({s})").unwrap(); slots[s] = None; }
            }
            ctx.begin(&desc);
            for i in 0..pool {
                let shared = (0..pool).any(|j| j != i && matches!((&slots[i], &slots[j]), (Some(a), Some(b)) if a.3 == b.3));
                let Some((n, t, l, c)) = &mut slots[i] else { continue };
                if n.as_str() != t.as_str() || &**n != t.as_str() || String::from(&*n) != *t || n.to_string() != *t { ctx.fail("node-value", &desc, &format!("slot {i} reads {:?}, supplied {t:?}", n.as_str())); }
                if loc_of(n.location()) != *l { ctx.fail("node-location", &desc, &format!("slot {i}: location {}, supplied {}", loc_str(loc_of(n.location())), loc_str(*l))); }
                if hash_of(n) != hash_of(t.as_str()) { ctx.fail("node-eq-hash", &desc, &format!("slot {i}: hash differs from the hash of its text")); }
                if n.get_mut().is_some() == shared { ctx.fail("node-unique", &desc, &format!("slot {i}: get_mut().is_some() = {} but shared = {shared}", !shared)); }
                let _ = c;
            }
            for i in 0..pool { for j in i + 1..pool {
                let (Some(a), Some(b)) = (&slots[i], &slots[j]) else { continue };
                if a.0.ptr_eq(&b.0) != (a.3 == b.3) { ctx.fail("node-unique", &desc, &format!("slots {i},{j}: ptr_eq = {}, clones of one another = {}", a.0.ptr_eq(&b.0), a.3 == b.3)); }
                if (a.0 == b.0) != (a.1 == b.1) { ctx.fail("node-eq-hash", &desc, &format!("slots {i},{j}: == is {}, texts {:?} {:?}", a.0 == b.0, a.1, b.1)); }
            } }
        }
        ctx.stat("node_str_histories");
    }
}

pub fn run(ctx: &mut Ctx) {
    let mut spans = Spans::new();
    // regression / hand-written histories first
    for (pool, h) in fixed_name_histories() { run_name_history(ctx, &mut spans, pool, &h); }
    for (pool, h) in long_name_histories(ctx.thorough) { ctx.stat("family:long_name_histories"); run_name_history(ctx, &mut spans, pool, &h); }
    let n_str = if ctx.thorough { 20_000 } else { 2_000 };
    node_str_histories(ctx, &mut spans, n_str);
    // exhaustive small histories
    let k = if ctx.thorough { 4 } else { 3 };
    for len in 1..=k {
        let mut all: Vec<Vec<NOp>> = vec![];
        exhaustive_name_histories(len, |h| all.push(h.to_vec()));
        for h in all { run_name_history(ctx, &mut spans, 2, &h); }
        let mut alln: Vec<Vec<DOp>> = vec![];
        exhaustive_node_histories(len, |h| alln.push(h.to_vec()));
        for h in alln { run_node_history(ctx, &mut spans, 3, &h); }
    }
    // random histories
    let n = if ctx.thorough { 150_000 } else { 15_000 };
    for _ in 0..n {
        let pool = 2 + ctx.rng.below(5);
        let max_len = if ctx.rng.chance(1, 10) { 120 } else { 36 };
        let len = 4 + ctx.rng.below(max_len);
        let h = gen_name_history(&mut ctx.rng, pool, len);
        run_name_history(ctx, &mut spans, pool, &h);
    }
    for _ in 0..n / 2 {
        let pool = 2 + ctx.rng.below(5);
        let len = 4 + ctx.rng.below(40);
        let h = gen_node_history(&mut ctx.rng, pool, len);
        run_node_history(ctx, &mut spans, pool, &h);
    }
    // threads
    let reps = if ctx.thorough { 60 } else { 10 };
    for r in 0..reps {
        let threads = if ctx.thorough { [2, 3, 4, 8][r % 4] } else { [2, 3, 4][r % 3] };
        threads_names(ctx, &mut spans, threads, if ctx.thorough { 4000 } else { 1500 });
        threads_nodes(ctx, threads, if ctx.thorough { 3000 } else { 1000 });
    }
    FileId::reset();
}
