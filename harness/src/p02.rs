//! C02 — the document CST is lossless (no token limit).
use crate::gen::{mutate, G};
use crate::pp::*;
use crate::util::*;

pub fn one(ctx: &mut Ctx, rl: usize, src: &str) {
    let r = case(ctx, "doc", None, rl, src);
    match r {
        Err(msg) => ctx.fail("parse-document-panic", src, &msg),
        Ok(p) => {
            if p.text == src && !p.boundaries_ok { ctx.fail("range-not-on-char-boundary", src, "a node or token range splits a UTF-8 sequence"); }
            if p.text != src {
                // classify: was a token swallowed by the type parser?
                let key = if p.loss == Loss::TypePositionDropOnly { "cst-drops-token-in-type-position" } else { "cst-not-lossless" };
                ctx.fail(key, src, &format!("tree text {:?}", p.text));
                ctx.stat("lossy");
            } else { ctx.stat("lossless"); }
            if !p.errors.is_empty() { ctx.nontrivial(&p.sexpr); }
        }
    }
}

pub fn run(ctx: &mut Ctx) {
    for s in ["type A { a: [! }", "query($a: [!) { a }", "type A { a: [[$]] }", "{a é ..}", "type A{a:[!}"] { one(ctx, 500, s); }
    let k = if ctx.thorough { 4 } else { 3 };
    let mut all = vec![];
    for_all_strings(&crate::p03::CLASS_ALPHABET, k, |s| all.push(s.to_string()));
    for s in &all { one(ctx, 500, s); }
    let mut seqs = vec![];
    token_seqs(&TOKENS, if ctx.thorough { 4 } else { 3 }, |s| seqs.push(s.to_string()));
    for (i, s) in seqs.iter().enumerate() { one(ctx, [500usize, 0, 1, 2][i % 4], s); }
    // recursion limit reached inside every nesting construct (the tree must stay lossless when the parser gives up):
    // depth d of each construct × recursion limit rl, small values exhaustively and around the default limit
    let nests: [(&str, &str, &str, &str, &str); 12] = [
        ("type A { a: ", "[", "Int", "]", " }"), ("type A { a(x: ", "[", "Int!", "]!", "): Int }"), ("query($v: ", "[", "Int", "]", " = 1) { a }"),
        ("input I { x: ", "[", "I", "]", " = null }"), ("directive @d(x: ", "[", "Int", "]", ") on FIELD"),
        ("{ a(x: ", "[", "1", "]", ") }"), ("{ a(x: ", "{k: ", "1", "}", ") }"), ("query($v: Int = ", "[", "$w", "]", ") { a }"),
        ("", "{ a ", "b", " }", ""), ("{ ", "... { ", "a", " }", " }"), ("{ ", "... on T { a ", "b", " c }", " }"), ("fragment F on T ", "{ a @d(x: [", "1", "]) }", ""),
    ];
    let mut nest_cases = 0u64;
    for (pre, open, mid, close, post) in nests {
        for d in 0..=7usize { for rl in 0..=6usize {
            one(ctx, rl, &format!("{pre}{}{mid}{}{post}", open.repeat(d), close.repeat(d)));
            // unbalanced: the closing part is missing or too long
            if d > 0 { one(ctx, rl, &format!("{pre}{}{mid}{}{post}", open.repeat(d), close.repeat(d - 1))); }
            one(ctx, rl, &format!("{pre}{}{mid}{} é{post}", open.repeat(d), close.repeat(d + 1)));
            nest_cases += 3;
        } }
        for d in [498usize, 499, 500, 501, 502, 600] { one(ctx, 500, &format!("{pre}{}{mid}{}{post}", open.repeat(d), close.repeat(d))); nest_cases += 1; }
    }
    ctx.stat_n("nesting_x_recursion_limit_cases", nest_cases);
    // ---- (audit G1) systematic families, the same on every seed — see pfam.rs ----
    {
        use crate::pfam::*;
        let th = ctx.thorough;
        let rls = [500usize, 500, 0, 1, 2, 3];
        // ignored tokens of every kind (blank, comma, CRLF, comment with and without its line end, BOM), lexer errors (non-ASCII, control
        // character, `..`, `1.`, an unterminated string that swallows the rest) in EVERY gap of one rich instance of every definition kind:
        // the pending queue is flushed into every kind of node, before and after every token
        let fillers: &[&str] = if th { &[" ", ",", "\r\n", "#c\n", "#c", "é", "\u{feff}", "\"", "..", "1.", "\u{1}", "😀", "\r", "\\", "\"\"\"", "0x"] } else { &[",", "\r\n", "#c\n", "é", "\u{feff}", "\"", "..", "😀"] };
        let mut gaps = vec![];
        for d in RICH { fill_gaps(d, fillers, |s| gaps.push(s)); }
        for (i, s) in gaps.iter().enumerate() { one(ctx, rls[i % 6], s); }
        ctx.stat_n("family:filler-in-every-gap", gaps.len() as u64);
        // the same around the whole document (what is pending at the very start and at EOF)
        let mut n = 0u64;
        for d in RICH { for f in [" ", "\n", ",", "#c", "\u{feff}", "é", " é ", "\"", "\u{1}\r\n"] { one(ctx, 500, &format!("{f}{d}")); one(ctx, 500, &format!("{d}{f}")); one(ctx, 1, &format!("{f}{d}{f}")); n += 3; } }
        ctx.stat_n("family:filler-around-document", n);
        // every single-token deletion / duplication / swap of the rich instances: a syntax error at every grammar position
        let mut edits = vec![];
        for d in RICH { token_edits(d, &[], |_, s| edits.push(s)); }
        for (i, s) in edits.iter().enumerate() { one(ctx, rls[i % 6], s); }
        ctx.stat_n("family:token-edits", edits.len() as u64);
        // every value position × constant / variable-carrying values (error recovery for a variable in a Const context: `[$v]`, `{k: $v}`
        // pop the `$`), and a description at every place where one may and may not stand
        let mut vals = fill(VALUE_POS_CONST, VALUE_FILLERS);
        vals.extend(fill(VALUE_POS_NOTCONST, VALUE_FILLERS));
        vals.extend(fill(DESC_POS, DESC_FILLERS));
        for (i, s) in vals.iter().enumerate() { one(ctx, rls[i % 6], s); }
        ctx.stat_n("family:value-and-description-positions", vals.len() as u64);
        // type references: every string over the type alphabet (with blanks and a lexer error between the parts), in every position
        // that takes a type — the checkpoint / wrap_node path of NON_NULL_TYPE with pending tokens in between
        let mut tys = vec![];
        for_all_strings(&["A", "[", "]", "!", " ", "é"], if th { 6 } else { 4 }, |s| tys.push(s.to_string()));
        for (i, t) in tys.iter().enumerate() { for (j, pos) in ["type T { f: § }", "query($v: § = 1) { a }", "input I { x: § @d y: Int }"].iter().enumerate() { one(ctx, rls[(i + j) % 6], &pos.replace('§', t)); } }
        ctx.stat_n("family:type-strings-x-position", (tys.len() * 3) as u64);
    }
    // lexical errors and multibyte text at every grammar position
    let n = if ctx.thorough { 80_000 } else { 8_000 };
    let mut cov = std::collections::BTreeMap::new();
    let inserts = ["é", "\u{1}", "\"", "..", "1.", "😀", "日本", "\u{feff}", "0x", "\"\\q\""];
    for i in 0..n {
        let doc = { let mut g = G { r: &mut ctx.rng, depth: 0, cov: &mut cov }; g.document() };
        let mut src = if i % 3 == 0 { doc } else { mutate(&mut ctx.rng, &doc) };
        if i % 2 == 0 {
            let pcs = crate::gen::pieces(&src);
            if !pcs.is_empty() {
                let at = ctx.rng.below(pcs.len() + 1);
                let ins = *ctx.rng.pick(&inserts);
                src = pcs[..at].concat() + ins + &pcs[at..].concat();
            }
        }
        let rl = if i % 3 == 1 { ctx.rng.below(7) } else { 500 };
        one(ctx, rl, &src);
    }
    for s in repo_documents() { one(ctx, 500, &s); }
}
