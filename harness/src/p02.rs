//! C02 — the document CST is lossless (no token limit).
use crate::gen::{mutate, G};
use crate::pp::*;
use crate::util::*;

pub fn one(ctx: &mut Ctx, rl: usize, src: &str) {
    let r = case(ctx, "doc", None, rl, src);
    match r {
        Err(msg) => ctx.fail("parse-document-panic", src, &msg),
        Ok(p) => {
            if p.text == src && !p.boundaries_ok { ctx.fail("range-not-on-char-boundary", src, "a node or token range splits a UTF-8 sequence"); }
            if p.text != src {
                // classify: was a token swallowed by the type parser?
                let ty_err = p.msgs.iter().any(|(_, m)| m == "expected a type" || m == "expected item type");
                let key = if ty_err && p.text.len() < src.len() { "cst-drops-token-in-type-position" } else { "cst-not-lossless" };
                ctx.fail(key, src, &format!("tree text {:?}", p.text));
                ctx.stat("lossy");
            } else { ctx.stat("lossless"); }
            if !p.errors.is_empty() { ctx.nontrivial(&p.sexpr); }
        }
    }
}

pub fn run(ctx: &mut Ctx) {
    for s in ["type A { a: [! }", "query($a: [!) { a }", "type A { a: [[$]] }", "{a é ..}", "type A{a:[!}"] { one(ctx, 500, s); }
    let k = if ctx.thorough { 4 } else { 3 };
    let mut all = vec![];
    for_all_strings(&crate::p03::CLASS_ALPHABET, k, |s| all.push(s.to_string()));
    for s in &all { one(ctx, 500, s); }
    let mut seqs = vec![];
    token_seqs(&TOKENS, if ctx.thorough { 4 } else { 3 }, |s| seqs.push(s.to_string()));
    for (i, s) in seqs.iter().enumerate() { one(ctx, [500usize, 0, 1, 2][i % 4], s); }
    // lexical errors and multibyte text at every grammar position
    let n = if ctx.thorough { 80_000 } else { 8_000 };
    let mut cov = std::collections::BTreeMap::new();
    let inserts = ["é", "\u{1}", "\"", "..", "1.", "😀", "日本", "\u{feff}", "0x", "\"\\q\""];
    for i in 0..n {
        let doc = { let mut g = G { r: &mut ctx.rng, depth: 0, cov: &mut cov }; g.document() };
        let mut src = if i % 3 == 0 { doc } else { mutate(&mut ctx.rng, &doc) };
        if i % 2 == 0 {
            let pcs = crate::gen::pieces(&src);
            if !pcs.is_empty() {
                let at = ctx.rng.below(pcs.len() + 1);
                let ins = *ctx.rng.pick(&inserts);
                src = pcs[..at].concat() + ins + &pcs[at..].concat();
            }
        }
        one(ctx, 500, &src);
    }
    for s in repo_documents() { one(ctx, 500, &s); }
}
