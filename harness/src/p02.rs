//! C02 — the document CST is lossless (no token limit).
use crate::gen::{mutate, G};
use crate::pp::*;
use crate::util::*;

pub fn one(ctx: &mut Ctx, rl: usize, src: &str) {
    let r = case(ctx, "doc", None, rl, src);
    match r {
        Err(msg) => ctx.fail("parse-document-panic", src, &msg),
        Ok(p) => {
            if p.text == src && !p.boundaries_ok { ctx.fail("range-not-on-char-boundary", src, "a node or token range splits a UTF-8 sequence"); }
            if p.text != src {
                // classify: was a token swallowed by the type parser?
                let key = if p.loss == Loss::TypePositionDropOnly { "cst-drops-token-in-type-position" } else { "cst-not-lossless" };
                ctx.fail(key, src, &format!("tree text {:?}", p.text));
                ctx.stat("lossy");
            } else { ctx.stat("lossless"); }
            if !p.errors.is_empty() { ctx.nontrivial(&p.sexpr); }
        }
    }
}

pub fn run(ctx: &mut Ctx) {
    for s in ["type A { a: [! }", "query($a: [!) { a }", "type A { a: [[$]] }", "{a é ..}", "type A{a:[!}"] { one(ctx, 500, s); }
    let k = if ctx.thorough { 4 } else { 3 };
    let mut all = vec![];
    for_all_strings(&crate::p03::CLASS_ALPHABET, k, |s| all.push(s.to_string()));
    for s in &all { one(ctx, 500, s); }
    let mut seqs = vec![];
    token_seqs(&TOKENS, if ctx.thorough { 4 } else { 3 }, |s| seqs.push(s.to_string()));
    for (i, s) in seqs.iter().enumerate() { one(ctx, [500usize, 0, 1, 2][i % 4], s); }
    // recursion limit reached inside every nesting construct (the tree must stay lossless when the parser gives up):
    // depth d of each construct × recursion limit rl, small values exhaustively and around the default limit
    let nests: [(&str, &str, &str, &str, &str); 12] = [
        ("type A { a: ", "[", "Int", "]", " }"), ("type A { a(x: ", "[", "Int!", "]!", "): Int }"), ("query($v: ", "[", "Int", "]", " = 1) { a }"),
        ("input I { x: ", "[", "I", "]", " = null }"), ("directive @d(x: ", "[", "Int", "]", ") on FIELD"),
        ("{ a(x: ", "[", "1", "]", ") }"), ("{ a(x: ", "{k: ", "1", "}", ") }"), ("query($v: Int = ", "[", "$w", "]", ") { a }"),
        ("", "{ a ", "b", " }", ""), ("{ ", "... { ", "a", " }", " }"), ("{ ", "... on T { a ", "b", " c }", " }"), ("fragment F on T ", "{ a @d(x: [", "1", "]) }", ""),
    ];
    let mut nest_cases = 0u64;
    for (pre, open, mid, close, post) in nests {
        for d in 0..=7usize { for rl in 0..=6usize {
            one(ctx, rl, &format!("{pre}{}{mid}{}{post}", open.repeat(d), close.repeat(d)));
            // unbalanced: the closing part is missing or too long
            if d > 0 { one(ctx, rl, &format!("{pre}{}{mid}{}{post}", open.repeat(d), close.repeat(d - 1))); }
            one(ctx, rl, &format!("{pre}{}{mid}{} é{post}", open.repeat(d), close.repeat(d + 1)));
            nest_cases += 3;
        } }
        for d in [498usize, 499, 500, 501, 502, 600] { one(ctx, 500, &format!("{pre}{}{mid}{}{post}", open.repeat(d), close.repeat(d))); nest_cases += 1; }
    }
    ctx.stat_n("nesting_x_recursion_limit_cases", nest_cases);
    // lexical errors and multibyte text at every grammar position
    let n = if ctx.thorough { 80_000 } else { 8_000 };
    let mut cov = std::collections::BTreeMap::new();
    let inserts = ["é", "\u{1}", "\"", "..", "1.", "😀", "日本", "\u{feff}", "0x", "\"\\q\""];
    for i in 0..n {
        let doc = { let mut g = G { r: &mut ctx.rng, depth: 0, cov: &mut cov }; g.document() };
        let mut src = if i % 3 == 0 { doc } else { mutate(&mut ctx.rng, &doc) };
        if i % 2 == 0 {
            let pcs = crate::gen::pieces(&src);
            if !pcs.is_empty() {
                let at = ctx.rng.below(pcs.len() + 1);
                let ins = *ctx.rng.pick(&inserts);
                src = pcs[..at].concat() + ins + &pcs[at..].concat();
            }
        }
        let rl = if i % 3 == 1 { ctx.rng.below(7) } else { 500 };
        one(ctx, rl, &src);
    }
    for s in repo_documents() { one(ctx, 500, &s); }
}
