//! C24 — introspection agrees with the reference implementation.
//!
//! The reference implementation (graphql-js) is not available in this sandbox.  The oracle is an
//! introspection function written here from the GraphQL specification §4 ("Introspection") and the shape of
//! graphql-js 16's `getIntrospectionQuery` (descriptions, specifiedByUrl, directiveIsRepeatable,
//! schemaDescription, inputValueDeprecation all on): it computes the expected response JSON directly from the
//! generator's own schema description — it never calls apollo's resolvers, executor or `Schema`.
//! The real code is `introspection::partial_execute` on the SDL text of the same description.
//! Allowed differences (normalised away on both sides): order of `types` and `directives`, field order of the
//! built-in introspection types; additionally `possibleTypes` is compared as a set (the spec does not order it)
//! and the descriptions of built-in types/directives are not compared (no reference text available).
//!
//! Streams: `c24.typeref` (type reference ↦ kind/name chain), `c24.filter` (deprecation filtering),
//! `c24.possible` (possibleTypes), `c24.skiproots` (concrete root fields are skipped), `c24.full` / `c24.fullfilter`
//! (the whole response of the standard query / of the deprecation-filter query: the Lean model of every resolver, run
//! through the executor model, against `partial_execute`; one digest per type and directive, in response order).
use crate::p26::{inner_name, ty};
use crate::p28::{toks, Lit, Ty, JV};
use crate::util::*;
use apollo_compiler::{ExecutableDocument, Schema};
use serde_json_bytes::Value as SJ;

// ───────────────────────── schema description ─────────────────────────

/// a description: its value and how it is written in the SDL
#[derive(Clone, Debug)]
pub struct Desc { pub value: String, pub block: bool }

/// `None`: not deprecated; `Some(None)`: `@deprecated`; `Some(Some(r))`: `@deprecated(reason: "r")`
pub type Dep = Option<Option<String>>;

#[derive(Clone, Debug)]
pub struct InputVal { pub name: String, pub desc: Option<Desc>, pub ty: Ty, pub default: Option<Lit>, pub dep: Dep }
#[derive(Clone, Debug)]
pub struct Field { pub name: String, pub desc: Option<Desc>, pub args: Vec<InputVal>, pub ty: Ty, pub dep: Dep }
#[derive(Clone, Debug)]
pub struct EnumVal { pub name: String, pub desc: Option<Desc>, pub dep: Dep }
#[derive(Clone, Debug)]
pub enum Kind {
    Scalar { specified_by: Option<String> },
    Object { implements: Vec<String>, fields: Vec<Field> },
    Interface { implements: Vec<String>, fields: Vec<Field> },
    Union { members: Vec<String> },
    Enum { values: Vec<EnumVal> },
    Input { fields: Vec<InputVal> },
}
#[derive(Clone, Debug)]
pub struct TypeDef { pub name: String, pub desc: Option<Desc>, pub kind: Kind, pub builtin: bool, /// how many trailing fields are written in an `extend` block
    pub ext_split: usize }
#[derive(Clone, Debug)]
pub struct DirectiveDef { pub name: String, pub desc: Option<Desc>, pub args: Vec<InputVal>, pub repeatable: bool, pub locations: Vec<String>, pub builtin: bool }
/// How parts of the same schema are spread over `extend …` blocks (audit G5).  The description — and so the
/// reference response and the model case — is the merged schema in every style.
#[derive(Clone, Copy, Debug, Default, PartialEq)]
pub struct ExtStyle {
    /// the last interface of every `implements` list is added by `extend type/interface X implements I`
    pub impl_split: bool,
    /// the last member of every union with ≥ 2 members is added by `extend union U = M`
    pub union_split: bool,
    /// `@specifiedBy` is written on `extend scalar S`
    pub scalar_split: bool,
    /// `mutation:` / `subscription:` are added by `extend schema { … }` (explicit schema definitions only)
    pub roots_split: bool,
    /// all extensions are written BEFORE the definitions they extend
    pub ext_first: bool,
}

#[derive(Clone, Debug)]
pub struct SchemaG {
    pub ext: ExtStyle,
    pub desc: Option<Desc>,
    pub query: String,
    pub mutation: Option<String>,
    pub subscription: Option<String>,
    pub explicit: bool,
    pub types: Vec<TypeDef>,
    pub directives: Vec<DirectiveDef>,
}

fn esc(s: &str) -> String {
    let mut o = String::new();
    for c in s.chars() {
        match c {
            '"' => o.push_str("\\\""), '\\' => o.push_str("\\\\"), '\n' => o.push_str("\\n"), '\t' => o.push_str("\\t"), '\r' => o.push_str("\\r"),
            '\u{8}' => o.push_str("\\b"), '\u{c}' => o.push_str("\\f"),
            c if (c as u32) < 0x20 || c as u32 == 0x7f => o.push_str(&format!("\\u{:04X}", c as u32)),
            c => o.push(c),
        }
    }
    o
}

fn desc_sdl(d: &Option<Desc>, indent: &str) -> String {
    match d {
        None => String::new(),
        Some(Desc { value, block: false }) => format!("{indent}\"{}\"\n", esc(value)),
        Some(Desc { value, block: true }) => {
            let mut s = format!("{indent}\"\"\"\n");
            for l in value.split('\n') { s.push_str(&format!("{indent}{l}\n")); }
            s.push_str(&format!("{indent}\"\"\"\n"));
            s
        }
    }
}

fn dep_sdl(d: &Dep) -> String {
    match d { None => String::new(), Some(None) => " @deprecated".into(), Some(Some(r)) => format!(" @deprecated(reason: \"{}\")", esc(r)) }
}

/// how a constant is printed in the GraphQL language (graphql-js `print`): `[1, 2]`, `{a: 1}`, JSON-like strings
pub fn print_lit(l: &Lit) -> String {
    match l {
        Lit::Null => "null".into(), Lit::Bool(b) => b.to_string(), Lit::Int(i) => i.to_string(), Lit::Float(t) => t.clone(),
        Lit::Str(s) => format!("\"{}\"", esc(s)), Lit::Enum(e) => e.clone(),
        Lit::List(xs) => format!("[{}]", xs.iter().map(print_lit).collect::<Vec<_>>().join(", ")),
        Lit::Obj(kvs) => format!("{{{}}}", kvs.iter().map(|(k, v)| format!("{k}: {}", print_lit(v))).collect::<Vec<_>>().join(", ")),
    }
}

fn inputval_sdl(v: &InputVal, indent: &str, inline: bool) -> String {
    let d = if inline { match &v.desc { Some(Desc { value, .. }) => format!("\"{}\" ", esc(value)), None => String::new() } } else { desc_sdl(&v.desc, indent) };
    let def = v.default.as_ref().map(|d| format!(" = {}", print_lit(d))).unwrap_or_default();
    if inline { format!("{d}{}: {}{def}{}", v.name, v.ty.print(), dep_sdl(&v.dep)) } else { format!("{d}{indent}{}: {}{def}{}\n", v.name, v.ty.print(), dep_sdl(&v.dep)) }
}

fn fields_sdl(fs: &[Field]) -> String {
    let mut s = String::new();
    for f in fs {
        s.push_str(&desc_sdl(&f.desc, "  "));
        let args = if f.args.is_empty() { String::new() } else { format!("({})", f.args.iter().map(|a| inputval_sdl(a, "", true)).collect::<Vec<_>>().join(", ")) };
        s.push_str(&format!("  {}{args}: {}{}\n", f.name, f.ty.print(), dep_sdl(&f.dep)));
    }
    s
}

impl SchemaG {
    pub fn sdl(&self) -> String {
        let mut s = String::new();
        let mut exts = String::new();
        if self.explicit || self.desc.is_some() {
            s.push_str(&desc_sdl(&self.desc, ""));
            s.push_str(&format!("schema {{ query: {}", self.query));
            let split = self.ext.roots_split && (self.mutation.is_some() || self.subscription.is_some());
            let mut rest = String::new();
            if let Some(m) = &self.mutation { rest.push_str(&format!(" mutation: {m}")); }
            if let Some(m) = &self.subscription { rest.push_str(&format!(" subscription: {m}")); }
            if split { exts.push_str(&format!("extend schema {{{rest} }}\n")); } else { s.push_str(&rest); }
            s.push_str(" }\n");
        }
        for d in self.directives.iter().filter(|d| !d.builtin) {
            s.push_str(&desc_sdl(&d.desc, ""));
            let args = if d.args.is_empty() { String::new() } else { format!("({})", d.args.iter().map(|a| inputval_sdl(a, "", true)).collect::<Vec<_>>().join(", ")) };
            s.push_str(&format!("directive @{}{args}{} on {}\n", d.name, if d.repeatable { " repeatable" } else { "" }, d.locations.join(" | ")));
        }
        for t in self.types.iter().filter(|t| !t.builtin) {
            s.push_str(&desc_sdl(&t.desc, ""));
            let imp = |i: &[String]| if i.is_empty() { String::new() } else { format!(" implements {}", i.join(" & ")) };
            match &t.kind {
                Kind::Scalar { specified_by } => {
                    let dir = specified_by.as_ref().map(|u| format!(" @specifiedBy(url: \"{}\")", esc(u))).unwrap_or_default();
                    if self.ext.scalar_split && specified_by.is_some() {
                        s.push_str(&format!("scalar {}\n", t.name));
                        exts.push_str(&format!("extend scalar {}{dir}\n", t.name));
                    } else { s.push_str(&format!("scalar {}{dir}\n", t.name)); }
                }
                Kind::Object { implements, fields } | Kind::Interface { implements, fields } => {
                    let kw = if matches!(t.kind, Kind::Object { .. }) { "type" } else { "interface" };
                    let cut = fields.len() - t.ext_split.min(fields.len().saturating_sub(1));
                    let icut = if self.ext.impl_split && !implements.is_empty() { implements.len() - 1 } else { implements.len() };
                    s.push_str(&format!("{kw} {}{} {{\n{}}}\n", t.name, imp(&implements[..icut]), fields_sdl(&fields[..cut])));
                    if icut < implements.len() { exts.push_str(&format!("extend {kw} {}{}\n", t.name, imp(&implements[icut..]))); }
                    if cut < fields.len() { exts.push_str(&format!("extend {kw} {} {{\n{}}}\n", t.name, fields_sdl(&fields[cut..]))); }
                }
                Kind::Union { members } => {
                    let mcut = if self.ext.union_split && members.len() >= 2 { members.len() - 1 } else { members.len() };
                    s.push_str(&format!("union {} = {}\n", t.name, members[..mcut].join(" | ")));
                    if mcut < members.len() { exts.push_str(&format!("extend union {} = {}\n", t.name, members[mcut..].join(" | "))); }
                }
                Kind::Enum { values } => {
                    let cut = values.len() - t.ext_split.min(values.len().saturating_sub(1));
                    let vs = |vs: &[EnumVal]| vs.iter().map(|v| format!("{}  {}{}\n", desc_sdl(&v.desc, "  "), v.name, dep_sdl(&v.dep))).collect::<String>();
                    s.push_str(&format!("enum {} {{\n{}}}\n", t.name, vs(&values[..cut])));
                    if cut < values.len() { exts.push_str(&format!("extend enum {} {{\n{}}}\n", t.name, vs(&values[cut..]))); }
                }
                Kind::Input { fields } => {
                    let cut = fields.len() - t.ext_split.min(fields.len().saturating_sub(1));
                    let fs = |fs: &[InputVal]| fs.iter().map(|f| inputval_sdl(f, "  ", false)).collect::<String>();
                    s.push_str(&format!("input {} {{\n{}}}\n", t.name, fs(&fields[..cut])));
                    if cut < fields.len() { exts.push_str(&format!("extend input {} {{\n{}}}\n", t.name, fs(&fields[cut..]))); }
                }
            }
        }
        if self.ext.ext_first { format!("{exts}{s}") } else { format!("{s}{exts}") }
    }
    fn get(&self, n: &str) -> Option<&TypeDef> { self.types.iter().find(|t| t.name == n) }
}

// ───────────────────────── the introspection schema, from the specification §4.2 ─────────────────────────

fn iv(name: &str, t: &str, default: Option<Lit>) -> InputVal { InputVal { name: name.into(), desc: None, ty: ty(t), default, dep: None } }
fn fl(name: &str, t: &str) -> Field { Field { name: name.into(), desc: None, args: vec![], ty: ty(t), dep: None } }
fn fl_dep(name: &str, t: &str) -> Field { Field { name: name.into(), desc: None, args: vec![iv("includeDeprecated", "Boolean", Some(Lit::Bool(false)))], ty: ty(t), dep: None } }
fn obj(name: &str, fields: Vec<Field>) -> TypeDef { TypeDef { name: name.into(), desc: None, kind: Kind::Object { implements: vec![], fields }, builtin: true, ext_split: 0 } }
fn en(name: &str, vals: &[&str]) -> TypeDef { TypeDef { name: name.into(), desc: None, kind: Kind::Enum { values: vals.iter().map(|v| EnumVal { name: v.to_string(), desc: None, dep: None }).collect() }, builtin: true, ext_split: 0 } }

pub fn builtin_types() -> Vec<TypeDef> {
    vec![
        obj("__Schema", vec![fl("description", "String"), fl("types", "[__Type!]!"), fl("queryType", "__Type!"), fl("mutationType", "__Type"), fl("subscriptionType", "__Type"), fl("directives", "[__Directive!]!")]),
        obj("__Type", vec![fl("kind", "__TypeKind!"), fl("name", "String"), fl("description", "String"), fl_dep("fields", "[__Field!]"), fl("interfaces", "[__Type!]"), fl("possibleTypes", "[__Type!]"),
            fl_dep("enumValues", "[__EnumValue!]"), fl_dep("inputFields", "[__InputValue!]"), fl("ofType", "__Type"), fl("specifiedByURL", "String")]),
        en("__TypeKind", &["SCALAR", "OBJECT", "INTERFACE", "UNION", "ENUM", "INPUT_OBJECT", "LIST", "NON_NULL"]),
        obj("__Field", vec![fl("name", "String!"), fl("description", "String"), fl_dep("args", "[__InputValue!]!"), fl("type", "__Type!"), fl("isDeprecated", "Boolean!"), fl("deprecationReason", "String")]),
        obj("__InputValue", vec![fl("name", "String!"), fl("description", "String"), fl("type", "__Type!"), fl("defaultValue", "String"), fl("isDeprecated", "Boolean!"), fl("deprecationReason", "String")]),
        obj("__EnumValue", vec![fl("name", "String!"), fl("description", "String"), fl("isDeprecated", "Boolean!"), fl("deprecationReason", "String")]),
        obj("__Directive", vec![fl("name", "String!"), fl("description", "String"), fl("locations", "[__DirectiveLocation!]!"), fl_dep("args", "[__InputValue!]!"), fl("isRepeatable", "Boolean!")]),
        en("__DirectiveLocation", &["QUERY", "MUTATION", "SUBSCRIPTION", "FIELD", "FRAGMENT_DEFINITION", "FRAGMENT_SPREAD", "INLINE_FRAGMENT", "VARIABLE_DEFINITION",
            "SCHEMA", "SCALAR", "OBJECT", "FIELD_DEFINITION", "ARGUMENT_DEFINITION", "INTERFACE", "UNION", "ENUM", "ENUM_VALUE", "INPUT_OBJECT", "INPUT_FIELD_DEFINITION"]),
    ]
}

pub fn builtin_directives() -> Vec<DirectiveDef> {
    let d = |name: &str, args: Vec<InputVal>, locs: &[&str]| DirectiveDef { name: name.into(), desc: None, args, repeatable: false, locations: locs.iter().map(|s| s.to_string()).collect(), builtin: true };
    vec![
        d("skip", vec![iv("if", "Boolean!", None)], &["FIELD", "FRAGMENT_SPREAD", "INLINE_FRAGMENT"]),
        d("include", vec![iv("if", "Boolean!", None)], &["FIELD", "FRAGMENT_SPREAD", "INLINE_FRAGMENT"]),
        d("deprecated", vec![iv("reason", "String", Some(Lit::Str("No longer supported".into())))], &["FIELD_DEFINITION", "ARGUMENT_DEFINITION", "INPUT_FIELD_DEFINITION", "ENUM_VALUE"]),
        d("specifiedBy", vec![iv("url", "String!", None)], &["SCALAR"]),
    ]
}

const BUILTIN_SCALARS: [&str; 5] = ["Int", "Float", "String", "Boolean", "ID"];

/// the generator's schema completed with what every schema contains: introspection types, built-in directives,
/// and the built-in scalars that are referenced
pub fn complete(user: &SchemaG) -> SchemaG {
    let mut s = user.clone();
    s.types.extend(builtin_types());
    let mut dirs = builtin_directives();
    dirs.extend(s.directives.iter().cloned());
    s.directives = dirs;
    let mut used: Vec<String> = vec![];
    let mut note = |t: &Ty| { let n = inner_name(t).to_string(); if BUILTIN_SCALARS.contains(&n.as_str()) && !used.contains(&n) { used.push(n); } };
    for t in &s.types {
        match &t.kind {
            Kind::Object { fields, .. } | Kind::Interface { fields, .. } => for f in fields { note(&f.ty); for a in &f.args { note(&a.ty); } },
            Kind::Input { fields } => for f in fields { note(&f.ty); },
            _ => {}
        }
    }
    for d in &s.directives { for a in &d.args { note(&a.ty); } }
    for n in used { s.types.push(TypeDef { name: n, desc: None, kind: Kind::Scalar { specified_by: None }, builtin: true, ext_split: 0 }); }
    s
}

// ───────────────────────── the reference introspection (spec §4) ─────────────────────────

fn o(kvs: Vec<(&str, JV)>) -> JV { JV::Obj(kvs.into_iter().map(|(k, v)| (k.to_string(), v)).collect()) }
fn s_opt(d: &Option<Desc>) -> JV { d.as_ref().map(|d| JV::Str(d.value.clone())).unwrap_or(JV::Null) }
fn st(s: &str) -> JV { JV::Str(s.to_string()) }

fn kind_of(s: &SchemaG, n: &str) -> &'static str {
    match s.get(n).map(|t| &t.kind) {
        Some(Kind::Scalar { .. }) => "SCALAR", Some(Kind::Object { .. }) => "OBJECT", Some(Kind::Interface { .. }) => "INTERFACE",
        Some(Kind::Union { .. }) => "UNION", Some(Kind::Enum { .. }) => "ENUM", Some(Kind::Input { .. }) => "INPUT_OBJECT", None => "?",
    }
}

/// `...TypeRef` with `levels` further `ofType` selections below this one
pub fn type_ref(s: &SchemaG, t: &Ty, levels: usize) -> JV {
    let (kind, name, of): (&str, JV, Option<Ty>) = match t {
        Ty::Named(n) => (kind_of(s, n), st(n), None),
        Ty::NonNullNamed(n) => ("NON_NULL", JV::Null, Some(Ty::Named(n.clone()))),
        Ty::List(inner) => ("LIST", JV::Null, Some((**inner).clone())),
        Ty::NonNullList(inner) => ("NON_NULL", JV::Null, Some(Ty::List(inner.clone()))),
    };
    let mut kvs = vec![("kind", st(kind)), ("name", name)];
    if levels > 0 { kvs.push(("ofType", of.map(|x| type_ref(s, &x, levels - 1)).unwrap_or(JV::Null))); }
    o(kvs)
}

const REF_LEVELS: usize = 9;

fn dep_fields(d: &Dep) -> Vec<(&'static str, JV)> {
    vec![("isDeprecated", JV::Bool(d.is_some())), ("deprecationReason", match d { None => JV::Null, Some(None) => st("No longer supported"), Some(Some(r)) => st(r) })]
}

fn input_value(s: &SchemaG, v: &InputVal) -> JV {
    let mut kvs = vec![("name", st(&v.name)), ("description", s_opt(&v.desc)), ("type", type_ref(s, &v.ty, REF_LEVELS)),
        ("defaultValue", v.default.as_ref().map(|d| JV::Str(print_lit(d))).unwrap_or(JV::Null))];
    kvs.extend(dep_fields(&v.dep));
    o(kvs)
}

fn visible<'a, T>(xs: &'a [T], dep: impl Fn(&T) -> &Dep, include_deprecated: bool) -> Vec<&'a T> {
    xs.iter().filter(|x| include_deprecated || dep(x).is_none()).collect()
}

/// objects (not interfaces) that implement `iface`
pub fn possible_types(s: &SchemaG, t: &TypeDef) -> Option<Vec<String>> {
    match &t.kind {
        Kind::Union { members } => Some(members.clone()),
        Kind::Interface { .. } => Some(s.types.iter().filter(|x| matches!(&x.kind, Kind::Object { implements, .. } if implements.contains(&t.name))).map(|x| x.name.clone()).collect()),
        _ => None,
    }
}

/// `...FullType`
fn full_type(s: &SchemaG, t: &TypeDef) -> JV {
    let named = |n: &String| type_ref(s, &Ty::Named(n.clone()), REF_LEVELS);
    let (fields, interfaces) = match &t.kind {
        Kind::Object { implements, fields } | Kind::Interface { implements, fields } => (
            JV::Arr(visible(fields, |f| &f.dep, true).into_iter().map(|f| {
                let mut kvs = vec![("name", st(&f.name)), ("description", s_opt(&f.desc)),
                    ("args", JV::Arr(visible(&f.args, |a| &a.dep, true).into_iter().map(|a| input_value(s, a)).collect())), ("type", type_ref(s, &f.ty, REF_LEVELS))];
                kvs.extend(dep_fields(&f.dep));
                o(kvs)
            }).collect()),
            JV::Arr(implements.iter().map(named).collect()),
        ),
        _ => (JV::Null, JV::Null),
    };
    o(vec![
        ("kind", st(kind_of(s, &t.name))), ("name", st(&t.name)), ("description", s_opt(&t.desc)),
        ("specifiedByURL", match &t.kind { Kind::Scalar { specified_by: Some(u) } => st(u), _ => JV::Null }),
        ("fields", fields),
        ("inputFields", match &t.kind { Kind::Input { fields } => JV::Arr(visible(fields, |f| &f.dep, true).into_iter().map(|f| input_value(s, f)).collect()), _ => JV::Null }),
        ("interfaces", interfaces),
        ("enumValues", match &t.kind { Kind::Enum { values } => JV::Arr(values.iter().map(|v| { let mut kvs = vec![("name", st(&v.name)), ("description", s_opt(&v.desc))]; kvs.extend(dep_fields(&v.dep)); o(kvs) }).collect()), _ => JV::Null }),
        ("possibleTypes", possible_types(s, t).map(|ns| JV::Arr(ns.iter().map(named).collect())).unwrap_or(JV::Null)),
    ])
}

/// the response `data.__schema` of the standard introspection query
pub fn expected_full(s: &SchemaG) -> JV {
    let name_of = |n: &Option<String>| n.as_ref().map(|n| o(vec![("name", st(n))])).unwrap_or(JV::Null);
    o(vec![
        ("description", s_opt(&s.desc)),
        ("queryType", o(vec![("name", st(&s.query))])),
        ("mutationType", name_of(&s.mutation)),
        ("subscriptionType", name_of(&s.subscription)),
        ("types", JV::Arr(s.types.iter().map(|t| full_type(s, t)).collect())),
        ("directives", JV::Arr(s.directives.iter().map(|d| o(vec![
            ("name", st(&d.name)), ("description", s_opt(&d.desc)), ("isRepeatable", JV::Bool(d.repeatable)),
            ("locations", JV::Arr(d.locations.iter().map(|l| st(l)).collect())),
            ("args", JV::Arr(visible(&d.args, |a| &a.dep, true).into_iter().map(|a| input_value(s, a)).collect())),
        ])).collect())),
    ])
}

/// the response `data.__schema` of `FILTER_QUERY` (deprecated elements left out)
pub fn expected_filtered(s: &SchemaG) -> JV {
    let names = |xs: Vec<String>| JV::Arr(xs.into_iter().map(|n| o(vec![("name", JV::Str(n))])).collect());
    o(vec![
        ("types", JV::Arr(s.types.iter().map(|t| o(vec![
            ("name", st(&t.name)),
            ("fields", match &t.kind {
                Kind::Object { fields, .. } | Kind::Interface { fields, .. } => JV::Arr(visible(fields, |f| &f.dep, false).into_iter().map(|f| o(vec![("name", st(&f.name)), ("args", names(visible(&f.args, |a| &a.dep, false).into_iter().map(|a| a.name.clone()).collect()))])).collect()),
                _ => JV::Null }),
            ("enumValues", match &t.kind { Kind::Enum { values } => names(visible(values, |v| &v.dep, false).into_iter().map(|v| v.name.clone()).collect()), _ => JV::Null }),
            ("inputFields", match &t.kind { Kind::Input { fields } => names(visible(fields, |v| &v.dep, false).into_iter().map(|v| v.name.clone()).collect()), _ => JV::Null }),
        ])).collect())),
        ("directives", JV::Arr(s.directives.iter().map(|d| o(vec![("name", st(&d.name)), ("args", names(visible(&d.args, |a| &a.dep, false).into_iter().map(|a| a.name.clone()).collect()))])).collect())),
    ])
}

/// graphql-js 16 `getIntrospectionQuery({descriptions, specifiedByUrl, directiveIsRepeatable, schemaDescription, inputValueDeprecation})`
pub const FULL_QUERY: &str = r#"
query IntrospectionQuery {
  __schema {
    description
    queryType { name }
    mutationType { name }
    subscriptionType { name }
    types { ...FullType }
    directives { name description isRepeatable locations args(includeDeprecated: true) { ...InputValue } }
  }
}
fragment FullType on __Type {
  kind name description specifiedByURL
  fields(includeDeprecated: true) { name description args(includeDeprecated: true) { ...InputValue } type { ...TypeRef } isDeprecated deprecationReason }
  inputFields(includeDeprecated: true) { ...InputValue }
  interfaces { ...TypeRef }
  enumValues(includeDeprecated: true) { name description isDeprecated deprecationReason }
  possibleTypes { ...TypeRef }
}
fragment InputValue on __InputValue { name description type { ...TypeRef } defaultValue isDeprecated deprecationReason }
fragment TypeRef on __Type {
  kind name ofType { kind name ofType { kind name ofType { kind name ofType { kind name ofType { kind name ofType { kind name ofType { kind name ofType { kind name ofType { kind name } } } } } } } } }
}
"#;

/// deprecated elements are left out when `includeDeprecated` is false, null or not given
pub const FILTER_QUERY: &str = r#"
query($n: Boolean) { __schema {
  types { name fields { name args(includeDeprecated: $n) { name } } enumValues(includeDeprecated: false) { name } inputFields { name } }
  directives { name args(includeDeprecated: false) { name } }
} }
"#;

// ───────────────────────── normalisation: exactly what the property allows ─────────────────────────

fn strip_descriptions(v: &JV) -> JV {
    match v {
        JV::Obj(kvs) => JV::Obj(kvs.iter().map(|(k, x)| (k.clone(), if k == "description" { JV::Null } else { strip_descriptions(x) })).collect()),
        JV::Arr(xs) => JV::Arr(xs.iter().map(strip_descriptions).collect()),
        x => x.clone(),
    }
}

fn name_of(v: &JV) -> String { match v { JV::Obj(kvs) => kvs.iter().find(|(k, _)| k == "name").map(|(_, n)| n.json_text()).unwrap_or_default(), _ => String::new() } }

fn sort_by_name(v: &JV) -> JV { match v { JV::Arr(xs) => { let mut ys = xs.clone(); ys.sort_by_key(name_of); JV::Arr(ys) } x => x.clone() } }

pub fn normalise(schema_data: &JV) -> JV {
    let JV::Obj(kvs) = schema_data else { return schema_data.clone() };
    JV::Obj(kvs.iter().map(|(k, v)| {
        let nv = match (k.as_str(), v) {
            ("types", JV::Arr(ts)) => {
                let ts: Vec<JV> = ts.iter().map(|t| {
                    let n = name_of(t);
                    let n = n.trim_matches('"').to_string();
                    let introspection = n.starts_with("__");
                    let builtin = introspection || BUILTIN_SCALARS.contains(&n.as_str());
                    let t = if builtin { strip_descriptions(t) } else { t.clone() };
                    let JV::Obj(tk) = &t else { return t };
                    JV::Obj(tk.iter().map(|(fk, fv)| (fk.clone(), match fk.as_str() {
                        "possibleTypes" => sort_by_name(fv),
                        "fields" if introspection => sort_by_name(fv),
                        _ => fv.clone(),
                    })).collect())
                }).collect();
                sort_by_name(&JV::Arr(ts))
            }
            ("directives", JV::Arr(ds)) => {
                let ds: Vec<JV> = ds.iter().map(|d| { let n = name_of(d); if ["\"skip\"", "\"include\"", "\"deprecated\"", "\"specifiedBy\""].contains(&n.as_str()) { strip_descriptions(d) } else { d.clone() } }).collect();
                sort_by_name(&JV::Arr(ds))
            }
            _ => v.clone(),
        };
        (k.clone(), nv)
    }).collect())
}

/// first place where two JSON values differ: (path, left, right)
fn first_diff(a: &JV, b: &JV, path: &mut Vec<String>) -> Option<(String, String, String)> {
    match (a, b) {
        (JV::Obj(x), JV::Obj(y)) => {
            if x.len() != y.len() || x.iter().zip(y).any(|((k1, _), (k2, _))| k1 != k2) {
                return Some((path.join("/"), format!("keys {:?}", x.iter().map(|k| &k.0).collect::<Vec<_>>()), format!("keys {:?}", y.iter().map(|k| &k.0).collect::<Vec<_>>())));
            }
            for ((k, v1), (_, v2)) in x.iter().zip(y) {
                path.push(if k == "name" { k.clone() } else { k.clone() });
                if let Some(d) = first_diff(v1, v2, path) { return Some(d); }
                path.pop();
            }
            None
        }
        (JV::Arr(x), JV::Arr(y)) => {
            if x.len() != y.len() {
                return Some((path.join("/"), format!("{} items: {}", x.len(), x.iter().map(name_of).collect::<Vec<_>>().join(",")), format!("{} items: {}", y.len(), y.iter().map(name_of).collect::<Vec<_>>().join(","))));
            }
            for (i, (v1, v2)) in x.iter().zip(y).enumerate() {
                let n = name_of(v1);
                path.push(if n.is_empty() { i.to_string() } else { n });
                if let Some(d) = first_diff(v1, v2, path) { return Some(d); }
                path.pop();
            }
            None
        }
        (x, y) => if x == y { None } else { Some((path.join("/"), x.json_text(), y.json_text())) },
    }
}


// ───────────────────────── `c24.full` / `c24.fullfilter`: the whole response, model vs partial_execute ─────────────────────────

fn ustr(s: &str) -> String { format!("u{}", s.chars().map(|c| (c as u32).to_string()).collect::<Vec<_>>().join(".")) }
fn enc_opt_desc(d: &Option<Desc>, out: &mut Vec<String>) { match d { None => out.push("-".into()), Some(d) => out.push(ustr(&d.value)) } }
fn enc_dep(d: &Dep, out: &mut Vec<String>) { match d { None => out.push("-".into()), Some(None) => out.push("!".into()), Some(Some(r)) => { out.push("r".into()); out.push(ustr(r)); } } }
fn enc_lit(l: &Lit, out: &mut Vec<String>) {
    match l {
        Lit::Null => out.push("z".into()), Lit::Bool(b) => out.push(if *b { "t" } else { "f" }.into()), Lit::Int(i) => out.push(format!("i{i}")),
        Lit::Float(t) => out.push(format!("d{t}")), Lit::Str(s) => out.push(format!("s{}", ustr(s))), Lit::Enum(e) => out.push(format!("e{e}")),
        Lit::List(xs) => { out.push(format!("a{}", xs.len())); for x in xs { enc_lit(x, out) } }
        Lit::Obj(kvs) => { out.push(format!("o{}", kvs.len())); for (k, v) in kvs { out.push(format!("k{k}")); enc_lit(v, out) } }
    }
}
fn enc_input(v: &InputVal, out: &mut Vec<String>) {
    out.push(v.name.clone()); enc_opt_desc(&v.desc, out); v.ty.enc(out);
    match &v.default { None => out.push("-".into()), Some(d) => { out.push("=".into()); enc_lit(d, out) } }
    enc_dep(&v.dep, out);
}
fn enc_field(f: &Field, out: &mut Vec<String>) {
    out.push(f.name.clone()); enc_opt_desc(&f.desc, out); out.push(f.args.len().to_string()); for a in &f.args { enc_input(a, out) } f.ty.enc(out); enc_dep(&f.dep, out);
}
/// the generator's (user) schema; what every schema contains besides is the model's `apolloSchema`
pub fn enc_schema(s: &SchemaG) -> String {
    let mut o: Vec<String> = vec![];
    enc_opt_desc(&s.desc, &mut o);
    o.push(s.query.clone());
    o.push(s.mutation.clone().unwrap_or("-".into()));
    o.push(s.subscription.clone().unwrap_or("-".into()));
    let user: Vec<&TypeDef> = s.types.iter().filter(|t| !t.builtin).collect();
    o.push(user.len().to_string());
    for t in user {
        o.push(t.name.clone()); enc_opt_desc(&t.desc, &mut o);
        match &t.kind {
            Kind::Scalar { specified_by } => { o.push("S".into()); match specified_by { None => o.push("-".into()), Some(u) => o.push(ustr(u)) } }
            Kind::Object { implements, fields } | Kind::Interface { implements, fields } => {
                o.push(if matches!(t.kind, Kind::Object { .. }) { "O" } else { "I" }.into());
                o.push(implements.len().to_string()); o.extend(implements.iter().cloned());
                o.push(fields.len().to_string()); for f in fields { enc_field(f, &mut o) }
            }
            Kind::Union { members } => { o.push("U".into()); o.push(members.len().to_string()); o.extend(members.iter().cloned()); }
            Kind::Enum { values } => { o.push("E".into()); o.push(values.len().to_string()); for v in values { o.push(v.name.clone()); enc_opt_desc(&v.desc, &mut o); enc_dep(&v.dep, &mut o) } }
            Kind::Input { fields } => { o.push("N".into()); o.push(fields.len().to_string()); for f in fields { enc_input(f, &mut o) } }
        }
    }
    let dirs: Vec<&DirectiveDef> = s.directives.iter().filter(|d| !d.builtin).collect();
    o.push(dirs.len().to_string());
    for d in dirs {
        o.push(d.name.clone()); enc_opt_desc(&d.desc, &mut o); o.push(d.args.len().to_string()); for a in &d.args { enc_input(a, &mut o) }
        o.push(if d.repeatable { "t" } else { "f" }.into()); o.push(d.locations.len().to_string()); o.extend(d.locations.iter().cloned());
    }
    format!("={}", o.join(" "))
}

fn fnv_bytes(h: &mut u64, bs: &[u8]) { for b in bs { *h ^= *b as u64; *h = h.wrapping_mul(0x100000001b3); } }
fn hash_jv(h: &mut u64, v: &JV) {
    match v {
        JV::Null => fnv_bytes(h, &[0]),
        JV::Bool(b) => fnv_bytes(h, &[1, *b as u8]),
        JV::Int(i) => { fnv_bytes(h, &[2]); fnv_bytes(h, i.to_string().as_bytes()); fnv_bytes(h, &[0xff]) }
        JV::Float(t) => { fnv_bytes(h, &[6]); fnv_bytes(h, t.as_bytes()); fnv_bytes(h, &[0xff]) }
        JV::Str(s) => { fnv_bytes(h, &[3]); fnv_bytes(h, s.as_bytes()); fnv_bytes(h, &[0xff]) }
        JV::Arr(xs) => { fnv_bytes(h, &[4]); for x in xs { hash_jv(h, x) } fnv_bytes(h, &[0xfe]) }
        JV::Obj(kvs) => { fnv_bytes(h, &[5]); for (k, x) in kvs { fnv_bytes(h, k.as_bytes()); fnv_bytes(h, &[0xff]); hash_jv(h, x) } fnv_bytes(h, &[0xfe]) }
    }
}
fn digest(v: &JV) -> String { let mut h = 0xcbf29ce484222325u64; hash_jv(&mut h, v); h.to_string() }
fn plain_name(v: &JV) -> String { match v { JV::Obj(kvs) => match kvs.iter().find(|(k, _)| k == "name") { Some((_, JV::Str(n))) => n.clone(), _ => "?".into() }, _ => "?".into() } }

/// descriptions of the built-in definitions are not modelled (built_in_types.graphql's own texts)
fn strip_builtin_descriptions(schema_data: &JV) -> JV {
    let JV::Obj(kvs) = schema_data else { return schema_data.clone() };
    JV::Obj(kvs.iter().map(|(k, v)| (k.clone(), match (k.as_str(), v) {
        ("types", JV::Arr(ts)) => JV::Arr(ts.iter().map(|t| { let n = plain_name(t); if n.starts_with("__") || BUILTIN_SCALARS.contains(&n.as_str()) { strip_descriptions(t) } else { t.clone() } }).collect()),
        ("directives", JV::Arr(ds)) => JV::Arr(ds.iter().map(|d| if ["skip", "include", "deprecated", "specifiedBy"].contains(&plain_name(d).as_str()) { strip_descriptions(d) } else { d.clone() }).collect()),
        _ => v.clone(),
    })).collect())
}

/// one digest per top-level field of `data.__schema`; `types` and `directives` element by element, in response order
fn summary(data: &Option<JV>, nerr: usize) -> String {
    let mut out = vec![format!("errors={nerr}")];
    match data {
        None => out.push("data=null".into()),
        Some(d) => match field(d, "__schema") {
            Some(sd @ JV::Obj(_)) => {
                let JV::Obj(kvs) = strip_builtin_descriptions(sd) else { unreachable!() };
                for (k, v) in &kvs {
                    match v {
                        JV::Arr(xs) if k == "types" || k == "directives" => for x in xs { out.push(format!("{k}:{}={}", plain_name(x), digest(x))) },
                        v => out.push(format!("{k}={}", digest(v))),
                    }
                }
            }
            _ => out.push("schema=?".into()),
        },
    }
    out.join(" ")
}

// ───────────────────────── running the real code ─────────────────────────

pub struct Compiled { pub schema: apollo_compiler::validation::Valid<Schema> }

fn run_query(c: &Compiled, query: &str, vars: &[(String, JV)]) -> Result<(Option<JV>, usize), String> {
    let doc = ExecutableDocument::parse_and_validate(&c.schema, query, "q.graphql").map_err(|e| format!("query invalid: {}", e.errors))?;
    let op = doc.operations.get(None).map_err(|_| "no operation".to_string())?;
    apollo_compiler::introspection::check_max_depth(&doc, op).map_err(|e| format!("max depth: {}", e.message()))?;
    let SJ::Object(raw) = JV::Obj(vars.to_vec()).to_sj() else { unreachable!() };
    let coerced = apollo_compiler::request::coerce_variable_values(&c.schema, op, &raw).map_err(|e| format!("variables: {}", e.message()))?;
    let imap = c.schema.implementers_map();
    let resp = apollo_compiler::introspection::partial_execute(&c.schema, &imap, &doc, op, &coerced).map_err(|e| format!("request error: {}", e.message()))?;
    Ok((resp.data.map(|m| JV::from_sj(&SJ::Object(m))), resp.errors.len()))
}

fn field<'j>(v: &'j JV, k: &str) -> Option<&'j JV> { match v { JV::Obj(kvs) => kvs.iter().find(|(kk, _)| kk == k).map(|x| &x.1), _ => None } }

fn enc_ty(t: &Ty) -> String { let mut v = vec![]; t.enc(&mut v); toks(v) }

fn chain_text(v: &JV) -> String {
    let mut out = vec![];
    let mut cur = Some(v);
    while let Some(JV::Obj(_)) = cur {
        let c = cur.unwrap();
        let k = match field(c, "kind") { Some(JV::Str(s)) => s.clone(), _ => "?".into() };
        let n = match field(c, "name") { Some(JV::Str(s)) => s.clone(), _ => "-".into() };
        out.push(format!("{k}:{n}"));
        cur = field(c, "ofType");
    }
    out.join(" ")
}

pub fn one(ctx: &mut Ctx, user: &SchemaG, label: &str) {
    let sdl = user.sdl();
    let input = sdl.replace('\n', " ");
    let schema = match catch(|| Schema::parse_and_validate(&sdl, "s.graphql")) {
        Ok(Ok(s)) => s,
        Ok(Err(e)) => {
            ctx.stat("generated_invalid");
            if ctx.stats.get("generated_invalid").copied().unwrap_or(0) <= 3 { ctx.fail("generator-invalid", &input, &e.errors.to_string().replace('\n', " ")); }
            return;
        }
        Err(p) => { ctx.fail("schema-panics", &input, &p); return; }
    };
    let c = Compiled { schema };
    let full = complete(user);
    ctx.stat(label);
    if sdl.contains("extend schema") { ctx.stat("ext:schema-roots"); }
    if sdl.contains("extend scalar") { ctx.stat("ext:scalar-specifiedBy"); }
    if sdl.contains("extend union") { ctx.stat("ext:union-member"); }
    if sdl.lines().any(|l| (l.starts_with("extend type") || l.starts_with("extend interface")) && l.contains(" implements ")) { ctx.stat("ext:implements"); }
    if user.ext.ext_first && sdl.starts_with("extend") { ctx.stat("ext:extension-before-definition"); }

    // 1. the standard introspection query
    match catch(|| run_query(&c, FULL_QUERY, &[])) {
        Err(p) => ctx.fail("introspection-panics", &input, &p),
        Ok(Err(e)) => ctx.fail("introspection-request-error", &input, &e),
        Ok(Ok((data, nerr))) => {
            if nerr > 0 { ctx.fail("introspection-errors", &input, &format!("{nerr} errors")); }
            ctx.case("c24.full", &[enc_schema(user)], &summary(&data, nerr));
            let got = data.as_ref().and_then(|d| field(d, "__schema")).cloned().unwrap_or(JV::Null);
            let want = normalise(&expected_full(&full));
            let gotn = normalise(&got);
            if let Some((path, g, w)) = first_diff(&gotn, &want, &mut vec![]) {
                let last = path.rsplit('/').next().unwrap_or("").to_string();
                let key = match last.as_str() {
                    "defaultValue" | "description" | "deprecationReason" | "isDeprecated" | "specifiedByURL" | "isRepeatable" | "kind" | "name" | "ofType" | "possibleTypes" | "interfaces" | "locations" | "types" | "directives" | "fields" | "args" | "enumValues" | "inputFields" => format!("introspection-{last}"),
                    _ => "introspection-differs".to_string(),
                };
                ctx.fail(&key, &input, &format!("at {path}: partial_execute gives {g}, reference introspection gives {w}"));
            } else {
                ctx.nontrivial(&sdl);
            }
            // correspondence: type references, possible types
            if let Some(JV::Arr(ts)) = field(&got, "types") {
                for t in &full.types {
                    if t.builtin { continue; }
                    let Some(tj) = ts.iter().find(|x| name_of(x) == format!("\"{}\"", t.name)) else { continue };
                    if let (Kind::Object { fields, .. } | Kind::Interface { fields, .. }, Some(JV::Arr(fj))) = (&t.kind, field(tj, "fields")) {
                        for f in fields {
                            if let Some(j) = fj.iter().find(|x| name_of(x) == format!("\"{}\"", f.name)) {
                                let kind_name = kind_of(&full, inner_name(&f.ty));
                                ctx.case("c24.typeref", &[enc_ty(&f.ty), format!("={kind_name}")], &chain_text(field(j, "type").unwrap_or(&JV::Null)));
                                ctx.stat(&format!("typeref_depth_{}", chain_text(field(j, "type").unwrap_or(&JV::Null)).split(' ').count()));
                            }
                        }
                    }
                    if let Some(_) = possible_types(&full, t) {
                        let mut got_names: Vec<String> = match field(tj, "possibleTypes") { Some(JV::Arr(xs)) => xs.iter().map(|x| name_of(x).trim_matches('"').to_string()).collect(), _ => vec!["<null>".into()] };
                        got_names.sort();
                        // (kind, name, members-or-none, all objects with their interfaces)
                        let mut fields = vec![format!("={}", t.name), format!("={}", match &t.kind { Kind::Union { members } => format!("U {}", members.join(" ")), _ => "I".into() })];
                        let objs: Vec<String> = full.types.iter().filter_map(|x| match &x.kind { Kind::Object { implements, .. } => Some(format!("{}:{}", x.name, implements.join(","))), _ => None }).collect();
                        fields.push(format!("={}", objs.join(" ")));
                        ctx.case("c24.possible", &fields, &got_names.join(" "));
                    }
                }
            }
        }
    }

    // 2. deprecation filtering (includeDeprecated false / null / absent)
    for nvar in [Some(JV::Bool(false)), Some(JV::Null), None] {
        let vars: Vec<(String, JV)> = nvar.clone().map(|v| vec![("n".to_string(), v)]).unwrap_or_default();
        match catch(|| run_query(&c, FILTER_QUERY, &vars)) {
            Err(p) => ctx.fail("introspection-panics", &input, &p),
            Ok(Err(e)) => ctx.fail("introspection-request-error", &input, &e),
            Ok(Ok((data, nerr))) => {
                if nerr > 0 { ctx.fail("introspection-errors", &input, &format!("{nerr} errors (filter query)")); }
                ctx.case("c24.fullfilter", &[enc_schema(user), format!("={}", match &nvar { Some(JV::Bool(true)) => "t", Some(JV::Bool(false)) => "f", Some(JV::Null) => "z", _ => "-" })], &summary(&data, nerr));
                let got = normalise(&data.as_ref().and_then(|d| field(d, "__schema")).cloned().unwrap_or(JV::Null));
                let want = normalise(&expected_filtered(&full));
                if let Some((path, g, w)) = first_diff(&got, &want, &mut vec![]) {
                    ctx.fail("introspection-deprecation-filter", &input, &format!("includeDeprecated={:?} at {path}: partial_execute gives {g}, reference gives {w}", nvar.as_ref().map(|v| v.json_text())));
                }
                if nvar.is_none() {
                    if let Some(JV::Arr(ts)) = field(&got, "types") {
                        for t in &full.types {
                            if t.builtin { continue; }
                            let Some(tj) = ts.iter().find(|x| name_of(x) == format!("\"{}\"", t.name)) else { continue };
                            let (all, key): (Vec<(String, bool)>, &str) = match &t.kind {
                                Kind::Object { fields, .. } | Kind::Interface { fields, .. } => (fields.iter().map(|f| (f.name.clone(), f.dep.is_some())).collect(), "fields"),
                                Kind::Enum { values } => (values.iter().map(|f| (f.name.clone(), f.dep.is_some())).collect(), "enumValues"),
                                Kind::Input { fields } => (fields.iter().map(|f| (f.name.clone(), f.dep.is_some())).collect(), "inputFields"),
                                _ => continue,
                            };
                            let got_names: Vec<String> = match field(tj, key) { Some(JV::Arr(xs)) => xs.iter().map(|x| name_of(x).trim_matches('"').to_string()).collect(), _ => vec!["<null>".into()] };
                            let enc_all = all.iter().map(|(n, d)| format!("{}{}", if *d { "-" } else { "+" }, n)).collect::<Vec<_>>().join(" ");
                            ctx.case("c24.filter", &[format!("={enc_all}"), "=false".into()], &got_names.join(" "));
                        }
                    }
                }
            }
        }
    }

    // 3. concrete root fields next to the introspection fields are skipped without error
    let root = full.get(&full.query).cloned();
    if let Some(TypeDef { kind: Kind::Object { fields, .. }, .. }) = root {
        let leaf: Vec<&Field> = fields.iter().filter(|f| f.args.iter().all(|a| !a.ty.is_non_null() || a.default.is_some()) && matches!(kind_of(&full, inner_name(&f.ty)), "SCALAR" | "ENUM")).collect();
        if let Some(f) = leaf.first() {
            let q = format!("{{ a: __typename {0} __schema {{ queryType {{ name }} }} ...F b: {0} }} fragment F on {1} {{ c: {0} t: __type(name: \"{1}\") {{ kind name }} u: __type(name: \"NoSuchType\") {{ name }} }}", f.name, full.query);
            match catch(|| run_query(&c, &q, &[])) {
                Err(p) => ctx.fail("introspection-panics", &input, &p),
                Ok(Err(e)) => ctx.fail("introspection-request-error", &format!("{input} || {q}"), &e),
                Ok(Ok((data, nerr))) => {
                    let want = o(vec![("a", st(&full.query)), ("__schema", o(vec![("queryType", o(vec![("name", st(&full.query))]))])), ("t", o(vec![("kind", st("OBJECT")), ("name", st(&full.query))])), ("u", JV::Null)]);
                    let got = data.unwrap_or(JV::Null);
                    if nerr != 0 || got != want {
                        ctx.fail("introspection-concrete-roots", &format!("{input} || {q}"), &format!("{nerr} errors, data {}; expected no error and {}", got.json_text(), want.json_text()));
                    }
                }
            }
            // a composite concrete root field (with its own selection set, aliases, an inline fragment) is skipped too
            let comp: Vec<&Field> = fields.iter().filter(|f| f.args.iter().all(|a| !a.ty.is_non_null() || a.default.is_some()) && matches!(kind_of(&full, inner_name(&f.ty)), "OBJECT" | "INTERFACE" | "UNION")).collect();
            if let Some(cf) = comp.first() {
                let q3 = format!("{{ a: __typename {0} {{ __typename }} ... on {1} {{ b: {0} {{ t: __typename }} }} z: __typename }}", cf.name, full.query);
                ctx.stat("skiproots_composite");
                match catch(|| run_query(&c, &q3, &[])) {
                    Err(p) => ctx.fail("introspection-panics", &input, &p),
                    Ok(Err(e)) => ctx.fail("introspection-request-error", &format!("{input} || {q3}"), &e),
                    Ok(Ok((data, nerr))) => {
                        let keys: Vec<String> = match &data { Some(JV::Obj(kvs)) => kvs.iter().map(|(k, _)| k.clone()).collect(), _ => vec!["<null>".into()] };
                        let out = format!("errors={nerr} keys={}", keys.join(","));
                        if out != "errors=0 keys=a,z" { ctx.fail("introspection-concrete-roots", &format!("{input} || {q3}"), &format!("{out}; expected errors=0 keys=a,z")); }
                    }
                }
            }
            let q2 = format!("{{ a: __typename {0} b: {0} ...F z: __typename }} fragment F on {1} {{ c: {0} }}", f.name, full.query);
            match catch(|| run_query(&c, &q2, &[])) {
                Err(p) => ctx.fail("introspection-panics", &input, &p),
                Ok(Err(e)) => ctx.fail("introspection-request-error", &format!("{input} || {q2}"), &e),
                Ok(Ok((data, nerr))) => {
                    let keys: Vec<String> = match &data { Some(JV::Obj(kvs)) => kvs.iter().map(|(k, _)| k.clone()).collect(), _ => vec!["<null>".into()] };
                    let out = format!("errors={nerr} keys={}", keys.join(","));
                    if out != "errors=0 keys=a,z" { ctx.fail("introspection-concrete-roots", &format!("{input} || {q2}"), &format!("{out}; expected errors=0 keys=a,z")); }
                    ctx.case("c24.skiproots", &[format!("={}", f.name)], &out);
                }
            }
        }
    }
}

// ───────────────────────── generator of valid schemas ─────────────────────────

fn gen_desc(rng: &mut Rng) -> Option<Desc> {
    if !rng.chance(2, 5) { return None; }
    let words = ["a thing", "The \"quoted\" one", "back\\slash", "naïve café ☃", "tab\there", "x", "# not a comment", "ends with quote\"", "{braces} [brackets]", ""];
    if rng.chance(1, 3) {
        let n = 1 + rng.below(3);
        let lines: Vec<String> = (0..n).map(|_| rng.pick(&["first line", "second \"line\"", "with \\ backslash", "naïve ☃", "- item", "x"]).to_string()).collect();
        Some(Desc { value: lines.join("\n"), block: true })
    } else {
        let mut v = rng.pick(&words).to_string();
        if rng.chance(1, 6) { v.push_str("\nsecond line"); }
        Some(Desc { value: v, block: false })
    }
}

fn gen_dep(rng: &mut Rng, allowed: bool) -> Dep {
    if !allowed || !rng.chance(1, 4) { return None; }
    match rng.below(3) { 0 => Some(None), 1 => Some(Some("use \"other\" instead".into())), _ => Some(Some(rng.pick(&["old", "", "naïve ☃", "No longer supported"]).to_string())) }
}

struct Names { scalars: Vec<String>, enums: Vec<(String, Vec<String>)>, inputs: Vec<String>, objects: Vec<String>, interfaces: Vec<String>, unions: Vec<String> }

fn wrap(rng: &mut Rng, base: &str, depth: usize) -> Ty {
    let mut t = if rng.chance(1, 2) { Ty::NonNullNamed(base.into()) } else { Ty::Named(base.into()) };
    for _ in 0..rng.below(depth + 1) { t = if rng.chance(1, 2) { Ty::NonNullList(Box::new(t)) } else { Ty::List(Box::new(t)) }; }
    t
}

fn gen_input_type(rng: &mut Rng, n: &Names, max_input: usize) -> Ty {
    let mut bases: Vec<String> = vec!["Int".into(), "Float".into(), "String".into(), "Boolean".into(), "ID".into()];
    bases.extend(n.scalars.iter().cloned());
    bases.extend(n.enums.iter().map(|e| e.0.clone()));
    bases.extend(n.inputs.iter().take(max_input).cloned());
    let b = rng.pick(&bases).clone();
    let depth = if rng.chance(1, 3) { 2 } else { 0 };
    wrap(rng, &b, depth)
}

/// a default value written in the canonical form the reference prints (lists bracketed, input objects with every
/// defaulted/required field in definition order, floats that are not integral)
fn gen_default(rng: &mut Rng, n: &Names, inputs: &[(String, Vec<InputVal>)], t: &Ty, depth: usize) -> Lit {
    if !t.is_non_null() && rng.chance(1, 6) { return Lit::Null; }
    match t {
        Ty::List(inner) | Ty::NonNullList(inner) => { let k = if depth > 2 { 0 } else { rng.below(3) }; Lit::List((0..k).map(|_| gen_default(rng, n, inputs, inner, depth + 1)).collect()) }
        Ty::Named(b) | Ty::NonNullNamed(b) => match b.as_str() {
            "Int" => Lit::Int(*rng.pick(&[0, 1, -7, 2147483647, -2147483648])),
            "Float" => if rng.chance(1, 2) { Lit::Float(rng.pick(&["1.5", "-0.25", "2.75", "1234.5"]).to_string()) } else { Lit::Int(*rng.pick(&[0, 3, -2])) },
            "String" => Lit::Str(rng.pick(&["", "abc", "with \"quotes\"", "back\\slash", "line\nbreak", "naïve ☃", "cr\r!"]).to_string()),
            "Boolean" => Lit::Bool(rng.chance(1, 2)),
            "ID" => if rng.chance(1, 2) { Lit::Str(rng.pick(&["abc", "x-1"]).to_string()) } else { Lit::Int(*rng.pick(&[0, 12])) },
            _ => {
                if let Some((_, vs)) = n.enums.iter().find(|(k, _)| k == b) { return Lit::Enum(rng.pick(vs).clone()); }
                if let Some((_, fields)) = inputs.iter().find(|(k, _)| k == b) {
                    let mut kvs = vec![];
                    for f in fields {
                        let needed = f.default.is_some() || f.ty.is_non_null();
                        if needed { kvs.push((f.name.clone(), match &f.default { Some(d) if rng.chance(1, 2) => d.clone(), _ => gen_default(rng, n, inputs, &f.ty, depth + 1) })); }
                        else if rng.chance(1, 2) { kvs.push((f.name.clone(), gen_default(rng, n, inputs, &f.ty, depth + 1))); }
                    }
                    return Lit::Obj(kvs);
                }
                // custom scalar
                rng.pick(&[Lit::Int(3), Lit::Str("s".into()), Lit::Bool(true), Lit::Float("1.5".into())]).clone()
            }
        },
    }
}

fn gen_args(rng: &mut Rng, n: &Names, inputs: &[(String, Vec<InputVal>)]) -> Vec<InputVal> {
    let k = if rng.chance(1, 2) { 0 } else { 1 + rng.below(3) };
    (0..k).map(|i| {
        let t = gen_input_type(rng, n, inputs.len());
        let default = if rng.chance(1, 2) { Some(gen_default(rng, n, inputs, &t, 0)) } else { None };
        let optional = !t.is_non_null() || default.is_some();
        InputVal { name: format!("a{i}"), desc: gen_desc(rng), ty: t, default, dep: gen_dep(rng, optional) }
    }).collect()
}

fn gen_fields(rng: &mut Rng, n: &Names, inputs: &[(String, Vec<InputVal>)], prefix: &str, k: usize) -> Vec<Field> {
    let mut out_bases: Vec<String> = vec!["Int".into(), "Float".into(), "String".into(), "Boolean".into(), "ID".into()];
    out_bases.extend(n.scalars.iter().cloned());
    out_bases.extend(n.enums.iter().map(|e| e.0.clone()));
    out_bases.extend(n.objects.iter().cloned());
    out_bases.extend(n.interfaces.iter().cloned());
    out_bases.extend(n.unions.iter().cloned());
    (0..k).map(|i| {
        let b = rng.pick(&out_bases).clone();
        let depth = if rng.chance(1, 3) { 3 } else { 0 };
        Field { name: format!("{prefix}{i}"), desc: gen_desc(rng), args: gen_args(rng, n, inputs), ty: wrap(rng, &b, depth), dep: gen_dep(rng, true) }
    }).collect()
}

pub fn gen_schema(rng: &mut Rng) -> SchemaG {
    let n_obj = 1 + rng.below(3);
    let n_iface = rng.below(3);
    let n_input = rng.below(3);
    let custom_roots = rng.chance(1, 3);
    let query = if custom_roots { "RootQ".to_string() } else { "Query".to_string() };
    let mutation = if rng.chance(1, 3) { Some(if custom_roots { "RootM".to_string() } else { "Mutation".to_string() }) } else { None };
    let subscription = if rng.chance(1, 4) { Some(if custom_roots { "RootS".to_string() } else { "Subscription".to_string() }) } else { None };
    let mut objects: Vec<String> = (0..n_obj).map(|i| format!("Obj{i}")).collect();
    objects.push(query.clone());
    objects.extend(mutation.iter().cloned());
    objects.extend(subscription.iter().cloned());
    let names = Names {
        scalars: if rng.chance(2, 3) { vec!["Date".into(), "Url".into()] } else { vec![] },
        enums: if rng.chance(2, 3) { vec![("Color".into(), vec!["RED".into(), "GREEN".into(), "BLUE".into()]), ("Unit".into(), vec!["ONE".into()])] } else { vec![] },
        inputs: (0..n_input).map(|i| format!("In{i}")).collect(),
        objects: objects.clone(),
        interfaces: (0..n_iface).map(|i| format!("Face{i}")).collect(),
        unions: if rng.chance(1, 2) { vec!["Either".into()] } else { vec![] },
    };
    // input objects (fields only refer to earlier input objects: no cycles to think about)
    let mut inputs: Vec<(String, Vec<InputVal>)> = vec![];
    for i in 0..n_input {
        let k = 1 + rng.below(4);
        let fields = (0..k).map(|j| {
            let t = gen_input_type(rng, &names, i);
            let default = if rng.chance(1, 2) { Some(gen_default(rng, &names, &inputs, &t, 0)) } else { None };
            let optional = !t.is_non_null() || default.is_some();
            InputVal { name: format!("f{j}"), desc: gen_desc(rng), ty: t, default, dep: gen_dep(rng, optional) }
        }).collect();
        inputs.push((format!("In{i}"), fields));
    }
    let mut types: Vec<TypeDef> = vec![];
    let user = |name: &str, desc: Option<Desc>, kind: Kind, ext_split: usize| TypeDef { name: name.into(), desc, kind, builtin: false, ext_split };
    for (i, s) in names.scalars.iter().enumerate() {
        let d = gen_desc(rng);
        types.push(user(s, d, Kind::Scalar { specified_by: if i == 0 || rng.chance(1, 2) { Some("https://example.com/spec?x=\"1\"".into()) } else { None } }, 0));
    }
    for (e, vs) in &names.enums {
        let values = vs.iter().enumerate().map(|(i, v)| EnumVal { name: v.clone(), desc: gen_desc(rng), dep: gen_dep(rng, i > 0) }).collect();
        let d = gen_desc(rng);
        let sp = rng.below(2);
        types.push(user(e, d, Kind::Enum { values }, sp));
    }
    for (nm, fields) in &inputs { let d = gen_desc(rng); let sp = rng.below(2); types.push(user(nm, d, Kind::Input { fields: fields.clone() }, sp)); }
    // interfaces: Face1 implements Face0 (and repeats its fields), Face2 is independent
    let mut iface_fields: Vec<Vec<Field>> = vec![];
    for i in 0..n_iface {
        let kf = 1 + rng.below(2);
        let mut fields = gen_fields(rng, &names, &inputs, &format!("i{i}_"), kf);
        let mut implements = vec![];
        if i == 1 { let mut inherited = iface_fields[0].clone(); inherited.extend(fields); fields = inherited; implements.push("Face0".to_string()); }
        iface_fields.push(fields.clone());
        let d = gen_desc(rng);
        types.push(user(&format!("Face{i}"), d, Kind::Interface { implements, fields }, 0));
    }
    for (oi, oname) in objects.iter().enumerate() {
        let mut implements: Vec<String> = vec![];
        let mut fields: Vec<Field> = vec![];
        if n_iface > 0 && rng.chance(1, 2) && oi < n_obj {
            let i = rng.below(n_iface);
            if i == 1 { if rng.chance(1, 2) { implements.push("Face1".into()); implements.push("Face0".into()); } else { implements.push("Face0".into()); implements.push("Face1".into()); } } else { implements.push(format!("Face{i}")); }
            fields.extend(iface_fields[i].clone());
            if n_iface > 2 && i != 2 && rng.chance(1, 3) { implements.push("Face2".into()); fields.extend(iface_fields[2].clone()); }
        }
        if *oname == query { fields.push(Field { name: "ping".into(), desc: None, args: vec![], ty: Ty::Named("Int".into()), dep: None }); }
        let kf = 1 + rng.below(3);
        let extra = gen_fields(rng, &names, &inputs, &format!("o{oi}_"), kf);
        fields.extend(extra);
        let sp = if implements.is_empty() { rng.below(2) } else { 0 };
        let d = gen_desc(rng);
        types.push(user(oname, d, Kind::Object { implements, fields }, sp));
    }
    if !names.unions.is_empty() {
        let k = 1 + rng.below(n_obj);
        let d = gen_desc(rng);
        types.push(user("Either", d, Kind::Union { members: objects[..k].to_vec() }, 0));
    }
    let mut directives = vec![];
    if rng.chance(1, 2) {
        let all = builtin_types().pop().map(|t| match t.kind { Kind::Enum { values } => values.into_iter().map(|v| v.name).collect::<Vec<_>>(), _ => vec![] }).unwrap_or_default();
        for i in 0..1 + rng.below(2) {
            let mut locs: Vec<String> = all.iter().filter(|_| rng.chance(1, 3)).cloned().collect();
            if locs.is_empty() { locs.push(rng.pick(&all).clone()); }
            // written order is response order: not necessarily the order of the __DirectiveLocation enum
            if rng.chance(1, 2) { for i in (1..locs.len()).rev() { let j = rng.below(i + 1); locs.swap(i, j); } }
            let d = gen_desc(rng);
            directives.push(DirectiveDef { name: format!("dir{i}"), desc: d, args: gen_args(rng, &names, &inputs), repeatable: rng.chance(1, 2), locations: locs, builtin: false });
        }
    }
    let explicit = custom_roots || rng.chance(1, 3);
    // how the schema is spread over extensions (half of the schemas: everything in the definitions, as before)
    let ext = if rng.chance(1, 2) { ExtStyle::default() } else {
        ExtStyle { impl_split: rng.chance(1, 2), union_split: rng.chance(1, 2), scalar_split: rng.chance(1, 2), roots_split: rng.chance(1, 2), ext_first: rng.chance(1, 3) }
    };
    SchemaG { ext, desc: if explicit && rng.chance(1, 2) { gen_desc(rng) } else { None }, query, mutation, subscription, explicit, types, directives }
}

/// every wrapping of a named type up to three list layers, as the types of the fields of one object
fn typeref_schema() -> SchemaG {
    let mut tys: Vec<Ty> = vec![Ty::Named("Int".into()), Ty::NonNullNamed("Int".into())];
    let mut frontier = tys.clone();
    for _ in 0..3 {
        let mut next = vec![];
        for t in &frontier { next.push(Ty::List(Box::new(t.clone()))); next.push(Ty::NonNullList(Box::new(t.clone()))); }
        tys.extend(next.iter().cloned());
        frontier = next;
    }
    let mut fields: Vec<Field> = tys.iter().enumerate().map(|(i, t)| Field { name: format!("t{i}"), desc: None, args: vec![], ty: t.clone(), dep: None }).collect();
    // one deeper than the query's ofType selections reach: the chain is cut, not an error
    let mut deep = Ty::NonNullNamed("Q".into());
    for _ in 0..5 { deep = Ty::NonNullList(Box::new(deep)); }
    fields.push(Field { name: "deep".into(), desc: None, args: vec![], ty: deep, dep: None });
    fields.push(Field { name: "ping".into(), desc: None, args: vec![], ty: Ty::Named("Int".into()), dep: None });
    SchemaG { ext: ExtStyle::default(), desc: None, query: "Q".into(), mutation: None, subscription: None, explicit: true, directives: vec![],
        types: vec![TypeDef { name: "Q".into(), desc: None, kind: Kind::Object { implements: vec![], fields }, builtin: false, ext_split: 0 }] }
}

/// default values that are not written in the form the reference prints: the reference prints the *coerced value*
/// (graphql-js `print(astFromValue(defaultValue, type))`), apollo prints the literal as written
fn noncanonical_witnesses(ctx: &mut Ctx) {
    let sdl = "input In { x: Int, y: Int, z: Int = 5 }\ntype Query { ping: Int f(a: Float = 1.0, b: [Int] = 1, c: In = {y: 2, x: 1}, d: String = \"\"\"block\"\"\", e: ID = 12, t: String = \"tab\t!\", k: Float = 1.5): Int }\n";
    let want = [("a", "1", "default-value-printed-as-written"), ("b", "[1]", "default-value-printed-as-written"), ("c", "{x: 1, y: 2, z: 5}", "default-value-printed-as-written"),
        ("d", "\"block\"", "default-value-printed-as-written"), ("e", "12", "default-value-printed-as-written"), ("t", "\"tab\\t!\"", "default-value-tab-not-escaped"), ("k", "1.5", "default-value-printed-as-written")];
    let schema = match Schema::parse_and_validate(sdl, "s.graphql") { Ok(s) => s, Err(e) => { ctx.fail("generator-invalid", sdl, &e.errors.to_string()); return; } };
    let c = Compiled { schema };
    let q = "{ __type(name: \"Query\") { fields { name args { name defaultValue } } } }";
    match catch(|| run_query(&c, q, &[])) {
        Ok(Ok((Some(data), 0))) => {
            let args = field(&data, "__type").and_then(|t| field(t, "fields")).and_then(|f| match f { JV::Arr(xs) => xs.iter().find(|x| name_of(x) == "\"f\""), _ => None }).and_then(|f| field(f, "args")).cloned().unwrap_or(JV::Null);
            for (name, expected, key) in want {
                let got = match &args { JV::Arr(xs) => xs.iter().find(|x| name_of(x) == format!("\"{name}\"")).and_then(|x| field(x, "defaultValue")).cloned().unwrap_or(JV::Null), _ => JV::Null };
                if got != JV::Str(expected.to_string()) {
                    ctx.fail(key, &format!("{} || argument {name}", sdl.replace('\n', " ")), &format!("defaultValue is {}, the reference prints {}", got.json_text(), JV::Str(expected.to_string()).json_text()));
                }
            }
        }
        other => ctx.fail("introspection-request-error", sdl, &format!("{:?}", other.map(|r| r.map(|(d, n)| (d.map(|x| x.json_text()), n))))),
    }
}

pub fn run(ctx: &mut Ctx) {
    noncanonical_witnesses(ctx);
    one(ctx, &typeref_schema(), "fixed");
    // extension-style sweep (audit G5): schemas that have something for every style to move, × all 32 styles
    {
        let want = if ctx.thorough { 8 } else { 2 };
        let mut found = 0;
        let mut seed = 1u64;
        while found < want && seed < 5000 {
            let mut r = Rng(seed.wrapping_mul(0x9E3779B97F4A7C15));
            seed += 1;
            let g = gen_schema(&mut r);
            let rich = g.explicit && g.mutation.is_some()
                && g.types.iter().any(|t| matches!(&t.kind, Kind::Union { members } if members.len() >= 2))
                && g.types.iter().any(|t| matches!(&t.kind, Kind::Object { implements, .. } if implements.len() >= 2))
                && g.types.iter().any(|t| matches!(&t.kind, Kind::Interface { implements, .. } if !implements.is_empty()))
                && g.types.iter().any(|t| matches!(&t.kind, Kind::Scalar { specified_by: Some(_) }))
                && g.types.iter().any(|t| t.ext_split > 0 && matches!(&t.kind, Kind::Enum { values } if values.len() >= 2));
            if !rich { continue; }
            found += 1;
            for bits in 0..32u32 {
                let mut g2 = g.clone();
                g2.ext = ExtStyle { impl_split: bits & 1 != 0, union_split: bits & 2 != 0, scalar_split: bits & 4 != 0, roots_split: bits & 8 != 0, ext_first: bits & 16 != 0 };
                one(ctx, &g2, "ext_style_sweep");
            }
        }
        ctx.stat_n("ext_style_sweep_schemas", found as u64);
    }
    let n = if ctx.thorough { 6000 } else { 500 };
    for _ in 0..n {
        let s = gen_schema(&mut ctx.rng);
        one(ctx, &s, "random");
    }
}
