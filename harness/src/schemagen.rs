//! Grammar-directed generator of (mostly valid) schema documents for C14/C15: an IR of type-system
//! definitions, a printer, a valid-by-construction generator and rule-targeted single mutations.
use crate::util::Rng;

#[derive(Clone, Debug, PartialEq)]
pub enum T {
    N(String),
    L(Box<T>),
    NN(Box<T>),
}
impl T {
    pub fn n(s: &str) -> T { T::N(s.to_string()) }
    pub fn nn(self) -> T { if let T::NN(_) = self { self } else { T::NN(Box::new(self)) } }
    pub fn list(self) -> T { T::L(Box::new(self)) }
    pub fn named(&self) -> &str { match self { T::N(n) => n, T::L(t) | T::NN(t) => t.named() } }
    pub fn set_named(&mut self, s: &str) { match self { T::N(n) => *n = s.to_string(), T::L(t) | T::NN(t) => t.set_named(s) } }
    pub fn print(&self) -> String {
        match self { T::N(n) => n.clone(), T::L(t) => format!("[{}]", t.print()), T::NN(t) => format!("{}!", t.print()) }
    }
}

#[derive(Clone, Debug)]
pub struct GIn { pub name: String, pub ty: T, pub default: Option<String>, pub dirs: Vec<String> }
#[derive(Clone, Debug)]
pub struct GField { pub name: String, pub args: Vec<GIn>, pub ty: T, pub dirs: Vec<String> }

#[derive(Clone, Debug, PartialEq, Copy)]
pub enum K { Scalar, Object, Interface, Union, Enum, Input }

#[derive(Clone, Debug)]
pub enum GDef {
    Schema { ext: bool, dirs: Vec<String>, roots: Vec<(String, String)> },
    Type { ext: bool, k: K, name: String, ifaces: Vec<String>, dirs: Vec<String>, fields: Vec<GField>, members: Vec<String>, values: Vec<(String, Vec<String>)>, inputs: Vec<GIn> },
    Directive { name: String, args: Vec<GIn>, repeatable: bool, locs: Vec<String> },
}

pub fn tdef(k: K, name: &str) -> GDef {
    GDef::Type { ext: false, k, name: name.to_string(), ifaces: vec![], dirs: vec![], fields: vec![], members: vec![], values: vec![], inputs: vec![] }
}

fn p_dirs(d: &[String]) -> String { d.iter().map(|x| format!(" {x}")).collect() }
fn p_in(i: &GIn) -> String {
    format!("{}: {}{}{}", i.name, i.ty.print(), i.default.as_ref().map(|d| format!(" = {d}")).unwrap_or_default(), p_dirs(&i.dirs))
}
fn p_args(a: &[GIn]) -> String {
    if a.is_empty() { String::new() } else { format!("({})", a.iter().map(p_in).collect::<Vec<_>>().join(", ")) }
}

pub fn print_def(d: &GDef) -> String {
    match d {
        GDef::Schema { ext, dirs, roots } => {
            let body = if roots.is_empty() { String::new() } else { format!(" {{ {} }}", roots.iter().map(|(o, t)| format!("{o}: {t}")).collect::<Vec<_>>().join(" ")) };
            format!("{}schema{}{}", if *ext { "extend " } else { "" }, p_dirs(dirs), body)
        }
        GDef::Directive { name, args, repeatable, locs } => {
            format!("directive @{}{}{} on {}", name, p_args(args), if *repeatable { " repeatable" } else { "" }, locs.join(" | "))
        }
        GDef::Type { ext, k, name, ifaces, dirs, fields, members, values, inputs } => {
            let e = if *ext { "extend " } else { "" };
            let imp = if ifaces.is_empty() { String::new() } else { format!(" implements {}", ifaces.join(" & ")) };
            match k {
                K::Scalar => format!("{e}scalar {name}{}", p_dirs(dirs)),
                K::Object | K::Interface => {
                    let kw = if *k == K::Object { "type" } else { "interface" };
                    let body = if fields.is_empty() { String::new() } else {
                        format!(" {{ {} }}", fields.iter().map(|f| format!("{}{}: {}{}", f.name, p_args(&f.args), f.ty.print(), p_dirs(&f.dirs))).collect::<Vec<_>>().join(" "))
                    };
                    format!("{e}{kw} {name}{imp}{}{body}", p_dirs(dirs))
                }
                K::Union => format!("{e}union {name}{}{}", p_dirs(dirs), if members.is_empty() { String::new() } else { format!(" = {}", members.join(" | ")) }),
                K::Enum => format!("{e}enum {name}{}{}", p_dirs(dirs), if values.is_empty() { String::new() } else { format!(" {{ {} }}", values.iter().map(|(v, d)| format!("{v}{}", p_dirs(d))).collect::<Vec<_>>().join(" ")) }),
                K::Input => format!("{e}input {name}{}{}", p_dirs(dirs), if inputs.is_empty() { String::new() } else { format!(" {{ {} }}", inputs.iter().map(p_in).collect::<Vec<_>>().join(" ")) }),
            }
        }
    }
}

pub fn print_doc(defs: &[GDef]) -> String {
    defs.iter().map(print_def).collect::<Vec<_>>().join("\n")
}

// ---------------------------------------------------------------------------------------------

#[derive(Clone, Debug)]
struct EnumInfo { name: String, values: Vec<String> }
#[derive(Clone, Debug)]
struct DirInfo { name: String, args: Vec<GIn>, repeatable: bool, locs: Vec<String> }

pub struct Gen<'a> {
    pub r: &'a mut Rng,
    scalars: Vec<String>,
    enums: Vec<EnumInfo>,
    inputs: Vec<(String, Vec<GIn>)>,
    dirs: Vec<DirInfo>,
}

const BUILTIN_SCALARS: [&str; 5] = ["Int", "Float", "String", "Boolean", "ID"];
const TS_LOCS: [&str; 11] = ["SCHEMA", "SCALAR", "OBJECT", "FIELD_DEFINITION", "ARGUMENT_DEFINITION", "INTERFACE", "UNION", "ENUM", "ENUM_VALUE", "INPUT_OBJECT", "INPUT_FIELD_DEFINITION"];
const EX_LOCS: [&str; 8] = ["QUERY", "MUTATION", "SUBSCRIPTION", "FIELD", "FRAGMENT_DEFINITION", "FRAGMENT_SPREAD", "INLINE_FRAGMENT", "VARIABLE_DEFINITION"];

impl<'a> Gen<'a> {
    pub fn new(r: &'a mut Rng) -> Self { Gen { r, scalars: vec![], enums: vec![], inputs: vec![], dirs: vec![] } }

    fn wrap(&mut self, base: &str, may_list: bool) -> T {
        let mut t = T::n(base);
        if self.r.chance(1, 3) { t = t.nn(); }
        if may_list && self.r.chance(1, 4) {
            t = t.list();
            if self.r.chance(1, 3) { t = t.nn(); }
            if self.r.chance(1, 8) { t = t.list(); }
        }
        t
    }

    fn input_base(&mut self, max_input: usize) -> String {
        let k = self.r.below(10);
        if k < 5 || (self.scalars.is_empty() && self.enums.is_empty() && max_input == 0) { return self.r.pick(&BUILTIN_SCALARS).to_string(); }
        if k < 6 && !self.scalars.is_empty() { return self.r.pick(&self.scalars.clone()).clone(); }
        if k < 8 && !self.enums.is_empty() { let i = self.r.below(self.enums.len()); return self.enums[i].name.clone(); }
        if max_input > 0 { let i = self.r.below(max_input); return self.inputs[i].0.clone(); }
        self.r.pick(&BUILTIN_SCALARS).to_string()
    }

    /// a constant literal accepted by `ty` (valid = true) — follows the coercion rules
    pub fn value_for(&mut self, ty: &T, depth: usize) -> String { self.val(ty, depth, true) }

    fn val(&mut self, ty: &T, depth: usize, allow_null: bool) -> String {
        match ty {
            T::NN(t) => self.val(t, depth, false),
            _ if allow_null && self.r.chance(1, 10) => "null".to_string(),
            T::L(t) => {
                if depth > 3 { return "[]".to_string(); }
                if self.r.chance(1, 4) { return self.val(t, depth + 1, false); }
                let n = self.r.below(3);
                let items: Vec<String> = (0..n).map(|_| self.value_for(t, depth + 1)).collect();
                format!("[{}]", items.join(", "))
            }
            T::N(n) => match n.as_str() {
                "Int" => self.r.pick(&["0", "1", "-7", "2147483647", "-2147483648"]).to_string(),
                "Float" => self.r.pick(&["1.5", "2", "-0.0", "1e10", "123456789012"]).to_string(),
                "String" => self.r.pick(&["\"\"", "\"s\"", "\"\"\"b\"\"\""]).to_string(),
                "Boolean" => self.r.pick(&["true", "false"]).to_string(),
                "ID" => self.r.pick(&["\"id\"", "4", "99999999999999999999"]).to_string(),
                _ => {
                    if let Some(e) = self.enums.iter().find(|e| e.name == *n).cloned() { return self.r.pick(&e.values).clone(); }
                    if let Some((_, fs)) = self.inputs.iter().find(|(m, _)| m == n).cloned() {
                        let mut parts = vec![];
                        for f in &fs {
                            let required = matches!(f.ty, T::NN(_)) && f.default.is_none();
                            if required || (depth < 3 && self.r.chance(1, 2)) {
                                parts.push(format!("{}: {}", f.name, self.value_for(&f.ty, depth + 1)));
                            }
                        }
                        return format!("{{{}}}", parts.join(", "));
                    }
                    // custom scalar: anything
                    self.r.pick(&["1", "\"x\"", "true", "FOO", "[1, \"a\"]", "{a: 1}", "1.5"]).to_string()
                }
            },
        }
    }

    /// a literal that the type must NOT accept (best effort; the spec validator is the judge)
    pub fn bad_value_for(&mut self, ty: &T) -> String {
        match ty {
            T::NN(_) if self.r.chance(1, 3) => "null".to_string(),
            T::NN(t) => self.bad_value_for(t),
            T::L(t) => if self.r.chance(1, 2) { format!("[{}]", self.bad_value_for(t)) } else { self.bad_value_for(t) },
            T::N(n) => match n.as_str() {
                "Int" => self.r.pick(&["\"1\"", "1.5", "true", "2147483648", "-2147483649", "A", "{a: 1}", "[[1]]"]).to_string(),
                "Float" => self.r.pick(&["\"1\"", "true", "A", "1e999"]).to_string(),
                "String" => self.r.pick(&["1", "true", "A", "1.5", "{}"]).to_string(),
                "Boolean" => self.r.pick(&["1", "\"true\"", "A", "0"]).to_string(),
                "ID" => self.r.pick(&["1.5", "true", "A"]).to_string(),
                _ => {
                    if self.enums.iter().any(|e| e.name == *n) { return self.r.pick(&["NOPE_X", "\"A0\"", "1", "true"]).to_string(); }
                    if let Some((_, fs)) = self.inputs.iter().find(|(m, _)| m == n).cloned() {
                        return match self.r.below(4) {
                            0 => "1".to_string(),
                            1 => "{zz_unknown: 1}".to_string(),
                            2 => "\"s\"".to_string(),
                            _ => { if let Some(f) = fs.first() { format!("{{{}: {}}}", f.name, self.bad_value_for(&f.ty)) } else { "[1]".to_string() } }
                        };
                    }
                    "$v".to_string()
                }
            },
        }
    }

    fn default_for(&mut self, ty: &T) -> Option<String> {
        if !self.r.chance(1, 4) { return None; }
        // default values are not validated by apollo-compiler: sometimes write an ill-typed one
        if self.r.chance(1, 5) { let b = self.bad_value_for(ty); if !b.contains("$v") { return Some(b); } }
        Some(self.value_for(ty, 0))
    }

    /// directive applications valid at `loc`
    pub fn apply_dirs(&mut self, loc: &str, max_dir: usize) -> Vec<String> {
        let mut out = vec![];
        if !self.r.chance(1, 4) { return out; }
        let cands: Vec<DirInfo> = self.dirs[..max_dir.min(self.dirs.len())].iter().filter(|d| d.locs.iter().any(|l| l == loc)).cloned().collect();
        if cands.is_empty() { return out; }
        let n = 1 + self.r.below(2);
        let mut used: Vec<String> = vec![];
        for _ in 0..n {
            let d = self.r.pick(&cands).clone();
            if used.contains(&d.name) && !d.repeatable { continue; }
            used.push(d.name.clone());
            out.push(self.application(&d));
        }
        out
    }

    fn application(&mut self, d: &DirInfo) -> String {
        let mut parts = vec![];
        for a in &d.args {
            let required = matches!(a.ty, T::NN(_)) && a.default.is_none();
            if required || self.r.chance(1, 2) {
                let mut v = self.value_for(&a.ty, 0);
                if required && v == "null" { v = self.val(&a.ty, 9, false); }
                parts.push(format!("{}: {}", a.name, v));
            }
        }
        // required args must be present and non-null
        let parts: Vec<String> = parts;
        if parts.is_empty() { format!("@{}", d.name) } else { format!("@{}({})", d.name, parts.join(", ")) }
    }

    fn gen_args(&mut self, n: usize, prefix: &str, max_dir: usize, loc: &str, max_input: usize) -> Vec<GIn> {
        (0..n).map(|i| {
            let base = self.input_base(max_input);
            let ty = self.wrap(&base, true);
            let default = self.default_for(&ty);
            let dirs = self.apply_dirs(loc, max_dir);
            GIn { name: format!("{prefix}{i}"), ty, default, dirs }
        }).collect()
    }

    /// A valid schema (by construction, up to the generator's own mistakes — the oracle judges).
    pub fn valid(&mut self) -> Vec<GDef> {
        let mut defs: Vec<GDef> = vec![];
        self.scalars.clear(); self.enums.clear(); self.inputs.clear(); self.dirs.clear();
        // built-in directives usable in type-system locations
        self.dirs.push(DirInfo { name: "deprecated".into(), args: vec![GIn { name: "reason".into(), ty: T::n("String"), default: Some("\"x\"".into()), dirs: vec![] }], repeatable: false, locs: vec!["FIELD_DEFINITION".into(), "ARGUMENT_DEFINITION".into(), "INPUT_FIELD_DEFINITION".into(), "ENUM_VALUE".into()] });
        self.dirs.push(DirInfo { name: "specifiedBy".into(), args: vec![GIn { name: "url".into(), ty: T::n("String").nn(), default: None, dirs: vec![] }], repeatable: false, locs: vec!["SCALAR".into()] });
        let n_builtin_dirs = self.dirs.len();
        let ns = self.r.below(3);
        for i in 0..ns { self.scalars.push(format!("S{i}")); }
        let ne = self.r.below(3);
        for i in 0..ne {
            let nv = 1 + self.r.below(3);
            self.enums.push(EnumInfo { name: format!("E{i}"), values: (0..nv).map(|j| format!("V{i}{j}")).collect() });
        }
        // directive definitions first (their argument types: scalars/enums only at this stage, input objects added below)
        let nd = self.r.below(4);
        // input objects
        let ni = self.r.below(4);
        for i in 0..ni {
            let nf = 1 + self.r.below(3);
            let mut fs = vec![];
            for j in 0..nf {
                let ty = match self.r.below(20) {
                    0..=11 => { let b = self.input_base(0); self.wrap(&b, true) }
                    12..=16 if i > 0 => { let k = self.r.below(i); self.wrap(&format!("In{k}"), true) }
                    _ => {
                        // any input object, including itself and later ones: nullable or behind a list
                        let k = self.r.below(ni);
                        let b = T::n(&format!("In{k}"));
                        if self.r.chance(1, 2) { b } else { b.nn().list().nn() }
                    }
                };
                fs.push(GIn { name: format!("f{j}"), ty, default: None, dirs: vec![] });
            }
            self.inputs.push((format!("In{i}"), fs));
        }
        // defaults for input fields now that all input objects are known
        for i in 0..ni {
            for j in 0..self.inputs[i].1.len() {
                let ty = self.inputs[i].1[j].ty.clone();
                // a default of an input-object type could recurse forever through nullable cycles: only leaf-ish
                if !ty.named().starts_with("In") { let d = self.default_for(&ty); self.inputs[i].1[j].default = d; }
            }
        }
        for i in 0..nd {
            let na = self.r.below(3);
            let max_in = self.inputs.len();
            let max_dir = self.dirs.len();
            let args = self.gen_args(na, "a", max_dir, "ARGUMENT_DEFINITION", max_in);
            let mut locs: Vec<String> = vec![];
            let nl = 1 + self.r.below(5);
            for _ in 0..nl { let l = if self.r.chance(1, 6) { *self.r.pick(&EX_LOCS) } else { *self.r.pick(&TS_LOCS) }; if !locs.iter().any(|x| x == l) || self.r.chance(1, 10) { locs.push(l.to_string()); } }
            let repeatable = self.r.chance(1, 3);
            self.dirs.push(DirInfo { name: format!("d{i}"), args, repeatable, locs });
        }
        // sometimes redefine a built-in directive (allowed once)
        if self.r.chance(1, 8) {
            let d = &mut self.dirs[0];
            d.locs.push("OBJECT".into());
            let d = d.clone();
            defs.push(GDef::Directive { name: d.name, args: d.args, repeatable: d.repeatable, locs: d.locs });
        }
        let all_dirs = self.dirs.len();
        for s in self.scalars.clone() {
            let dirs = self.apply_dirs("SCALAR", all_dirs);
            let mut d = tdef(K::Scalar, &s);
            if let GDef::Type { dirs: dd, .. } = &mut d { *dd = dirs; }
            defs.push(d);
        }
        for e in self.enums.clone() {
            let mut d = tdef(K::Enum, &e.name);
            let dirs = self.apply_dirs("ENUM", all_dirs);
            let vals: Vec<(String, Vec<String>)> = e.values.iter().map(|v| (v.clone(), self.apply_dirs("ENUM_VALUE", all_dirs))).collect();
            if let GDef::Type { dirs: dd, values, .. } = &mut d { *dd = dirs; *values = vals; }
            defs.push(d);
        }
        // input-object directives: only directives that do not (transitively) mention an input object or
        // enum/scalar carrying directives — keep it simple: built-in directives plus argument-less ones
        let safe: Vec<DirInfo> = self.dirs.iter().enumerate().filter(|(i, d)| *i < n_builtin_dirs || d.args.is_empty()).map(|(_, d)| d.clone()).collect();
        for (name, fs) in self.inputs.clone() {
            let mut d = tdef(K::Input, &name);
            let mut fs = fs;
            for f in fs.iter_mut() {
                if self.r.chance(1, 5) {
                    let c: Vec<&DirInfo> = safe.iter().filter(|d| d.locs.iter().any(|l| l == "INPUT_FIELD_DEFINITION")).collect();
                    if !c.is_empty() { let dd = (*self.r.pick(&c)).clone(); f.dirs.push(self.application(&dd)); }
                }
            }
            let mut tdirs = vec![];
            if self.r.chance(1, 5) {
                let c: Vec<&DirInfo> = safe.iter().filter(|d| d.locs.iter().any(|l| l == "INPUT_OBJECT")).collect();
                if !c.is_empty() { let dd = (*self.r.pick(&c)).clone(); tdirs.push(self.application(&dd)); }
            }
            if let GDef::Type { inputs, dirs, .. } = &mut d { *inputs = fs; *dirs = tdirs; }
            defs.push(d);
        }
        for d in self.dirs[n_builtin_dirs..].to_vec() {
            defs.push(GDef::Directive { name: d.name, args: d.args, repeatable: d.repeatable, locs: d.locs });
        }
        // interfaces (DAG), objects, unions
        let nif = self.r.below(4);
        let nob = 1 + self.r.below(4);
        let nun = self.r.below(3);
        let mut out_names: Vec<String> = BUILTIN_SCALARS.iter().map(|s| s.to_string()).collect();
        out_names.extend(self.scalars.iter().cloned());
        out_names.extend(self.enums.iter().map(|e| e.name.clone()));
        let iface_names: Vec<String> = (0..nif).map(|i| format!("I{i}")).collect();
        let root_names = ["Query", "Mutation", "Subscription"];
        let explicit = self.r.chance(1, 2);
        let obj_names: Vec<String> = (0..nob).map(|i| if i < 3 && !explicit { root_names[i].to_string() } else { format!("O{i}") }).collect();
        let union_names: Vec<String> = (0..nun).map(|i| format!("U{i}")).collect();
        out_names.extend(iface_names.iter().cloned());
        out_names.extend(obj_names.iter().cloned());
        out_names.extend(union_names.iter().cloned());
        // (name, implements-closure, fields)
        let mut ifaces: Vec<(String, Vec<String>, Vec<GField>)> = vec![];
        let mut composite: Vec<(K, String, Vec<String>, Vec<GField>)> = vec![];
        for idx in 0..(nif + nob) {
            let is_iface = idx < nif;
            let name = if is_iface { iface_names[idx].clone() } else { obj_names[idx - nif].clone() };
            let mut imp: Vec<String> = vec![];
            let avail = if is_iface { idx } else { nif };
            for j in 0..avail {
                if self.r.chance(1, 3) {
                    for t in ifaces[j].1.clone() { if !imp.contains(&t) { imp.push(t); } }
                    if !imp.contains(&ifaces[j].0) { imp.push(ifaces[j].0.clone()); }
                }
            }
            let mut fields: Vec<GField> = vec![];
            for i in &imp {
                let fs = ifaces.iter().find(|x| x.0 == *i).unwrap().2.clone();
                for f in fs {
                    if let Some(pos) = fields.iter().position(|g| g.name == f.name) { fields.remove(pos); }
                    let mut f = f;
                    f.dirs = self.apply_dirs("FIELD_DEFINITION", all_dirs);
                    for a in f.args.iter_mut() { a.dirs = vec![]; if self.r.chance(1, 4) { a.default = None; } }
                    // covariant refinements
                    match self.r.below(6) {
                        0 => { if !matches!(f.ty, T::NN(_)) { f.ty = f.ty.nn(); } }
                        1 => { if self.r.chance(1, 2) { f.args.push(GIn { name: "extra".into(), ty: T::n("Int"), default: None, dirs: vec![] }); } else { f.args.push(GIn { name: "extra".into(), ty: T::n("Int").nn(), default: Some("3".into()), dirs: vec![] }); } }
                        _ => {}
                    }
                    fields.push(f);
                }
            }
            let own = if fields.is_empty() { 1 + self.r.below(3) } else { self.r.below(3) };
            for j in 0..own {
                let base = self.r.pick(&out_names).clone();
                let ty = self.wrap(&base, true);
                let na = if self.r.chance(1, 3) { 1 + self.r.below(2) } else { 0 };
                let max_in = self.inputs.len();
                let args = self.gen_args(na, "x", all_dirs, "ARGUMENT_DEFINITION", max_in);
                let dirs = self.apply_dirs("FIELD_DEFINITION", all_dirs);
                fields.push(GField { name: format!("{}_{j}", name.to_lowercase()), args, ty, dirs });
            }
            if is_iface { ifaces.push((name.clone(), imp.clone(), fields.clone())); }
            composite.push((if is_iface { K::Interface } else { K::Object }, name, imp, fields));
        }
        // covariance through subtypes: where an implementing field's named type is an interface/union,
        // sometimes narrow it to an implementing object / member
        let unions: Vec<(String, Vec<String>)> = union_names.iter().map(|u| {
            let n = 1 + self.r.below(3);
            let mut ms: Vec<String> = vec![];
            for _ in 0..n { let m = self.r.pick(&obj_names).clone(); if !ms.contains(&m) { ms.push(m); } }
            (u.clone(), ms)
        }).collect();
        let snapshot = composite.clone();
        for c in composite.iter_mut() {
            let imp = c.2.clone();
            for f in c.3.iter_mut() {
                // is this field inherited?
                let inherited = imp.iter().any(|i| ifaces.iter().find(|x| x.0 == *i).unwrap().2.iter().any(|g| g.name == f.name));
                if !inherited || !self.r.chance(1, 3) { continue; }
                let base = f.ty.named().to_string();
                // only narrow if every implemented interface declaring this field declares exactly `base`
                // (narrowing below an already-narrowed intermediate interface could break that one)
                let all_same = imp.iter().all(|i| ifaces.iter().find(|x| x.0 == *i).unwrap().2.iter().filter(|g| g.name == f.name).all(|g| g.ty.named() == base));
                if !all_same { continue; }
                let subs: Vec<String> = if let Some(u) = unions.iter().find(|u| u.0 == base) { u.1.clone() } else {
                    snapshot.iter().filter(|s| s.2.contains(&base)).map(|s| s.1.clone()).collect()
                };
                if subs.is_empty() { continue; }
                // an interface that also implements an interface declaring this field must stay compatible:
                // only narrow in objects (leaves of the implements graph)
                if c.0 != K::Object { continue; }
                let s = self.r.pick(&subs).clone();
                f.ty.set_named(&s);
            }
        }
        for (k, name, imp, fields) in composite {
            let dirs = self.apply_dirs(if k == K::Object { "OBJECT" } else { "INTERFACE" }, all_dirs);
            defs.push(GDef::Type { ext: false, k, name, ifaces: imp, dirs, fields, members: vec![], values: vec![], inputs: vec![] });
        }
        for (u, ms) in unions {
            let dirs = self.apply_dirs("UNION", all_dirs);
            defs.push(GDef::Type { ext: false, k: K::Union, name: u, ifaces: vec![], dirs, fields: vec![], members: ms, values: vec![], inputs: vec![] });
        }
        if explicit {
            let mut roots = vec![("query".to_string(), obj_names[0].clone())];
            if nob > 1 && self.r.chance(1, 2) { roots.push(("mutation".into(), obj_names[1].clone())); }
            if nob > 2 && self.r.chance(1, 2) { roots.push(("subscription".into(), obj_names[2].clone())); }
            let dirs = self.apply_dirs("SCHEMA", all_dirs);
            defs.push(GDef::Schema { ext: false, dirs, roots });
        }
        // shuffle definition order a little, then split some definitions into extensions
        let n = defs.len();
        for _ in 0..self.r.below(4) { let i = self.r.below(n); let j = self.r.below(n); defs.swap(i, j); }
        self.split_extensions(&mut defs);
        defs
    }

    fn split_extensions(&mut self, defs: &mut Vec<GDef>) {
        let mut extra: Vec<(usize, GDef)> = vec![];
        for (idx, d) in defs.iter_mut().enumerate() {
            if !self.r.chance(1, 5) { continue; }
            match d {
                GDef::Type { ext: false, k, name, ifaces, dirs, fields, members, values, inputs } => {
                    let mut e = tdef(*k, name);
                    if let GDef::Type { ext, ifaces: ei, dirs: ed, fields: ef, members: em, values: ev, inputs: eis, .. } = &mut e {
                        *ext = true;
                        let mut moved = false;
                        if fields.len() > 1 { ef.push(fields.pop().unwrap()); moved = true; }
                        if members.len() > 1 { em.push(members.pop().unwrap()); moved = true; }
                        if values.len() > 1 { ev.push(values.pop().unwrap()); moved = true; }
                        if inputs.len() > 1 { eis.push(inputs.pop().unwrap()); moved = true; }
                        if !ifaces.is_empty() && self.r.chance(1, 2) { ei.push(ifaces.pop().unwrap()); moved = true; }
                        if !dirs.is_empty() && (self.r.chance(1, 2) || !moved) { ed.push(dirs.pop().unwrap()); moved = true; }
                        if !moved { continue; }
                    }
                    let pos = if self.r.chance(1, 3) { 0 } else { idx + 1 };
                    extra.push((pos, e));
                }
                GDef::Schema { ext: false, dirs, roots } => {
                    let mut er = vec![]; let mut ed = vec![];
                    if roots.len() > 1 { er.push(roots.pop().unwrap()); }
                    if !dirs.is_empty() { ed.push(dirs.pop().unwrap()); }
                    if er.is_empty() && ed.is_empty() { continue; }
                    extra.push((if self.r.chance(1, 3) { 0 } else { idx + 1 }, GDef::Schema { ext: true, dirs: ed, roots: er }));
                }
                _ => {}
            }
        }
        extra.sort_by(|a, b| b.0.cmp(&a.0));
        for (pos, e) in extra { let p = pos.min(defs.len()); defs.insert(p, e); }
    }
}

// ---------------------------------------------------------------------------------------------
// Rule-targeted single mutations.  Each returns a label; whether the mutant violates a rule is decided
// by the independent validator, not here.

fn type_idx(defs: &[GDef], pred: impl Fn(K, bool) -> bool) -> Vec<usize> {
    defs.iter().enumerate().filter(|(_, d)| matches!(d, GDef::Type { k, ext, .. } if pred(*k, *ext))).map(|(i, _)| i).collect()
}

fn names_of(defs: &[GDef], kind: K) -> Vec<String> {
    defs.iter().filter_map(|d| match d { GDef::Type { k, ext: false, name, .. } if *k == kind => Some(name.clone()), _ => None }).collect()
}

pub const N_MUTATIONS: usize = 60;

pub fn mutate(defs: &mut Vec<GDef>, r: &mut Rng, which: usize) -> &'static str {
    let objs = type_idx(defs, |k, _| k == K::Object);
    let comps = type_idx(defs, |k, _| k == K::Object || k == K::Interface);
    let ifs = type_idx(defs, |k, e| k == K::Interface && !e);
    let uns = type_idx(defs, |k, _| k == K::Union);
    let ens = type_idx(defs, |k, _| k == K::Enum);
    let ins = type_idx(defs, |k, _| k == K::Input);
    let scs = type_idx(defs, |k, _| k == K::Scalar);
    let anyt = type_idx(defs, |_, _| true);
    let dds: Vec<usize> = defs.iter().enumerate().filter(|(_, d)| matches!(d, GDef::Directive { .. })).map(|(i, _)| i).collect();
    let sch: Vec<usize> = defs.iter().enumerate().filter(|(_, d)| matches!(d, GDef::Schema { ext: false, .. })).map(|(i, _)| i).collect();
    let obj_names = names_of(defs, K::Object);
    let if_names = names_of(defs, K::Interface);
    let in_names = names_of(defs, K::Input);
    let un_names = names_of(defs, K::Union);
    let en_names = names_of(defs, K::Enum);
    macro_rules! pick { ($v:expr) => {{ if $v.is_empty() { return "noop"; } $v[r.below($v.len())] }}; }
    macro_rules! pickn { ($v:expr) => {{ if $v.is_empty() { return "noop"; } $v[r.below($v.len())].clone() }}; }
    match which {
        0 => { // remove the query root
            if let Some(&i) = sch.first() {
                if let GDef::Schema { roots, .. } = &mut defs[i] { roots.retain(|x| x.0 != "query"); if roots.is_empty() { defs.remove(i); } }
            } else {
                for d in defs.iter_mut() { if let GDef::Type { name, .. } = d { if name == "Query" { *name = "Query_".into(); } } }
            }
            "remove-query-root"
        }
        1 => { // root → non-object / undefined
            let target = match r.below(5) { 0 => "Undefined_".to_string(), 1 => if if_names.is_empty() { "Int".into() } else { pickn!(if_names) }, 2 => "Int".into(), 3 => if un_names.is_empty() { "String".into() } else { pickn!(un_names) }, _ => if in_names.is_empty() { "ID".into() } else { pickn!(in_names) } };
            if let Some(&i) = sch.first() {
                if let GDef::Schema { roots, .. } = &mut defs[i] { let j = r.below(roots.len().max(1)); if let Some(x) = roots.get_mut(j) { x.1 = target; } }
            } else {
                let op = *r.pick(&["query", "mutation", "subscription"]);
                defs.push(GDef::Schema { ext: false, dirs: vec![], roots: vec![("query".into(), "Query".into()), (op.into(), target)] });
                if op == "query" { if let GDef::Schema { roots, .. } = defs.last_mut().unwrap() { roots.remove(0); } }
            }
            "root-not-object"
        }
        2 => { // same type for two of the three roots (any pair), the third one different when possible
            let q = if obj_names.contains(&"Query".to_string()) { "Query".to_string() } else { pickn!(obj_names) };
            let other = obj_names.iter().find(|n| **n != q).cloned();
            defs.retain(|d| !matches!(d, GDef::Schema { .. }));
            let ops = ["query", "mutation", "subscription"];
            let odd = r.below(3);
            let mut roots: Vec<(String, String)> = vec![];
            for (i, op) in ops.iter().enumerate() {
                if i == odd { if let Some(o) = &other { if i == 0 || r.chance(1, 2) { roots.push((op.to_string(), o.clone())); } } else if i == 0 { roots.push((op.to_string(), q.clone())); } }
                else { roots.push((op.to_string(), q.clone())); }
            }
            if r.chance(1, 3) { roots.reverse(); }
            defs.push(GDef::Schema { ext: false, dirs: vec![], roots });
            "roots-same-type"
        }
        3 => { // duplicate operation type (in the definition or through an extension)
            let q = pickn!(obj_names);
            if let Some(&i) = sch.first() {
                if r.chance(1, 2) { if let GDef::Schema { roots, .. } = &mut defs[i] { let x = roots[0].clone(); roots.push((x.0, q)); } }
                else { let op = if let GDef::Schema { roots, .. } = &defs[i] { roots[0].0.clone() } else { "query".into() }; defs.push(GDef::Schema { ext: true, dirs: vec![], roots: vec![(op, q)] }); }
            } else { defs.push(GDef::Schema { ext: true, dirs: vec![], roots: vec![("query".into(), q)] }); }
            "duplicate-operation-type"
        }
        4 => { let i = pick!(sch); let d = defs[i].clone(); defs.push(d); "duplicate-schema-definition" }
        5 => { // schema extension without any schema
            defs.retain(|d| !matches!(d, GDef::Schema { .. }));
            for d in defs.iter_mut() { if let GDef::Type { name, .. } = d { if ["Query", "Mutation", "Subscription"].contains(&name.as_str()) { name.push('_'); } } }
            let q = pickn!(obj_names);
            let q = if ["Query", "Mutation", "Subscription"].contains(&q.as_str()) { format!("{q}_") } else { q };
            defs.push(GDef::Schema { ext: true, dirs: vec![], roots: vec![("query".into(), q)] });
            "orphan-schema-extension"
        }
        6 => { let i = pick!(anyt); if let GDef::Type { name, .. } = &mut defs[i] { *name = format!("__{name}"); } "reserved-type-name" }
        7 => { let i = pick!(comps); if let GDef::Type { fields, .. } = &mut defs[i] { if let Some(f) = fields.last_mut() { f.name = format!("__{}", f.name); } } "reserved-field-name" }
        8 => { let i = pick!(comps); if let GDef::Type { fields, .. } = &mut defs[i] { for f in fields.iter_mut() { if let Some(a) = f.args.first_mut() { a.name = format!("__{}", a.name); break; } } } "reserved-argument-name" }
        9 => { let i = pick!(ens); if let GDef::Type { values, .. } = &mut defs[i] { if let Some(v) = values.last_mut() { v.0 = format!("__{}", v.0); } } "reserved-enum-value" }
        10 => { let i = pick!(ins); if let GDef::Type { inputs, .. } = &mut defs[i] { if let Some(v) = inputs.last_mut() { v.name = format!("__{}", v.name); } } "reserved-input-field" }
        11 => { let i = pick!(dds); if let GDef::Directive { name, args, .. } = &mut defs[i] { if r.chance(1, 2) || args.is_empty() { *name = format!("__{name}"); } else { args[0].name = format!("__{}", args[0].name); } } "reserved-directive-name" }
        12 => { let i = pick!(anyt); let mut d = defs[i].clone(); if let GDef::Type { ext, .. } = &mut d { *ext = false; } let at = r.below(defs.len() + 1); defs.insert(at, d); "duplicate-type" }
        13 => { // a type of another kind under an existing name
            let i = pick!(anyt); let n = if let GDef::Type { name, .. } = &defs[i] { name.clone() } else { return "noop" };
            let mut d = tdef(K::Scalar, &n);
            if r.chance(1, 2) { d = tdef(K::Enum, &n); if let GDef::Type { values, .. } = &mut d { values.push(("X".into(), vec![])); } }
            defs.push(d); "duplicate-type-other-kind"
        }
        14 => { let i = pick!(comps); if let GDef::Type { fields, .. } = &mut defs[i] { if let Some(f) = fields.first().cloned() { fields.push(f); } } "duplicate-field" }
        15 => { // duplicate field through an extension
            let i = pick!(comps);
            if let GDef::Type { k, name, fields, .. } = &defs[i] { if let Some(f) = fields.first().cloned() { let mut e = tdef(*k, name); if let GDef::Type { ext, fields, .. } = &mut e { *ext = true; fields.push(f); } let at = if r.chance(1, 2) { 0 } else { defs.len() }; defs.insert(at, e); } }
            "duplicate-field-via-extension"
        }
        16 => { let i = pick!(comps); if let GDef::Type { fields, .. } = &mut defs[i] { for f in fields.iter_mut() { if let Some(a) = f.args.first().cloned() { f.args.push(a); break; } } } "duplicate-argument" }
        17 => { let i = pick!(ens); if let GDef::Type { values, .. } = &mut defs[i] { if let Some(v) = values.first().cloned() { values.push(v); } } "duplicate-enum-value" }
        18 => { let i = pick!(uns); if let GDef::Type { members, .. } = &mut defs[i] { if let Some(v) = members.first().cloned() { members.push(v); } } "duplicate-union-member" }
        19 => { let i = pick!(comps); if let GDef::Type { ifaces, .. } = &mut defs[i] { if let Some(v) = ifaces.first().cloned() { ifaces.push(v); } } "duplicate-implements" }
        20 => { let i = pick!(ins); if let GDef::Type { inputs, .. } = &mut defs[i] { if let Some(v) = inputs.first().cloned() { inputs.push(v); } } "duplicate-input-field" }
        21 => { let i = pick!(dds); let d = defs[i].clone(); let at = r.below(defs.len() + 1); defs.insert(at, d); "duplicate-directive-definition" }
        22 => { let i = pick!(dds); if let GDef::Directive { args, .. } = &mut defs[i] { if let Some(a) = args.first().cloned() { args.push(a); } } "duplicate-directive-argument-definition" }
        23 => { // empty body
            let i = pick!(anyt);
            if let GDef::Type { ext: false, fields, members, values, inputs, .. } = &mut defs[i] { fields.clear(); members.clear(); values.clear(); inputs.clear(); }
            "empty-body"
        }
        24 => { // field type → input object / undefined
            let i = pick!(comps); let t = if r.chance(1, 2) || in_names.is_empty() { "Undefined_".to_string() } else { pickn!(in_names) };
            if let GDef::Type { fields, .. } = &mut defs[i] { if !fields.is_empty() { let j = r.below(fields.len()); fields[j].ty.set_named(&t); } }
            "field-type-not-output"
        }
        25 => { // argument type → output-only / undefined
            let i = pick!(comps); let t = match r.below(4) { 0 => "Undefined_".to_string(), 1 => pickn!(obj_names), 2 => if if_names.is_empty() { pickn!(obj_names) } else { pickn!(if_names) }, _ => if un_names.is_empty() { pickn!(obj_names) } else { pickn!(un_names) } };
            if let GDef::Type { fields, .. } = &mut defs[i] { for f in fields.iter_mut() { if let Some(a) = f.args.first_mut() { a.ty.set_named(&t); a.default = None; break; } } }
            "argument-type-not-input"
        }
        26 => { let i = pick!(ins); let t = if r.chance(1, 2) { "Undefined_".to_string() } else { pickn!(obj_names) };
            if let GDef::Type { inputs, .. } = &mut defs[i] { if !inputs.is_empty() { let j = r.below(inputs.len()); inputs[j].ty.set_named(&t); inputs[j].default = None; } } "input-field-type-not-input" }
        27 => { let i = pick!(dds); let t = if r.chance(1, 2) { "Undefined_".to_string() } else { pickn!(obj_names) };
            if let GDef::Directive { args, .. } = &mut defs[i] { if let Some(a) = args.first_mut() { a.ty.set_named(&t); a.default = None; } } "directive-argument-type-not-input" }
        28 => { // implements a non-interface / undefined / itself
            let i = pick!(comps);
            let me = if let GDef::Type { name, .. } = &defs[i] { name.clone() } else { return "noop" };
            let t = match r.below(4) { 0 => "Undefined_".to_string(), 1 => pickn!(obj_names), 2 => me, _ => if un_names.is_empty() { "Int".to_string() } else { pickn!(un_names) } };
            if let GDef::Type { ifaces, .. } = &mut defs[i] { ifaces.push(t); }
            "implements-bad-target"
        }
        29 => { // drop one declared interface (breaks transitivity when another declared one implements it)
            let i = pick!(comps); if let GDef::Type { ifaces, .. } = &mut defs[i] { if !ifaces.is_empty() { let j = r.below(ifaces.len()); ifaces.remove(j); } } "drop-implements"
        }
        30 => { // an interface additionally implements another (its implementors now miss the transitive one / fields)
            if ifs.len() < 2 { return "noop"; }
            let a = pick!(ifs); let b = pick!(ifs); if a == b { return "noop"; }
            let bn = if let GDef::Type { name, .. } = &defs[b] { name.clone() } else { return "noop" };
            if let GDef::Type { ifaces, .. } = &mut defs[a] { if !ifaces.contains(&bn) { ifaces.push(bn); } }
            "interface-implements-more"
        }
        31 => { // remove a field (may be one required by an interface)
            let i = pick!(comps); if let GDef::Type { fields, .. } = &mut defs[i] { if fields.len() > 1 { let j = r.below(fields.len()); fields.remove(j); } } "remove-field"
        }
        32 => { // perturb a field type's wrappers
            let i = pick!(comps);
            if let GDef::Type { fields, .. } = &mut defs[i] { if !fields.is_empty() { let j = r.below(fields.len()); let t = fields[j].ty.clone();
                fields[j].ty = match (r.below(4), t) { (0, T::NN(x)) => *x, (0, x) => x.nn(), (1, x) => x.list(), (2, T::L(x)) => *x, (2, T::NN(x)) => match *x { T::L(y) => *y, y => y }, (_, x) => x.list().nn() }; } }
            "perturb-field-type"
        }
        33 => { // change a field's named type to another output type
            let i = pick!(comps); let mut pool: Vec<String> = vec!["Int".into(), "String".into()]; pool.extend(obj_names.iter().cloned()); pool.extend(if_names.iter().cloned()); pool.extend(un_names.iter().cloned()); pool.extend(en_names.iter().cloned());
            let t = pickn!(pool);
            if let GDef::Type { fields, .. } = &mut defs[i] { if !fields.is_empty() { let j = r.below(fields.len()); fields[j].ty.set_named(&t); } }
            "retarget-field-type"
        }
        34 => { let i = pick!(comps); if let GDef::Type { fields, .. } = &mut defs[i] { let with: Vec<usize> = (0..fields.len()).filter(|j| !fields[*j].args.is_empty()).collect(); if !with.is_empty() { let j = with[r.below(with.len())]; let k = r.below(fields[j].args.len()); fields[j].args.remove(k); } } "remove-argument" }
        35 => { let i = pick!(comps); if let GDef::Type { fields, .. } = &mut defs[i] { let with: Vec<usize> = (0..fields.len()).filter(|j| !fields[*j].args.is_empty()).collect(); if !with.is_empty() { let j = with[r.below(with.len())]; let k = r.below(fields[j].args.len()); let a = &mut fields[j].args[k]; a.default = None;
                a.ty = match (r.below(3), a.ty.clone()) { (0, T::NN(x)) => *x, (0, x) => x.nn(), (1, x) => x.list(), (_, mut x) => { x.set_named(if x.named() == "Int" { "String" } else { "Int" }); x } }; } } "perturb-argument-type" }
        36 => { // add an argument (required or optional) to a field
            let i = pick!(comps); if let GDef::Type { fields, .. } = &mut defs[i] { if !fields.is_empty() { let j = r.below(fields.len());
                let (ty, default) = match r.below(4) { 0 => (T::n("Int").nn(), None), 1 => (T::n("Int").nn(), Some("1".to_string())), 2 => (T::n("Int").nn().list().nn(), None), _ => (T::n("Int"), None) };
                fields[j].args.push(GIn { name: "added".into(), ty, default, dirs: vec![] }); } } "add-argument" }
        37 => { let i = pick!(uns); let t = match r.below(4) { 0 => "Undefined_".to_string(), 1 => "Int".into(), 2 => if if_names.is_empty() { "String".into() } else { pickn!(if_names) }, _ => pickn!(un_names) };
            if let GDef::Type { members, .. } = &mut defs[i] { members.push(t); } "union-bad-member" }
        38 => { // make an input field a non-null reference to an input object (self, or any)
            let i = pick!(ins); let me = if let GDef::Type { name, .. } = &defs[i] { name.clone() } else { return "noop" };
            let t = if r.chance(1, 2) { me } else { pickn!(in_names) };
            if let GDef::Type { inputs, .. } = &mut defs[i] { if !inputs.is_empty() { let j = r.below(inputs.len()); inputs[j].ty = T::n(&t).nn(); inputs[j].default = if r.chance(1, 3) { Some("{}".to_string()) } else { None }; } }
            "input-nonnull-reference"
        }
        39 => { // close a non-null cycle of length 2 or 3 between fresh input objects, optionally entered from an existing one
            let n = 2 + r.below(2);
            for k in 0..n { let mut d = tdef(K::Input, &format!("Cyc{k}")); if let GDef::Type { inputs, .. } = &mut d {
                inputs.push(GIn { name: "pad".into(), ty: T::n("Int"), default: None, dirs: vec![] });
                let nxt = T::n(&format!("Cyc{}", (k + 1) % n));
                let ty = if k == n - 1 { match r.below(4) { 0 => nxt, 1 => nxt.nn().list().nn(), _ => nxt.nn() } } else { nxt.nn() };
                let default = if r.chance(1, 3) { Some((*r.pick(&["{}", "{pad: 1}"])).to_string()) } else { None };
                inputs.push(GIn { name: "next".into(), ty, default, dirs: vec![] }); } defs.push(d); }
            "input-cycle-fresh"
        }
        40 => { // a directive uses itself on its own argument
            let i = pick!(dds);
            if let GDef::Directive { name, args, locs, .. } = &mut defs[i] {
                if !locs.iter().any(|l| l == "ARGUMENT_DEFINITION") { locs.push("ARGUMENT_DEFINITION".into()); }
                let all_optional = args.iter().all(|a| !(matches!(a.ty, T::NN(_)) && a.default.is_none()));
                if !all_optional { return "noop"; }
                let app = format!("@{name}");
                if args.is_empty() { args.push(GIn { name: "self".into(), ty: T::n("Int"), default: None, dirs: vec![app] }); } else { args[0].dirs.push(app); }
            }
            "directive-self-use"
        }
        41 => { // two or three fresh directives referring to each other, through arguments / an input type / an enum value
            let via = r.below(4);
            let closes = !r.chance(1, 4);
            match via {
                0 => {
                    defs.push(GDef::Directive { name: "ca".into(), args: vec![GIn { name: "x".into(), ty: T::n("Int"), default: None, dirs: vec!["@cb".into()] }], repeatable: false, locs: vec!["ARGUMENT_DEFINITION".into()] });
                    defs.push(GDef::Directive { name: "cb".into(), args: vec![GIn { name: "y".into(), ty: T::n("Int"), default: None, dirs: if closes { vec!["@ca".into()] } else { vec![] } }], repeatable: false, locs: vec!["ARGUMENT_DEFINITION".into()] });
                }
                1 => {
                    defs.push(GDef::Directive { name: "ca".into(), args: vec![GIn { name: "x".into(), ty: T::n("CIn"), default: None, dirs: vec![] }], repeatable: false, locs: vec!["INPUT_FIELD_DEFINITION".into(), "INPUT_OBJECT".into()] });
                    let mut d = tdef(K::Input, "CIn");
                    if let GDef::Type { inputs, dirs, .. } = &mut d {
                        inputs.push(GIn { name: "f".into(), ty: T::n("Int"), default: None, dirs: if closes && r.chance(1, 2) { vec!["@ca".into()] } else { vec![] } });
                        inputs.push(GIn { name: "g".into(), ty: T::n("CIn").list(), default: None, dirs: vec![] });
                        if closes && inputs[0].dirs.is_empty() { dirs.push("@ca".into()); }
                    }
                    defs.push(d);
                }
                2 => {
                    defs.push(GDef::Directive { name: "ca".into(), args: vec![GIn { name: "x".into(), ty: T::n("CEn").list(), default: None, dirs: vec![] }], repeatable: false, locs: vec!["ENUM_VALUE".into(), "ENUM".into()] });
                    let mut d = tdef(K::Enum, "CEn");
                    if let GDef::Type { values, dirs, .. } = &mut d { let on_value = r.chance(1, 2); values.push(("CV".into(), if closes && on_value { vec!["@ca".into()] } else { vec![] })); if closes && !on_value { dirs.push("@ca".into()); } }
                    defs.push(d);
                }
                _ => {
                    defs.push(GDef::Directive { name: "ca".into(), args: vec![GIn { name: "x".into(), ty: T::n("CSc").nn().list(), default: None, dirs: vec![] }], repeatable: false, locs: vec!["SCALAR".into()] });
                    let mut d = tdef(K::Scalar, "CSc");
                    if let GDef::Type { dirs, .. } = &mut d { if closes { dirs.push("@ca".into()); } }
                    defs.push(d);
                }
            }
            "directive-cycle-fresh"
        }
        42..=49 => { // directive application mutations on a random site carrying / able to carry a directive
            // a fresh directive with known shape, applied to an object
            let i = pick!(objs);
            defs.push(GDef::Directive { name: "m".into(), args: vec![
                GIn { name: "req".into(), ty: T::n("Int").nn(), default: None, dirs: vec![] },
                GIn { name: "opt".into(), ty: T::n("String").list(), default: None, dirs: vec![] },
                GIn { name: "dflt".into(), ty: T::n("Boolean").nn(), default: Some("true".into()), dirs: vec![] }], repeatable: false, locs: vec!["OBJECT".into(), "FIELD_DEFINITION".into()] });
            let (app, label): (Vec<String>, &'static str) = match which {
                42 => (vec!["@nope_undefined".into()], "apply-undefined-directive"),
                43 => { defs.push(GDef::Directive { name: "elsewhere".into(), args: vec![], repeatable: false, locs: vec![(*r.pick(&["FIELD", "INTERFACE", "QUERY", "SCHEMA", "ARGUMENT_DEFINITION"])).to_string()] }); (vec!["@elsewhere".into()], "apply-wrong-location") }
                44 => (vec!["@m(req: 1)".into(), "@m(req: 2)".into()], "apply-twice-non-repeatable"),
                45 => (vec!["@m(req: 1, nope: 2)".into()], "apply-unknown-argument"),
                46 => (vec!["@m(req: 1, req: 1)".into()], "apply-duplicate-argument"),
                47 => (vec![(*r.pick(&["@m", "@m(req: null)", "@m(opt: [\"a\"])", "@m(req: 1, dflt: null)"])).to_string()], "apply-missing-required"),
                48 => (vec![(*r.pick(&["@m(req: \"1\")", "@m(req: 1.5)", "@m(req: 1, opt: 3)", "@m(req: 1, opt: [[\"a\"]])", "@m(req: 1, opt: [1])", "@m(req: 1, dflt: 1)", "@m(req: 2147483648)", "@m(req: A)", "@m(req: [1])", "@m(req: 1, opt: \"single\")", "@m(req: 1, opt: [null, \"a\"])", "@m(req: 1, opt: null)"])).to_string()], "apply-ill-typed-value"),
                _ => (vec!["@m(req: 1)".into()], "apply-valid"),
            };
            if let GDef::Type { dirs, fields, .. } = &mut defs[i] { if r.chance(1, 2) || fields.is_empty() { dirs.extend(app); } else { let j = r.below(fields.len()); fields[j].dirs.extend(app); } }
            label
        }
        50 => { // extension of another kind, before or after the definition
            let i = pick!(anyt);
            let (k, n) = if let GDef::Type { k, name, .. } = &defs[i] { (*k, name.clone()) } else { return "noop" };
            let mut e = match k {
                K::Object => { let mut e = tdef(K::Interface, &n); if let GDef::Type { fields, .. } = &mut e { fields.push(GField { name: "zz".into(), args: vec![], ty: T::n("Int"), dirs: vec![] }); } e }
                K::Enum => { let mut e = tdef(K::Input, &n); if let GDef::Type { inputs, .. } = &mut e { inputs.push(GIn { name: "zz".into(), ty: T::n("Int"), default: None, dirs: vec![] }); } e }
                _ => { let mut e = tdef(K::Enum, &n); if let GDef::Type { values, .. } = &mut e { values.push(("ZZ".into(), vec![])); } e }
            };
            if let GDef::Type { ext, .. } = &mut e { *ext = true; }
            let at = if r.chance(1, 2) { 0 } else { defs.len() }; defs.insert(at, e);
            "extension-kind-mismatch"
        }
        51 => { let mut e = tdef(K::Object, "NoSuchType_"); if let GDef::Type { ext, fields, .. } = &mut e { *ext = true; fields.push(GField { name: "zz".into(), args: vec![], ty: T::n("Int"), dirs: vec![] }); } let at = r.below(defs.len() + 1); defs.insert(at, e); "extension-of-undefined" }
        52 => { // move an extension before its definition / the definition to the end
            let exts = type_idx(defs, |_, e| e); let i = pick!(exts); let d = defs.remove(i); defs.insert(0, d); "extension-first" }
        53 => { // redefine a built-in type
            let which_b = r.below(4);
            defs.push(match which_b { 0 => tdef(K::Scalar, "Int"), 1 => tdef(K::Scalar, "ID"),
                2 => { let mut d = tdef(K::Object, "__Schema"); if let GDef::Type { fields, .. } = &mut d { fields.push(GField { name: "types".into(), args: vec![], ty: T::n("Int"), dirs: vec![] }); } d }
                _ => { let mut d = tdef(K::Enum, "__TypeKind"); if let GDef::Type { values, .. } = &mut d { values.push(("SCALAR".into(), vec![])); } d } });
            "redefine-builtin-type"
        }
        54 => { // redefine a built-in directive once or twice
            let twice = r.chance(1, 2);
            let name = *r.pick(&["skip", "include", "deprecated", "specifiedBy"]);
            let d = match name {
                "deprecated" => GDef::Directive { name: name.into(), args: vec![GIn { name: "reason".into(), ty: T::n("String"), default: None, dirs: vec![] }], repeatable: false, locs: vec!["FIELD_DEFINITION".into(), "ARGUMENT_DEFINITION".into(), "INPUT_FIELD_DEFINITION".into(), "ENUM_VALUE".into(), "OBJECT".into()] },
                "specifiedBy" => GDef::Directive { name: name.into(), args: vec![GIn { name: "url".into(), ty: T::n("String").nn(), default: None, dirs: vec![] }], repeatable: false, locs: vec!["SCALAR".into()] },
                _ => GDef::Directive { name: name.into(), args: vec![GIn { name: "if".into(), ty: T::n("Boolean").nn(), default: None, dirs: vec![] }], repeatable: false, locs: vec!["FIELD".into(), "FRAGMENT_SPREAD".into(), "INLINE_FRAGMENT".into()] },
            };
            if defs.iter().any(|x| matches!(x, GDef::Directive { name: n, .. } if n == name)) { defs.push(d); return "redefine-builtin-directive-again"; }
            defs.push(d.clone()); if twice { defs.push(d); "redefine-builtin-directive-twice" } else { "redefine-builtin-directive-once" }
        }
        55 => { // built-in directive misuse
            let i = pick!(comps);
            let app = (*r.pick(&["@deprecated(reason: 1)", "@deprecated(reason: \"r\")", "@deprecated(because: \"r\")", "@skip(if: true)", "@specifiedBy(url: \"u\")", "@deprecated @deprecated"])).to_string();
            if let GDef::Type { fields, .. } = &mut defs[i] { if !fields.is_empty() { let j = r.below(fields.len()); fields[j].dirs.push(app); } }
            "builtin-directive-use"
        }
        56 => {
            if r.chance(1, 3) || scs.is_empty() {
                // an extension of a built-in scalar carrying a directive
                let mut e = tdef(K::Scalar, *r.pick(&["Int", "String", "ID"]));
                if let GDef::Type { ext, dirs, .. } = &mut e { *ext = true; dirs.push((*r.pick(&["@nope_undefined", "@specifiedBy(url: \"u\")", "@deprecated", "@specifiedBy(url: 1)"])).to_string()); }
                defs.push(e);
                return "builtin-scalar-extension";
            }
            let i = pick!(scs); if let GDef::Type { dirs, .. } = &mut defs[i] { dirs.push((*r.pick(&["@specifiedBy(url: \"u\")", "@specifiedBy", "@specifiedBy(url: 1)", "@specifiedBy(url: null)", "@deprecated"])).to_string()); } "scalar-directive" }
        57 => { // replace a type reference anywhere by a random named type
            let mut pool: Vec<String> = vec!["Int".into(), "Undefined_".into()]; pool.extend(obj_names.iter().cloned()); pool.extend(if_names.iter().cloned()); pool.extend(in_names.iter().cloned()); pool.extend(en_names.iter().cloned()); pool.extend(un_names.iter().cloned());
            let t = pickn!(pool); let i = pick!(anyt);
            if let GDef::Type { fields, inputs, members, ifaces, .. } = &mut defs[i] {
                if !fields.is_empty() { let j = r.below(fields.len()); if !fields[j].args.is_empty() && r.chance(1, 2) { fields[j].args[0].ty.set_named(&t); fields[j].args[0].default = None; } else { fields[j].ty.set_named(&t); } }
                else if !inputs.is_empty() { let j = r.below(inputs.len()); inputs[j].ty.set_named(&t); inputs[j].default = None; }
                else if !members.is_empty() { members[0] = t; }
                else if !ifaces.is_empty() { ifaces[0] = t; }
            }
            "retarget-any-reference"
        }
        58 => { // delete a whole definition
            let i = r.below(defs.len().max(1)); if !defs.is_empty() { defs.remove(i); } "delete-definition" }
        _ => { // directive definition locations / repeatable flip
            let i = pick!(dds);
            if let GDef::Directive { locs, repeatable, .. } = &mut defs[i] { if r.chance(1, 2) { *repeatable = !*repeatable; } else if locs.len() > 1 { let j = r.below(locs.len()); locs.remove(j); } else { locs[0] = "QUERY".into(); } }
            "directive-definition-change"
        }
    }
}
