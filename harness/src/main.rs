#![allow(dead_code)]
mod util;
mod gen;
mod gramspec;
mod lexspec;
mod pp;
mod pfam;
mod p01;
mod p02;
mod p04;
mod p05;
mod p06;
mod p07;
mod p09;
mod strspec;
mod specexec;
mod specschema;
mod schemagen;
mod p03;
mod p10;
mod p11;
mod p16;
mod p21;
mod p22;
mod p23;
mod p25;
mod p29;
mod p31;
mod p08;
mod pfromcst;
mod p12;
mod p13;
mod p14;
mod p15;
mod p17;
mod p18;
mod p19;
mod p20;
mod p24;
mod p26;
mod p27;
mod p28;
mod p30;
mod p32;
mod p33;

use util::Ctx;

fn main() {
    let args: Vec<String> = std::env::args().collect();
    if args.len() < 2 {
        eprintln!("usage: vh <Cnn> [--seed N] [--tier quick|thorough] [--out DIR] [--replay FILE]");
        std::process::exit(2);
    }
    let prop = args[1].clone();
    if prop == "C22" {
        if let Ok(spec) = std::env::var("VH_C22_CHILD") {
            std::panic::set_hook(Box::new(|_| {}));
            p22::child_main(&spec);
            return;
        }
    }
    if prop == "C31" {
        if let Ok(spec) = std::env::var("VH_C31_CHILD") {
            std::panic::set_hook(Box::new(|_| {}));
            p31::child_main(&spec);
            return;
        }
    }
    if prop == "C21" {
        if let Ok(spec) = std::env::var("VH_C21_CHILD") {
            if std::env::var("VH_VERBOSE_PANIC").is_err() { std::panic::set_hook(Box::new(|_| {})); }
            p21::child_main(&spec);
            return;
        }
    }
    let mut seed = 1u64;
    let mut tier = "quick".to_string();
    let mut out = std::path::PathBuf::from(format!("/verif/.work/{prop}"));
    let mut i = 2;
    let mut extra: Vec<String> = vec![];
    while i < args.len() {
        match args[i].as_str() {
            "--seed" => { seed = args[i + 1].parse().unwrap_or(1); i += 2; }
            "--tier" => { tier = args[i + 1].clone(); i += 2; }
            "--out" => { out = args[i + 1].clone().into(); i += 2; }
            _ => { extra.push(args[i].clone()); i += 1; }
        }
    }
    // Panics are values in this harness; keep stderr quiet.
    if std::env::var("VH_VERBOSE_PANIC").is_err() { std::panic::set_hook(Box::new(|_| {})); }
    let mut ctx = Ctx::new(&prop, &tier, seed, out);
    match prop.as_str() {
        "C01" => p01::run(&mut ctx),
        "C02" => p02::run(&mut ctx),
        "C03" => p03::run(&mut ctx),
        "C04" => p04::run(&mut ctx),
        "C05" => p05::run(&mut ctx),
        "C06" => p06::run(&mut ctx),
        "C07" => p07::run(&mut ctx),
        "C09" => p09::run(&mut ctx),
        "C10" => p10::run(&mut ctx),
        "C11" => p11::run(&mut ctx),
        "C16" => p16::run(&mut ctx),
        "C21" => p21::run(&mut ctx),
        "C22" => p22::run(&mut ctx),
        "C23" => p23::run(&mut ctx),
        "C25" => p25::run(&mut ctx),
        "C29" => p29::run(&mut ctx),
        "C31" => p31::run(&mut ctx),
        "C08" => p08::run(&mut ctx),
        "C12" => p12::run(&mut ctx),
        "C13" => p13::run(&mut ctx),
        "C14" => p14::run(&mut ctx),
        "C15" => p15::run(&mut ctx),
        "C17" => p17::run(&mut ctx),
        "C18" => p18::run(&mut ctx),
        "C19" => p19::run(&mut ctx),
        "C20" => p20::run(&mut ctx),
        "C24" => p24::run(&mut ctx),
        "C26" => p26::run(&mut ctx),
        "C27" => p27::run(&mut ctx),
        "C28" => p28::run(&mut ctx),
        "C30" => p30::run(&mut ctx),
        "C32" => p32::run(&mut ctx),
        "C33" => p33::run(&mut ctx),
        _ => { eprintln!("unknown property {prop}"); std::process::exit(2); }
    }
    ctx.finish();
}
