//! Stream `c08.fromcst`: the real `ast::Document::parse` (parser + ast/from_cst.rs; on syntax errors the
//! partial document) vs the Lean model `fromCst (parse .document src)`: canonical AST dump (p08::dump) and
//! the (start+length) of every Name's location, sorted.
use crate::util::*;
use apollo_compiler::ast;
use apollo_compiler::{Name, Node};

struct W { locs: Vec<(usize, usize)>, missing: usize }
impl W {
    fn name(&mut self, n: &Name) { match n.location() { Some(l) => self.locs.push((l.offset(), l.node_len())), None => self.missing += 1 } }
    fn value(&mut self, v: &ast::Value) {
        match v {
            ast::Value::Enum(n) | ast::Value::Variable(n) => self.name(n),
            ast::Value::List(vs) => for x in vs { self.value(x) },
            ast::Value::Object(fs) => for (n, x) in fs { self.name(n); self.value(x) },
            _ => {}
        }
    }
    fn ty(&mut self, t: &ast::Type) { match t { ast::Type::Named(n) | ast::Type::NonNullNamed(n) => self.name(n), ast::Type::List(i) | ast::Type::NonNullList(i) => self.ty(i) } }
    fn args(&mut self, a: &[Node<ast::Argument>]) { for x in a { self.name(&x.name); self.value(&x.value) } }
    fn dirs(&mut self, d: &ast::DirectiveList) { for x in d.iter() { self.name(&x.name); self.args(&x.arguments) } }
    fn sels(&mut self, ss: &[ast::Selection]) {
        for s in ss {
            match s {
                ast::Selection::Field(f) => { if let Some(a) = &f.alias { self.name(a) } self.name(&f.name); self.args(&f.arguments); self.dirs(&f.directives); self.sels(&f.selection_set) }
                ast::Selection::FragmentSpread(f) => { self.name(&f.fragment_name); self.dirs(&f.directives) }
                ast::Selection::InlineFragment(f) => { if let Some(t) = &f.type_condition { self.name(t) } self.dirs(&f.directives); self.sels(&f.selection_set) }
            }
        }
    }
    fn ivd(&mut self, v: &ast::InputValueDefinition) { self.name(&v.name); self.ty(&v.ty); if let Some(d) = &v.default_value { self.value(d) } self.dirs(&v.directives) }
    fn fd(&mut self, f: &ast::FieldDefinition) { self.name(&f.name); for a in &f.arguments { self.ivd(a) } self.ty(&f.ty); self.dirs(&f.directives) }
    fn names(&mut self, l: &[Name]) { for n in l { self.name(n) } }
    fn roots(&mut self, r: &[Node<(ast::OperationType, ast::NamedType)>]) { for x in r { self.name(&x.1) } }
    fn doc(&mut self, d: &ast::Document) {
        use ast::Definition as D;
        for def in &d.definitions {
            match def {
                D::OperationDefinition(o) => { if let Some(n) = &o.name { self.name(n) } for v in &o.variables { self.name(&v.name); self.ty(&v.ty); if let Some(d) = &v.default_value { self.value(d) } self.dirs(&v.directives) } self.dirs(&o.directives); self.sels(&o.selection_set) }
                D::FragmentDefinition(f) => { self.name(&f.name); self.name(&f.type_condition); self.dirs(&f.directives); self.sels(&f.selection_set) }
                D::DirectiveDefinition(d) => { self.name(&d.name); for a in &d.arguments { self.ivd(a) } }
                D::SchemaDefinition(s) => { self.dirs(&s.directives); self.roots(&s.root_operations) }
                D::ScalarTypeDefinition(s) => { self.name(&s.name); self.dirs(&s.directives) }
                D::ObjectTypeDefinition(t) => { self.name(&t.name); self.names(&t.implements_interfaces); self.dirs(&t.directives); for f in &t.fields { self.fd(f) } }
                D::InterfaceTypeDefinition(t) => { self.name(&t.name); self.names(&t.implements_interfaces); self.dirs(&t.directives); for f in &t.fields { self.fd(f) } }
                D::UnionTypeDefinition(t) => { self.name(&t.name); self.dirs(&t.directives); self.names(&t.members) }
                D::EnumTypeDefinition(t) => { self.name(&t.name); self.dirs(&t.directives); for v in &t.values { self.name(&v.value); self.dirs(&v.directives) } }
                D::InputObjectTypeDefinition(t) => { self.name(&t.name); self.dirs(&t.directives); for f in &t.fields { self.ivd(f) } }
                D::SchemaExtension(s) => { self.dirs(&s.directives); self.roots(&s.root_operations) }
                D::ScalarTypeExtension(s) => { self.name(&s.name); self.dirs(&s.directives) }
                D::ObjectTypeExtension(t) => { self.name(&t.name); self.names(&t.implements_interfaces); self.dirs(&t.directives); for f in &t.fields { self.fd(f) } }
                D::InterfaceTypeExtension(t) => { self.name(&t.name); self.names(&t.implements_interfaces); self.dirs(&t.directives); for f in &t.fields { self.fd(f) } }
                D::UnionTypeExtension(t) => { self.name(&t.name); self.dirs(&t.directives); self.names(&t.members) }
                D::EnumTypeExtension(t) => { self.name(&t.name); self.dirs(&t.directives); for v in &t.values { self.name(&v.value); self.dirs(&v.directives) } }
                D::InputObjectTypeExtension(t) => { self.name(&t.name); self.dirs(&t.directives); for f in &t.fields { self.ivd(f) } }
            }
        }
    }
}

/// one source text (valid or not)
pub fn case(ctx: &mut Ctx, src: &str) {
    if src.len() > 4000 { return; }
    let (doc, had_errors) = match catch(|| ast::Document::parse(src.to_string(), "d.graphql")) {
        Ok(Ok(d)) => (d, false),
        Ok(Err(e)) => (e.partial, true),
        Err(m) => { ctx.fail("parse-panic", src, &m); return }
    };
    let mut w = W { locs: vec![], missing: 0 };
    w.doc(&doc);
    if w.missing > 0 { ctx.fail("ast-name-without-location", src, &format!("{} names of a parsed document have no location", w.missing)); }
    // the source bytes under every Name's location are the name (the AST half of C11) — only checked here when
    // the parse had no error (the dropped-token defect of C02/C11 shifts locations on some erroneous inputs)
    w.locs.sort();
    let out = format!("{} | {}", crate::p08::dump(&doc), w.locs.iter().map(|(a, l)| format!("{a}+{l}")).collect::<Vec<_>>().join(","));
    ctx.stat(if had_errors { "fromcst_with_syntax_errors" } else { "fromcst_clean" });
    if had_errors && !doc.definitions.is_empty() { ctx.stat("fromcst_errors_with_definitions"); }
    ctx.nontrivial(&out);
    ctx.case("c08.fromcst", &[enc(src)], &out);
}

/// error-containing variants of a source: from_cst must be followed on those too
pub fn broken_variants(ctx: &mut Ctx, src: &str) {
    let chars: Vec<char> = src.chars().collect();
    if chars.is_empty() || chars.len() > 1500 { return; }
    let n = 1 + ctx.rng.below(3);
    for _ in 0..n {
        let mut c = chars.clone();
        match ctx.rng.below(7) {
            0 => { let i = ctx.rng.below(c.len()); let l = 1 + ctx.rng.below(6); let e = (i + l).min(c.len()); c.drain(i..e); }                 // delete a range
            1 => { let i = ctx.rng.below(c.len() + 1); for (k, ch) in ctx.rng.pick(&["}", "{", ")", "(", "]", "[", "!", "@", ":", "=", "|", "&", "$", "...", "\"", "1", "é", " on ", "{}", "()", " # c\n"]).chars().enumerate() { c.insert(i + k, ch); } } // stray token
            2 => { let i = ctx.rng.below(c.len()); c.truncate(i); }                                                                                  // truncate
            3 => { // drop one identifier (a missing name)
                let starts: Vec<usize> = (0..c.len()).filter(|i| (c[*i].is_ascii_alphabetic() || c[*i] == '_') && (*i == 0 || !(c[*i - 1].is_ascii_alphanumeric() || c[*i - 1] == '_'))).collect();
                if let Some(&s) = starts.get(ctx.rng.below(starts.len().max(1))) { let mut e = s; while e < c.len() && (c[e].is_ascii_alphanumeric() || c[e] == '_') { e += 1; } c.drain(s..e); }
            }
            4 => { // empty a pair of braces / parentheses
                let opens: Vec<usize> = (0..c.len()).filter(|i| c[*i] == '{' || c[*i] == '(').collect();
                if let Some(&s) = opens.get(ctx.rng.below(opens.len().max(1))) { let close = if c[s] == '{' { '}' } else { ')' }; let mut depth = 0; let mut e = s; for j in s..c.len() { if c[j] == c[s] { depth += 1 } else if c[j] == close { depth -= 1; if depth == 0 { e = j; break } } } if e > s { c.drain(s + 1..e); } }
            }
            5 => { let i = ctx.rng.below(c.len()); let j = ctx.rng.below(c.len()); c.swap(i, j); }
            _ => { let i = ctx.rng.below(c.len()); let l = 1 + ctx.rng.below(10); let e = (i + l).min(c.len()); let seg: Vec<char> = c[i..e].to_vec(); for (k, ch) in seg.into_iter().enumerate() { c.insert(e + k, ch); } } // duplicate a range
        }
        let s: String = c.into_iter().collect();
        case(ctx, &s);
    }
}
