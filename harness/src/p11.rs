//! C11 — line/column positions and AST locations.
use crate::gen::G;
use crate::util::*;
use apollo_compiler::ast;
use apollo_compiler::diagnostic::ToCliReport;
use apollo_compiler::parser::SourceMap;
use apollo_compiler::{Name, Node};

/// the documented rule, written independently: lines end at \n, \r\n, \r; columns count chars
fn spec_line_col(src: &str, offset: usize) -> Option<(usize, usize)> {
    if offset > src.len() { return None; }
    let (mut line, mut col) = (1, 1);
    let cs: Vec<(usize, char)> = src.char_indices().collect();
    let mut i = 0;
    while i < cs.len() && cs[i].0 < offset {
        match cs[i].1 {
            '\n' => { line += 1; col = 1; }
            '\r' => { if cs.get(i + 1).map(|x| x.1) == Some('\n') { col += 1; } else { line += 1; col = 1; } }
            _ => col += 1,
        }
        i += 1;
    }
    Some((line, col))
}

fn linecol_cases(ctx: &mut Ctx, src: &str) {
    let doc = match catch(|| ast::Document::parse(src, "d.graphql")) { Ok(Ok(d)) => d, Ok(Err(e)) => e.partial, Err(m) => { ctx.fail("ast-parse-panic", src, &m); return } };
    let Some(file) = doc.sources.values().next() else { return };
    for off in 0..=src.len() + 1 {
        let got = file.get_line_column(off).map(|lc| (lc.line, lc.column));
        let want = spec_line_col(src, off);
        if got != want {
            let key = if src.chars().any(|c| matches!(c, '\u{b}' | '\u{c}' | '\u{85}' | '\u{2028}' | '\u{2029}')) { "line-column-unusual-separator" } else if !src.is_ascii() { "line-column-counts-bytes" } else { "line-column-differs" };
            ctx.fail(key, &format!("offset {off} in {src:?}"), &format!("got {got:?}, documented rule gives {want:?}"));
        }
        let out = got.map(|(l, c)| format!("{l},{c}")).unwrap_or_else(|| "none".into());
        ctx.case("linecol", &[enc(src), off.to_string()], &out);
        if got.is_some_and(|(l, _)| l > 1) { ctx.nontrivial(&format!("{src}{off}")); }
    }
}

/// `line_column_range` of a located thing = the documented rule applied to both ends, and = `get_line_column` of both ends
fn range_check(src: &str, sources: &SourceMap, loc: apollo_compiler::parser::SourceSpan, what: &str, bad: &mut Vec<String>) {
    let (a, b) = (loc.offset(), loc.end_offset());
    if b > src.len() || a > b { return; }
    let got = loc.line_column_range(sources).map(|r| ((r.start.line, r.start.column), (r.end.line, r.end.column)));
    let want = spec_line_col(src, a).zip(spec_line_col(src, b));
    if got != want { bad.push(format!("{what}: line_column_range of {a}..{b} is {got:?}, the documented rule gives {want:?}")); }
    if let Some(file) = sources.get(&loc.file_id()) {
        let pts = file.get_line_column(a).zip(file.get_line_column(b)).map(|(x, y)| ((x.line, x.column), (y.line, y.column)));
        let rng = file.get_line_column_range(a..b).map(|r| ((r.start.line, r.start.column), (r.end.line, r.end.column)));
        if pts != rng { bad.push(format!("{what}: get_line_column_range({a}..{b}) = {rng:?} but get_line_column of the two ends = {pts:?}")); }
    }
}

struct Walk<'a> { src: &'a str, sources: &'a SourceMap, bad: Vec<String>, names: usize, nodes: usize }
impl<'a> Walk<'a> {
    fn name(&mut self, n: &Name) {
        self.names += 1;
        match n.location() {
            None => self.bad.push(format!("name {n} has no location")),
            Some(loc) => {
                let (a, b) = (loc.offset(), loc.end_offset());
                if !self.sources.contains_key(&loc.file_id()) { self.bad.push(format!("name {n}: file id not in source map")); }
                match self.src.get(a..b) { Some(t) if t == n.as_str() => {}, other => self.bad.push(format!("name {n} located at {a}..{b} = {other:?}")) }
                range_check(self.src, self.sources, loc, &format!("name {n}"), &mut self.bad);
            }
        }
    }
    fn node<T>(&mut self, n: &Node<T>, what: &str) {
        self.nodes += 1;
        match n.location() {
            None => self.bad.push(format!("{what} has no location")),
            Some(loc) => { if loc.end_offset() > self.src.len() || loc.offset() > loc.end_offset() || !self.src.is_char_boundary(loc.offset()) || !self.src.is_char_boundary(loc.end_offset()) { self.bad.push(format!("{what} location {}..{} outside the file", loc.offset(), loc.end_offset())); } else { range_check(self.src, self.sources, loc, what, &mut self.bad); } }
        }
    }
    fn ty(&mut self, t: &ast::Type) { self.name(t.inner_named_type()); }
    fn value(&mut self, v: &Node<ast::Value>) {
        self.node(v, "value");
        match v.as_ref() {
            ast::Value::Enum(n) | ast::Value::Variable(n) => self.name(n),
            ast::Value::List(l) => for x in l { self.value(x) },
            ast::Value::Object(o) => for (k, x) in o { self.name(k); self.value(x) },
            _ => {}
        }
    }
    fn directives(&mut self, ds: &ast::DirectiveList) {
        for d in ds.iter() { self.node(d, "directive"); self.name(&d.name); for a in &d.arguments { self.node(a, "argument"); self.name(&a.name); self.value(&a.value); } }
    }
    fn input_value(&mut self, i: &Node<ast::InputValueDefinition>) {
        self.node(i, "input value definition"); self.name(&i.name); self.ty(&i.ty);
        if let Some(d) = &i.default_value { self.value(d); }
        self.directives(&i.directives);
    }
    fn fields(&mut self, fs: &[Node<ast::FieldDefinition>]) {
        for f in fs { self.node(f, "field definition"); self.name(&f.name); self.ty(&f.ty); for a in &f.arguments { self.input_value(a); } self.directives(&f.directives); }
    }
    fn selections(&mut self, ss: &[ast::Selection]) {
        for s in ss {
            match s {
                ast::Selection::Field(f) => { self.node(f, "field"); if let Some(a) = &f.alias { self.name(a); } self.name(&f.name); for a in &f.arguments { self.node(a, "argument"); self.name(&a.name); self.value(&a.value); } self.directives(&f.directives); self.selections(&f.selection_set); }
                ast::Selection::FragmentSpread(f) => { self.node(f, "spread"); self.name(&f.fragment_name); self.directives(&f.directives); }
                ast::Selection::InlineFragment(f) => { self.node(f, "inline fragment"); if let Some(t) = &f.type_condition { self.name(t); } self.directives(&f.directives); self.selections(&f.selection_set); }
            }
        }
    }
    fn doc(&mut self, d: &ast::Document) {
        use ast::Definition as D;
        for def in &d.definitions {
            match def {
                D::OperationDefinition(o) => { self.node(o, "operation"); if let Some(n) = &o.name { self.name(n); } for v in &o.variables { self.node(v, "variable definition"); self.name(&v.name); self.ty(&v.ty); if let Some(x) = &v.default_value { self.value(x); } self.directives(&v.directives); } self.directives(&o.directives); self.selections(&o.selection_set); }
                D::FragmentDefinition(f) => { self.node(f, "fragment"); self.name(&f.name); self.name(&f.type_condition); self.directives(&f.directives); self.selections(&f.selection_set); }
                D::DirectiveDefinition(x) => { self.node(x, "directive definition"); self.name(&x.name); for a in &x.arguments { self.input_value(a); } }
                D::SchemaDefinition(x) => { self.node(x, "schema definition"); self.directives(&x.directives); for r in &x.root_operations { self.name(&r.1); } }
                D::SchemaExtension(x) => { self.node(x, "schema extension"); self.directives(&x.directives); for r in &x.root_operations { self.name(&r.1); } }
                D::ScalarTypeDefinition(x) => { self.node(x, "scalar"); self.name(&x.name); self.directives(&x.directives); }
                D::ScalarTypeExtension(x) => { self.node(x, "scalar ext"); self.name(&x.name); self.directives(&x.directives); }
                D::ObjectTypeDefinition(x) => { self.node(x, "object"); self.name(&x.name); for i in &x.implements_interfaces { self.name(i); } self.directives(&x.directives); self.fields(&x.fields); }
                D::ObjectTypeExtension(x) => { self.node(x, "object ext"); self.name(&x.name); for i in &x.implements_interfaces { self.name(i); } self.directives(&x.directives); self.fields(&x.fields); }
                D::InterfaceTypeDefinition(x) => { self.node(x, "interface"); self.name(&x.name); for i in &x.implements_interfaces { self.name(i); } self.directives(&x.directives); self.fields(&x.fields); }
                D::InterfaceTypeExtension(x) => { self.node(x, "interface ext"); self.name(&x.name); for i in &x.implements_interfaces { self.name(i); } self.directives(&x.directives); self.fields(&x.fields); }
                D::UnionTypeDefinition(x) => { self.node(x, "union"); self.name(&x.name); for m in &x.members { self.name(m); } self.directives(&x.directives); }
                D::UnionTypeExtension(x) => { self.node(x, "union ext"); self.name(&x.name); for m in &x.members { self.name(m); } self.directives(&x.directives); }
                D::EnumTypeDefinition(x) => { self.node(x, "enum"); self.name(&x.name); for v in &x.values { self.node(v, "enum value"); self.name(&v.value); self.directives(&v.directives); } self.directives(&x.directives); }
                D::EnumTypeExtension(x) => { self.node(x, "enum ext"); self.name(&x.name); for v in &x.values { self.node(v, "enum value"); self.name(&v.value); self.directives(&v.directives); } self.directives(&x.directives); }
                D::InputObjectTypeDefinition(x) => { self.node(x, "input"); self.name(&x.name); for f in &x.fields { self.input_value(f); } self.directives(&x.directives); }
                D::InputObjectTypeExtension(x) => { self.node(x, "input ext"); self.name(&x.name); for f in &x.fields { self.input_value(f); } self.directives(&x.directives); }
            }
        }
    }
}

fn location_cases(ctx: &mut Ctx, src: &str) {
    let doc = match catch(|| ast::Document::parse(src, "d.graphql")) { Ok(Ok(d)) => d, Ok(Err(e)) => e.partial, Err(m) => { ctx.fail("ast-parse-panic", src, &m); return } };
    let mut w = Walk { src, sources: &doc.sources, bad: vec![], names: 0, nodes: 0 };
    w.doc(&doc);
    ctx.stat_n("names_checked", w.names as u64);
    ctx.stat_n("nodes_checked", w.nodes as u64);
    if !w.bad.is_empty() {
        // ranges are offsets into the tree text: if the tree lost a token (C02 finding) every later location is shifted
        // only the recorded defect excuses it: every missing token is a type-position drop of ty.rs (pp::classify_loss)
        let lossy = matches!(crate::pp::run_parser("doc", None, 500, src), Ok(p) if p.loss == crate::pp::Loss::TypePositionDropOnly);
        let key = if lossy { "ast-location-after-dropped-token" } else { "ast-location-wrong" };
        for b in w.bad.iter().take(2) { ctx.fail(key, src, b); }
    }
}

/// `c11.ranges`: rowan's `text_range()` of every element of the parsed document (CST), compared with
/// the model's prefix sums; every NAME node must be one IDENT token whose range slices the source to
/// its text (unless the tree lost a token — the C02 finding, reported through the AST walk)
fn ranges_case(ctx: &mut Ctx, src: &str) {
    use apollo_parser::{cst::CstNode, SyntaxElement, SyntaxKind as K, SyntaxNode};
    fn go(n: &SyntaxNode, src: &str, all: &mut Vec<String>, names: &mut Vec<String>, ident: &mut bool, off: &mut Vec<String>) {
        let r = n.text_range();
        let (a, l): (usize, usize) = (r.start().into(), r.len().into());
        all.push(format!("{:?}:{a}:{l}", n.kind()));
        if n.kind() == K::NAME {
            let ok = src.get(a..a + l).is_some_and(|s| s == n.text().to_string());
            names.push(format!("{a}:{l}:{}", if ok { "ok" } else { "off" }));
            if !ok { off.push(format!("NAME {:?} has range {a}..{}, which is {:?}", n.text().to_string(), a + l, src.get(a..a + l))); }
            let cs: Vec<SyntaxElement> = n.children_with_tokens().collect();
            if !(cs.len() == 1 && matches!(&cs[0], SyntaxElement::Token(t) if t.kind() == K::IDENT)) { *ident = false; }
        }
        for c in n.children_with_tokens() {
            match c {
                SyntaxElement::Node(m) => go(&m, src, all, names, ident, off),
                SyntaxElement::Token(t) => { let r = t.text_range(); let (a, l): (usize, usize) = (r.start().into(), r.len().into()); all.push(format!("{:?}:{a}:{l}", t.kind())); }
            }
        }
    }
    let out = catch(|| {
        let tree = apollo_parser::Parser::new(src).recursion_limit(500).parse();
        let root = tree.document().syntax().clone();
        let (mut all, mut names, mut ident, mut off) = (vec![], vec![], true, vec![]);
        go(&root, src, &mut all, &mut names, &mut ident, &mut off);
        let lossless = root.text().to_string() == src;
        (format!("{} | {} | {} {}", all.join(" "), names.join(" "), if ident { "names=ident" } else { "names=other" }, if lossless { "lossless" } else { "lossy" }), names.len(), ident, lossless, off)
    });
    match out {
        Err(m) => { ctx.fail("cst-parse-panic", src, &m); ctx.case("c11.ranges", &[enc(src)], "PANIC"); }
        Ok((line, n, ident, lossless, off)) => {
            ctx.case("c11.ranges", &[enc(src)], &line);
            ctx.stat_n("cst_names_checked", n as u64);
            if !ident { ctx.fail("cst-name-node-not-one-ident", src, "a NAME node is not exactly one IDENT token"); }
            if lossless { for b in off.iter().take(2) { ctx.fail("cst-name-range-wrong", src, b); } } else { ctx.stat("cst_lossy_trees"); }
            if n > 0 && !src.is_ascii() { ctx.nontrivial(src); }
        }
    }
}

pub fn run(ctx: &mut Ctx) {
    for s in ["", "a", "é\nb", "a\r\nb\rc\n", "# \u{c}x\u{2028}y\u{85}z\u{b}\n{ a }", "\"é\u{2029}\" type A { f: Int }", "\u{feff}{ a }", "{\n  日本: a\n}"] { linecol_cases(ctx, s); location_cases(ctx, s); ranges_case(ctx, s); }
    // trees that lost a token (C02 finding): the model reproduces the shifted ranges
    for s in ["type A{a:[!]b:B}", "type A { _x: [\" é\" Bar_1] y: C }", "{ a(b: $c) ... on D @e(f: \"é\") { g } }", "query Q($v: [I!]! = [1]) { f }"] { ranges_case(ctx, s); }
    let mut all = vec![];
    for_all_strings(&["a", "é", "😀", "\n", "\r", "\u{c}", "\u{2028}", "\u{85}", " "], if ctx.thorough { 6 } else { 5 }, |s| all.push(s.to_string()));
    for s in &all { linecol_cases(ctx, s); }
    let n = if ctx.thorough { 20_000 } else { 2_000 };
    let mut cov = std::collections::BTreeMap::new();
    let inserts = ["é", "😀", "\u{c}", "\u{2028}", "\r\n", "\r", "# 日本\u{85}語\n", "\"\u{2029}é\" "];
    for i in 0..n {
        let mut src = { let mut g = G { r: &mut ctx.rng, depth: 0, cov: &mut cov }; g.document() };
        for _ in 0..ctx.rng.below(4) {
            let pcs = crate::gen::pieces(&src);
            if pcs.is_empty() { break; }
            let at = ctx.rng.below(pcs.len() + 1);
            let ins: &str = inserts[ctx.rng.below(inserts.len())];
            src = pcs[..at].concat() + ins + &pcs[at..].concat();
        }
        location_cases(ctx, &src);
        if src.len() < 600 { ranges_case(ctx, &src); }
        if i % 10 == 0 && src.len() < 300 { linecol_cases(ctx, &src); }
        // diagnostics report those positions (JSON locations = line_column of the span)
        if i % 20 == 0 {
            let parsed = catch(|| ast::Document::parse(format!("{src} }}"), "d.graphql"));
            if let Err(m) = &parsed { ctx.fail("ast-parse-panic", &format!("{src} }}"), m); }
            if let Ok(Err(e)) = parsed {
                for d in e.errors.iter().take(3) {
                    let j = d.to_json();
                    if let (Some(loc), Some(l)) = (d.error.location(), j.locations.first()) {
                        let full = format!("{src} }}");
                        let want = spec_line_col(&full, loc.offset());
                        if want != Some((l.line, l.column)) { ctx.fail("json-error-location", &full, &format!("JSON says {}:{}, rule says {want:?}", l.line, l.column)); }
                        ctx.stat("json_locations_checked");
                    }
                }
            }
        }
    }
}
