//! C11 — line/column positions and AST locations.
use crate::gen::G;
use crate::util::*;
use apollo_compiler::ast;
use apollo_compiler::diagnostic::ToCliReport;
use apollo_compiler::parser::SourceMap;
use apollo_compiler::{Name, Node};

/// the documented rule, written independently: lines end at \n, \r\n, \r; columns count chars
fn spec_line_col(src: &str, offset: usize) -> Option<(usize, usize)> {
    if offset > src.len() { return None; }
    let (mut line, mut col) = (1, 1);
    let cs: Vec<(usize, char)> = src.char_indices().collect();
    let mut i = 0;
    while i < cs.len() && cs[i].0 < offset {
        match cs[i].1 {
            '\n' => { line += 1; col = 1; }
            '\r' => { if cs.get(i + 1).map(|x| x.1) == Some('\n') { col += 1; } else { line += 1; col = 1; } }
            _ => col += 1,
        }
        i += 1;
    }
    Some((line, col))
}

fn linecol_cases(ctx: &mut Ctx, src: &str) {
    let doc = match catch(|| ast::Document::parse(src, "d.graphql")) { Ok(Ok(d)) => d, Ok(Err(e)) => e.partial, Err(m) => { ctx.fail("ast-parse-panic", src, &m); return } };
    let Some(file) = doc.sources.values().next() else { return };
    for off in 0..=src.len() + 1 {
        let got = file.get_line_column(off).map(|lc| (lc.line, lc.column));
        let want = spec_line_col(src, off);
        if got != want {
            let key = if src.chars().any(|c| matches!(c, '\u{b}' | '\u{c}' | '\u{85}' | '\u{2028}' | '\u{2029}')) { "line-column-unusual-separator" } else if !src.is_ascii() { "line-column-counts-bytes" } else { "line-column-differs" };
            ctx.fail(key, &format!("offset {off} in {src:?}"), &format!("got {got:?}, documented rule gives {want:?}"));
        }
        let out = got.map(|(l, c)| format!("{l},{c}")).unwrap_or_else(|| "none".into());
        ctx.case("linecol", &[enc(src), off.to_string()], &out);
        if got.is_some_and(|(l, _)| l > 1) { ctx.nontrivial(&format!("{src}{off}")); }
    }
}

/// `line_column_range` of a located thing = the documented rule applied to both ends, and = `get_line_column` of both ends
fn range_check(src: &str, sources: &SourceMap, loc: apollo_compiler::parser::SourceSpan, what: &str, bad: &mut Vec<String>) {
    let (a, b) = (loc.offset(), loc.end_offset());
    if b > src.len() || a > b { return; }
    let got = loc.line_column_range(sources).map(|r| ((r.start.line, r.start.column), (r.end.line, r.end.column)));
    let want = spec_line_col(src, a).zip(spec_line_col(src, b));
    if got != want { bad.push(format!("{what}: line_column_range of {a}..{b} is {got:?}, the documented rule gives {want:?}")); }
    // audit G2: the start-only conversion and the JSON error built from this span (`GraphQLError::new`) report the start position
    let start = loc.line_column(sources).map(|x| (x.line, x.column));
    if start != spec_line_col(src, a) { bad.push(format!("{what}: line_column of {a}..{b} is {start:?}, the documented rule gives {:?}", spec_line_col(src, a))); }
    let j = apollo_compiler::response::GraphQLError::new("m", Some(loc), sources);
    let jl: Vec<(usize, usize)> = j.locations.iter().map(|x| (x.line, x.column)).collect();
    if Some(jl.as_slice()) != spec_line_col(src, a).as_ref().map(std::slice::from_ref) { bad.push(format!("{what}: GraphQLError::new for {a}..{b} has locations {jl:?}, the documented rule gives {:?}", spec_line_col(src, a))); }
    if let Some(file) = sources.get(&loc.file_id()) {
        let pts = file.get_line_column(a).zip(file.get_line_column(b)).map(|(x, y)| ((x.line, x.column), (y.line, y.column)));
        let rng = file.get_line_column_range(a..b).map(|r| ((r.start.line, r.start.column), (r.end.line, r.end.column)));
        if pts != rng { bad.push(format!("{what}: get_line_column_range({a}..{b}) = {rng:?} but get_line_column of the two ends = {pts:?}")); }
    }
}

/// `src`: the text of the single file of an `ast::Document`; for schemas / executable documents (several files) the text is
/// looked up in `sources` by the location's file id.  `ctx_kind` prefixes the failure texts ("schema: ", "executable: ").
/// `full_builtin`: also compare line/column of everything located in built_in.graphql (a long file; done once per run).
struct Walk<'a> { #[allow(dead_code)] src: &'a str, sources: &'a SourceMap, bad: Vec<String>, names: usize, nodes: usize, ctx_kind: &'static str, full_builtin: bool }
impl<'a> Walk<'a> {
    fn text_of(&self, loc: &apollo_compiler::parser::SourceSpan) -> Option<&'a str> {
        let s: &'a SourceMap = self.sources;
        s.get(&loc.file_id()).map(|f| f.source_text())
    }
    fn name(&mut self, n: &Name) { self.name_as(n, "name") }
    fn name_as(&mut self, n: &Name, what: &str) {
        self.names += 1;
        match n.location() {
            None => self.bad.push(format!("{}{what} {n} has no location", self.ctx_kind)),
            Some(loc) => {
                let (a, b) = (loc.offset(), loc.end_offset());
                let Some(text) = self.text_of(&loc) else { self.bad.push(format!("{}{what} {n}: file id not in source map", self.ctx_kind)); return };
                match text.get(a..b) { Some(t) if t == n.as_str() => {}, other => self.bad.push(format!("{}{what} {n} located at {a}..{b} = {other:?}", self.ctx_kind)) }
                if self.full_builtin || loc.file_id() != apollo_compiler::parser::FileId::BUILT_IN {
                    range_check(text, self.sources, loc, &format!("{what} {n}"), &mut self.bad);
                    let own = n.line_column_range(self.sources).map(|r| ((r.start.line, r.start.column), (r.end.line, r.end.column)));
                    if own != spec_line_col(text, a).zip(spec_line_col(text, b)) { self.bad.push(format!("{}{what} {n}: Name::line_column_range = {own:?}, the documented rule gives {:?}", self.ctx_kind, spec_line_col(text, a).zip(spec_line_col(text, b)))); }
                }
            }
        }
    }
    fn node<T: ?Sized>(&mut self, n: &Node<T>, what: &str) {
        self.nodes += 1;
        match n.location() {
            None => self.bad.push(format!("{}{what} has no location", self.ctx_kind)),
            Some(loc) => {
                let Some(text) = self.text_of(&loc) else { self.bad.push(format!("{}{what}: file id not in source map", self.ctx_kind)); return };
                if loc.end_offset() > text.len() || loc.offset() > loc.end_offset() || !text.is_char_boundary(loc.offset()) || !text.is_char_boundary(loc.end_offset()) { self.bad.push(format!("{}{what} location {}..{} outside the file", self.ctx_kind, loc.offset(), loc.end_offset())); } else if self.full_builtin || loc.file_id() != apollo_compiler::parser::FileId::BUILT_IN {
                    range_check(text, self.sources, loc, what, &mut self.bad);
                    let own = n.line_column_range(self.sources).map(|r| ((r.start.line, r.start.column), (r.end.line, r.end.column)));
                    let want = spec_line_col(text, loc.offset()).zip(spec_line_col(text, loc.end_offset()));
                    if own != want { self.bad.push(format!("{}{what}: Node::line_column_range = {own:?}, the documented rule gives {want:?}", self.ctx_kind)); }
                }
            }
        }
    }
    fn ty(&mut self, t: &ast::Type) { self.name(t.inner_named_type()); }
    /// audit G2: a description is a located node too; its span is the string token (starts and ends with a quote)
    fn desc(&mut self, d: &Option<Node<str>>) {
        let Some(d) = d else { return };
        self.node(d, "description");
        if let Some(loc) = d.location() { if let Some(t) = self.text_of(&loc).and_then(|t| t.get(loc.offset()..loc.end_offset())) { if !(t.len() >= 2 && t.starts_with('"') && t.ends_with('"')) { self.bad.push(format!("{}description located at {}..{} = {t:?}", self.ctx_kind, loc.offset(), loc.end_offset())); } } }
    }
    fn value(&mut self, v: &Node<ast::Value>) {
        self.node(v, "value");
        match v.as_ref() {
            ast::Value::Enum(n) | ast::Value::Variable(n) => self.name(n),
            ast::Value::List(l) => for x in l { self.value(x) },
            ast::Value::Object(o) => for (k, x) in o { self.name(k); self.value(x) },
            _ => {}
        }
    }
    fn directives(&mut self, ds: &ast::DirectiveList) {
        for d in ds.iter() { self.node(d, "directive"); self.name(&d.name); for a in &d.arguments { self.node(a, "argument"); self.name(&a.name); self.value(&a.value); } }
    }
    fn input_value(&mut self, i: &Node<ast::InputValueDefinition>) {
        self.node(i, "input value definition"); self.desc(&i.description); self.name(&i.name); self.node(&i.ty, "type reference"); self.ty(&i.ty);
        if let Some(d) = &i.default_value { self.value(d); }
        self.directives(&i.directives);
    }
    fn fields(&mut self, fs: &[Node<ast::FieldDefinition>]) {
        for f in fs { self.node(f, "field definition"); self.desc(&f.description); self.name(&f.name); self.ty(&f.ty); for a in &f.arguments { self.input_value(a); } self.directives(&f.directives); }
    }
    fn selections(&mut self, ss: &[ast::Selection]) {
        for s in ss {
            match s {
                ast::Selection::Field(f) => { self.node(f, "field"); if let Some(a) = &f.alias { self.name(a); } self.name(&f.name); for a in &f.arguments { self.node(a, "argument"); self.name(&a.name); self.value(&a.value); } self.directives(&f.directives); self.selections(&f.selection_set); }
                ast::Selection::FragmentSpread(f) => { self.node(f, "spread"); self.name(&f.fragment_name); self.directives(&f.directives); }
                ast::Selection::InlineFragment(f) => { self.node(f, "inline fragment"); if let Some(t) = &f.type_condition { self.name(t); } self.directives(&f.directives); self.selections(&f.selection_set); }
            }
        }
    }
    fn doc(&mut self, d: &ast::Document) {
        use ast::Definition as D;
        for def in &d.definitions {
            match def {
                D::OperationDefinition(o) => { self.node(o, "operation"); if let Some(n) = &o.name { self.name(n); } for v in &o.variables { self.node(v, "variable definition"); self.name(&v.name); self.node(&v.ty, "type reference"); self.ty(&v.ty); if let Some(x) = &v.default_value { self.value(x); } self.directives(&v.directives); } self.directives(&o.directives); self.selections(&o.selection_set); }
                D::FragmentDefinition(f) => { self.node(f, "fragment"); self.name(&f.name); self.name(&f.type_condition); self.directives(&f.directives); self.selections(&f.selection_set); }
                D::DirectiveDefinition(x) => { self.node(x, "directive definition"); self.desc(&x.description); self.name(&x.name); for a in &x.arguments { self.input_value(a); } }
                D::SchemaDefinition(x) => { self.node(x, "schema definition"); self.desc(&x.description); self.directives(&x.directives); for r in &x.root_operations { self.name(&r.1); } }
                D::SchemaExtension(x) => { self.node(x, "schema extension"); self.directives(&x.directives); for r in &x.root_operations { self.name(&r.1); } }
                D::ScalarTypeDefinition(x) => { self.node(x, "scalar"); self.desc(&x.description); self.name(&x.name); self.directives(&x.directives); }
                D::ScalarTypeExtension(x) => { self.node(x, "scalar ext"); self.name(&x.name); self.directives(&x.directives); }
                D::ObjectTypeDefinition(x) => { self.node(x, "object"); self.desc(&x.description); self.name(&x.name); for i in &x.implements_interfaces { self.name(i); } self.directives(&x.directives); self.fields(&x.fields); }
                D::ObjectTypeExtension(x) => { self.node(x, "object ext"); self.name(&x.name); for i in &x.implements_interfaces { self.name(i); } self.directives(&x.directives); self.fields(&x.fields); }
                D::InterfaceTypeDefinition(x) => { self.node(x, "interface"); self.desc(&x.description); self.name(&x.name); for i in &x.implements_interfaces { self.name(i); } self.directives(&x.directives); self.fields(&x.fields); }
                D::InterfaceTypeExtension(x) => { self.node(x, "interface ext"); self.name(&x.name); for i in &x.implements_interfaces { self.name(i); } self.directives(&x.directives); self.fields(&x.fields); }
                D::UnionTypeDefinition(x) => { self.node(x, "union"); self.desc(&x.description); self.name(&x.name); for m in &x.members { self.name(m); } self.directives(&x.directives); }
                D::UnionTypeExtension(x) => { self.node(x, "union ext"); self.name(&x.name); for m in &x.members { self.name(m); } self.directives(&x.directives); }
                D::EnumTypeDefinition(x) => { self.node(x, "enum"); self.desc(&x.description); self.name(&x.name); for v in &x.values { self.node(v, "enum value"); self.desc(&v.description); self.name(&v.value); self.directives(&v.directives); } self.directives(&x.directives); }
                D::EnumTypeExtension(x) => { self.node(x, "enum ext"); self.name(&x.name); for v in &x.values { self.node(v, "enum value"); self.desc(&v.description); self.name(&v.value); self.directives(&v.directives); } self.directives(&x.directives); }
                D::InputObjectTypeDefinition(x) => { self.node(x, "input"); self.desc(&x.description); self.name(&x.name); for f in &x.fields { self.input_value(f); } self.directives(&x.directives); }
                D::InputObjectTypeExtension(x) => { self.node(x, "input ext"); self.name(&x.name); for f in &x.fields { self.input_value(f); } self.directives(&x.directives); }
            }
        }
    }
}

/// audit G2: the same obligations on the *schema* and the *executable document* built from parsed text (several files)
impl<'a> Walk<'a> {
    fn comp_dirs(&mut self, ds: &apollo_compiler::schema::DirectiveList) {
        for d in ds.iter() { self.node(&d.node, "directive"); self.name_as(&d.name, "directive name"); for a in &d.arguments { self.node(a, "argument"); self.name_as(&a.name, "argument name"); self.value(&a.value); } }
    }
    fn schema(&mut self, s: &apollo_compiler::Schema) {
        use apollo_compiler::schema::ExtendedType as E;
        let sd = &s.schema_definition;
        // an implicit schema definition has no source text of its own; an explicit one must be located
        if sd.location().is_some() { self.node(sd, "schema definition"); } self.desc(&sd.description);
        self.comp_dirs(&sd.directives);
        for r in [&sd.query, &sd.mutation, &sd.subscription].into_iter().flatten() { self.name_as(&r.name, "root operation type"); }
        for (k, d) in &s.directive_definitions {
            if d.location().is_none() && k.location().is_none() { continue; } // (none observed: built-ins are parsed from built_in.graphql)
            self.name_as(k, "directive definition key"); self.node(d, "directive definition"); self.name_as(&d.name, "directive definition name"); self.desc(&d.description);
            for a in &d.arguments { self.input_value(a); }
        }
        for (k, t) in &s.types {
            self.name_as(k, "type map key");
            self.name_as(t.name(), "type name");
            match t {
                E::Scalar(x) => { self.node(x, "scalar type"); self.desc(&x.description); self.comp_dirs(&x.directives); }
                E::Object(x) => { self.node(x, "object type"); self.desc(&x.description); self.comp_dirs(&x.directives); for i in &x.implements_interfaces { self.name_as(&i.name, "implemented interface"); } for (fk, f) in &x.fields { self.name_as(fk, "field map key"); self.fields(std::slice::from_ref(&f.node)); } }
                E::Interface(x) => { self.node(x, "interface type"); self.desc(&x.description); self.comp_dirs(&x.directives); for i in &x.implements_interfaces { self.name_as(&i.name, "implemented interface"); } for (fk, f) in &x.fields { self.name_as(fk, "field map key"); self.fields(std::slice::from_ref(&f.node)); } }
                E::Union(x) => { self.node(x, "union type"); self.desc(&x.description); self.comp_dirs(&x.directives); for m in &x.members { self.name_as(&m.name, "union member"); } }
                E::Enum(x) => { self.node(x, "enum type"); self.desc(&x.description); self.comp_dirs(&x.directives); for (vk, v) in &x.values { self.name_as(vk, "enum value key"); self.node(&v.node, "enum value"); self.desc(&v.description); self.name_as(&v.value, "enum value name"); self.directives(&v.directives); } }
                E::InputObject(x) => { self.node(x, "input object type"); self.desc(&x.description); self.comp_dirs(&x.directives); for (fk, f) in &x.fields { self.name_as(fk, "input field key"); self.input_value(&f.node); } }
            }
        }
    }
    fn exec_set(&mut self, set: &apollo_compiler::executable::SelectionSet, synthetic: bool) {
        use apollo_compiler::executable::Selection as S;
        // the (empty) selection set of a meta-field such as __typename is typed by its synthetic definition
        if !synthetic { self.name_as(&set.ty, "selection set type"); }
        for s in &set.selections {
            match s {
                S::Field(f) => {
                    self.node(f, "executable field"); if let Some(a) = &f.alias { self.name_as(a, "alias"); } self.name_as(&f.name, "field name");
                    for a in &f.arguments { self.node(a, "argument"); self.name_as(&a.name, "argument name"); self.value(&a.value); }
                    self.directives(&f.directives);
                    // the definition the field was resolved to lives in the schema's files (meta-fields such as __typename are synthetic)
                    if f.definition.location().is_some() { self.node(&f.definition, "resolved field definition"); self.name_as(&f.definition.name, "resolved field definition name"); }
                    if f.definition.name != f.name { self.bad.push(format!("field {} resolved to definition {}", f.name, f.definition.name)); }
                    self.exec_set(&f.selection_set, f.definition.location().is_none());
                }
                S::FragmentSpread(f) => { self.node(f, "executable spread"); self.name_as(&f.fragment_name, "spread fragment name"); self.directives(&f.directives); }
                S::InlineFragment(f) => { self.node(f, "executable inline fragment"); if let Some(t) = &f.type_condition { self.name_as(t, "type condition"); } self.directives(&f.directives); self.exec_set(&f.selection_set, false); }
            }
        }
    }
    fn exec(&mut self, d: &apollo_compiler::ExecutableDocument) {
        for o in d.operations.anonymous.iter().chain(d.operations.named.values()) {
            self.node(o, "executable operation"); if let Some(n) = &o.name { self.name_as(n, "operation name"); }
            for v in &o.variables { self.node(v, "variable definition"); self.name_as(&v.name, "variable name"); self.node(&v.ty, "type reference"); self.ty(&v.ty); if let Some(x) = &v.default_value { self.value(x); } self.directives(&v.directives); }
            self.directives(&o.directives); self.exec_set(&o.selection_set, false);
        }
        for (k, _) in &d.operations.named { self.name_as(k, "operation map key"); }
        for (k, f) in &d.fragments { self.name_as(k, "fragment map key"); self.node(f, "executable fragment"); self.name_as(&f.name, "fragment name"); self.directives(&f.directives); self.exec_set(&f.selection_set, false); }
    }
}

pub const SCHEMA_L: [&str; 2] = [r#""""é desc 日本""" schema @sd(a: "é") { query: Query mutation: Mutation subscription: Subscription }
"😀" directive @sd("é" a: String = "日", b: [In!] = [{x: 1}]) repeatable on SCHEMA | OBJECT | FIELD_DEFINITION | ARGUMENT_DEFINITION | INTERFACE | UNION | ENUM | ENUM_VALUE | INPUT_OBJECT | INPUT_FIELD_DEFINITION | SCALAR | FIELD | QUERY | MUTATION | SUBSCRIPTION | FRAGMENT_DEFINITION | FRAGMENT_SPREAD | INLINE_FRAGMENT | VARIABLE_DEFINITION
scalar Date @sd
type Query implements Node & Named @sd(a: "😀") { "é" id: ID! "é" name("日本" first: Int = 1 @sd, "日本" after: Date): String @sd  node("é" in: In = {x: 2, y: ["é"]}): Node u: U e(e: E = A): E q: Query }
type Mutation { m(in: In!): Query }
type Subscription { s: Query }
interface Node @sd { id: ID! }
"#, r#"interface Named implements Node { id: ID! "😀😀" name(first: Int = 1, after: Date): String }
"é" union U @sd = Query | Mutation
enum E @sd { "é" A @sd(a: "é") B }
"日" input In @sd { "é" x: Int = 1 @sd "é" y: [String] z: In }
extend schema @sd(a: "x")
extend type Query @sd(a: "é") { "é" ext(a: Int): Int }
extend interface Node @sd
extend union U @sd(a: "é") = Subscription
extend enum E @sd(a: "é") { "é" C }
extend input In @sd(a: "é") { "é" w: Float = 1.5 }
extend scalar Date @sd(a: "日本")
"#];

fn gen_exec_sels(r: &mut Rng, ty: &str, depth: usize, nfrag: usize, out: &mut String) {
    out.push('{');
    let n = 1 + r.below(3);
    for _ in 0..n {
        out.push(' ');
        let dirs = |r: &mut Rng| -> &'static str { *r.pick(&["", "", "", " @sd", " @sd(a: \"é日😀\")", " @skip(if: $b)", " @include(if: true) @sd(b: [{x: 1, y: [\"é\"]}])"]) };
        let k = r.below(10);
        if k == 0 && depth < 3 { out.push_str("..."); out.push_str(dirs(r)); out.push(' '); gen_exec_sels(r, ty, depth + 1, nfrag, out); continue; }
        if k == 1 && depth < 3 && ty != "Mutation" && ty != "Subscription" { out.push_str("... on Query"); out.push_str(dirs(r)); out.push(' '); gen_exec_sels(r, "Query", depth + 1, nfrag, out); continue; }
        if k == 2 && nfrag > 0 && ty != "Mutation" && ty != "Subscription" { out.push_str(&format!("...F{}", r.below(nfrag))); out.push_str(dirs(r)); continue; }
        let fields: &[&str] = match ty { "Query" => &["id", "name", "node", "u", "e", "q", "ext", "__typename"], "Mutation" => &["m"], "Subscription" => &["s"], "Node" => &["id", "__typename"], "Named" => &["id", "name"], _ => &["__typename"] };
        let f = *r.pick(fields);
        if r.chance(1, 3) { out.push_str(*r.pick(&["al: ", "x_1: ", "id: ", "on: "])); }
        out.push_str(f);
        match f {
            "name" => if r.chance(1, 2) { out.push_str(*r.pick(&["(first: 3, after: \"é日\")", "(first: $n)", "(after: \"😀\", first: 1)"])); },
            "node" => if r.chance(1, 2) { out.push_str(*r.pick(&["(in: {x: 1, y: [\"é\", \"😀\"], z: {x: $n}})", "(in: null)", "(in: {y: [], w: 1.5})"])); },
            "e" => if r.chance(1, 2) { out.push_str(*r.pick(&["(e: B)", "(e: $e)"])); },
            "ext" => if r.chance(1, 2) { out.push_str("(a: 7)"); },
            "m" => out.push_str("(in: {x: 1})"),
            _ => {}
        }
        out.push_str(dirs(r));
        let sub = match f { "node" => Some("Node"), "u" => Some("U"), "q" | "m" | "s" => Some("Query"), _ => None };
        if let Some(t) = sub { out.push(' '); if depth < 3 { gen_exec_sels(r, t, depth + 1, nfrag, out); } else { out.push_str("{ __typename }"); } }
    }
    out.push_str(" }");
}

fn gen_exec(r: &mut Rng) -> String {
    let nfrag = r.below(3);
    let mut out = String::new();
    let nops = 1 + r.below(2);
    for i in 0..nops {
        let (kw, root) = *r.pick(&[("query", "Query"), ("query", "Query"), ("mutation", "Mutation"), ("subscription", "Subscription")]);
        if nops == 1 && kw == "query" && r.chance(1, 4) { gen_exec_sels(r, root, 0, nfrag, &mut out); out.push('\n'); continue; }
        let mut body = String::new();
        gen_exec_sels(r, root, 0, nfrag, &mut body);
        // fragments may use any of the variables, so an operation that spreads one declares them all
        let spreads = body.contains("...F");
        let vars: Vec<&str> = [("$n", "$n: Int = 1 @sd(a: \"é\")"), ("$e", "$e: E = A"), ("$b", "$b: Boolean! = true")].iter().filter(|(v, _)| spreads || body.contains(v)).map(|x| x.1).collect();
        let vars = if vars.is_empty() { String::new() } else { format!("({})", vars.join(", ")) };
        out.push_str(&format!("{kw} Op{i}{vars}{} {body}\n", *r.pick(&["", " @sd", " @sd(a: \"日本😀\")"])));
    }
    for j in 0..nfrag { out.push_str(&format!("fragment F{j} on Query{} ", *r.pick(&["", " @sd(a: \"é\")"]))); gen_exec_sels(r, "Query", 2, 0, &mut out); out.push('\n'); }
    out
}

/// insert ignored tokens (white space of every kind, BOM, commas, comments with multi-byte text and unusual separators) at
/// random token boundaries: validity is unchanged, byte offsets / lines / columns move
fn decorate(r: &mut Rng, src: &str, n: usize) -> String {
    let safe = ["\u{feff}", " ", "\n", "\r\n", "\r", ",", "\t", "# é日😀\u{2028}\u{85}\u{c}x\n", "#\r", "\u{feff}\u{feff} "];
    let mut src = src.to_string();
    for _ in 0..n {
        let pcs = crate::gen::pieces(&src);
        if pcs.is_empty() { break; }
        let at = r.below(pcs.len() + 1);
        src = pcs[..at].concat() + *r.pick(&safe) + &pcs[at..].concat();
    }
    src
}

/// every JSON location / line_column_range of the diagnostics = the documented rule applied to the diagnostic's own span
fn diagnostics_check(ctx: &mut Ctx, input: &str, sources: &SourceMap, errors: &apollo_compiler::validation::DiagnosticList) {
    for d in errors.iter() {
        let Some(loc) = d.error.location() else { ctx.stat("diagnostics_without_location"); continue };
        let Some(file) = sources.get(&loc.file_id()) else { ctx.fail("json-error-location", input, "diagnostic location in a file that is not in the source map"); continue };
        let text = file.source_text();
        let j = d.to_json();
        let want = spec_line_col(text, loc.offset());
        let got = j.locations.first().map(|l| (l.line, l.column));
        if got != want || j.locations.len() != 1 { ctx.fail("json-error-location", input, &format!("diagnostic at {}..{}: JSON locations {:?}, the documented rule gives {want:?}", loc.offset(), loc.end_offset(), j.locations.iter().map(|l| (l.line, l.column)).collect::<Vec<_>>())); }
        let r = d.line_column_range().map(|r| ((r.start.line, r.start.column), (r.end.line, r.end.column)));
        let wr = spec_line_col(text, loc.offset()).zip(spec_line_col(text, loc.end_offset()));
        if r != wr { ctx.fail("json-error-location", input, &format!("diagnostic at {}..{}: line_column_range {r:?}, the documented rule gives {wr:?}", loc.offset(), loc.end_offset())); }
        ctx.stat("json_locations_checked");
    }
}

/// schema from two files + executable document: every name and node of both is located in its own file
fn typed_location_cases(ctx: &mut Ctx, schema_files: &[String], exec_src: &str, full_builtin: bool, with_model: bool) {
    use apollo_compiler::{validation::Valid, ExecutableDocument, Schema};
    let input = format!("{} ‖ {exec_src}", schema_files.join(" ‖ "));
    let built = catch(|| { let mut b = Schema::builder(); for (i, f) in schema_files.iter().enumerate() { b = b.parse(f.clone(), format!("s{i}.graphql")); } b.build() });
    let (schema, schema_ok) = match built { Ok(Ok(s)) => (s, true), Ok(Err(e)) => { diagnostics_check(ctx, &input, &e.partial.sources, &e.errors); (e.partial, false) } Err(m) => { ctx.fail("ast-parse-panic", &input, &m); return } };
    let mut bad = vec![];
    { let mut w = Walk { src: "", sources: &schema.sources, bad: vec![], names: 0, nodes: 0, ctx_kind: "schema: ", full_builtin }; w.schema(&schema); ctx.stat_n("schema_names_checked", w.names as u64); ctx.stat_n("schema_nodes_checked", w.nodes as u64); bad.extend(w.bad); }
    // validation diagnostics of the schema
    let schema = match catch(|| schema.clone().validate()) { Ok(Ok(v)) => v, Ok(Err(e)) => { diagnostics_check(ctx, &input, &e.partial.sources, &e.errors); Valid::assume_valid(e.partial) } Err(m) => { ctx.fail("ast-parse-panic", &input, &m); return } };
    ctx.stat(if schema_ok { "typed_schema_built_clean" } else { "typed_schema_with_build_errors" });
    let doc = match catch(|| ExecutableDocument::parse(&schema, exec_src.to_string(), "q.graphql")) { Ok(Ok(d)) => d, Ok(Err(e)) => { let mut all = (*schema.sources).clone(); all.extend(e.partial.sources.iter().map(|(k, v)| (*k, v.clone()))); diagnostics_check(ctx, &input, &std::sync::Arc::new(all), &e.errors); e.partial } Err(m) => { ctx.fail("ast-parse-panic", &input, &m); return } };
    let mut all = (*schema.sources).clone();
    all.extend(doc.sources.iter().map(|(k, v)| (*k, v.clone())));
    let all: SourceMap = std::sync::Arc::new(all);
    { let mut w = Walk { src: "", sources: &all, bad: vec![], names: 0, nodes: 0, ctx_kind: "executable: ", full_builtin }; w.exec(&doc); ctx.stat_n("exec_names_checked", w.names as u64); ctx.stat_n("exec_nodes_checked", w.nodes as u64); bad.extend(w.bad); }
    if let Ok(Err(e)) = catch(|| doc.clone().validate(&schema)) { diagnostics_check(ctx, &input, &all, &e.errors); ctx.stat("typed_exec_invalid"); } else { ctx.stat("typed_exec_valid"); }
    for b in bad.iter().take(3) { ctx.fail("typed-location-wrong", &input, b); }
    // the same texts through the Lean model of parser + ast/from_cst.rs (existing stream `c08.fromcst`: AST dump and the
    // (offset, length) of every name) — ignored tokens with multi-byte text move every offset
    if with_model { for f in schema_files { crate::pfromcst::case(ctx, f); } crate::pfromcst::case(ctx, exec_src); ctx.stat("typed_fromcst_model_cases"); }
}

fn location_cases(ctx: &mut Ctx, src: &str) {
    let doc = match catch(|| ast::Document::parse(src, "d.graphql")) { Ok(Ok(d)) => d, Ok(Err(e)) => e.partial, Err(m) => { ctx.fail("ast-parse-panic", src, &m); return } };
    let mut w = Walk { src, sources: &doc.sources, bad: vec![], names: 0, nodes: 0, ctx_kind: "", full_builtin: true };
    w.doc(&doc);
    ctx.stat_n("names_checked", w.names as u64);
    ctx.stat_n("nodes_checked", w.nodes as u64);
    if !w.bad.is_empty() {
        // ranges are offsets into the tree text: if the tree lost a token (C02 finding) every later location is shifted
        // only the recorded defect excuses it: every missing token is a type-position drop of ty.rs (pp::classify_loss)
        let lossy = matches!(crate::pp::run_parser("doc", None, 500, src), Ok(p) if p.loss == crate::pp::Loss::TypePositionDropOnly);
        let key = if lossy { "ast-location-after-dropped-token" } else { "ast-location-wrong" };
        for b in w.bad.iter().take(2) { ctx.fail(key, src, b); }
    }
}

/// `c11.ranges`: rowan's `text_range()` of every element of the parsed document (CST), compared with
/// the model's prefix sums; every NAME node must be one IDENT token whose range slices the source to
/// its text (unless the tree lost a token — the C02 finding, reported through the AST walk)
fn ranges_case(ctx: &mut Ctx, src: &str) {
    use apollo_parser::{cst::CstNode, SyntaxElement, SyntaxKind as K, SyntaxNode};
    fn go(n: &SyntaxNode, src: &str, all: &mut Vec<String>, names: &mut Vec<String>, ident: &mut bool, off: &mut Vec<String>) {
        let r = n.text_range();
        let (a, l): (usize, usize) = (r.start().into(), r.len().into());
        all.push(format!("{:?}:{a}:{l}", n.kind()));
        if n.kind() == K::NAME {
            let ok = src.get(a..a + l).is_some_and(|s| s == n.text().to_string());
            names.push(format!("{a}:{l}:{}", if ok { "ok" } else { "off" }));
            if !ok { off.push(format!("NAME {:?} has range {a}..{}, which is {:?}", n.text().to_string(), a + l, src.get(a..a + l))); }
            let cs: Vec<SyntaxElement> = n.children_with_tokens().collect();
            if !(cs.len() == 1 && matches!(&cs[0], SyntaxElement::Token(t) if t.kind() == K::IDENT)) { *ident = false; }
        }
        for c in n.children_with_tokens() {
            match c {
                SyntaxElement::Node(m) => go(&m, src, all, names, ident, off),
                SyntaxElement::Token(t) => { let r = t.text_range(); let (a, l): (usize, usize) = (r.start().into(), r.len().into()); all.push(format!("{:?}:{a}:{l}", t.kind())); }
            }
        }
    }
    let out = catch(|| {
        let tree = apollo_parser::Parser::new(src).recursion_limit(500).parse();
        let root = tree.document().syntax().clone();
        let (mut all, mut names, mut ident, mut off) = (vec![], vec![], true, vec![]);
        go(&root, src, &mut all, &mut names, &mut ident, &mut off);
        let lossless = root.text().to_string() == src;
        (format!("{} | {} | {} {}", all.join(" "), names.join(" "), if ident { "names=ident" } else { "names=other" }, if lossless { "lossless" } else { "lossy" }), names.len(), ident, lossless, off)
    });
    match out {
        Err(m) => { ctx.fail("cst-parse-panic", src, &m); ctx.case("c11.ranges", &[enc(src)], "PANIC"); }
        Ok((line, n, ident, lossless, off)) => {
            ctx.case("c11.ranges", &[enc(src)], &line);
            ctx.stat_n("cst_names_checked", n as u64);
            if !ident { ctx.fail("cst-name-node-not-one-ident", src, "a NAME node is not exactly one IDENT token"); }
            if lossless { for b in off.iter().take(2) { ctx.fail("cst-name-range-wrong", src, b); } } else { ctx.stat("cst_lossy_trees"); }
            if n > 0 && !src.is_ascii() { ctx.nontrivial(src); }
        }
    }
}

pub fn run(ctx: &mut Ctx) {
    for s in ["", "a", "é\nb", "a\r\nb\rc\n", "# \u{c}x\u{2028}y\u{85}z\u{b}\n{ a }", "\"é\u{2029}\" type A { f: Int }", "\u{feff}{ a }", "{\n  日本: a\n}"] { linecol_cases(ctx, s); location_cases(ctx, s); ranges_case(ctx, s); }
    // trees that lost a token (C02 finding): the model reproduces the shifted ranges
    for s in ["type A{a:[!]b:B}", "type A { _x: [\" é\" Bar_1] y: C }", "{ a(b: $c) ... on D @e(f: \"é\") { g } }", "query Q($v: [I!]! = [1]) { f }"] { ranges_case(ctx, s); }
    let mut all = vec![];
    for_all_strings(&["a", "é", "😀", "\n", "\r", "\u{c}", "\u{2028}", "\u{85}", " "], if ctx.thorough { 6 } else { 5 }, |s| all.push(s.to_string()));
    for s in &all { linecol_cases(ctx, s); }
    // audit G2: the characters the first alphabet lacks (TAB, BOM, VT, a three-byte character) around the line terminators
    let mut more = vec![];
    for_all_strings(&["a", "\t", "\u{feff}", "\u{b}", "日", "\n", "\r"], if ctx.thorough { 5 } else { 4 }, |s| more.push(s.to_string()));
    ctx.stat_n("linecol_second_alphabet_strings", more.len() as u64);
    for s in &more { linecol_cases(ctx, s); }
    // audit G2: schema (two files) + executable document: locations of everything in both; diagnostics of build and validation
    let n_typed = if ctx.thorough { 6_000 } else { 600 };
    for i in 0..n_typed {
        let mut files: Vec<String> = SCHEMA_L.iter().map(|s| s.to_string()).collect();
        let mut q = gen_exec(&mut ctx.rng);
        match i % 4 {
            1 => { // executable-side errors
                match ctx.rng.below(5) {
                    0 => q = q.replacen(" id", " idx", 1),
                    1 => q = q.replace("$n)", "$zz)"),
                    2 => q.push_str("fragment Unused on Query { id }\n"),
                    3 => q = q.replacen("(first: 3", "(first: \"é\"", 1).replacen("(e: B)", "(e: \"日\")", 1),
                    _ => q.push_str("query Op0 { id }\n{ id }\n"),
                }
            }
            2 => { // schema-side errors (validation, and a build error)
                match ctx.rng.below(5) {
                    0 => files[0] = files[0].replace("interface Node @sd { id: ID! }", "interface Node @sd { id: ID! other: Missing }"),
                    1 => files[1] = files[1].replace("= Query | Mutation", "= Query | Mutation | Date"),
                    2 => files[1] = files[1].replace("enum E @sd {", "enum E @sd @nope(a: \"é\") {"),
                    3 => files[1].push_str("\"é\" type Mutation { dup: Int }\n"),
                    _ => files[0] = files[0].replace("scalar Date @sd", "scalar Date @sd(zz: \"😀\")"),
                }
            }
            _ => {}
        }
        for f in files.iter_mut() { let k = ctx.rng.below(6); *f = decorate(&mut ctx.rng, f, k); }
        let k = ctx.rng.below(5);
        let q = decorate(&mut ctx.rng, &q, k);
        // the line/column of every name of built_in.graphql (a long file) is compared in the first case only; its names' texts always
        typed_location_cases(ctx, &files, &q, i == 0, i % 3 == 0);
    }
    let n = if ctx.thorough { 20_000 } else { 2_000 };
    let mut cov = std::collections::BTreeMap::new();
    let inserts = ["é", "😀", "\u{c}", "\u{2028}", "\r\n", "\r", "# 日本\u{85}語\n", "\"\u{2029}é\" "];
    for i in 0..n {
        let mut src = { let mut g = G { r: &mut ctx.rng, depth: 0, cov: &mut cov }; g.document() };
        for _ in 0..ctx.rng.below(4) {
            let pcs = crate::gen::pieces(&src);
            if pcs.is_empty() { break; }
            let at = ctx.rng.below(pcs.len() + 1);
            let ins: &str = inserts[ctx.rng.below(inserts.len())];
            src = pcs[..at].concat() + ins + &pcs[at..].concat();
        }
        location_cases(ctx, &src);
        if src.len() < 600 { ranges_case(ctx, &src); }
        if i % 10 == 0 && src.len() < 300 { linecol_cases(ctx, &src); }
        // diagnostics report those positions (JSON locations = line_column of the span)
        if i % 20 == 0 {
            let parsed = catch(|| ast::Document::parse(format!("{src} }}"), "d.graphql"));
            if let Err(m) = &parsed { ctx.fail("ast-parse-panic", &format!("{src} }}"), m); }
            if let Ok(Err(e)) = parsed {
                for d in e.errors.iter().take(3) {
                    let j = d.to_json();
                    if let (Some(loc), Some(l)) = (d.error.location(), j.locations.first()) {
                        let full = format!("{src} }}");
                        let want = spec_line_col(&full, loc.offset());
                        if want != Some((l.line, l.column)) { ctx.fail("json-error-location", &full, &format!("JSON says {}:{}, rule says {want:?}", l.line, l.column)); }
                        ctx.stat("json_locations_checked");
                    }
                }
            }
        }
    }
}
