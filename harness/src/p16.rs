//! C16 — validation is idempotent; built-in scalar bookkeeping vs the Lean model.
use crate::util::*;
use apollo_compiler::schema::ExtendedType;
use apollo_compiler::{ExecutableDocument, Schema};

const BUILTINS: [&str; 5] = ["Int", "Float", "String", "Boolean", "ID"];

fn refs_of(ty: &ExtendedType) -> Vec<String> {
    let mut out = vec![];
    match ty {
        ExtendedType::Object(o) => for f in o.fields.values() { out.push(f.ty.inner_named_type().to_string()); for a in &f.arguments { out.push(a.ty.inner_named_type().to_string()); } },
        ExtendedType::Interface(o) => for f in o.fields.values() { out.push(f.ty.inner_named_type().to_string()); for a in &f.arguments { out.push(a.ty.inner_named_type().to_string()); } },
        ExtendedType::InputObject(o) => for f in o.fields.values() { out.push(f.ty.inner_named_type().to_string()); },
        _ => {}
    }
    out
}

fn export(s: &Schema) -> String {
    let tys: Vec<String> = s.types.iter().map(|(n, t)| format!("{n}:{}:{}:{}", t.is_built_in() as u8, t.is_scalar() as u8, refs_of(t).join(","))).collect();
    let mut drefs = vec![];
    for d in s.directive_definitions.values() { for a in &d.arguments { drefs.push(a.ty.inner_named_type().to_string()); } }
    format!("{}|{}", tys.join(";"), drefs.join(","))
}

fn keys(s: &Schema) -> Vec<String> { s.types.keys().map(|k| k.to_string()).collect() }

/// canonical: the model appends restored scalars sorted; do the same for the tail that was inserted
fn canon(before: &Schema, after: &Schema) -> String {
    let b: std::collections::HashSet<String> = keys(before).into_iter().collect();
    let a = keys(after);
    let (mut kept, mut added): (Vec<String>, Vec<String>) = (vec![], vec![]);
    for k in a { if b.contains(&k) { kept.push(k) } else { added.push(k) } }
    added.sort();
    kept.extend(added);
    kept.join(",")
}

fn history(ctx: &mut Ctx, schema_src: &str, add_fields: &[&str]) {
    let parsed = match Schema::parse(schema_src, "s.graphql") { Ok(s) => s, Err(_) => { ctx.stat("generated_schema_build_error"); return } };
    let exported = export(&parsed);
    let valid = match parsed.clone().validate() { Ok(v) => v, Err(_) => { ctx.stat("generated_schema_invalid"); return } };
    ctx.case("scalars", &[enc(&exported)], &canon(&parsed, &valid));
    ctx.nontrivial(&exported);
    // re-validate unchanged
    let inner = valid.clone().into_inner();
    let exported2 = export(&inner);
    match inner.clone().validate() {
        Err(_) => ctx.fail("revalidation-fails", schema_src, "a valid schema no longer validates after into_inner()"),
        Ok(v2) => {
            ctx.case("scalars", &[enc(&exported2)], &canon(&inner, &v2));
            if keys(&v2) != keys(&valid) || *v2 != *valid { ctx.fail("revalidation-changes-schema", schema_src, &format!("types {:?} → {:?}", keys(&valid), keys(&v2))); }
        }
    }
    // add fields referencing built-in scalars, one after another
    let mut cur = valid.into_inner();
    for b in add_fields {
        let before_keys: std::collections::HashSet<String> = keys(&cur).into_iter().collect();
        let was_missing = !before_keys.contains(*b);
        let Some(ExtendedType::Object(q)) = cur.types.get_mut("Query") else { return };
        let fname = apollo_compiler::Name::new(&format!("extra{}", q.fields.len())).unwrap();
        let fdef = apollo_compiler::schema::FieldDefinition { description: None, name: fname.clone(), arguments: vec![], ty: apollo_compiler::ast::Type::Named(apollo_compiler::Name::new(b).unwrap()), directives: Default::default() };
        q.make_mut().fields.insert(fname, apollo_compiler::schema::Component::new(fdef));
        let exported3 = export(&cur);
        match cur.clone().validate() {
            Err(e) => { ctx.fail("validation-after-adding-field-fails", &format!("{schema_src} + field of type {b}"), &e.errors.to_string().lines().next().unwrap_or("").to_string()); return }
            Ok(v3) => {
                ctx.case("scalars", &[enc(&exported3)], &canon(&cur, &v3));
                let after_keys: std::collections::HashSet<String> = keys(&v3).into_iter().collect();
                let added: Vec<_> = after_keys.difference(&before_keys).cloned().collect();
                let removed: Vec<_> = before_keys.difference(&after_keys).cloned().collect();
                let want: Vec<String> = if was_missing { vec![b.to_string()] } else { vec![] };
                if added != want || !removed.is_empty() { ctx.fail("restore-not-exact", &format!("{schema_src} + field of type {b}"), &format!("added {added:?}, removed {removed:?}")); }
                cur = v3.into_inner();
            }
        }
    }
    // executable re-validation
    let valid = match cur.validate() { Ok(v) => v, Err(_) => return };
    let doc_src = "{ __typename }";
    if let Ok(doc) = ExecutableDocument::parse_and_validate(&valid, doc_src, "d.graphql") {
        let inner = doc.clone().into_inner();
        match inner.validate(&valid) { Ok(d2) => if *d2 != *doc { ctx.fail("executable-revalidation-differs", doc_src, "") }, Err(_) => ctx.fail("executable-revalidation-fails", doc_src, "") }
        ctx.stat("executable_revalidations");
    }
}

// ---------------------------------------------------------------------------------------------
// Histories in which re-validation could change its verdict: schema directive applications carry
// values that are valid for one built-in scalar and not for another, and edits retarget field /
// input-field / argument / directive-argument types between built-in scalars (pruned ones included).
// After EVERY step: validate(s) = Ok(v) ⇒ validate(v.into_inner()) = Ok with an equal schema;
// validate(s) = Err(e) ⇒ validate(e.partial) = Err with the same errors.

fn dump(s: &Schema) -> String {
    format!("{}|{}", keys(s).join(","), s.to_string().replace('\n', " "))
}

fn error_list(e: &apollo_compiler::validation::DiagnosticList) -> Vec<String> {
    let mut v: Vec<String> = e.iter().map(|d| d.error.to_string()).collect();
    v.sort();
    v
}

/// a literal accepted by built-in scalar `b` and rejected by most of the others
fn value_for(r: &mut Rng, b: &str) -> &'static str {
    match b {
        "Int" => *r.pick(&["7", "-2147483648"]),
        "Float" => *r.pick(&["123456789012", "1.5", "1e10"]),
        "String" => *r.pick(&["\"x\"", "\"\""]),
        "Boolean" => *r.pick(&["true", "false"]),
        _ => *r.pick(&["\"id\"", "99999999999"]),
    }
}

fn value_schema(r: &mut Rng) -> String {
    // input objects In0 (fields of built-in scalars, maybe a nested In1) and In1
    let b = |r: &mut Rng| *r.pick(&BUILTINS);
    let in1: Vec<&str> = (0..1 + r.below(2)).map(|_| b(r)).collect();
    let in0: Vec<&str> = (0..1 + r.below(3)).map(|_| b(r)).collect();
    let nested = r.chance(1, 2);
    let lit_in1 = |r: &mut Rng| -> String { format!("{{{}}}", in1.iter().enumerate().filter_map(|(i, t)| if r.chance(2, 3) { Some(format!("k{i}: {}", value_for(r, t))) } else { None }).collect::<Vec<_>>().join(", ")) };
    let lit_in0 = |r: &mut Rng| -> String {
        let mut parts: Vec<String> = in0.iter().enumerate().filter_map(|(i, t)| if r.chance(2, 3) { Some(format!("f{i}: {}", value_for(r, t))) } else { None }).collect();
        if nested && r.chance(1, 2) { parts.push(format!("n: {}", lit_in1(r))); }
        format!("{{{}}}", parts.join(", "))
    };
    let sa = b(r); let la = b(r);
    let mut src = format!("directive @d(a: In0, s: {sa}, l: [{la}]) repeatable on OBJECT | FIELD_DEFINITION | ARGUMENT_DEFINITION | INPUT_FIELD_DEFINITION | INPUT_OBJECT | INTERFACE | SCHEMA\n");
    src.push_str(&format!("input In1 {{ {} }}\n", in1.iter().enumerate().map(|(i, t)| format!("k{i}: {t}")).collect::<Vec<_>>().join(" ")));
    src.push_str(&format!("input In0 {{ {}{} }}\n", in0.iter().enumerate().map(|(i, t)| format!("f{i}: {t}")).collect::<Vec<_>>().join(" "), if nested { " n: In1" } else { "" }));
    let app = |r: &mut Rng| -> String {
        let mut parts = vec![];
        if r.chance(2, 3) { parts.push(format!("a: {}", lit_in0(r))); }
        if r.chance(1, 2) { parts.push(format!("s: {}", value_for(r, sa))); }
        if r.chance(1, 3) { parts.push(if r.chance(1, 2) { format!("l: [{}]", value_for(r, la)) } else { format!("l: {}", value_for(r, la)) }); }
        if parts.is_empty() { " @d".to_string() } else { format!(" @d({})", parts.join(", ")) }
    };
    let nf = 1 + r.below(3);
    let mut q = format!("type Query{} {{", if r.chance(1, 2) { app(r) } else { String::new() });
    for i in 0..nf {
        let arg = if r.chance(1, 2) { format!("(x: {}{})", if r.chance(1, 3) { "In0" } else { b(r) }, if r.chance(1, 2) { app(r) } else { String::new() }) } else { String::new() };
        q.push_str(&format!(" f{i}{arg}: {}{}", b(r), if r.chance(1, 2) { app(r) } else { String::new() }));
    }
    q.push_str(" }\n");
    src.push_str(&q);
    if r.chance(1, 3) { src.push_str(&format!("interface I{} {{ i: {} }}\n", app(r), b(r))); }
    if r.chance(1, 4) { src.push_str(&format!("input In2{} {{ z: {}{} }}\n", app(r), b(r), app(r))); }
    src
}

/// edits of p15 (fields, arguments, input fields, add / remove a field) plus directive-definition arguments
fn edit16(schema: &mut Schema, r: &mut Rng) -> Option<String> {
    if r.chance(1, 4) {
        let names: Vec<String> = schema.directive_definitions.iter().filter(|(_, d)| !d.is_built_in() && !d.arguments.is_empty()).map(|(n, _)| n.to_string()).collect();
        if names.is_empty() { return None; }
        let dn = names[r.below(names.len())].clone();
        let to_s = *r.pick(&BUILTINS);
        let to = apollo_compiler::Name::new(to_s).unwrap();
        let def = schema.directive_definitions.get_mut(dn.as_str())?;
        let sites: Vec<usize> = (0..def.arguments.len()).filter(|k| BUILTINS.contains(&def.arguments[*k].ty.inner_named_type().as_str())).collect();
        if sites.is_empty() { return None; }
        let k = sites[r.below(sites.len())];
        let a = &mut def.make_mut().arguments[k];
        let old = (*a.ty).clone();
        *a.make_mut().ty.make_mut() = crate::p15::retarget(&old, &to);
        return Some(format!("@{dn}(arg {k}): {old} -> {to_s}"));
    }
    crate::p15::edit(schema, r)
}

/// the idempotence oracle for one state; returns the schema to continue from
fn step_oracle(ctx: &mut Ctx, s: Schema, desc: &str) -> Option<Schema> {
    let before = s.clone();
    match catch(|| s.validate()) {
        Err(p) => { ctx.fail("validation-panic", desc, &p); None }
        Ok(Ok(v)) => {
            ctx.stat("vh_step_valid");
            // the bookkeeping model sees every validated state of the history too
            ctx.case("scalars", &[enc(&export(&before))], &canon(&before, &v));
            let d1 = dump(&v);
            match catch(|| v.clone().into_inner().validate()) {
                Err(p) => { ctx.fail("validation-panic", desc, &p); return None; }
                Ok(Err(e)) => ctx.fail("revalidation-fails", desc, &format!("validate() succeeded, validating its result again fails: {:?}", error_list(&e.errors).iter().take(2).collect::<Vec<_>>())),
                Ok(Ok(v2)) => { if dump(&v2) != d1 || *v2 != *v { ctx.fail("revalidation-changes-schema", desc, &format!("types {:?} -> {:?}", keys(&v), keys(&v2))); } }
            }
            ctx.nontrivial(&d1);
            Some(v.into_inner())
        }
        Ok(Err(e)) => {
            ctx.stat("vh_step_invalid");
            let e1 = error_list(&e.errors);
            let partial = e.partial;
            match catch(|| partial.clone().validate()) {
                Err(p) => { ctx.fail("validation-panic", desc, &p); return None; }
                Ok(Ok(_)) => ctx.fail("revalidation-accepts-invalid", desc, &format!("validate() failed with {:?}, validating the partial schema again succeeds", e1.iter().take(2).collect::<Vec<_>>())),
                Ok(Err(e2)) => { let e2l = error_list(&e2.errors); if e2l != e1 { ctx.fail("revalidation-errors-differ", desc, &format!("{:?} then {:?}", e1.iter().take(3).collect::<Vec<_>>(), e2l.iter().take(3).collect::<Vec<_>>())); } }
            }
            Some(partial)
        }
    }
}

fn value_history(ctx: &mut Ctx, src: &str, steps: usize) {
    let parsed = match catch(|| Schema::parse(src, "s.graphql")) { Ok(Ok(s)) => s, _ => { ctx.stat("vh_schema_build_error"); return } };
    let mut log: Vec<String> = vec![];
    let Some(mut cur) = step_oracle(ctx, parsed, src) else { return };
    for _ in 0..steps {
        let n_edits = 1 + ctx.rng.below(2);
        let mut any = false;
        for _ in 0..n_edits {
            match catch(|| { let mut c = cur.clone(); let d = edit16(&mut c, &mut ctx.rng); (c, d) }) {
                Err(p) => { ctx.fail("schema-edit-panic", src, &p); return; }
                Ok((c, Some(d))) => { cur = c; log.push(d); any = true; }
                Ok((_, None)) => {}
            }
        }
        if !any { ctx.stat("vh_no_edit_site"); continue; }
        log.push("validate".into());
        let desc = format!("{src}## history: validate; into_inner; {}", log.join("; "));
        ctx.stat("vh_steps");
        match step_oracle(ctx, cur, &desc) { Some(s) => { cur = s; log.push("into_inner".into()); } None => return }
    }
}

const VALUE_REGRESSIONS: &[&str] = &[
    "directive @d(a: In) on OBJECT input In { f: Float } type Query @d(a: {f: 123456789012}) { q: String }",
    "directive @d(s: Float) on FIELD_DEFINITION type Query { q: String @d(s: 1.5) }",
    "directive @d(l: [ID]) on OBJECT type Query @d(l: [\"a\", 3]) { q: Boolean }",
];

/// the regression found through C15's histories (fixed by 99806f4): retarget In.f to the pruned Int
fn scripted_value_history(ctx: &mut Ctx) {
    for src in VALUE_REGRESSIONS {
        for to_s in BUILTINS {
            let Ok(Ok(parsed)) = catch(|| Schema::parse(*src, "s.graphql")) else { continue };
            let Some(mut cur) = step_oracle(ctx, parsed, src) else { continue };
            let to = apollo_compiler::Name::new(to_s).unwrap();
            // retarget every built-in scalar reference of input fields and directive arguments
            for t in cur.types.values_mut() {
                if t.is_built_in() { continue; }
                if let ExtendedType::InputObject(io) = t { for f in io.make_mut().fields.values_mut() { let old = (*f.ty).clone(); *f.make_mut().ty.make_mut() = crate::p15::retarget(&old, &to); } }
            }
            for (_, d) in cur.directive_definitions.iter_mut() {
                if d.is_built_in() { continue; }
                for a in d.make_mut().arguments.iter_mut() { if BUILTINS.contains(&a.ty.inner_named_type().as_str()) { let old = (*a.ty).clone(); *a.make_mut().ty.make_mut() = crate::p15::retarget(&old, &to); } }
            }
            let desc = format!("{src} ## history: validate; into_inner; retarget input fields and directive arguments -> {to_s}; validate");
            let Some(cur2) = step_oracle(ctx, cur, &desc) else { continue };
            step_oracle(ctx, cur2, &format!("{desc}; into_inner; validate"));
        }
    }
}

// ---------------------------------------------------------------------------------------------
// "Add a field referencing a built-in scalar" at EVERY place the schema API lets one add it while staying valid:
// object fields, field arguments, input-object fields, directive-definition arguments, and interface fields
// together with all implementers (objects and interfaces, transitively) — plain, non-null and list wrappings.
fn wrap_ty(b: &str, w: usize) -> apollo_compiler::ast::Type {
    use apollo_compiler::ast::Type as T;
    let n = apollo_compiler::Name::new(b).unwrap();
    match w { 0 => T::Named(n), 1 => T::NonNullNamed(n), 2 => T::Named(n).list(), _ => T::NonNullNamed(n).list().non_null() }
}

fn place_history(ctx: &mut Ctx, schema_src: &str, steps: usize) {
    use apollo_compiler::schema::{Component, FieldDefinition, InputValueDefinition};
    use apollo_compiler::{Name, Node};
    let Ok(parsed) = Schema::parse(schema_src, "s.graphql") else { ctx.stat("generated_schema_build_error"); return };
    let refd0 = referenced_builtins(&parsed);
    let Ok(valid) = parsed.validate() else { ctx.stat("generated_schema_invalid"); return };
    if present_builtins(&valid) != refd0 { ctx.fail("builtin-scalars-not-exact", schema_src, &format!("validate() keeps the built-in scalars {:?}, the schema references {refd0:?}", present_builtins(&valid))); }
    let mut cur = valid.into_inner();
    let mut log: Vec<String> = vec![];
    for step in 0..steps {
        let b = *ctx.rng.pick(&BUILTINS);
        let w = ctx.rng.below(4);
        let before: std::collections::HashSet<String> = keys(&cur).into_iter().collect();
        let fname = Name::new(&format!("x{step}")).unwrap();
        let fdef = |ty| FieldDefinition { description: None, name: fname.clone(), arguments: vec![], ty, directives: Default::default() };
        let ivd = |nullable_ty| Node::new(InputValueDefinition { description: None, name: fname.clone(), ty: Node::new(nullable_ty), default_value: None, directives: Default::default() });
        let ifaces: Vec<Name> = cur.types.iter().filter(|(_, t)| matches!(t, ExtendedType::Interface(_))).map(|(n, _)| n.clone()).collect();
        let objects: Vec<Name> = cur.types.iter().filter(|(n, t)| matches!(t, ExtendedType::Object(_)) && !n.starts_with("__")).map(|(n, _)| n.clone()).collect();
        let inputs: Vec<Name> = cur.types.iter().filter(|(_, t)| matches!(t, ExtendedType::InputObject(_))).map(|(n, _)| n.clone()).collect();
        let place = ctx.rng.below(6);
        match place {
            5 if !ifaces.is_empty() => {
                // a nullable argument on a field that an interface declares: the interface and every (transitive) implementer get it
                let target = ctx.rng.pick(&ifaces).clone();
                let Some(ExtendedType::Interface(it)) = cur.types.get(&target) else { continue };
                let Some(field) = it.fields.keys().next().cloned() else { continue };
                let mut set = vec![target.clone()];
                loop {
                    let mut grew = false;
                    for (n, t) in cur.types.iter() {
                        let imps: Vec<&Name> = match t { ExtendedType::Object(o) => o.implements_interfaces.iter().map(|c| &c.name).collect(), ExtendedType::Interface(i) => i.implements_interfaces.iter().map(|c| &c.name).collect(), _ => vec![] };
                        if !set.contains(n) && imps.iter().any(|i| set.contains(i)) { set.push(n.clone()); grew = true; }
                    }
                    if !grew { break; }
                }
                let ty = wrap_ty(b, if w % 2 == 1 { w - 1 } else { w });
                let mut touched = 0;
                for n in &set {
                    let f = match cur.types.get_mut(n) {
                        Some(ExtendedType::Object(o)) => o.make_mut().fields.get_mut(&field),
                        Some(ExtendedType::Interface(i)) => i.make_mut().fields.get_mut(&field),
                        _ => None,
                    };
                    if let Some(f) = f { f.make_mut().arguments.push(ivd(ty.clone())); touched += 1; }
                }
                log.push(format!("add argument {fname}: {ty} to {target}.{field} and to the same field of {} implementers", touched - 1));
            }
            0 if !ifaces.is_empty() => {
                // the interface and everything that (transitively) implements it
                let target = ctx.rng.pick(&ifaces).clone();
                let mut set = vec![target.clone()];
                loop {
                    let mut grew = false;
                    for (n, t) in cur.types.iter() {
                        let imps: Vec<&Name> = match t { ExtendedType::Object(o) => o.implements_interfaces.iter().map(|c| &c.name).collect(), ExtendedType::Interface(i) => i.implements_interfaces.iter().map(|c| &c.name).collect(), _ => vec![] };
                        if !set.contains(n) && imps.iter().any(|i| set.contains(i)) { set.push(n.clone()); grew = true; }
                    }
                    if !grew { break; }
                }
                for n in &set {
                    match cur.types.get_mut(n) {
                        Some(ExtendedType::Object(o)) => { o.make_mut().fields.insert(fname.clone(), Component::new(fdef(wrap_ty(b, w)))); }
                        Some(ExtendedType::Interface(i)) => { i.make_mut().fields.insert(fname.clone(), Component::new(fdef(wrap_ty(b, w)))); }
                        _ => {}
                    }
                }
                log.push(format!("add {fname}: {} to interface {target} and its {} implementers", wrap_ty(b, w), set.len() - 1));
            }
            1 if !inputs.is_empty() => {
                let target = ctx.rng.pick(&inputs).clone();
                let ty = wrap_ty(b, if w % 2 == 1 { w - 1 } else { w });
                if let Some(ExtendedType::InputObject(i)) = cur.types.get_mut(&target) { i.make_mut().fields.insert(fname.clone(), Component::from(ivd(ty.clone()))); }
                log.push(format!("add input field {target}.{fname}: {ty}"));
            }
            2 if !cur.directive_definitions.is_empty() => {
                let names: Vec<Name> = cur.directive_definitions.keys().filter(|n| !["skip", "include", "deprecated", "specifiedBy"].contains(&n.as_str())).cloned().collect();
                if names.is_empty() { continue; }
                let target = ctx.rng.pick(&names).clone();
                let ty = wrap_ty(b, if w % 2 == 1 { w - 1 } else { w });
                if let Some(d) = cur.directive_definitions.get_mut(&target) { d.make_mut().arguments.push(ivd(ty.clone())); }
                log.push(format!("add argument @{target}({fname}: {ty})"));
            }
            3 => {
                // a nullable argument on a field that no interface declares
                let ty = wrap_ty(b, if w % 2 == 1 { w - 1 } else { w });
                let Some(ExtendedType::Object(q)) = cur.types.get_mut("Query") else { return };
                let q = q.make_mut();
                let own = Name::new(&format!("own{step}")).unwrap();
                let mut f = FieldDefinition { description: None, name: own.clone(), arguments: vec![], ty: wrap_ty("String", 0), directives: Default::default() };
                f.arguments.push(ivd(ty.clone()));
                q.fields.insert(own.clone(), Component::new(f));
                log.push(format!("add Query.{own}({fname}: {ty}): String"));
            }
            _ => {
                if objects.is_empty() { continue; }
                let target = ctx.rng.pick(&objects).clone();
                if let Some(ExtendedType::Object(o)) = cur.types.get_mut(&target) { o.make_mut().fields.insert(fname.clone(), Component::new(fdef(wrap_ty(b, w)))); }
                log.push(format!("add {target}.{fname}: {}", wrap_ty(b, w)));
            }
        }
        let desc = format!("{schema_src} ## history: validate; into_inner; {}; validate", log.join("; validate; into_inner; "));
        let exported = export(&cur);
        // the same schema built from its own text, validated once, is the reference verdict
        let fresh_ok = Schema::parse_and_validate(cur.to_string(), "fresh.graphql").is_ok();
        match cur.clone().validate() {
            Err(e) => {
                if fresh_ok { ctx.fail("validation-after-adding-field-fails", &desc, e.errors.to_string().lines().next().unwrap_or("")); }
                else { ctx.stat("place_history_edit_invalid_either_way"); if std::env::var("C16_DEBUG").is_ok() { eprintln!("EITHER {desc} :: {}", e.errors.to_string().lines().next().unwrap_or("")); } }
                return;
            }
            Ok(v) => {
                ctx.case("scalars", &[enc(&exported)], &canon(&cur, &v));
                let after: std::collections::HashSet<String> = keys(&v).into_iter().collect();
                let mut added: Vec<_> = after.difference(&before).cloned().collect(); added.sort();
                let removed: Vec<_> = before.difference(&after).cloned().collect();
                let want: Vec<String> = if before.contains(b) { vec![] } else { vec![b.to_string()] };
                if added != want || !removed.is_empty() { ctx.fail("restore-not-exact", &desc, &format!("added {added:?}, removed {removed:?}, expected {want:?}")); }
                // which built-in scalars are present: exactly the referenced ones (an extension of a scalar is not a reference)
                let (got, refd) = (present_builtins(&v), referenced_builtins(&cur));
                if got != refd { ctx.fail("builtin-scalars-not-exact", &desc, &format!("validate() keeps the built-in scalars {got:?}, the schema references {refd:?}")); }
                if !fresh_ok { ctx.fail("revalidation-accepts-what-a-fresh-build-rejects", &desc, "validate() of the edited schema is Ok, parse_and_validate of its own text is Err"); }
                ctx.stat(&format!("place_history_place_{place}"));
                ctx.nontrivial(&desc);
                cur = v.into_inner();
            }
        }
    }
}

/// the built-in scalars a schema references (GraphQL §3.5: "all referenced built-in scalars must be included; if a built-in
/// scalar type is not referenced anywhere in a schema then it must not be included"), read off the schema as parsed:
/// field types, argument types, input field types, directive argument types — built-in definitions included
fn referenced_builtins(s: &Schema) -> Vec<String> {
    let mut out: std::collections::BTreeSet<String> = Default::default();
    for t in s.types.values() { for r in refs_of(t) { if BUILTINS.contains(&r.as_str()) { out.insert(r); } } }
    for d in s.directive_definitions.values() { for a in &d.arguments { let r = a.ty.inner_named_type().to_string(); if BUILTINS.contains(&r.as_str()) { out.insert(r); } } }
    out.into_iter().collect()
}

fn present_builtins(s: &Schema) -> Vec<String> {
    let mut v: Vec<String> = keys(s).into_iter().filter(|k| BUILTINS.contains(&k.as_str())).collect();
    v.sort();
    v
}

/// A built-in scalar referenced at exactly ONE place of the schema, for every place the language has and every
/// wrapping: the first validation keeps exactly the referenced scalars, re-validation leaves the schema identical,
/// and adding two fields of two other (pruned) scalars at once restores exactly those two.
fn only_place_family(ctx: &mut Ctx) {
    let wraps: [fn(&str) -> String; 5] = [|b| b.to_string(), |b| format!("{b}!"), |b| format!("[{b}]"), |b| format!("[{b}!]!"), |b| format!("[[{b}]]")];
    let places: [fn(&str) -> String; 12] = [
        |w| format!("type Query {{ q: Boolean }} interface Lone {{ x: {w} }}"),
        |w| format!("type Query {{ q: Boolean }} interface Lone {{ y(x: {w}): Boolean }} directive @ds on SCALAR extend scalar Int @ds extend scalar Float @ds"),
        |w| format!("type Query {{ q: Boolean x: {w} }}"),
        |w| format!("interface I {{ x: {w} }} type Query implements I {{ q: Boolean x: {w} }}"),
        |w| format!("type Query {{ q(x: {w}): Boolean }}"),
        |w| format!("interface I {{ q(x: {w}): Boolean }} type Query implements I {{ q(x: {w}): Boolean }}"),
        |w| format!("input In {{ x: {w} }} type Query {{ q(i: In): Boolean }}"),
        |w| format!("directive @dd(x: {w}) on FIELD type Query {{ q: Boolean }}"),
        |w| format!("type Query {{ q: Boolean }} extend type Query {{ x: {w} }}"),
        |w| format!("interface I {{ x: {w} }} interface J implements I {{ x: {w} }} type Query implements J & I {{ q: Boolean x: {w} }}"),
        |w| format!("type Query {{ q: Boolean }} type Unreachable {{ x: {w} }}"),
        |w| format!("schema {{ query: Q mutation: M }} type Q {{ q: Boolean }} type M {{ m(x: {w}): Boolean }} type Query {{ unused: Boolean }}"),
    ];
    for (pi, place) in places.iter().enumerate() {
        for b in BUILTINS {
            for (wi, wrap) in wraps.iter().enumerate() {
                if !ctx.thorough && wi >= 2 && (pi + wi) % 3 != 0 { continue; }
                let src = place(&wrap(b));
                let Ok(parsed) = Schema::parse(src.clone(), "s.graphql") else { ctx.fail("generator-schema-build-error", &src, ""); continue };
                let want = referenced_builtins(&parsed);
                let exported = export(&parsed);
                let valid = match parsed.clone().validate() { Ok(v) => v, Err(e) => { ctx.fail("generator-schema-invalid", &src, e.errors.to_string().lines().next().unwrap_or("")); continue } };
                ctx.stat("family_only_place");
                ctx.case("scalars", &[enc(&exported)], &canon(&parsed, &valid));
                let got = present_builtins(&valid);
                if got != want { ctx.fail("builtin-scalars-not-exact", &src, &format!("validate() keeps the built-in scalars {got:?}, the schema references {want:?}")); }
                let inner = valid.clone().into_inner();
                match inner.clone().validate() {
                    Err(_) => ctx.fail("revalidation-fails", &src, "a valid schema no longer validates after into_inner()"),
                    Ok(v2) => {
                        ctx.case("scalars", &[enc(&export(&inner))], &canon(&inner, &v2));
                        if keys(&v2) != keys(&valid) || *v2 != *valid || dump(&v2) != dump(&valid) { ctx.fail("revalidation-changes-schema", &src, &format!("types {:?} -> {:?}", keys(&valid), keys(&v2))); }
                    }
                }
                // two pruned scalars come back at once, each through another place
                let missing: Vec<&str> = BUILTINS.iter().copied().filter(|x| !want.iter().any(|w| w == x)).collect();
                if missing.len() >= 2 {
                    let mut cur = valid.into_inner();
                    let root = cur.schema_definition.query.as_ref().map(|q| q.name.clone());
                    let Some(ExtendedType::Object(q)) = root.and_then(|r| cur.types.get_mut(&r)) else { continue };
                    let q = q.make_mut();
                    let n1 = apollo_compiler::Name::new("extra1").unwrap();
                    let n2 = apollo_compiler::Name::new("extra2").unwrap();
                    let arg = apollo_compiler::Node::new(apollo_compiler::schema::InputValueDefinition { description: None, name: n2.clone(), ty: apollo_compiler::Node::new(wrap_ty(missing[1], 2)), default_value: None, directives: Default::default() });
                    q.fields.insert(n1.clone(), apollo_compiler::schema::Component::new(apollo_compiler::schema::FieldDefinition { description: None, name: n1, arguments: vec![arg], ty: wrap_ty(missing[0], wi % 4), directives: Default::default() }));
                    let desc = format!("{src} ## history: validate; into_inner; add extra1(extra2: [{}]): {} to the query root; validate", missing[1], wrap_ty(missing[0], wi % 4));
                    let exported3 = export(&cur);
                    match cur.clone().validate() {
                        Err(e) => ctx.fail("validation-after-adding-field-fails", &desc, e.errors.to_string().lines().next().unwrap_or("")),
                        Ok(v3) => {
                            ctx.case("scalars", &[enc(&exported3)], &canon(&cur, &v3));
                            let mut want3: Vec<String> = want.iter().cloned().chain(missing[..2].iter().map(|s| s.to_string())).collect();
                            want3.sort();
                            let got3 = present_builtins(&v3);
                            if got3 != want3 { ctx.fail("restore-not-exact", &desc, &format!("built-in scalars {got3:?}, expected {want3:?}")); }
                            ctx.nontrivial(&desc);
                        }
                    }
                }
            }
        }
    }
}

/// Re-validation of valid executable documents: real documents (variables, fragments, directives, several
/// operations), against the schema, against the same schema after `into_inner().validate()`, twice.
fn executable_family(ctx: &mut Ctx) {
    use crate::p20;
    let n = if ctx.thorough { 6_000 } else { 600 };
    let mut worlds = vec![];
    for src in [p20::SCHEMA_A, p20::SCHEMA_C] {
        let Ok(s) = Schema::parse_and_validate(src, "s.graphql") else { ctx.fail("generator-schema-invalid", src, ""); return };
        let Ok(s2) = s.clone().into_inner().validate() else { ctx.fail("revalidation-fails", src, "test schema"); return };
        worlds.push((s, s2));
    }
    for i in 0..n {
        let defs = p20::gen_doc(&mut ctx.rng, i % 8 != 7);
        let text = p20::doc_text(&defs);
        let text1 = text.replace('\n', " ");
        for (s, s2) in &worlds {
            match catch(|| ExecutableDocument::parse_and_validate(s, text.clone(), "d.graphql")) {
                Err(p) => ctx.fail("validation-panic", &text1, &p),
                Ok(Err(_)) => ctx.stat("executable_family_invalid_document"),
                Ok(Ok(doc)) => {
                    ctx.stat("executable_revalidations");
                    if defs.len() > 1 { ctx.stat("executable_revalidations_several_definitions"); }
                    for (which, schema) in [("the same schema", s), ("the re-validated schema", s2)] {
                        match catch(|| doc.clone().into_inner().validate(schema)) {
                            Err(p) => ctx.fail("validation-panic", &text1, &p),
                            Ok(Err(e)) => ctx.fail("executable-revalidation-fails", &text1, &format!("valid document, validated again against {which}: {:?}", error_list(&e.errors).iter().take(2).collect::<Vec<_>>())),
                            Ok(Ok(d2)) => {
                                if *d2 != *doc || d2.to_string() != doc.to_string() { ctx.fail("executable-revalidation-differs", &text1, which); }
                                // and once more
                                if d2.into_inner().validate(schema).is_err() { ctx.fail("executable-revalidation-fails", &text1, &format!("third validation against {which}")); }
                            }
                        }
                    }
                    ctx.nontrivial(&text1);
                }
            }
        }
    }
}

pub fn run(ctx: &mut Ctx) {
    only_place_family(ctx);
    {
        let n = if ctx.thorough { 12_000 } else { 1_500 };
        for _ in 0..n {
            // only the listed scalars are referenced: the others are pruned by the first validation
            let used: Vec<&str> = BUILTINS.iter().copied().filter(|_| ctx.rng.chance(1, 3)).collect();
            let u = |r: &mut Rng, used: &Vec<&str>| -> String { if used.is_empty() { "Other".to_string() } else { r.pick(used).to_string() } };
            let (t0, t1, t2, t3) = (u(&mut ctx.rng, &used), u(&mut ctx.rng, &used), u(&mut ctx.rng, &used), u(&mut ctx.rng, &used));
            let mut src = format!("type Query implements Named {{ name: {t0} q(a: {t3}): Other }} interface Named {{ name: {t0} }} interface Deep implements Named {{ name: {t0} d: {t1} }} type Other implements Deep & Named {{ name: {t0} d: {t1} }} type Third implements Named {{ name: {t0} }} input In {{ s: {t2} }} directive @dd(a: {t2}) on FIELD | OBJECT");
            let steps = 1 + ctx.rng.below(4);
            // every fourth schema extends a built-in scalar (used or not) with a directive: a pruned scalar loses it with its definition
            if ctx.rng.chance(1, 4) {
                let x = *ctx.rng.pick(&BUILTINS);
                // (the argument's type is another scalar: `@ds(n: X)` on `X` itself would be a directive cycle)
                let others: Vec<&str> = BUILTINS.iter().copied().filter(|b| *b != x).collect();
                src.push_str(&format!(" directive @ds(n: {}) repeatable on SCALAR extend scalar {x} @ds @ds(n: null)", ctx.rng.pick(&others)));
                ctx.stat("place_history_schema_extends_builtin_scalar");
            }
            place_history(ctx, &src, steps);
        }
    }
    scripted_value_history(ctx);
    let nv = if ctx.thorough { 30_000 } else { 3_000 };
    for _ in 0..nv { let src = value_schema(&mut ctx.rng); let steps = 1 + ctx.rng.below(4); value_history(ctx, &src, steps); }
    let field_types = ["Int", "Float", "String", "Boolean", "ID", "T", "E", "[Int!]", "Float!"];
    let n = if ctx.thorough { 20_000 } else { 2_000 };
    history(ctx, "type Query { a: T } type T { b: T }", &["Int", "Float", "Int", "ID", "String", "Boolean"]);
    history(ctx, "type Query { a: Int b(x: Float): ID } scalar Int", &["Float"]);
    for _ in 0..n {
        let nf = 1 + ctx.rng.below(3);
        let mut q = String::from("type Query {");
        for i in 0..nf {
            let t = *ctx.rng.pick(&field_types);
            let arg = if ctx.rng.chance(1, 3) { format!("(x: {})", ctx.rng.pick(&["Int", "Float", "ID", "String", "In", "Boolean"])) } else { String::new() };
            q.push_str(&format!(" f{i}{arg}: {t}"));
        }
        q.push_str(" }");
        let mut src = q;
        src.push_str(" type T { t: T }");
        src.push_str(&format!(" enum E {{ A }} input In {{ i: {} }}", ctx.rng.pick(&["Int", "Float", "ID", "In", "String"])));
        if ctx.rng.chance(1, 3) { src.push_str(&format!(" directive @d(a: {}) on FIELD", ctx.rng.pick(&BUILTINS))); }
        if ctx.rng.chance(1, 6) { src.push_str(&format!(" scalar {}", ctx.rng.pick(&BUILTINS))); }
        if ctx.rng.chance(1, 4) { src.push_str(" interface I { i: Float }"); }
        let k = ctx.rng.below(4);
        let adds: Vec<&str> = (0..k).map(|_| *ctx.rng.pick(&BUILTINS)).collect();
        history(ctx, &src, &adds);
    }
    executable_family(ctx);
}
