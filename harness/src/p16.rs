//! C16 — validation is idempotent; built-in scalar bookkeeping vs the Lean model.
use crate::util::*;
use apollo_compiler::schema::ExtendedType;
use apollo_compiler::{ExecutableDocument, Schema};

const BUILTINS: [&str; 5] = ["Int", "Float", "String", "Boolean", "ID"];

fn refs_of(ty: &ExtendedType) -> Vec<String> {
    let mut out = vec![];
    match ty {
        ExtendedType::Object(o) => for f in o.fields.values() { out.push(f.ty.inner_named_type().to_string()); for a in &f.arguments { out.push(a.ty.inner_named_type().to_string()); } },
        ExtendedType::Interface(o) => for f in o.fields.values() { out.push(f.ty.inner_named_type().to_string()); for a in &f.arguments { out.push(a.ty.inner_named_type().to_string()); } },
        ExtendedType::InputObject(o) => for f in o.fields.values() { out.push(f.ty.inner_named_type().to_string()); },
        _ => {}
    }
    out
}

fn export(s: &Schema) -> String {
    let tys: Vec<String> = s.types.iter().map(|(n, t)| format!("{n}:{}:{}:{}", t.is_built_in() as u8, t.is_scalar() as u8, refs_of(t).join(","))).collect();
    let mut drefs = vec![];
    for d in s.directive_definitions.values() { for a in &d.arguments { drefs.push(a.ty.inner_named_type().to_string()); } }
    format!("{}|{}", tys.join(";"), drefs.join(","))
}

fn keys(s: &Schema) -> Vec<String> { s.types.keys().map(|k| k.to_string()).collect() }

/// canonical: the model appends restored scalars sorted; do the same for the tail that was inserted
fn canon(before: &Schema, after: &Schema) -> String {
    let b: std::collections::HashSet<String> = keys(before).into_iter().collect();
    let a = keys(after);
    let (mut kept, mut added): (Vec<String>, Vec<String>) = (vec![], vec![]);
    for k in a { if b.contains(&k) { kept.push(k) } else { added.push(k) } }
    added.sort();
    kept.extend(added);
    kept.join(",")
}

fn history(ctx: &mut Ctx, schema_src: &str, add_fields: &[&str]) {
    let parsed = match Schema::parse(schema_src, "s.graphql") { Ok(s) => s, Err(_) => { ctx.stat("generated_schema_build_error"); return } };
    let exported = export(&parsed);
    let valid = match parsed.clone().validate() { Ok(v) => v, Err(_) => { ctx.stat("generated_schema_invalid"); return } };
    ctx.case("scalars", &[enc(&exported)], &canon(&parsed, &valid));
    ctx.nontrivial(&exported);
    // re-validate unchanged
    let inner = valid.clone().into_inner();
    let exported2 = export(&inner);
    match inner.clone().validate() {
        Err(_) => ctx.fail("revalidation-fails", schema_src, "a valid schema no longer validates after into_inner()"),
        Ok(v2) => {
            ctx.case("scalars", &[enc(&exported2)], &canon(&inner, &v2));
            if keys(&v2) != keys(&valid) || *v2 != *valid { ctx.fail("revalidation-changes-schema", schema_src, &format!("types {:?} → {:?}", keys(&valid), keys(&v2))); }
        }
    }
    // add fields referencing built-in scalars, one after another
    let mut cur = valid.into_inner();
    for b in add_fields {
        let before_keys: std::collections::HashSet<String> = keys(&cur).into_iter().collect();
        let was_missing = !before_keys.contains(*b);
        let Some(ExtendedType::Object(q)) = cur.types.get_mut("Query") else { return };
        let fname = apollo_compiler::Name::new(&format!("extra{}", q.fields.len())).unwrap();
        let fdef = apollo_compiler::schema::FieldDefinition { description: None, name: fname.clone(), arguments: vec![], ty: apollo_compiler::ast::Type::Named(apollo_compiler::Name::new(b).unwrap()), directives: Default::default() };
        q.make_mut().fields.insert(fname, apollo_compiler::schema::Component::new(fdef));
        let exported3 = export(&cur);
        match cur.clone().validate() {
            Err(e) => { ctx.fail("validation-after-adding-field-fails", &format!("{schema_src} + field of type {b}"), &e.errors.to_string().lines().next().unwrap_or("").to_string()); return }
            Ok(v3) => {
                ctx.case("scalars", &[enc(&exported3)], &canon(&cur, &v3));
                let after_keys: std::collections::HashSet<String> = keys(&v3).into_iter().collect();
                let added: Vec<_> = after_keys.difference(&before_keys).cloned().collect();
                let removed: Vec<_> = before_keys.difference(&after_keys).cloned().collect();
                let want: Vec<String> = if was_missing { vec![b.to_string()] } else { vec![] };
                if added != want || !removed.is_empty() { ctx.fail("restore-not-exact", &format!("{schema_src} + field of type {b}"), &format!("added {added:?}, removed {removed:?}")); }
                cur = v3.into_inner();
            }
        }
    }
    // executable re-validation
    let valid = match cur.validate() { Ok(v) => v, Err(_) => return };
    let doc_src = "{ __typename }";
    if let Ok(doc) = ExecutableDocument::parse_and_validate(&valid, doc_src, "d.graphql") {
        let inner = doc.clone().into_inner();
        match inner.validate(&valid) { Ok(d2) => if *d2 != *doc { ctx.fail("executable-revalidation-differs", doc_src, "") }, Err(_) => ctx.fail("executable-revalidation-fails", doc_src, "") }
        ctx.stat("executable_revalidations");
    }
}

pub fn run(ctx: &mut Ctx) {
    let field_types = ["Int", "Float", "String", "Boolean", "ID", "T", "E", "[Int!]", "Float!"];
    let n = if ctx.thorough { 20_000 } else { 2_000 };
    history(ctx, "type Query { a: T } type T { b: T }", &["Int", "Float", "Int", "ID", "String", "Boolean"]);
    history(ctx, "type Query { a: Int b(x: Float): ID } scalar Int", &["Float"]);
    for _ in 0..n {
        let nf = 1 + ctx.rng.below(3);
        let mut q = String::from("type Query {");
        for i in 0..nf {
            let t = *ctx.rng.pick(&field_types);
            let arg = if ctx.rng.chance(1, 3) { format!("(x: {})", ctx.rng.pick(&["Int", "Float", "ID", "String", "In", "Boolean"])) } else { String::new() };
            q.push_str(&format!(" f{i}{arg}: {t}"));
        }
        q.push_str(" }");
        let mut src = q;
        src.push_str(" type T { t: T }");
        src.push_str(&format!(" enum E {{ A }} input In {{ i: {} }}", ctx.rng.pick(&["Int", "Float", "ID", "In", "String"])));
        if ctx.rng.chance(1, 3) { src.push_str(&format!(" directive @d(a: {}) on FIELD", ctx.rng.pick(&BUILTINS))); }
        if ctx.rng.chance(1, 6) { src.push_str(&format!(" scalar {}", ctx.rng.pick(&BUILTINS))); }
        if ctx.rng.chance(1, 4) { src.push_str(" interface I { i: Float }"); }
        let k = ctx.rng.below(4);
        let adds: Vec<&str> = (0..k).map(|_| *ctx.rng.pick(&BUILTINS)).collect();
        history(ctx, &src, &adds);
    }
}
